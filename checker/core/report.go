package core

import (
	"encoding/json"
	"fmt"
	"os"
	"path/filepath"
	"sort"
	"strings"
	"time"
)

// Status of an obligation.
type Status string

const (
	Discharged Status = "discharged"
	Violated   Status = "violated"
	Undecided  Status = "undecided"
	Excepted   Status = "excepted" // exception-table entry, reason recorded
	OutOfRule  Status = "outside-rule"
)

// Obligation is one rule instance.
type Obligation struct {
	Rule       string   `json:"rule"`
	Key        string   `json:"key"` // rule / function / construct: stable, line independent
	Pos        string   `json:"pos"`
	Status     Status   `json:"status"`
	Detail     string   `json:"detail,omitempty"`
	Facts      []string `json:"facts,omitempty"`
	Nontrivial bool     `json:"-"`
}

// Report collects the obligations of one property run.
type Report struct {
	Property    string
	Tier        string
	Seed        int
	Start       time.Time
	Obls        []Obligation
	Assumptions []string
	Exceptions  []string // exception table entries used: "key — reason"
	Counts      map[string]int
	Explanation string
	Extra       map[string]any
	mins        []minCount
	seenKey     map[string]int
	// KeyPrefix is prepended to the keys of obligations added while it is set
	// (second architecture of the thorough tier).
	KeyPrefix string
	// NoOutput: evaluate only (mutation self-test subprocess): write no evidence.
	NoOutput bool
}

type minCount struct {
	rule string
	min  int
}

// NewReport creates a report.
func NewReport(prop, tier string, seed int) *Report {
	return &Report{Property: prop, Tier: tier, Seed: seed, Start: time.Now(),
		Counts: map[string]int{}, Extra: map[string]any{}, seenKey: map[string]int{}}
}

// Add records an obligation. Keys are made unique by a #n suffix when the
// same construct occurs more than once in a function.
func (r *Report) Add(o Obligation) {
	o.Key = r.KeyPrefix + o.Key
	r.seenKey[o.Key]++
	if n := r.seenKey[o.Key]; n > 1 {
		o.Key = fmt.Sprintf("%s#%d", o.Key, n)
	}
	r.Obls = append(r.Obls, o)
}

// Ok records a discharged obligation.
func (r *Report) Ok(rule, key, pos string, facts ...string) {
	r.Add(Obligation{Rule: rule, Key: key, Pos: pos, Status: Discharged, Facts: facts, Nontrivial: len(facts) > 0})
}

// Bad records a violated obligation.
func (r *Report) Bad(rule, key, pos, detail string, facts ...string) {
	r.Add(Obligation{Rule: rule, Key: key, Pos: pos, Status: Violated, Detail: detail, Facts: facts, Nontrivial: true})
}

// Unknown records an undecided obligation (counts as failure).
func (r *Report) Unknown(rule, key, pos, detail string) {
	r.Add(Obligation{Rule: rule, Key: key, Pos: pos, Status: Undecided, Detail: detail, Nontrivial: true})
}

// Except records an exception-table hit.
func (r *Report) Except(rule, key, pos, reason string) {
	r.Add(Obligation{Rule: rule, Key: key, Pos: pos, Status: Excepted, Detail: reason, Nontrivial: true})
	r.Exceptions = append(r.Exceptions, key+" — "+reason)
}

// Outside records a construct the rule does not cover (neither pass nor fail).
func (r *Report) Outside(rule, key, pos, detail string) {
	r.Add(Obligation{Rule: rule, Key: key, Pos: pos, Status: OutOfRule, Detail: detail})
}

// Check records discharged when ok, else violated.
func (r *Report) Check(ok bool, rule, key, pos, detail string, facts ...string) {
	if ok {
		r.Ok(rule, key, pos, facts...)
	} else {
		r.Bad(rule, key, pos, detail, facts...)
	}
}

// Min declares the hand-confirmed minimum number of instances of a rule.
func (r *Report) Min(rule string, min int) { r.mins = append(r.mins, minCount{rule, min}) }

// Assume records an assumption once.
func (r *Report) Assume(s string) {
	for _, a := range r.Assumptions {
		if a == s {
			return
		}
	}
	r.Assumptions = append(r.Assumptions, s)
}

// AnchorMissing records that an anchor of a rule cannot be resolved.
func (r *Report) AnchorMissing(rule, what string) {
	r.Add(Obligation{Rule: rule, Key: rule + "/anchor-missing/" + what, Pos: "-", Status: Violated,
		Detail: "anchor-missing: " + what + " not found under any recognised shape", Nontrivial: true})
}

// Finding is one entry of known_findings.json.
type Finding struct {
	Property string `json:"property"`
	Key      string `json:"key"`
	What     string `json:"what"`
	Commit   string `json:"commit,omitempty"`
	Line     string `json:"line,omitempty"`
}

// KnownFindings is the committed file.
type KnownFindings struct {
	Known []Finding `json:"known"`
	Fixed []Finding `json:"fixed"`
}

// VerifDir returns the /verif directory.
func VerifDir() string {
	if d := os.Getenv("VERIF_DIR"); d != "" {
		return d
	}
	return "/verif"
}

func loadKnown() KnownFindings {
	var k KnownFindings
	b, err := os.ReadFile(filepath.Join(VerifDir(), "known_findings.json"))
	if err == nil {
		_ = json.Unmarshal(b, &k)
	}
	return k
}

func stripDup(key string) string {
	key = strings.TrimPrefix(key, "386:")
	if i := strings.LastIndex(key, "#"); i > 0 {
		return key[:i]
	}
	return key
}

// Failing returns the violated / undecided obligations (after anti-vacuity
// minima), without writing anything.
func (r *Report) Failing() []Obligation {
	perRule := map[string]int{}
	for _, o := range r.Obls {
		if o.Status != OutOfRule {
			perRule[o.Rule]++
		}
	}
	var out []Obligation
	for _, m := range r.mins {
		if perRule[m.rule] < m.min {
			out = append(out, Obligation{Rule: m.rule, Key: m.rule + "/anchor-missing/instance-count", Status: Violated})
		}
	}
	known := loadKnown()
	for _, o := range r.Obls {
		if o.Status != Violated && o.Status != Undecided {
			continue
		}
		isK := false
		for _, f := range known.Known {
			if f.Property == r.Property && (f.Key == o.Key || f.Key == stripDup(o.Key)) {
				isK = true
			}
		}
		if !isK {
			out = append(out, o)
		}
	}
	return out
}

// Finish applies anti-vacuity minima, matches violations against the
// known-findings file, writes evidence and replay artefacts, prints the
// protocol lines and returns the process exit code.
var knownSeen map[string]bool

func (r *Report) Finish() int {
	// anti-vacuity
	perRule := map[string]int{}
	for _, o := range r.Obls {
		if o.Status != OutOfRule {
			perRule[o.Rule]++
		}
	}
	for _, m := range r.mins {
		if perRule[m.rule] < m.min {
			r.Add(Obligation{Rule: m.rule, Key: m.rule + "/anchor-missing/instance-count", Pos: "-", Status: Violated,
				Detail:     fmt.Sprintf("anchor-missing: rule matched %d instances, hand-confirmed minimum is %d", perRule[m.rule], m.min),
				Nontrivial: true})
		}
	}
	sort.SliceStable(r.Obls, func(i, j int) bool { return r.Obls[i].Key < r.Obls[j].Key })

	known := loadKnown()
	isKnown := func(o Obligation) *Finding {
		for i := range known.Known {
			f := &known.Known[i]
			if f.Property == r.Property && (f.Key == o.Key || f.Key == stripDup(o.Key) || f.Key == strings.TrimPrefix(o.Key, "386:")) {
				return f
			}
		}
		return nil
	}
	evdir := filepath.Join(VerifDir(), "evidence")
	if d := os.Getenv("VERIF_EVIDENCE_DIR"); d != "" { // seeded-change runs must not overwrite real evidence
		evdir = d
	}
	vdir := filepath.Join(evdir, "violations")
	_ = os.MkdirAll(vdir, 0o755)
	// remove stale replay artefacts of this property
	if old, _ := filepath.Glob(filepath.Join(vdir, r.Property+"-*.json")); old != nil {
		for _, f := range old {
			_ = os.Remove(f)
		}
	}
	var nviol, nknown, ndis, nexc, nout, nund, nontriv int
	distinct := map[string]bool{}
	var knownLines []string
	for _, o := range r.Obls {
		switch o.Status {
		case Discharged:
			ndis++
		case Excepted:
			nexc++
		case OutOfRule:
			nout++
		}
		if o.Nontrivial && o.Status != OutOfRule {
			if !distinct[o.Key] {
				distinct[o.Key] = true
				nontriv++
			}
		}
		if o.Status != Violated && o.Status != Undecided {
			continue
		}
		if knownSeen == nil {
			knownSeen = map[string]bool{}
		}
		if o.Status == Undecided {
			nund++
		}
		if f := isKnown(o); f != nil && o.Status == Violated {
			if !knownSeen[f.Key] {
				// one line per listed finding (the thorough tier meets it on both architectures)
				knownSeen[f.Key] = true
				nknown++
				knownLines = append(knownLines, fmt.Sprintf("KNOWN-FINDING: property=%s %s — %s", r.Property, f.Key, f.What))
			}
			continue
		}
		nviol++
		path := filepath.Join(vdir, fmt.Sprintf("%s-%d.json", r.Property, nviol))
		b, _ := json.MarshalIndent(map[string]any{
			"property": r.Property, "rule": o.Rule, "key": o.Key, "pos": o.Pos, "status": o.Status,
			"detail": o.Detail, "facts": o.Facts,
			"replay": fmt.Sprintf("bin/tinkverif check %s --tier %s   # re-analyses /repo; the construct named by key/pos is the violation", r.Property, r.Tier),
		}, "", " ")
		_ = os.WriteFile(path, b, 0o644)
		fmt.Printf("VIOLATION property=%s replay=%s\n", r.Property, path)
		fmt.Printf("  %s [%s] %s at %s: %s\n", o.Status, o.Rule, o.Key, o.Pos, o.Detail)
		for _, f := range o.Facts {
			fmt.Printf("    fact: %s\n", f)
		}
	}
	for _, l := range knownLines {
		fmt.Println(l)
	}

	// samples: a few per rule
	samples := []any{}
	perRuleS := map[string]int{}
	for _, o := range r.Obls {
		lim := 3
		if o.Status == Violated || o.Status == Undecided {
			lim = 50
		}
		if perRuleS[o.Rule+string(o.Status)] >= lim {
			continue
		}
		perRuleS[o.Rule+string(o.Status)]++
		samples = append(samples, o)
	}
	ruleCounts := map[string]map[string]int{}
	for _, o := range r.Obls {
		if ruleCounts[o.Rule] == nil {
			ruleCounts[o.Rule] = map[string]int{}
		}
		ruleCounts[o.Rule][string(o.Status)]++
	}
	var allKeys []string
	for _, o := range r.Obls {
		allKeys = append(allKeys, string(o.Status)+" "+o.Key)
	}
	total := len(r.Obls) - nout
	cov := map[string]any{
		"explanation":         r.Explanation,
		"obligations":         total,
		"discharged":          ndis + nexc,
		"excepted":            nexc,
		"outside_rule":        nout,
		"undecided":           nund,
		"known_findings":      nknown,
		"evaluations":         total,
		"distinct_nontrivial": nontriv,
		"rule":                "obligations are rule instances discovered from the loaded program (implementers, call sites, stores, table rows); non-trivial = discharge (or violation) needed at least one program fact (dominating guard, effect summary, table row, flow edge); distinct by obligation key",
		"samples":             samples,
		"per_rule":            ruleCounts,
		"all_obligations":     allKeys,
		"exceptions_used":     r.Exceptions,
		"analysed":            r.Counts,
		"checker_cmd":         fmt.Sprintf("bin/tinkverif check %s --tier %s", r.Property, r.Tier),
		"trusted_base":        []string{"go/types + x/tools go/ssa v0.29.0 faithfully represent the source", "stdlib/x-crypto/protobuf contract tables in checker/effects/contracts.go", "the rule definitions in checker/rules"},
		"exhaustive":          false,
	}
	for k, v := range r.Extra {
		cov[k] = v
	}
	ev := map[string]any{
		"property_id": r.Property,
		"tier":        r.Tier,
		"seed":        r.Seed,
		"level":       "other",
		"coverage":    cov,
		"assumptions": r.Assumptions,
		"wall_s":      time.Since(r.Start).Seconds(),
		"violations":  nviol,
	}
	if r.Assumptions == nil {
		ev["assumptions"] = []string{}
	}
	b, _ := json.MarshalIndent(ev, "", " ")
	if err := os.WriteFile(filepath.Join(evdir, r.Property+".json"), b, 0o644); err != nil {
		fmt.Fprintln(os.Stderr, "cannot write evidence:", err)
		return 2
	}
	fmt.Printf("%s tier=%s obligations=%d discharged=%d excepted=%d outside-rule=%d known-findings=%d violations=%d wall=%.1fs\n",
		r.Property, r.Tier, total, ndis, nexc, nout, nknown, nviol, time.Since(r.Start).Seconds())
	if nviol > 0 {
		return 1
	}
	return 0
}
