// Package core holds engine A (loader, scope classes), the obligation/report
// model, evidence writing and the known-findings protocol.
package core

import (
	"fmt"
	"go/token"
	"go/types"
	"os"
	"sort"
	"strings"

	"golang.org/x/tools/go/callgraph"
	"golang.org/x/tools/go/callgraph/cha"
	"golang.org/x/tools/go/callgraph/vta"
	"golang.org/x/tools/go/packages"
	"golang.org/x/tools/go/ssa"
	"golang.org/x/tools/go/ssa/ssautil"
)

// ModPath is the module path of the analysed repository.
const ModPath = "github.com/tink-crypto/tink-go/v2"

// Scope classifies a package.
type Scope int

const (
	External Scope = iota
	Product
	Generated
	TestSupport
)

func (s Scope) String() string {
	return [...]string{"external", "product", "generated", "testsupport"}[s]
}

// Program is the loaded, type-checked, SSA-built repository.
type Program struct {
	Dir      string
	GOARCH   string
	Roots    []*packages.Package
	ByPath   map[string]*packages.Package
	Fset     *token.FileSet
	SSA      *ssa.Program
	Funcs    map[*ssa.Function]bool // all functions (incl. instantiations, closures)
	cg       *callgraph.Graph
	funcByID map[string]*ssa.Function
}

// RepoDir returns the directory of the repository to analyse.
func RepoDir() string {
	if d := os.Getenv("VERIF_REPO"); d != "" {
		return d
	}
	return "/repo"
}

// goEnv builds the environment for the go command run by go/packages: the
// repository needs go >= 1.25; the cached go1.25.11 toolchain (or go1.26.8) is
// put first on PATH and GOTOOLCHAIN pinned to local so that no toolchain
// switch (which would need the network or GOSUMDB) is attempted.
func goEnv() []string {
	var env []string
	for _, kv := range os.Environ() {
		k := kv
		if i := strings.IndexByte(kv, '='); i >= 0 {
			k = kv[:i]
		}
		switch k {
		case "GOFLAGS", "GOPROXY", "GOWORK", "GOTOOLCHAIN", "GOARCH", "GOOS", "GOROOT", "PATH":
			continue
		}
		env = append(env, kv)
	}
	path := os.Getenv("PATH")
	for _, root := range []string{
		"/root/go/pkg/mod/golang.org/toolchain@v0.0.1-go1.25.11.linux-amd64",
		"/opt/veriftools/go1.26.8",
		"/root/go/pkg/mod/golang.org/toolchain@v0.0.1-go1.26.8.linux-amd64",
	} {
		if st, err := os.Stat(root + "/bin/go"); err == nil && !st.IsDir() {
			path = root + "/bin:" + path
			env = append(env, "GOROOT="+root)
			break
		}
	}
	// go/packages looks the go command up in this process's PATH
	os.Setenv("PATH", path)
	os.Unsetenv("GOROOT")
	for i, kv := range env {
		if strings.HasPrefix(kv, "GOROOT=") {
			env = append(env[:i], env[i+1:]...)
			break
		}
	}
	return append(env, "PATH="+path, "GOTOOLCHAIN=local", "GOFLAGS=-mod=mod", "GOPROXY=off", "GOWORK=off")
}

// Load loads ./... of dir. overlay maps absolute file names to replacement
// contents (used by the mutation self-test only).
func Load(dir, goarch string, overlay map[string][]byte) (*Program, error) {
	env := goEnv()
	if goarch != "" {
		env = append(env, "GOARCH="+goarch)
	}
	cfg := &packages.Config{
		Mode:    packages.LoadAllSyntax,
		Dir:     dir,
		Tests:   false,
		Env:     env,
		Overlay: overlay,
	}
	pkgs, err := packages.Load(cfg, "./...")
	if err != nil {
		return nil, fmt.Errorf("packages.Load: %w", err)
	}
	var errs []string
	packages.Visit(pkgs, nil, func(p *packages.Package) {
		for _, e := range p.Errors {
			errs = append(errs, e.Error())
		}
	})
	if len(errs) > 0 {
		sort.Strings(errs)
		if len(errs) > 10 {
			errs = errs[:10]
		}
		return nil, fmt.Errorf("type-check/load errors: %s", strings.Join(errs, "; "))
	}
	if len(pkgs) < 150 {
		return nil, fmt.Errorf("only %d root packages loaded from %s (expected >= 150)", len(pkgs), dir)
	}
	p := &Program{Dir: dir, GOARCH: goarch, Roots: pkgs, ByPath: map[string]*packages.Package{}}
	packages.Visit(pkgs, nil, func(pk *packages.Package) { p.ByPath[pk.PkgPath] = pk })
	p.Fset = pkgs[0].Fset
	prog, _ := ssautil.AllPackages(pkgs, ssa.InstantiateGenerics)
	prog.Build()
	p.SSA = prog
	p.Funcs = ssautil.AllFunctions(prog)
	p.funcByID = map[string]*ssa.Function{}
	for f := range p.Funcs {
		p.funcByID[FuncID(f)] = f
	}
	return p, nil
}

// CallGraph returns the (lazily built) VTA call graph.
func (p *Program) CallGraph() *callgraph.Graph {
	if p.cg == nil {
		p.cg = vta.CallGraph(p.Funcs, cha.CallGraph(p.SSA))
	}
	return p.cg
}

// Rel strips the module path from a package path.
func Rel(pkgPath string) string {
	if pkgPath == ModPath {
		return "."
	}
	return strings.TrimPrefix(pkgPath, ModPath+"/")
}

// ClassOf classifies a package path.
func ClassOf(pkgPath string) Scope {
	if pkgPath != ModPath && !strings.HasPrefix(pkgPath, ModPath+"/") {
		return External
	}
	r := Rel(pkgPath)
	if strings.HasPrefix(r, "proto/") {
		return Generated
	}
	switch {
	case r == "testutil" || strings.HasPrefix(r, "testutil/"),
		strings.HasPrefix(r, "testing/"),
		strings.HasPrefix(r, "internal/testing/"),
		r == "mac/internal/mactest",
		r == "aead/internal/testutil",
		r == "internal/signature/compositemldsa/testing",
		r == "internal/tinkerror/tinkerrortest":
		return TestSupport
	}
	return Product
}

// PkgOf returns the package path of a function ("" if none).
func PkgOf(f *ssa.Function) string {
	if f == nil {
		return ""
	}
	if f.Pkg != nil {
		return f.Pkg.Pkg.Path()
	}
	if o := f.Origin(); o != nil && o != f {
		return PkgOf(o)
	}
	if f.Parent() != nil {
		return PkgOf(f.Parent())
	}
	if f.Object() != nil && f.Object().Pkg() != nil {
		return f.Object().Pkg().Path()
	}
	// wrappers/bounds/thunks: fall back to receiver's package
	if f.Signature != nil && f.Signature.Recv() != nil {
		t := f.Signature.Recv().Type()
		if pt, ok := t.(*types.Pointer); ok {
			t = pt.Elem()
		}
		if n, ok := t.(*types.Named); ok && n.Obj().Pkg() != nil {
			return n.Obj().Pkg().Path()
		}
	}
	return ""
}

// FuncClass classifies a function by its package.
func FuncClass(f *ssa.Function) Scope { return ClassOf(PkgOf(f)) }

// FuncID is a stable, line-independent identifier: relpkg.(*T).M, relpkg.F,
// relpkg.F$1 for closures.
func FuncID(f *ssa.Function) string {
	if f == nil {
		return "<nil>"
	}
	s := f.String() // e.g. (*github.com/x/y.T).M or github.com/x/y.F$1
	s = strings.ReplaceAll(s, ModPath+"/", "")
	s = strings.ReplaceAll(s, ModPath+".", "tink-go.")
	return s
}

// FuncByID finds a function by FuncID.
func (p *Program) FuncByID(id string) *ssa.Function { return p.funcByID[id] }

// Pkg returns the ssa package for a module-relative path.
func (p *Program) Pkg(rel string) *ssa.Package {
	path := ModPath + "/" + rel
	if rel == "." {
		path = ModPath
	}
	pk := p.ByPath[path]
	if pk == nil {
		return nil
	}
	return p.SSA.Package(pk.Types)
}

// PkgFunc returns package-level function name in module-relative package rel.
func (p *Program) PkgFunc(rel, name string) *ssa.Function {
	sp := p.Pkg(rel)
	if sp == nil {
		return nil
	}
	return sp.Func(name)
}

// Method returns the method named m on type named t (pointer receiver if
// ptr) in module-relative package rel.
func (p *Program) Method(rel, t string, ptr bool, m string) *ssa.Function {
	sp := p.Pkg(rel)
	if sp == nil {
		return nil
	}
	tm := sp.Type(t)
	if tm == nil {
		return nil
	}
	var typ types.Type = tm.Type()
	if ptr {
		typ = types.NewPointer(typ)
	}
	sel := p.SSA.MethodSets.MethodSet(typ).Lookup(sp.Pkg, m)
	if sel == nil {
		return nil
	}
	return p.SSA.MethodValue(sel)
}

// Pos renders a position relative to the repository dir.
func (p *Program) Pos(pos token.Pos) string {
	if !pos.IsValid() {
		return "-"
	}
	ps := p.Fset.Position(pos)
	fn := strings.TrimPrefix(ps.Filename, p.Dir+"/")
	return fmt.Sprintf("%s:%d", fn, ps.Line)
}

// FuncPos renders the position of a function.
func (p *Program) FuncPos(f *ssa.Function) string {
	if f == nil {
		return "-"
	}
	if f.Pos().IsValid() {
		return p.Pos(f.Pos())
	}
	if f.Syntax() != nil {
		return p.Pos(f.Syntax().Pos())
	}
	return "-"
}

// SortedFuncs returns all functions of the given scope class with bodies,
// sorted by id (deterministic iteration).
func (p *Program) SortedFuncs(classes ...Scope) []*ssa.Function {
	want := map[Scope]bool{}
	for _, c := range classes {
		want[c] = true
	}
	var out []*ssa.Function
	for f := range p.Funcs {
		if f.Blocks == nil {
			continue
		}
		if len(classes) > 0 && !want[FuncClass(f)] {
			continue
		}
		out = append(out, f)
	}
	sort.Slice(out, func(i, j int) bool {
		a, b := FuncID(out[i]), FuncID(out[j])
		if a != b {
			return a < b
		}
		return out[i].Pos() < out[j].Pos()
	})
	return out
}

// Callees returns the possible callees of a call instruction: the static
// callee if any, else the VTA call-graph edges.
func (p *Program) Callees(site ssa.CallInstruction) []*ssa.Function {
	if c := site.Common().StaticCallee(); c != nil {
		return []*ssa.Function{c}
	}
	cg := p.CallGraph()
	n := cg.Nodes[site.Parent()]
	if n == nil {
		return nil
	}
	var out []*ssa.Function
	seen := map[*ssa.Function]bool{}
	for _, e := range n.Out {
		if e.Site == site && e.Callee != nil && e.Callee.Func != nil && !seen[e.Callee.Func] {
			seen[e.Callee.Func] = true
			out = append(out, e.Callee.Func)
		}
	}
	sort.Slice(out, func(i, j int) bool { return FuncID(out[i]) < FuncID(out[j]) })
	return out
}

// Callers returns call sites (instructions) that may call f.
func (p *Program) Callers(f *ssa.Function) []ssa.CallInstruction {
	cg := p.CallGraph()
	n := cg.Nodes[f]
	if n == nil {
		return nil
	}
	var out []ssa.CallInstruction
	for _, e := range n.In {
		if e.Site != nil {
			out = append(out, e.Site)
		}
	}
	sort.Slice(out, func(i, j int) bool { return out[i].Pos() < out[j].Pos() })
	return out
}

// NamedOf returns the named type behind t (through one pointer).
func NamedOf(t types.Type) *types.Named {
	if t == nil {
		return nil
	}
	t = types.Unalias(t)
	if pt, ok := t.(*types.Pointer); ok {
		t = types.Unalias(pt.Elem())
	}
	n, _ := t.(*types.Named)
	return n
}

// TypeID renders a named type as relpkg.Name.
func TypeID(t types.Type) string {
	n := NamedOf(t)
	if n == nil {
		return t.String()
	}
	if n.Obj().Pkg() == nil {
		return n.Obj().Name()
	}
	return Rel(n.Obj().Pkg().Path()) + "." + n.Obj().Name()
}

// IsByteSlice reports whether t's underlying type is []byte.
func IsByteSlice(t types.Type) bool {
	s, ok := t.Underlying().(*types.Slice)
	if !ok {
		return false
	}
	b, ok := s.Elem().Underlying().(*types.Basic)
	return ok && b.Kind() == types.Uint8
}

// LookupIface finds a named interface type path.Name among loaded packages.
func (p *Program) LookupIface(pkgPath, name string) *types.Interface {
	pk := p.ByPath[pkgPath]
	if pk == nil {
		return nil
	}
	o := pk.Types.Scope().Lookup(name)
	if o == nil {
		return nil
	}
	i, _ := o.Type().Underlying().(*types.Interface)
	return i
}

// Implementers lists named types (T or *T) in packages of the given classes
// that implement iface; result entries are the receiver types that implement.
func (p *Program) Implementers(iface *types.Interface, classes ...Scope) []types.Type {
	want := map[Scope]bool{}
	for _, c := range classes {
		want[c] = true
	}
	var out []types.Type
	var paths []string
	for path := range p.ByPath {
		paths = append(paths, path)
	}
	sort.Strings(paths)
	for _, path := range paths {
		if !want[ClassOf(path)] {
			continue
		}
		sc := p.ByPath[path].Types.Scope()
		for _, name := range sc.Names() {
			tn, ok := sc.Lookup(name).(*types.TypeName)
			if !ok || tn.IsAlias() {
				continue
			}
			if _, isIface := tn.Type().Underlying().(*types.Interface); isIface {
				continue
			}
			if named, ok := tn.Type().(*types.Named); ok && named.TypeParams().Len() > 0 {
				continue
			}
			if types.Implements(tn.Type(), iface) {
				out = append(out, tn.Type())
			} else if types.Implements(types.NewPointer(tn.Type()), iface) {
				out = append(out, types.NewPointer(tn.Type()))
			}
		}
	}
	return out
}

// MethodOf returns the ssa function for method name on receiver type t.
func (p *Program) MethodOf(t types.Type, name string) *ssa.Function {
	ms := p.SSA.MethodSets.MethodSet(t)
	for i := 0; i < ms.Len(); i++ {
		if ms.At(i).Obj().Name() == name {
			return p.SSA.MethodValue(ms.At(i))
		}
	}
	return nil
}
