package core

import (
	"fmt"
	"os"
	"path/filepath"
	"strings"
)

// OverlayFromPatch applies a unified diff (as produced by git diff) to the
// files under dir in memory and returns the overlay for go/packages. Hunks
// are located by their content (old lines incl. context), not by line
// numbers, so that unrelated drift in the file does not matter.
func OverlayFromPatch(dir string, patch []byte) (map[string][]byte, error) {
	overlay := map[string][]byte{}
	lines := strings.Split(string(patch), "\n")
	var file string
	var content []string
	flush := func() {
		if file != "" {
			overlay[filepath.Join(dir, file)] = []byte(strings.Join(content, "\n"))
		}
	}
	i := 0
	for i < len(lines) {
		l := lines[i]
		switch {
		case strings.HasPrefix(l, "+++ "):
			flush()
			name := strings.TrimPrefix(l, "+++ ")
			if t := strings.IndexByte(name, '\t'); t >= 0 {
				name = name[:t] // plain diff -u puts a timestamp after a tab
			}
			name = strings.TrimPrefix(name, "b/")
			if name == "/dev/null" {
				file = ""
				i++
				continue
			}
			file = name
			b, err := os.ReadFile(filepath.Join(dir, file))
			if err != nil {
				return nil, fmt.Errorf("patch touches %s: %v", file, err)
			}
			content = strings.Split(string(b), "\n")
			i++
		case strings.HasPrefix(l, "@@"):
			if file == "" {
				i++
				continue
			}
			var oldL, newL []string
			i++
			for i < len(lines) {
				h := lines[i]
				if strings.HasPrefix(h, "@@") || strings.HasPrefix(h, "diff ") || strings.HasPrefix(h, "--- ") {
					break
				}
				switch {
				case strings.HasPrefix(h, "+"):
					newL = append(newL, h[1:])
				case strings.HasPrefix(h, "-"):
					oldL = append(oldL, h[1:])
				case strings.HasPrefix(h, " "):
					oldL = append(oldL, h[1:])
					newL = append(newL, h[1:])
				case h == "":
					// blank context line with trailing whitespace stripped, or end of patch
					if i == len(lines)-1 {
						i++
						continue
					}
					oldL = append(oldL, "")
					newL = append(newL, "")
				case strings.HasPrefix(h, "\\"):
				}
				i++
			}
			// drop trailing blank pair produced by the final newline of the patch
			pos := findBlock(content, oldL)
			if pos < 0 {
				// retry without trailing empty context
				for len(oldL) > 0 && len(newL) > 0 && oldL[len(oldL)-1] == "" && newL[len(newL)-1] == "" {
					oldL, newL = oldL[:len(oldL)-1], newL[:len(newL)-1]
					if pos = findBlock(content, oldL); pos >= 0 {
						break
					}
				}
			}
			if pos < 0 {
				return nil, fmt.Errorf("hunk does not apply to %s", file)
			}
			var out []string
			out = append(out, content[:pos]...)
			out = append(out, newL...)
			out = append(out, content[pos+len(oldL):]...)
			content = out
		default:
			i++
		}
	}
	flush()
	if len(overlay) == 0 {
		return nil, fmt.Errorf("patch changes no file")
	}
	return overlay, nil
}

func findBlock(content, block []string) int {
	if len(block) == 0 {
		return -1
	}
	found := -1
	for i := 0; i+len(block) <= len(content); i++ {
		ok := true
		for j := range block {
			if content[i+j] != block[j] {
				ok = false
				break
			}
		}
		if ok {
			if found >= 0 {
				return found // first occurrence; ambiguous blocks are rare with context
			}
			found = i
		}
	}
	return found
}
