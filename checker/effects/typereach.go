package effects

import (
	"go/types"
	"sort"

	"golang.org/x/tools/go/ssa"

	"tinkverif/core"
)

// reachSet is the set of types that memory reachable from a value of some
// declared type can have (Go is type safe; the module uses no unsafe).
type reachSet struct {
	all bool
	m   map[string]bool
}

func typeKey(t types.Type) string {
	t = types.Unalias(t)
	if b, ok := t.(*types.Basic); ok {
		return b.Name()
	}
	return types.TypeString(t, nil)
}

func (a *Analysis) reachOf(t types.Type) *reachSet {
	k := typeKey(t)
	if r, ok := a.reachC[k]; ok {
		return r
	}
	r := &reachSet{m: map[string]bool{}}
	a.reachC[k] = r
	a.walkType(r, t, false)
	return r
}

func (a *Analysis) moduleImplementers(it *types.Interface) []types.Type {
	k := it.String()
	if v, ok := a.implC[k]; ok {
		return v
	}
	var out []types.Type
	var paths []string
	for path := range a.Prog.ByPath {
		if core.ClassOf(path) != core.External {
			paths = append(paths, path)
		}
	}
	sort.Strings(paths)
	for _, path := range paths {
		sc := a.Prog.ByPath[path].Types.Scope()
		for _, name := range sc.Names() {
			tn, ok := sc.Lookup(name).(*types.TypeName)
			if !ok || tn.IsAlias() {
				continue
			}
			if _, isIface := tn.Type().Underlying().(*types.Interface); isIface {
				continue
			}
			if n, ok := tn.Type().(*types.Named); ok && n.TypeParams().Len() > 0 {
				continue
			}
			if types.Implements(tn.Type(), it) {
				out = append(out, tn.Type())
			} else if types.Implements(types.NewPointer(tn.Type()), it) {
				out = append(out, types.NewPointer(tn.Type()))
			}
		}
	}
	a.implC[k] = out
	return out
}

func (a *Analysis) walkType(r *reachSet, t types.Type, external bool) {
	if r.all {
		return
	}
	t = types.Unalias(t)
	k := typeKey(t)
	if r.m[k] {
		return
	}
	r.m[k] = true
	if n, ok := t.(*types.Named); ok {
		if n.Obj().Pkg() != nil {
			external = core.ClassOf(n.Obj().Pkg().Path()) == core.External
		}
	}
	switch u := t.Underlying().(type) {
	case *types.Pointer:
		a.walkType(r, u.Elem(), external)
	case *types.Slice:
		a.walkType(r, u.Elem(), external)
	case *types.Array:
		a.walkType(r, u.Elem(), external)
	case *types.Map:
		a.walkType(r, u.Key(), external)
		a.walkType(r, u.Elem(), external)
	case *types.Chan:
		a.walkType(r, u.Elem(), external)
	case *types.Struct:
		for i := 0; i < u.NumFields(); i++ {
			a.walkType(r, u.Field(i).Type(), external)
		}
	case *types.Interface:
		if external {
			return
		}
		if u.NumMethods() == 0 {
			r.all = true
			return
		}
		for _, it := range a.moduleImplementers(u) {
			a.walkType(r, it, false)
		}
	case *types.TypeParam:
		r.all = true
	}
}

// pointee returns the type of the memory a reference value of type t points
// to, or nil when no filtering applies (interfaces, funcs, structs).
func pointee(t types.Type) types.Type {
	switch u := types.Unalias(t).Underlying().(type) {
	case *types.Pointer:
		return u.Elem()
	case *types.Slice:
		return u.Elem()
	case *types.Map:
		return t
	case *types.Chan:
		return t
	}
	return nil
}

// compatible reports whether a value of static type vt can point into the
// memory of non-fresh root r.
func (u *unit) compatible(r int32, vt types.Type) bool {
	pt := pointee(vt)
	if pt == nil {
		return true
	}
	rt := u.roots[r]
	var decl types.Type
	switch rt.kind {
	case RParam:
		decl = paramType(u.top, rt.idx)
	case RCParam:
		decl = paramType(rt.fn, rt.idx)
	case RGlobal:
		decl = rt.g.Type()
	default:
		return true
	}
	if decl == nil {
		return true
	}
	ck := compatKey{r, typeKey(pt)}
	if v, ok := u.compatC[ck]; ok {
		return v
	}
	rs := u.a.reachOf(decl)
	ok := rs.all || rs.m[ck.t]
	if !ok {
		// named types convertible to each other share the underlying type
		if _, isStruct := pt.Underlying().(*types.Struct); !isStruct {
			ok = rs.m[typeKey(pt.Underlying())]
		}
	}
	u.compatC[ck] = ok
	return ok
}

// rootMayHold reports whether root r can contain memory of type key t. For
// parameter roots below MaxDepth the answer is exact in the access-path
// length: only types found at that many loads from the declared type count.
func (u *unit) rootMayHold(r int32, t string) bool {
	rt := u.roots[r]
	var decl types.Type
	switch rt.kind {
	case RParam:
		decl = paramType(u.top, rt.idx)
	case RCParam:
		decl = paramType(rt.fn, rt.idx)
	case RGlobal:
		decl = rt.g.Type()
		// a package-level variable holding function values (a registry of closures)
		// can reach whatever those closures captured
		if u.a.holdsFuncs(decl) {
			return true
		}
	}
	if decl == nil {
		return true
	}
	ck := compatKey{r, "w:" + t}
	if v, ok := u.compatC[ck]; ok {
		return v
	}
	var rs *reachSet
	if (rt.kind == RParam || rt.kind == RCParam) && rt.depth < MaxDepth {
		rs = u.a.levelReach(decl, int(rt.depth))
	} else {
		rs = u.a.reachOf(decl)
	}
	ok := rs.all || rs.m[t]
	u.compatC[ck] = ok
	return ok
}

// levelReach: the types of memory exactly depth loads away from a value of
// declared type decl (depth 0: what the value's references point to).
func (a *Analysis) levelReach(decl types.Type, depth int) *reachSet {
	k := typeKey(decl) + "@" + string(rune('0'+depth))
	if r, ok := a.reachC[k]; ok {
		return r
	}
	// frontier: reference types whose pointees form the next level
	frontier := a.refTypesIn(decl, false)
	var level *reachSet
	for d := 0; d <= depth; d++ {
		level = &reachSet{m: map[string]bool{}}
		var next []types.Type
		for _, rt := range frontier {
			for _, pt := range a.pointeesOf(rt, level) {
				a.inline(level, pt, &next)
			}
			if level.all {
				break
			}
		}
		if level.all {
			break
		}
		frontier = next
	}
	a.reachC[k] = level
	return level
}

// refTypesIn lists the reference types contained inline in a value of type t
// (t itself when it is a reference type).
func (a *Analysis) refTypesIn(t types.Type, _ bool) []types.Type {
	var out []types.Type
	var walk func(t types.Type, depth int)
	walk = func(t types.Type, depth int) {
		if depth > 6 {
			return
		}
		switch u := types.Unalias(t).Underlying().(type) {
		case *types.Pointer, *types.Slice, *types.Map, *types.Chan, *types.Interface, *types.Signature:
			out = append(out, t)
		case *types.Struct:
			for i := 0; i < u.NumFields(); i++ {
				walk(u.Field(i).Type(), depth+1)
			}
		case *types.Array:
			walk(u.Elem(), depth+1)
		case *types.TypeParam:
			out = append(out, t)
		}
	}
	walk(t, 0)
	return out
}

// pointeesOf: the types of memory a reference of type rt can point to.
func (a *Analysis) pointeesOf(rt types.Type, level *reachSet) []types.Type {
	switch u := types.Unalias(rt).Underlying().(type) {
	case *types.Pointer:
		return []types.Type{u.Elem()}
	case *types.Slice:
		return []types.Type{u.Elem()}
	case *types.Map:
		level.m[typeKey(rt)] = true
		return []types.Type{u.Key(), u.Elem()}
	case *types.Chan:
		level.m[typeKey(rt)] = true
		return []types.Type{u.Elem()}
	case *types.Interface:
		if u.NumMethods() == 0 {
			level.all = true
			return nil
		}
		var out []types.Type
		for _, it := range a.moduleImplementers(u) {
			if p, ok := it.(*types.Pointer); ok {
				out = append(out, p.Elem())
			} else {
				out = append(out, it)
			}
		}
		return out
	case *types.TypeParam:
		level.all = true
	}
	return nil
}

// inline adds t and everything stored inline in it to the level, collecting
// the reference types found (the next frontier).
func (a *Analysis) inline(level *reachSet, t types.Type, next *[]types.Type) {
	var walk func(t types.Type, depth int)
	walk = func(t types.Type, depth int) {
		if depth > 6 {
			return
		}
		t = types.Unalias(t)
		level.m[typeKey(t)] = true
		if _, named := t.(*types.Named); named {
			level.m[typeKey(t.Underlying())] = true
		}
		switch u := t.Underlying().(type) {
		case *types.Pointer, *types.Slice, *types.Map, *types.Chan, *types.Interface, *types.Signature, *types.TypeParam:
			*next = append(*next, t)
		case *types.Struct:
			for i := 0; i < u.NumFields(); i++ {
				walk(u.Field(i).Type(), depth+1)
			}
		case *types.Array:
			walk(u.Elem(), depth+1)
		}
	}
	walk(t, 0)
}

type compatKey struct {
	r int32
	t string
}

func paramType(fn *ssa.Function, i int) types.Type {
	if i < len(fn.Params) {
		return fn.Params[i].Type()
	}
	if j := i - len(fn.Params); j < len(fn.FreeVars) {
		return fn.FreeVars[j].Type()
	}
	return nil
}

// DebugReach returns the reach set of a type (diagnostics).
func (a *Analysis) DebugReach(t types.Type) (bool, []string) {
	r := a.reachOf(t)
	var out []string
	for k := range r.m {
		out = append(out, k)
	}
	sort.Strings(out)
	return r.all, out
}

// holdsFuncs reports whether values of type t can contain function values.
func (a *Analysis) holdsFuncs(t types.Type) bool {
	k := "funcs:" + typeKey(t)
	if r, ok := a.reachC[k]; ok {
		return r.all
	}
	res := &reachSet{}
	a.reachC[k] = res
	seen := map[string]bool{}
	var walk func(t types.Type, d int) bool
	walk = func(t types.Type, d int) bool {
		if d > 6 {
			return false
		}
		t = types.Unalias(t)
		key := typeKey(t)
		if seen[key] {
			return false
		}
		seen[key] = true
		switch u := t.Underlying().(type) {
		case *types.Signature:
			return true
		case *types.Pointer:
			return walk(u.Elem(), d+1)
		case *types.Slice:
			return walk(u.Elem(), d+1)
		case *types.Array:
			return walk(u.Elem(), d+1)
		case *types.Map:
			return walk(u.Key(), d+1) || walk(u.Elem(), d+1)
		case *types.Struct:
			for i := 0; i < u.NumFields(); i++ {
				if walk(u.Field(i).Type(), d+1) {
					return true
				}
			}
		}
		return false
	}
	res.all = walk(t, 0)
	return res.all
}
