package effects

import (
	"go/types"
	"strconv"
	"strings"

	"golang.org/x/tools/go/ssa"

	"tinkverif/core"
)

// resolve maps a summary root to locations in the caller, given the actuals.
func (u *unit) resolve(sr SRoot, actuals []locset) locset {
	switch sr.Kind {
	case RGlobal:
		return locset{loc{u.globalRoot(sr.G), -1}: {}}
	case RParam:
		if sr.Idx >= len(actuals) {
			return nil
		}
		switch {
		case sr.Depth == 0:
			return actuals[sr.Idx]
		case sr.Depth < MaxDepth:
			return u.loadN(actuals[sr.Idx], int(sr.Depth))
		default:
			return u.deep(u.loadN(actuals[sr.Idx], MaxDepth-1))
		}
	}
	return nil
}

func (u *unit) setResult(res *ssa.Call, nres, j int, s locset) {
	if res == nil || len(s) == 0 {
		return
	}
	if nres == 1 {
		u.addAllTo(res, s)
		return
	}
	k := tupKey{res, j}
	t := u.tup[k]
	if t == nil {
		t = locset{}
		u.tup[k] = t
	}
	if t.addAll(s) {
		u.changed = true
	}
}

type freshKey struct {
	c ssa.Instruction
	j int
}

func (u *unit) callFresh(ins ssa.Instruction, j int) int32 {
	var site ssa.Value
	if v, ok := ins.(ssa.Value); ok {
		site = v
	}
	return u.rootOf(freshKey{ins, j}, root{kind: RFresh, site: site})
}

// apply instantiates a callee summary at a call site.
func (u *unit) apply(fn *ssa.Function, s *Summary, callee *ssa.Function, name string, ins ssa.CallInstruction, res *ssa.Call, avals []ssa.Value, actuals []locset) {
	pos := ins.Pos()
	for wk, w := range s.W {
		sr := wk.Root
		why := via(fn, pos, "call to "+name+", which writes "+sr.String()+" ("+w.Desc+")", callee, w)
		t := wk.T
		if t == "?" { // contract: type of what the actual points to
			t = "*"
			if sr.Idx < len(avals) {
				t = writtenType(avals[sr.Idx])
			}
		}
		if sr.Kind == RGlobal {
			u.recordWrite(u.globalRoot(sr.G), t, why)
			continue
		}
		for l := range u.resolve(sr, actuals) {
			u.recordWrite(l.root, t, why)
		}
	}
	for k, w := range s.K {
		src := u.resolve(k[0], actuals)
		dst := u.resolve(k[1], actuals)
		if len(src) == 0 || len(dst) == 0 {
			continue
		}
		why := via(fn, pos, "call to "+name+", which keeps a reference to "+k[0].String()+" in "+k[1].String()+" ("+w.Desc+")", callee, w)
		u.store(dst, src, true, "", why)
	}
	nres := len(s.RA)
	for j := 0; j < nres; j++ {
		out := locset{}
		needFresh := false
		for sr := range s.RA[j] {
			if sr.Kind == RFresh {
				needFresh = true
				continue
			}
			out.addAll(u.resolve(sr, actuals))
		}
		var inner locset
		for sr := range s.RC[j] {
			r := u.resolve(sr, actuals)
			if len(r) > 0 {
				if inner == nil {
					inner = locset{}
				}
				inner.addAll(r)
			}
		}
		if needFresh {
			fr := loc{u.callFresh(ins, j), -1}
			out.add(fr)
			if len(inner) > 0 {
				c := u.cont[fr]
				if c == nil {
					c = locset{}
					u.cont[fr] = c
				}
				if c.addAll(inner) {
					u.changed = true
				}
				for sr, w := range s.RC[j] {
					u.noteEdges(u.resolve(sr, actuals), via(fn, ins.Pos(), "call to "+name+", whose result holds a reference to "+sr.String()+" ("+w.Desc+")", callee, w))
				}
			}
		}
		u.setResult(res, nres, j, out)
	}
}

func (u *unit) call(fn *ssa.Function, ins ssa.CallInstruction, res *ssa.Call) {
	c := ins.Common()
	// actual values: receiver first for invoke mode
	var avals []ssa.Value
	if c.IsInvoke() {
		avals = append(avals, c.Value)
	}
	avals = append(avals, c.Args...)
	actuals := make([]locset, len(avals))
	for i, v := range avals {
		actuals[i] = u.val(v)
	}
	if b, ok := c.Value.(*ssa.Builtin); ok {
		u.builtin(fn, b, ins, res, avals, actuals)
		return
	}
	nres := c.Signature().Results().Len()

	if c.IsInvoke() {
		m := c.Method
		if m.Pkg() == nil || core.ClassOf(m.Pkg().Path()) == core.External {
			name := m.FullName()
			u.applyExternal(fn, name, nil, ins, res, avals, actuals, nres)
			return
		}
		callees := u.a.Prog.Callees(ins)
		u.applyCallees(fn, callees, "("+core.TypeID(c.Value.Type())+")."+m.Name(), ins, res, avals, actuals, nres)
		return
	}
	// bindings of closures follow the declared params
	if mc, ok := c.Value.(*ssa.MakeClosure); ok {
		for _, b := range mc.Bindings {
			avals = append(avals, b)
			actuals = append(actuals, u.val(b))
		}
	}
	if callee := c.StaticCallee(); callee != nil {
		if callee.Parent() != nil && u.inUnit[callee] {
			for i, p := range callee.Params {
				if i < len(actuals) {
					u.addAllTo(p, actuals[i])
				}
			}
			u.bindReturns(callee, res, nres)
			return
		}
		u.applyCallees(fn, []*ssa.Function{callee}, "", ins, res, avals, actuals, nres)
		return
	}
	// dynamic function value
	fv := u.val(c.Value)
	callees := u.a.Prog.Callees(ins)
	for _, callee := range callees {
		if callee.Parent() != nil && u.inUnit[callee] {
			for i, p := range callee.Params {
				if i < len(c.Args) {
					u.addAllTo(p, actuals[i])
				}
			}
			u.bindReturns(callee, res, nres)
			continue
		}
		acts := actuals
		if n := len(callee.FreeVars); n > 0 {
			acts = append([]locset{}, actuals...)
			for i := 0; i < n; i++ {
				acts = append(acts, fv)
			}
		}
		u.applyCallees(fn, []*ssa.Function{callee}, "", ins, res, avals, acts, nres)
	}
	if len(callees) == 0 {
		u.applyExternal(fn, "<dynamic call "+Describe(c.Value)+">", nil, ins, res, avals, actuals, nres)
	}
}

func (u *unit) bindReturns(callee *ssa.Function, res *ssa.Call, nres int) {
	if res == nil {
		return
	}
	for _, b := range callee.Blocks {
		if len(b.Instrs) == 0 {
			continue
		}
		if ret, ok := b.Instrs[len(b.Instrs)-1].(*ssa.Return); ok {
			for j, rv := range ret.Results {
				if u.a.HasRefs(rv.Type()) {
					u.setResult(res, nres, j, u.val(rv))
				}
			}
		}
	}
}

func (u *unit) applyCallees(caller *ssa.Function, callees []*ssa.Function, iname string, ins ssa.CallInstruction, res *ssa.Call, avals []ssa.Value, actuals []locset, nres int) {
	callerClass := core.FuncClass(u.top)
	applied := false
	for _, callee := range callees {
		cls := core.FuncClass(callee)
		if cls == core.TestSupport && callerClass != core.TestSupport {
			continue
		}
		if s := u.a.Sum[callee]; s != nil && cls != core.External {
			u.apply(caller, s, callee, core.FuncID(callee), ins, res, avals, actuals)
			applied = true
			continue
		}
		name := callee.String()
		if o := callee.Origin(); o != nil {
			name = o.String()
		}
		u.applyExternal(caller, name, callee, ins, res, avals, actuals, nres)
		applied = true
	}
	if !applied {
		u.applyExternal(caller, iname, nil, ins, res, avals, actuals, nres)
	}
}

func (u *unit) applyExternal(fn *ssa.Function, name string, callee *ssa.Function, ins ssa.CallInstruction, res *ssa.Call, avals []ssa.Value, actuals []locset, nres int) {
	s := u.a.contractFor(name, nres)
	if s == nil {
		// default: pure, fresh results
		s = u.a.defaultContract(nres)
		for i, as := range actuals {
			tracked := false
			for l := range as {
				if !u.isFresh(l.root) {
					tracked = true
				}
			}
			if tracked && !isFuncOrIface(avals[i].Type()) {
				u.a.Assumed[name]++
				break
			}
		}
	}
	u.apply(fn, s, callee, name, ins, res, avals, actuals)
}

func isFuncOrIface(t types.Type) bool {
	switch t.Underlying().(type) {
	case *types.Signature:
		return true
	}
	return false
}

func (a *Analysis) defaultContract(nres int) *Summary {
	key := "<default>/" + strconv.Itoa(nres)
	if s, ok := a.contract[key]; ok {
		return s
	}
	s := newSummary(nil, nres)
	for j := 0; j < nres; j++ {
		s.RA[j][SRoot{Kind: RFresh}] = Why{Desc: "external call result"}
	}
	a.contract[key] = s
	return s
}

// contractFor builds (and caches) the summary for a named external callee.
func (a *Analysis) contractFor(name string, nres int) *Summary {
	key := name + "/" + strconv.Itoa(nres)
	if s, ok := a.contract[key]; ok {
		return s
	}
	spec, ok := Contracts[name]
	if !ok {
		// package-level rules
		for _, pr := range pkgContracts {
			if strings.HasPrefix(name, pr.prefix) {
				spec, ok = pr.spec, true
				break
			}
		}
	}
	if !ok {
		a.contract[key] = nil
		return nil
	}
	s := newSummary(nil, nres)
	for j := 0; j < nres; j++ {
		s.RA[j][SRoot{Kind: RFresh}] = Why{Desc: "external call result"}
	}
	for _, tok := range strings.Split(spec, ",") {
		tok = strings.TrimSpace(tok)
		if tok == "" || tok == "pure" {
			continue
		}
		why := Why{Desc: "contract of " + name + ": " + tok}
		num := func(s string) int { n, _ := strconv.Atoi(s); return n }
		switch {
		case strings.HasPrefix(tok, "append"):
			i := num(tok[6:])
			s.W[WKey{SRoot{Kind: RParam, Idx: i}, "?"}] = why
			if nres > 0 {
				s.RA[0][SRoot{Kind: RParam, Idx: i}] = why
			}
		case tok[0] == 'w':
			s.W[WKey{SRoot{Kind: RParam, Idx: num(tok[1:])}, "?"}] = why
		case tok[0] == 'W':
			s.W[WKey{SRoot{Kind: RParam, Idx: num(tok[1:])}, "?"}] = why
			for d := uint8(1); d <= MaxDepth; d++ {
				s.W[WKey{SRoot{Kind: RParam, Idx: num(tok[1:]), Depth: d}, "*"}] = why
			}
		case tok[0] == 'a' || tok[0] == 'c':
			parts := strings.Split(tok[1:], ">r")
			i, j := num(parts[0]), num(parts[1])
			if j < nres {
				if tok[0] == 'a' {
					s.RA[j][SRoot{Kind: RParam, Idx: i}] = why
					for d := uint8(1); d <= MaxDepth; d++ {
						s.RC[j][SRoot{Kind: RParam, Idx: i, Depth: d}] = why
					}
				} else {
					for d := uint8(0); d <= MaxDepth; d++ {
						s.RC[j][SRoot{Kind: RParam, Idx: i, Depth: d}] = why
					}
				}
			}
		case tok[0] == 'k':
			parts := strings.Split(tok[1:], ">")
			s.K[[2]SRoot{{Kind: RParam, Idx: num(parts[0])}, {Kind: RParam, Idx: num(parts[1])}}] = why
		default:
			panic("bad contract token " + tok + " for " + name)
		}
	}
	a.contract[key] = s
	return s
}

func (u *unit) builtin(fn *ssa.Function, b *ssa.Builtin, ins ssa.CallInstruction, res *ssa.Call, avals []ssa.Value, actuals []locset) {
	switch b.Name() {
	case "append":
		if len(actuals) == 0 {
			return
		}
		// result: fresh or the first argument's array; spare capacity of the first
		// argument may be written, unless it is provably full (s[:n:n]) or nil.
		first := actuals[0]
		clipped := false
		if sl, ok := avals[0].(*ssa.Slice); ok && sl.Max != nil && sl.High != nil && sl.Max == sl.High {
			clipped = true
		}
		fr := loc{u.callFresh(ins, 0), -1}
		if res != nil {
			u.addTo(res, fr)
			if !clipped {
				u.addAllTo(res, first)
			}
		}
		if !clipped && len(avals) > 1 {
			// appending zero elements writes nothing; constant empty second arg is rare: ignore
			for l := range first {
				u.recordWrite(l.root, writtenType(avals[0]), direct(fn, ins.Pos(), "append to "+Describe(avals[0])+" (may write its spare capacity)"))
			}
		}
		if len(avals) > 1 {
			// elements copied: their references flow into the result's array
			elems := u.loadAll(actuals[1])
			if st, ok := avals[0].Type().Underlying().(*types.Slice); ok && u.a.HasRefs(st.Elem()) && len(elems) > 0 {
				tgt := locset{fr: {}}
				if !clipped {
					tgt.addAll(first)
				}
				u.store(tgt, elems, true, writtenType(avals[0]), direct(fn, ins.Pos(), "append elements to "+Describe(avals[0])))
				// existing elements of the first argument are also in the result
			}
			if st, ok := avals[0].Type().Underlying().(*types.Slice); ok && u.a.HasRefs(st.Elem()) {
				old := u.loadAll(first)
				if len(old) > 0 {
					u.store(locset{fr: {}}, old, true, "*", direct(fn, ins.Pos(), "append"))
				}
			}
		}
	case "copy":
		if len(actuals) < 2 {
			return
		}
		why := direct(fn, ins.Pos(), "copy into "+Describe(avals[0]))
		refs := false
		if st, ok := avals[0].Type().Underlying().(*types.Slice); ok {
			refs = u.a.HasRefs(st.Elem())
		}
		var elems locset
		if refs {
			elems = u.loadAll(actuals[1])
		}
		u.store(actuals[0], elems, refs, writtenType(avals[0]), why)
	case "delete", "clear":
		if len(actuals) > 0 {
			u.store(actuals[0], nil, false, typeKey(avals[0].Type()), direct(fn, ins.Pos(), b.Name()+" on "+Describe(avals[0])))
		}
	case "ssa:wrapnilchk":
		if res != nil && len(actuals) > 0 {
			u.addAllTo(res, actuals[0])
		}
	}
}

// ArgEscapes reports whether a callee of ins may keep (K) or hand back (RA/RC)
// a reference into the memory of its idx-th actual (receiver first in invoke
// mode). Builtins copy (append/copy) and never keep their operands' memory,
// except append's first operand, which is returned.
func (a *Analysis) ArgEscapes(ins ssa.CallInstruction, idx int) bool {
	c := ins.Common()
	if b, ok := c.Value.(*ssa.Builtin); ok {
		return b.Name() == "append" && idx == 0
	}
	nres := c.Signature().Results().Len()
	var sums []*Summary
	ext := func(name string) {
		if s := a.contractFor(name, nres); s != nil {
			sums = append(sums, s)
		}
	}
	if c.IsInvoke() && (c.Method.Pkg() == nil || core.ClassOf(c.Method.Pkg().Path()) == core.External) {
		ext(c.Method.FullName())
	} else {
		callees := a.Prog.Callees(ins)
		if sc := c.StaticCallee(); sc != nil {
			callees = []*ssa.Function{sc}
		}
		for _, callee := range callees {
			if s := a.Sum[callee]; s != nil && core.FuncClass(callee) != core.External {
				sums = append(sums, s)
				continue
			}
			name := callee.String()
			if o := callee.Origin(); o != nil {
				name = o.String()
			}
			ext(name)
		}
	}
	for _, s := range sums {
		for kk := range s.K {
			if kk[0].Kind == RParam && kk[0].Idx == idx {
				return true
			}
		}
		for j := range s.RA {
			for _, m := range []map[SRoot]Why{s.RA[j], s.RC[j]} {
				for sr := range m {
					if sr.Kind == RParam && sr.Idx == idx {
						return true
					}
				}
			}
		}
	}
	return false
}
