// Package effects is engine B: a points-to / memory-effect summary analysis
// written for tink-go. Flow-insensitive over SSA, one abstract object per
// allocation site (first field level of fresh structs kept apart), parameters
// split into the memory they point to directly ("shallow") and everything
// reachable from there by loads ("deep"); summarised per function and
// instantiated at call sites (context sensitivity by summary).
package effects

import (
	"fmt"
	"go/token"
	"go/types"
	"sort"

	"golang.org/x/tools/go/ssa"

	"tinkverif/core"
)

// MaxDepth is the access-path length after which parameter memory is merged.
const MaxDepth = 3

// RootKind distinguishes abstract memory roots.
type RootKind uint8

const (
	RParam  RootKind = iota // memory of a parameter / free variable of the summarised function
	RGlobal                 // memory reachable from a package-level variable
	RFresh                  // allocated during the call
	RCParam                 // parameter of a nested closure (opaque inside the parent unit)
)

type root struct {
	kind  RootKind
	idx   int
	depth uint8 // number of loads from the parameter (MaxDepth: that many or more)
	g     *ssa.Global
	site  ssa.Value
	fn    *ssa.Function
}

type loc struct {
	root  int32 // index into unit.roots
	field int16 // -1: whole object / elements; >=0: first-level field of a fresh struct
}

type locset map[loc]struct{}

func (s locset) add(l loc) bool {
	if _, ok := s[l]; ok {
		return false
	}
	s[l] = struct{}{}
	return true
}
func (s locset) addAll(o locset) bool {
	ch := false
	for l := range o {
		if s.add(l) {
			ch = true
		}
	}
	return ch
}

// Why explains an effect: the first instruction that established it.
type Why struct {
	Pos  token.Pos
	Desc string
	Via  *ssa.Function // callee through which the effect arrived (nil: direct)
	In   *ssa.Function // function containing the instruction at Pos
	// Origin: the function and instruction where the effect is direct.
	OriginFn   *ssa.Function
	OriginPos  token.Pos
	OriginDesc string
}

func direct(fn *ssa.Function, pos token.Pos, desc string) Why {
	return Why{Pos: pos, Desc: desc, In: fn, OriginFn: fn, OriginPos: pos, OriginDesc: desc}
}

func via(fn *ssa.Function, pos token.Pos, desc string, callee *ssa.Function, w Why) Why {
	y := Why{Pos: pos, Desc: desc, Via: callee, In: fn, OriginFn: w.OriginFn, OriginPos: w.OriginPos, OriginDesc: w.OriginDesc}
	if y.OriginFn == nil { // contract of an external callee: the call site is the origin
		y.OriginFn, y.OriginPos, y.OriginDesc = fn, pos, desc
	}
	return y
}

// SRoot is a root in a summary's vocabulary.
type SRoot struct {
	Kind  RootKind // RParam, RGlobal or RFresh
	Idx   int
	Depth uint8 // 0: the memory the parameter points to; n: reached by n loads (MaxDepth: n or more)
	G     *ssa.Global
}

func (r SRoot) String() string {
	switch r.Kind {
	case RParam:
		if r.Depth > 0 {
			return fmt.Sprintf("memory reachable from param#%d (depth %d)", r.Idx, r.Depth)
		}
		return fmt.Sprintf("param#%d", r.Idx)
	case RGlobal:
		return "global " + r.G.Name()
	}
	return "fresh"
}

// WKey: a written root together with the type of the memory written ("*":
// unknown). The type lets a caller discard writes that cannot land in a given
// object (Go is type safe): a write of a big.Int cannot hit a []byte.
type WKey struct {
	Root SRoot
	T    string
}

// Summary of one function.
type Summary struct {
	Fn *ssa.Function
	// W: parameter roots (index; free variables follow the declared
	// parameters) whose memory the function may write.
	W map[WKey]Why
	// RA[j]: roots result j may alias (point into); RC[j]: roots reachable from
	// the contents of result j.
	RA []map[SRoot]Why
	RC []map[SRoot]Why
	// K: retentions: a reference into memory of [0] is stored into memory of [1].
	K map[[2]SRoot]Why
}

func newSummary(fn *ssa.Function, nres int) *Summary {
	s := &Summary{Fn: fn, W: map[WKey]Why{}, K: map[[2]SRoot]Why{}}
	s.RA = make([]map[SRoot]Why, nres)
	s.RC = make([]map[SRoot]Why, nres)
	for i := range s.RA {
		s.RA[i] = map[SRoot]Why{}
		s.RC[i] = map[SRoot]Why{}
	}
	return s
}

func (s *Summary) size() int {
	n := len(s.W) + len(s.K)
	for i := range s.RA {
		n += len(s.RA[i]) + len(s.RC[i])
	}
	return n
}

// WritesParam reports whether the function may write memory of parameter i
// (shallow and/or deep as requested) and why.
func (s *Summary) WritesParam(i int, shallow, deep bool) (Why, bool) {
	var best Why
	found := false
	for k, w := range s.W {
		if k.Root.Kind != RParam || k.Root.Idx != i {
			continue
		}
		if (k.Root.Depth > 0 && !deep) || (k.Root.Depth == 0 && !shallow) {
			continue
		}
		if !found || w.Pos < best.Pos || (w.Pos == best.Pos && w.Desc < best.Desc) {
			best, found = w, true
		}
	}
	return best, found
}

// Analysis is the whole-program result.
type Analysis struct {
	Prog     *core.Program
	Sum      map[*ssa.Function]*Summary
	units    map[*ssa.Function]*unit
	Assumed  map[string]int // external callees without contract that received tracked refs
	Rounds   int
	hasRefsC map[types.Type]bool
	contract map[string]*Summary
	reachC   map[string]*reachSet
	implC    map[string][]types.Type
}

type unit struct {
	a      *Analysis
	top    *ssa.Function
	fns    []*ssa.Function // top + nested closures
	inUnit map[*ssa.Function]bool
	roots  []root
	rootIx map[any]int32
	pts    map[ssa.Value]locset
	cont   map[loc]locset
	tup    map[tupKey]locset
	// effects recorded in unit-root vocabulary
	writes  map[writeKey]Why // (root, written type) -> why (non-fresh roots only)
	retains map[[2]int32]Why // from root -> to root
	edgeWhy map[int32]Why    // non-fresh root -> first store that put a reference to it into a fresh object
	cur     ssa.Instruction  // instruction being transferred
	wAt     map[ssa.Instruction]map[writeKey]struct{}
	compatC map[compatKey]bool
	changed bool
}

// Run analyses all module functions to a fixpoint.
func Run(p *core.Program) *Analysis {
	a := &Analysis{Prog: p, Sum: map[*ssa.Function]*Summary{}, units: map[*ssa.Function]*unit{},
		Assumed: map[string]int{}, hasRefsC: map[types.Type]bool{}, contract: map[string]*Summary{},
		reachC: map[string]*reachSet{}, implC: map[string][]types.Type{}}
	var tops []*ssa.Function
	for _, f := range p.SortedFuncs(core.Product, core.Generated, core.TestSupport) {
		if f.Parent() == nil {
			tops = append(tops, f)
		}
	}
	for _, f := range tops {
		u := &unit{a: a, top: f, inUnit: map[*ssa.Function]bool{}}
		var walk func(g *ssa.Function)
		walk = func(g *ssa.Function) {
			u.fns = append(u.fns, g)
			u.inUnit[g] = true
			a.units[g] = u
			a.Sum[g] = newSummary(g, g.Signature.Results().Len())
			for _, an := range g.AnonFuncs {
				walk(an)
			}
		}
		walk(f)
	}
	dirty := map[*unit]bool{}
	for _, f := range tops {
		dirty[a.units[f]] = true
	}
	unitCallers := map[*unit]map[*unit]bool{}
	cg := p.CallGraph()
	for fn, n := range cg.Nodes {
		cu := a.units[fn]
		if cu == nil {
			continue
		}
		for _, e := range n.In {
			if e.Caller == nil {
				continue
			}
			pu := a.units[e.Caller.Func]
			if pu == nil || pu == cu {
				continue
			}
			if unitCallers[cu] == nil {
				unitCallers[cu] = map[*unit]bool{}
			}
			unitCallers[cu][pu] = true
		}
	}
	for round := 0; len(dirty) > 0 && round < 80; round++ {
		a.Rounds = round + 1
		next := map[*unit]bool{}
		for _, f := range tops {
			u := a.units[f]
			if !dirty[u] {
				continue
			}
			before := 0
			for _, g := range u.fns {
				before += a.Sum[g].size()
			}
			u.solve()
			after := 0
			for _, g := range u.fns {
				after += a.Sum[g].size()
			}
			if after != before {
				for c := range unitCallers[u] {
					next[c] = true
				}
				next[u] = true // self recursion
			}
		}
		dirty = next
	}
	// free per-unit state except what queries need
	return a
}

// ---------------------------------------------------------------- type helpers

// HasRefs reports whether values of type t can carry references to mutable
// memory (strings are immutable and carry none).
func (a *Analysis) HasRefs(t types.Type) bool {
	if t == nil {
		return false
	}
	if v, ok := a.hasRefsC[t]; ok {
		return v
	}
	a.hasRefsC[t] = false // break cycles
	r := a.hasRefs1(t)
	a.hasRefsC[t] = r
	return r
}

func (a *Analysis) hasRefs1(t types.Type) bool {
	switch u := t.Underlying().(type) {
	case *types.Basic:
		return u.Kind() == types.UnsafePointer
	case *types.Pointer, *types.Slice, *types.Map, *types.Chan, *types.Signature, *types.Interface:
		return true
	case *types.Array:
		return a.HasRefs(u.Elem())
	case *types.Struct:
		for i := 0; i < u.NumFields(); i++ {
			if a.HasRefs(u.Field(i).Type()) {
				return true
			}
		}
		return false
	case *types.Tuple:
		for i := 0; i < u.Len(); i++ {
			if a.HasRefs(u.At(i).Type()) {
				return true
			}
		}
		return false
	}
	return true
}

// ---------------------------------------------------------------- unit solving

func (u *unit) rootOf(key any, r root) int32 {
	if ix, ok := u.rootIx[key]; ok {
		return ix
	}
	ix := int32(len(u.roots))
	u.roots = append(u.roots, r)
	u.rootIx[key] = ix
	return ix
}

type paramKey struct {
	fn    *ssa.Function
	i     int
	depth uint8
}

func (u *unit) paramRoot(fn *ssa.Function, i int, depth uint8) int32 {
	if fn == u.top {
		return u.rootOf(paramKey{fn, i, depth}, root{kind: RParam, idx: i, depth: depth})
	}
	return u.rootOf(paramKey{fn, i, depth}, root{kind: RCParam, idx: i, fn: fn, depth: depth})
}
func (u *unit) globalRoot(g *ssa.Global) int32 {
	return u.rootOf(g, root{kind: RGlobal, g: g})
}
func (u *unit) freshRoot(site ssa.Value) int32 {
	return u.rootOf(site, root{kind: RFresh, site: site})
}

func (u *unit) isFresh(r int32) bool { return u.roots[r].kind == RFresh }

// deepOf maps a non-fresh root to the root holding what is loaded from it.
func (u *unit) deepOf(r int32) int32 {
	rt := u.roots[r]
	switch rt.kind {
	case RParam, RCParam:
		if rt.depth >= MaxDepth {
			return r
		}
		fn := u.top
		if rt.kind == RCParam {
			fn = rt.fn
		}
		return u.paramRoot(fn, rt.idx, rt.depth+1)
	}
	return r
}

func (u *unit) get(v ssa.Value) locset { return u.pts[v] }

func (u *unit) set(v ssa.Value) locset {
	s, ok := u.pts[v]
	if !ok {
		s = locset{}
		u.pts[v] = s
	}
	return s
}

func (u *unit) addTo(v ssa.Value, l loc) {
	if !u.isFresh(l.root) && !u.compatible(l.root, v.Type()) {
		return
	}
	if u.set(v).add(l) {
		u.changed = true
	}
}
func (u *unit) addAllTo(v ssa.Value, s locset) {
	if len(s) == 0 {
		return
	}
	t := v.Type()
	if pointee(t) == nil {
		if u.set(v).addAll(s) {
			u.changed = true
		}
		return
	}
	dst := u.set(v)
	for l := range s {
		if !u.isFresh(l.root) && !u.compatible(l.root, t) {
			continue
		}
		if dst.add(l) {
			u.changed = true
		}
	}
}

// val returns the points-to set of an operand.
func (u *unit) val(v ssa.Value) locset {
	switch x := v.(type) {
	case *ssa.Global:
		return locset{loc{u.globalRoot(x), -1}: {}}
	case *ssa.Const, *ssa.Function, *ssa.Builtin:
		return nil
	}
	return u.pts[v]
}

// loadAll returns what is read through address set addrs, regardless of type.
func (u *unit) loadAll(addrs locset) locset {
	out := locset{}
	for l := range addrs {
		if u.isFresh(l.root) {
			if l.field >= 0 {
				out.addAll(u.cont[l])
				out.addAll(u.cont[loc{l.root, -1}])
			} else {
				for k, c := range u.cont {
					if k.root == l.root {
						out.addAll(c)
					}
				}
			}
		} else {
			out.add(loc{u.deepOf(l.root), -1})
		}
	}
	return out
}

// load returns what is read through addrs for a value of type t.
func (u *unit) load(addrs locset, t types.Type) locset {
	if !u.a.HasRefs(t) || len(addrs) == 0 {
		return nil
	}
	return u.loadAll(addrs)
}

// loadN returns what is reached from s by exactly n loads.
func (u *unit) loadN(s locset, n int) locset {
	for i := 0; i < n && len(s) > 0; i++ {
		s = u.loadAll(s)
	}
	return s
}

// deep returns everything reachable from s by one or more loads.
func (u *unit) deep(s locset) locset {
	out := locset{}
	work := u.loadAll(s)
	for len(work) > 0 {
		next := locset{}
		for l := range work {
			if out.add(l) {
				next.add(l)
			}
		}
		work = u.loadAll(next)
		for l := range work {
			if _, ok := out[l]; ok {
				delete(work, l)
			}
		}
	}
	return out
}

// reachRoots returns the roots of s and of everything reachable from it.
func (u *unit) reachRoots(s locset) map[int32]struct{} {
	seen := map[int32]struct{}{}
	for l := range s {
		seen[l.root] = struct{}{}
	}
	for l := range u.deep(s) {
		seen[l.root] = struct{}{}
	}
	return seen
}

type writeKey struct {
	r int32
	t string
}

// recordWrite notes a write of memory of type t ("*": unknown) in root r,
// unless r cannot contain memory of that type.
// sameParam: both roots belong to the same parameter (any depth) or are the
// same root.
func (u *unit) sameParam(a, b int32) bool {
	if a == b {
		return true
	}
	ra, rb := u.roots[a], u.roots[b]
	return ra.kind == rb.kind && (ra.kind == RParam || ra.kind == RCParam) && ra.idx == rb.idx && ra.fn == rb.fn
}

func (u *unit) recordWrite(r int32, t string, why Why) {
	if u.isFresh(r) {
		return
	}
	if t != "*" && !u.rootMayHold(r, t) {
		return
	}
	k := writeKey{r, t}
	if u.cur != nil {
		m := u.wAt[u.cur]
		if m == nil {
			m = map[writeKey]struct{}{}
			u.wAt[u.cur] = m
		}
		m[k] = struct{}{}
	}
	if _, ok := u.writes[k]; !ok {
		u.writes[k] = why
		u.changed = true
	}
}

// writtenType is the type key of the memory an address-like value points to.
func writtenType(v ssa.Value) string {
	if v == nil {
		return "*"
	}
	// a store through &x.f writes (part of) the struct x points to: the struct
	// type identifies the object far better than the field's type
	if fa, ok := v.(*ssa.FieldAddr); ok {
		if pt := pointee(fa.X.Type()); pt != nil {
			if _, isNamed := types.Unalias(pt).(*types.Named); isNamed {
				return typeKey(pt)
			}
		}
	}
	if pt := pointee(v.Type()); pt != nil {
		return typeKey(pt)
	}
	return "*"
}

// store models *addr = val (val may be nil for a reference-free value); t is
// the type key of the written memory ("": do not record a write, the caller
// accounts for it separately).
func (u *unit) store(addrs, val locset, refs bool, t string, why Why) {
	refs = refs && len(val) > 0
	for l := range addrs {
		if u.isFresh(l.root) {
			if refs {
				c := u.cont[l]
				if c == nil {
					c = locset{}
					u.cont[l] = c
				}
				if c.addAll(val) {
					u.changed = true
				}
				u.noteEdges(val, why)
			}
			continue
		}
		if t != "" {
			u.recordWrite(l.root, t, why)
		}
		if refs {
			for r := range u.reachRoots(val) {
				if u.isFresh(r) || u.sameParam(r, l.root) {
					continue
				}
				k := [2]int32{r, l.root}
				if _, ok := u.retains[k]; !ok {
					u.retains[k] = why
					u.changed = true
				}
			}
		}
	}
}

// noteEdges remembers the first store that placed a reference to non-fresh
// memory into a fresh object (the origin of a retention).
func (u *unit) noteEdges(val locset, why Why) {
	for l := range val {
		if u.isFresh(l.root) {
			continue
		}
		if old, ok := u.edgeWhy[l.root]; !ok || (why.Pos.IsValid() && why.Pos < old.Pos) {
			u.edgeWhy[l.root] = why
		}
	}
}

func (u *unit) solve() {
	u.roots = nil
	u.rootIx = map[any]int32{}
	u.pts = map[ssa.Value]locset{}
	u.cont = map[loc]locset{}
	u.tup = map[tupKey]locset{}
	u.writes = map[writeKey]Why{}
	u.retains = map[[2]int32]Why{}
	u.edgeWhy = map[int32]Why{}
	u.compatC = map[compatKey]bool{}
	u.wAt = map[ssa.Instruction]map[writeKey]struct{}{}
	for _, fn := range u.fns {
		for i, p := range fn.Params {
			if u.a.HasRefs(p.Type()) {
				u.set(p).add(loc{u.paramRoot(fn, i, 0), -1})
			}
		}
		// free variables: parameters after the declared ones (bound-method wrappers,
		// and closures invoked from elsewhere, e.g. through a registry)
		for j, fv := range fn.FreeVars {
			if u.a.HasRefs(fv.Type()) {
				u.set(fv).add(loc{u.paramRoot(fn, len(fn.Params)+j, 0), -1})
			}
		}
	}
	for iter := 0; iter < 60; iter++ {
		u.changed = false
		for _, fn := range u.fns {
			for _, b := range fn.Blocks {
				for _, ins := range b.Instrs {
					u.cur = ins
					u.transfer(fn, ins)
				}
			}
		}
		if !u.changed {
			break
		}
	}
	u.summarise()
}

func isString(t types.Type) bool {
	b, ok := t.Underlying().(*types.Basic)
	return ok && b.Info()&types.IsString != 0
}

func (u *unit) transfer(fn *ssa.Function, ins ssa.Instruction) {
	switch x := ins.(type) {
	case *ssa.Alloc:
		u.addTo(x, loc{u.freshRoot(x), -1})
	case *ssa.MakeSlice:
		u.addTo(x, loc{u.freshRoot(x), -1})
	case *ssa.MakeMap:
		u.addTo(x, loc{u.freshRoot(x), -1})
	case *ssa.MakeChan:
		u.addTo(x, loc{u.freshRoot(x), -1})
	case *ssa.MakeClosure:
		g := x.Fn.(*ssa.Function)
		for j, b := range x.Bindings {
			bs := u.val(b)
			u.addAllTo(x, bs)
			if u.inUnit[g] && j < len(g.FreeVars) {
				u.addAllTo(g.FreeVars[j], bs)
			}
		}
	case *ssa.MakeInterface:
		u.addAllTo(x, u.val(x.X))
	case *ssa.ChangeInterface:
		u.addAllTo(x, u.val(x.X))
	case *ssa.ChangeType:
		u.addAllTo(x, u.val(x.X))
	case *ssa.Convert:
		from, to := isString(x.X.Type()), isString(x.Type())
		switch {
		case to:
		case from:
			if u.a.HasRefs(x.Type()) {
				u.addTo(x, loc{u.freshRoot(x), -1})
			}
		default:
			u.addAllTo(x, u.val(x.X))
		}
	case *ssa.SliceToArrayPointer:
		u.addAllTo(x, u.val(x.X))
	case *ssa.TypeAssert:
		if u.a.HasRefs(x.Type()) {
			u.addAllTo(x, u.val(x.X))
		}
	case *ssa.Extract:
		if u.a.HasRefs(x.Type()) {
			u.addAllTo(x, u.extract(x.Tuple, x.Index))
		}
	case *ssa.Phi:
		for _, e := range x.Edges {
			u.addAllTo(x, u.val(e))
		}
	case *ssa.Select:
		for _, st := range x.States {
			if st.Send != nil {
				u.store(u.val(st.Chan), u.val(st.Send), u.a.HasRefs(st.Send.Type()), "*", direct(fn, x.Pos(), "channel send"))
			} else {
				u.addAllTo(x, u.loadAll(u.val(st.Chan)))
			}
		}
	case *ssa.FieldAddr:
		for l := range u.val(x.X) {
			if l.field < 0 && u.isFresh(l.root) {
				u.addTo(x, loc{l.root, int16(x.Field)})
			} else {
				u.addTo(x, l)
			}
		}
	case *ssa.Field:
		if u.a.HasRefs(x.Type()) {
			u.addAllTo(x, u.val(x.X))
		}
	case *ssa.IndexAddr:
		u.addAllTo(x, u.val(x.X))
	case *ssa.Index:
		if u.a.HasRefs(x.Type()) {
			u.addAllTo(x, u.val(x.X))
		}
	case *ssa.Slice:
		if !isString(x.X.Type()) {
			u.addAllTo(x, u.val(x.X))
		}
	case *ssa.Lookup:
		if _, isMap := x.X.Type().Underlying().(*types.Map); isMap {
			u.addAllTo(x, u.load(u.val(x.X), x.Type()))
		}
	case *ssa.Range:
		u.addAllTo(x, u.val(x.X))
	case *ssa.Next:
		if !x.IsString {
			u.addAllTo(x, u.load(u.val(x.Iter), x.Type()))
		}
	case *ssa.UnOp:
		if x.Op == token.MUL || x.Op == token.ARROW {
			u.addAllTo(x, u.load(u.val(x.X), x.Type()))
		}
	case *ssa.Store:
		// c := *k; c.f = fresh: a whole-struct copy into a fresh local whose field f is
		// overwritten right afterwards (same block, before any other use of the
		// local) does not leave the copied reference in f — a strong update of f
		if al, ok := x.Addr.(*ssa.Alloc); ok {
			if st, isSt := x.Val.Type().Underlying().(*types.Struct); isSt {
				if killed := overwrittenFields(x, al); len(killed) > 0 {
					val := u.val(x.Val)
					why := direct(fn, x.Pos(), "store to "+Describe(x.Addr))
					for l := range u.val(x.Addr) {
						if !u.isFresh(l.root) || l.field >= 0 {
							u.store(locset{l: {}}, val, u.a.HasRefs(x.Val.Type()), writtenType(x.Addr), why)
							continue
						}
						for i := 0; i < st.NumFields(); i++ {
							if killed[i] || !u.a.HasRefs(st.Field(i).Type()) {
								continue
							}
							u.store(locset{loc{l.root, int16(i)}: {}}, val, true, "", why)
						}
					}
					break
				}
			}
		}
		u.store(u.val(x.Addr), u.val(x.Val), u.a.HasRefs(x.Val.Type()), writtenType(x.Addr), direct(fn, x.Pos(), "store to "+Describe(x.Addr)))
	case *ssa.MapUpdate:
		why := direct(fn, x.Pos(), "map update of "+Describe(x.Map))
		vs := locset{}
		vs.addAll(u.val(x.Key))
		vs.addAll(u.val(x.Value))
		u.store(u.val(x.Map), vs, true, typeKey(x.Map.Type()), why)
	case *ssa.Send:
		u.store(u.val(x.Chan), u.val(x.X), u.a.HasRefs(x.X.Type()), "*", direct(fn, x.Pos(), "channel send"))
	case *ssa.Call:
		u.call(fn, x, x)
	case *ssa.Defer:
		u.call(fn, x, nil)
	case *ssa.Go:
		u.call(fn, x, nil)
	}
}

// overwrittenFields: the fields of the local al that are stored to after the
// whole-struct store st, in st's block, before any use of al other than taking
// a field address that is only stored to.
func overwrittenFields(st *ssa.Store, al *ssa.Alloc) map[int]bool {
	killed := map[int]bool{}
	instrs := st.Block().Instrs
	start := -1
	for i, ins := range instrs {
		if ins == ssa.Instruction(st) {
			start = i
		}
	}
	if start < 0 {
		return nil
	}
	pending := map[*ssa.FieldAddr]bool{}
	for _, ins := range instrs[start+1:] {
		if fa, ok := ins.(*ssa.FieldAddr); ok && fa.X == ssa.Value(al) {
			onlyStores := true
			for _, ref := range *fa.Referrers() {
				if s2, isS := ref.(*ssa.Store); !isS || s2.Addr != ssa.Value(fa) {
					onlyStores = false
				}
			}
			if !onlyStores {
				break
			}
			pending[fa] = true
			continue
		}
		if s2, ok := ins.(*ssa.Store); ok {
			if fa, isFA := s2.Addr.(*ssa.FieldAddr); isFA && pending[fa] {
				killed[fa.Field] = true
				continue
			}
		}
		// any other instruction mentioning the local ends the window
		uses := false
		for _, op := range ins.Operands(nil) {
			if *op == ssa.Value(al) {
				uses = true
			}
		}
		if uses {
			break
		}
	}
	return killed
}

// extract returns the pts of component idx of a tuple value.
func (u *unit) extract(t ssa.Value, idx int) locset {
	if c, ok := t.(*ssa.Call); ok {
		return u.tup[tupKey{c, idx}]
	}
	return u.get(t)
}

type tupKey struct {
	c   *ssa.Call
	idx int
}

// Describe renders an SSA value for diagnostics.
func Describe(v ssa.Value) string {
	switch x := v.(type) {
	case *ssa.FieldAddr:
		st := x.X.Type().Underlying().(*types.Pointer).Elem().Underlying().(*types.Struct)
		return Describe(x.X) + "." + st.Field(x.Field).Name()
	case *ssa.Field:
		st := x.X.Type().Underlying().(*types.Struct)
		return Describe(x.X) + "." + st.Field(x.Field).Name()
	case *ssa.IndexAddr:
		return Describe(x.X) + "[…]"
	case *ssa.Parameter:
		return x.Name()
	case *ssa.FreeVar:
		return x.Name()
	case *ssa.Global:
		return x.Name()
	case *ssa.UnOp:
		if x.Op == token.MUL {
			return Describe(x.X)
		}
	case *ssa.Slice:
		return Describe(x.X) + "[:]"
	case *ssa.Alloc:
		if x.Comment != "" {
			return x.Comment
		}
	case *ssa.Call:
		if c := x.Call.StaticCallee(); c != nil {
			return c.Name() + "(…)"
		}
		if x.Call.Method != nil {
			return x.Call.Method.Name() + "(…)"
		}
		if b, ok := x.Call.Value.(*ssa.Builtin); ok {
			return b.Name() + "(…)"
		}
	case *ssa.Extract:
		return Describe(x.Tuple)
	case *ssa.Phi:
		if x.Comment != "" {
			return x.Comment
		}
	case *ssa.ChangeType:
		return Describe(x.X)
	case *ssa.MakeInterface:
		return Describe(x.X)
	}
	n := v.Name()
	if t := v.Type(); t != nil {
		return n + ":" + shortType(t)
	}
	return n
}

func shortType(t types.Type) string {
	s := types.TypeString(t, func(p *types.Package) string { return p.Name() })
	if len(s) > 40 {
		s = s[:40] + "…"
	}
	return s
}

// ---------------------------------------------------------------- summaries

func (u *unit) sroot(r int32, fn *ssa.Function) (SRoot, bool) {
	rt := u.roots[r]
	switch rt.kind {
	case RGlobal:
		return SRoot{Kind: RGlobal, G: rt.g}, true
	case RFresh:
		return SRoot{Kind: RFresh}, true
	case RParam:
		if fn == u.top {
			return SRoot{Kind: RParam, Idx: rt.idx, Depth: rt.depth}, true
		}
	case RCParam:
		if rt.fn == fn {
			return SRoot{Kind: RParam, Idx: rt.idx, Depth: rt.depth}, true
		}
	}
	return SRoot{}, false
}

func (u *unit) summarise() {
	for _, fn := range u.fns {
		s := u.a.Sum[fn]
		for wk, why := range u.writes {
			if fn != u.top && !within(why.In, fn) {
				continue // a closure's summary holds only the effects of its own body
			}
			if sr, ok := u.sroot(wk.r, fn); ok && sr.Kind != RFresh {
				k := WKey{sr, wk.t}
				if _, ok := s.W[k]; !ok {
					s.W[k] = why
				}
			}
		}
		for k, why := range u.retains {
			if fn != u.top && !within(why.In, fn) {
				continue
			}
			from, ok1 := u.sroot(k[0], fn)
			to, ok2 := u.sroot(k[1], fn)
			if !ok1 || !ok2 {
				continue
			}
			kk := [2]SRoot{from, to}
			if _, ok := s.K[kk]; !ok {
				s.K[kk] = why
			}
		}
		for _, b := range fn.Blocks {
			if len(b.Instrs) == 0 {
				continue
			}
			ret, ok := b.Instrs[len(b.Instrs)-1].(*ssa.Return)
			if !ok {
				continue
			}
			for j, rv := range ret.Results {
				if j >= len(s.RA) || !u.a.HasRefs(rv.Type()) {
					continue
				}
				vs := u.val(rv)
				why := direct(fn, ret.Pos(), "return "+Describe(rv))
				for l := range vs {
					sr, ok := u.sroot(l.root, fn)
					if !ok {
						sr = SRoot{Kind: RFresh}
					}
					if _, ok := s.RA[j][sr]; !ok {
						s.RA[j][sr] = why
					}
				}
				for l := range u.deep(vs) {
					if u.isFresh(l.root) {
						continue
					}
					if sr, ok := u.sroot(l.root, fn); ok {
						if _, ok := s.RC[j][sr]; !ok {
							w := why
							if ew, ok := u.edgeWhy[l.root]; ok {
								w = ew
							} else if rt := u.roots[l.root]; rt.depth > 0 {
								for d := int(rt.depth) - 1; d >= 0; d-- {
									if ew, ok := u.edgeWhy[u.paramRoot(fnOfRoot(u, rt), rt.idx, uint8(d))]; ok {
										w = ew
										break
									}
								}
							}
							s.RC[j][sr] = w
						}
					}
				}
			}
		}
	}
}

func fnOfRoot(u *unit, rt root) *ssa.Function {
	if rt.kind == RCParam {
		return rt.fn
	}
	return u.top
}

// within reports whether g is fn or nested inside it.
func within(g, fn *ssa.Function) bool {
	for ; g != nil; g = g.Parent() {
		if g == fn {
			return true
		}
	}
	return false
}

// WriteAt describes memory an instruction may write, in the vocabulary of the
// top-level function of its unit (Kind RCParam: parameter Idx of closure Fn).
type WriteAt struct {
	Root SRoot
	Fn   *ssa.Function
	T    string
}

func (u *unit) xroot(r int32) (SRoot, *ssa.Function) {
	rt := u.roots[r]
	switch rt.kind {
	case RGlobal:
		return SRoot{Kind: RGlobal, G: rt.g}, nil
	case RFresh:
		return SRoot{Kind: RFresh}, nil
	case RCParam:
		return SRoot{Kind: RCParam, Idx: rt.idx, Depth: rt.depth}, rt.fn
	}
	return SRoot{Kind: RParam, Idx: rt.idx, Depth: rt.depth}, nil
}

// WritesAt lists the non-fresh memory instruction ins may write (directly or
// through its callee).
func (a *Analysis) WritesAt(ins ssa.Instruction) []WriteAt {
	fn := ins.Parent()
	u := a.units[fn]
	if u == nil {
		return nil
	}
	var out []WriteAt
	for k := range u.wAt[ins] {
		sr, f := u.xroot(k.r)
		out = append(out, WriteAt{sr, f, k.t})
	}
	sort.Slice(out, func(i, j int) bool {
		if out[i].Root.String() != out[j].Root.String() {
			return out[i].Root.String() < out[j].Root.String()
		}
		return out[i].T < out[j].T
	})
	return out
}

// PT is one element of a points-to set: a root and, for fresh roots, the
// allocating instruction.
type PT struct {
	Root SRoot
	Fn   *ssa.Function
	Site ssa.Value
}

// PointsTo returns the points-to set of v (a value of function fn).
func (a *Analysis) PointsTo(fn *ssa.Function, v ssa.Value) []PT {
	u := a.units[fn]
	if u == nil {
		return nil
	}
	var out []PT
	for l := range u.val(v) {
		sr, f := u.xroot(l.root)
		out = append(out, PT{sr, f, u.roots[l.root].site})
	}
	return out
}

// MayAlias reports whether two values of fn may point into the same object.
func (a *Analysis) MayAlias(fn *ssa.Function, x, y ssa.Value) bool {
	u := a.units[fn]
	if u == nil {
		return true
	}
	xs, ys := u.val(x), u.val(y)
	for l := range xs {
		for m := range ys {
			if l.root == m.root {
				return true
			}
		}
	}
	return false
}
