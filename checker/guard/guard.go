// Package guard is engine C: dominance facts, path enumeration with branch
// facts, must-pass-through and reachability queries over go/ssa functions.
package guard

import (
	"go/constant"
	"go/token"
	"go/types"

	"golang.org/x/tools/go/ssa"
)

// Fact: branch condition Cond is known to be True (or false).
type Fact struct {
	Cond ssa.Value
	True bool
}

// edgeFact returns the fact established by taking the edge from b to succ.
func edgeFact(b, succ *ssa.BasicBlock) (Fact, bool) {
	if len(b.Instrs) == 0 {
		return Fact{}, false
	}
	iff, ok := b.Instrs[len(b.Instrs)-1].(*ssa.If)
	if !ok || len(b.Succs) != 2 || b.Succs[0] == b.Succs[1] {
		return Fact{}, false
	}
	c, t := iff.Cond, succ == b.Succs[0]
	for {
		u, ok := c.(*ssa.UnOp)
		if !ok || u.Op != token.NOT {
			break
		}
		c, t = u.X, !t
	}
	return Fact{c, t}, true
}

// BlockFacts returns the branch facts that hold whenever control reaches b:
// for every dominating If one of whose successor edges (alone) dominates b.
func BlockFacts(b *ssa.BasicBlock) []Fact {
	var out []Fact
	for d := b; d != nil; d = d.Idom() {
		id := d.Idom()
		if id == nil {
			break
		}
		// find which edge of id leads (uniquely) to d's dominator subtree
		if len(id.Succs) == 2 && id.Succs[0] != id.Succs[1] {
			for _, s := range id.Succs {
				if s == d && len(s.Preds) == 1 {
					if f, ok := edgeFact(id, s); ok {
						out = append(out, f)
					}
				}
			}
		}
	}
	// the idom chain only sees edges into immediate children; also consider
	// dominating blocks whose single-pred successor dominates b
	seen := map[Fact]bool{}
	for _, f := range out {
		seen[f] = true
	}
	for _, d := range b.Parent().Blocks {
		if len(d.Succs) != 2 || d.Succs[0] == d.Succs[1] || !d.Dominates(b) {
			continue
		}
		for _, s := range d.Succs {
			if len(s.Preds) == 1 && s.Dominates(b) {
				if f, ok := edgeFact(d, s); ok && !seen[f] {
					seen[f] = true
					out = append(out, f)
				}
			}
		}
	}
	// a && b / a || b evaluated as a value (tagless switch cases, assignments)
	// become a phi of booleans; decode what a definite verdict of it implies
	for i := 0; i < len(out) && len(out) < 64; i++ {
		for _, f := range ExpandLogical(out[i]) {
			if !seen[f] {
				seen[f] = true
				out = append(out, f)
			}
		}
	}
	return out
}

// ExpandLogical: f's condition is the phi go/ssa builds for `a && b` (edges:
// false from every short-circuit exit, b from the last operand's block) or
// `a || b` (true …, b). A true && (false ||) verdict means control came
// through the last operand's block with that operand true (false): the facts
// of that block hold, and so does the operand's verdict.
func ExpandLogical(f Fact) []Fact {
	phi, ok := f.Cond.(*ssa.Phi)
	if !ok || len(phi.Edges) < 2 {
		return nil
	}
	if bt, isB := phi.Type().Underlying().(*types.Basic); !isB || bt.Kind() != types.Bool {
		return nil
	}
	var last ssa.Value
	lastIdx := -1
	nConst := 0
	var constVal bool
	for i, e := range phi.Edges {
		if cb, isC := ConstBool(e); isC {
			if nConst > 0 && cb != constVal {
				return nil
			}
			constVal = cb
			nConst++
			continue
		}
		if last != nil {
			return nil
		}
		last, lastIdx = e, i
	}
	if last == nil || nConst == 0 || constVal == f.True {
		// && yields facts only when true (constants are false); || only when false
		return nil
	}
	pred := phi.Block().Preds[lastIdx]
	c, t := last, f.True
	for {
		u, isU := c.(*ssa.UnOp)
		if !isU || u.Op != token.NOT {
			break
		}
		c, t = u.X, !t
	}
	out := []Fact{{c, t}}
	out = append(out, BlockFacts(pred)...)
	return out
}

// InstrFacts: facts holding at an instruction.
func InstrFacts(ins ssa.Instruction) []Fact { return BlockFacts(ins.Block()) }

// Path is an acyclic CFG path with the branch facts collected along it.
type Path struct {
	Blocks []*ssa.BasicBlock
	Facts  []Fact
}

// Has reports whether the path passes through block b.
func (p *Path) Has(b *ssa.BasicBlock) bool {
	for _, x := range p.Blocks {
		if x == b {
			return true
		}
	}
	return false
}

// PathsTo enumerates the acyclic paths from the function entry to target
// (each block at most once per path). ok is false when more than max paths
// exist.
func PathsTo(target *ssa.BasicBlock, max int) (paths []Path, ok bool) {
	fn := target.Parent()
	if len(fn.Blocks) == 0 {
		return nil, true
	}
	// blocks from which target is reachable
	canReach := map[*ssa.BasicBlock]bool{target: true}
	for changed := true; changed; {
		changed = false
		for _, b := range fn.Blocks {
			if canReach[b] {
				continue
			}
			for _, s := range b.Succs {
				if canReach[s] {
					canReach[b] = true
					changed = true
					break
				}
			}
		}
	}
	ok = true
	var blocks []*ssa.BasicBlock
	var facts []Fact
	on := map[*ssa.BasicBlock]bool{}
	var dfs func(b *ssa.BasicBlock)
	dfs = func(b *ssa.BasicBlock) {
		if !ok {
			return
		}
		blocks = append(blocks, b)
		on[b] = true
		defer func() { blocks = blocks[:len(blocks)-1]; on[b] = false }()
		if b == target {
			if len(paths) >= max {
				ok = false
				return
			}
			paths = append(paths, Path{append([]*ssa.BasicBlock{}, blocks...), append([]Fact{}, facts...)})
			return
		}
		for _, s := range b.Succs {
			if on[s] || !canReach[s] {
				continue
			}
			n := len(facts)
			if f, has := edgeFact(b, s); has {
				facts = append(facts, f)
				// a boolean phi (a && b / a || b as a value): on this path it equals the
				// operand of the edge the path came through
				if phi, isPhi := f.Cond.(*ssa.Phi); isPhi {
					pb := phi.Block()
					for i := len(blocks) - 1; i > 0; i-- {
						if blocks[i] == pb {
							for j, pr := range pb.Preds {
								if pr == blocks[i-1] && j < len(phi.Edges) {
									c, t := phi.Edges[j], f.True
									for {
										u, isU := c.(*ssa.UnOp)
										if !isU || u.Op != token.NOT {
											break
										}
										c, t = u.X, !t
									}
									if _, isC := c.(*ssa.Const); !isC {
										facts = append(facts, Fact{c, t})
									}
								}
							}
							break
						}
					}
				}
			}
			dfs(s)
			facts = facts[:n]
		}
	}
	dfs(fn.Blocks[0])
	return paths, ok
}

// Reaches reports whether control can flow from instruction a to instruction
// b (a executes, later b executes), within one function.
func Reaches(a, b ssa.Instruction) bool {
	ba, bb := a.Block(), b.Block()
	if ba == bb {
		ia, ib := -1, -1
		for i, ins := range ba.Instrs {
			if ins == a {
				ia = i
			}
			if ins == b {
				ib = i
			}
		}
		if ia < ib {
			return true
		}
		// fall through: via a cycle
	}
	seen := map[*ssa.BasicBlock]bool{}
	stack := append([]*ssa.BasicBlock{}, ba.Succs...)
	for len(stack) > 0 {
		x := stack[len(stack)-1]
		stack = stack[:len(stack)-1]
		if seen[x] {
			continue
		}
		seen[x] = true
		if x == bb {
			return true
		}
		stack = append(stack, x.Succs...)
	}
	return false
}

// Returns lists the Return instructions of fn.
func Returns(fn *ssa.Function) []*ssa.Return {
	var out []*ssa.Return
	for _, b := range fn.Blocks {
		if len(b.Instrs) == 0 {
			continue
		}
		if r, ok := b.Instrs[len(b.Instrs)-1].(*ssa.Return); ok {
			out = append(out, r)
		}
	}
	return out
}

// Strip removes value-preserving wrappers.
func Strip(v ssa.Value) ssa.Value {
	for {
		switch x := v.(type) {
		case *ssa.ChangeType:
			v = x.X
		case *ssa.ChangeInterface:
			v = x.X
		case *ssa.MakeInterface:
			v = x.X
		case *ssa.Convert:
			// only integer/identity conversions preserve the value's meaning
			if _, ok := x.X.Type().Underlying().(*types.Basic); ok {
				if _, ok2 := x.Type().Underlying().(*types.Basic); ok2 {
					v = x.X
					continue
				}
			}
			return v
		default:
			return v
		}
	}
}

// CallOf returns the call a value is a result of (directly or by Extract)
// and the result index.
func CallOf(v ssa.Value) (*ssa.Call, int) {
	v = Strip(v)
	switch x := v.(type) {
	case *ssa.Call:
		return x, 0
	case *ssa.Extract:
		if c, ok := x.Tuple.(*ssa.Call); ok {
			return c, x.Index
		}
	}
	return nil, 0
}

// IsNilConst reports whether v is the constant nil.
func IsNilConst(v ssa.Value) bool {
	c, ok := v.(*ssa.Const)
	return ok && c.Value == nil
}

// ConstInt returns the integer value of a constant.
func ConstInt(v ssa.Value) (int64, bool) {
	c, ok := Strip(v).(*ssa.Const)
	if !ok || c.Value == nil {
		return 0, false
	}
	if c.Value.Kind() != constant.Int {
		return 0, false
	}
	return c.Int64(), true
}

// ConstBool returns the boolean value of a constant.
func ConstBool(v ssa.Value) (bool, bool) {
	c, ok := v.(*ssa.Const)
	if !ok || c.Value == nil || c.Value.Kind() != constant.Bool {
		return false, false
	}
	return constant.BoolVal(c.Value), true
}

// Cmp decomposes a comparison fact into (op, x, y) with the polarity applied:
// for a false fact the operator is negated.
func Cmp(f Fact) (op token.Token, x, y ssa.Value, ok bool) {
	b, isBin := f.Cond.(*ssa.BinOp)
	if !isBin {
		return 0, nil, nil, false
	}
	op = b.Op
	switch op {
	case token.EQL, token.NEQ, token.LSS, token.LEQ, token.GTR, token.GEQ:
	default:
		return 0, nil, nil, false
	}
	if !f.True {
		op = map[token.Token]token.Token{token.EQL: token.NEQ, token.NEQ: token.EQL, token.LSS: token.GEQ, token.GEQ: token.LSS, token.GTR: token.LEQ, token.LEQ: token.GTR}[op]
	}
	return op, b.X, b.Y, true
}

// ErrNilFact: the fact says "the error result of call c is nil" (isNil) or
// non-nil.
func ErrNilFact(f Fact) (c *ssa.Call, isNil bool, ok bool) {
	op, x, y, isCmp := Cmp(f)
	if !isCmp || (op != token.EQL && op != token.NEQ) {
		return nil, false, false
	}
	var v ssa.Value
	switch {
	case IsNilConst(y):
		v = x
	case IsNilConst(x):
		v = y
	default:
		return nil, false, false
	}
	if !isErrorType(v.Type()) {
		return nil, false, false
	}
	call, _ := CallOf(v)
	if call == nil {
		return nil, false, false
	}
	return call, op == token.EQL, true
}

func isErrorType(t types.Type) bool {
	n, ok := t.(*types.Named)
	return ok && n.Obj().Pkg() == nil && n.Obj().Name() == "error"
}

// IsErrorType reports whether t is the predeclared error type.
func IsErrorType(t types.Type) bool { return isErrorType(t) }

// BoolCallFact: the fact says "boolean call c returned val".
func BoolCallFact(f Fact) (c *ssa.Call, val bool, ok bool) {
	if call, isCall := f.Cond.(*ssa.Call); isCall {
		return call, f.True, true
	}
	if op, x, y, isCmp := Cmp(f); isCmp && (op == token.EQL || op == token.NEQ) {
		if call, isCall := x.(*ssa.Call); isCall {
			if b, okb := ConstBool(y); okb {
				return call, b == (op == token.EQL), true
			}
		}
	}
	return nil, false, false
}

// ErrOperand returns the error-typed last result of a return, if any.
func ErrOperand(r *ssa.Return) ssa.Value {
	if len(r.Results) == 0 {
		return nil
	}
	v := r.Results[len(r.Results)-1]
	if isErrorType(v.Type()) {
		return v
	}
	return nil
}

// DefinitelyFails reports whether the return's error operand is definitely
// non-nil: a fresh error (fmt.Errorf, errors.New, a composite/MakeInterface),
// a package-level error variable, or a value known non-nil by a dominating
// fact.
func DefinitelyFails(r *ssa.Return) bool {
	e := ErrOperand(r)
	if e == nil {
		return false
	}
	return nonNilErr(e, BlockFacts(r.Block()), 0)
}

func nonNilErr(e ssa.Value, facts []Fact, depth int) bool {
	if depth > 4 {
		return false
	}
	switch x := e.(type) {
	case *ssa.Const:
		return false
	case *ssa.MakeInterface:
		return true
	case *ssa.Call:
		if c := x.Call.StaticCallee(); c != nil {
			switch c.String() {
			case "fmt.Errorf", "errors.New", "errors.Join":
				return true
			}
			// a helper whose every return hands back a definitely non-nil error
			// (func (m *T) failure() error { log(); return fmt.Errorf(…) })
			if c.Blocks != nil && depth < 3 && c.Signature.Results().Len() == 1 {
				all, n := true, 0
				for _, ret := range Returns(c) {
					n++
					if len(ret.Results) != 1 || !nonNilErr(ret.Results[0], BlockFacts(ret.Block()), depth+1) {
						all = false
					}
				}
				if all && n > 0 {
					return true
				}
			}
		}
	case *ssa.UnOp:
		if x.Op == token.MUL {
			if _, ok := x.X.(*ssa.Global); ok {
				return true // package-level error variable
			}
		}
	case *ssa.Phi:
		for _, ed := range x.Edges {
			if !nonNilErr(ed, nil, depth+1) {
				goto facts
			}
		}
		return true
	}
facts:
	for _, f := range facts {
		op, a, b, ok := Cmp(f)
		if !ok || op != token.NEQ {
			continue
		}
		if (IsNilConst(b) && SameValue(a, e)) || (IsNilConst(a) && SameValue(b, e)) {
			return true
		}
	}
	return false
}

// SuccessReturns lists returns that may signal success (error operand not
// definitely non-nil; functions without an error result: all returns).
func SuccessReturns(fn *ssa.Function) []*ssa.Return {
	var out []*ssa.Return
	for _, r := range Returns(fn) {
		if !DefinitelyFails(r) {
			out = append(out, r)
		}
	}
	return out
}

// FieldOf: v is a load of a struct field (x.f through a pointer, or a field of
// a struct value); returns the base and the field name.
func FieldOf(v ssa.Value) (base ssa.Value, field string, ok bool) {
	v = Strip(v)
	switch x := v.(type) {
	case *ssa.UnOp:
		if x.Op != token.MUL {
			return nil, "", false
		}
		if fa, isFA := x.X.(*ssa.FieldAddr); isFA {
			st := fa.X.Type().Underlying().(*types.Pointer).Elem().Underlying().(*types.Struct)
			return fa.X, st.Field(fa.Field).Name(), true
		}
	case *ssa.Field:
		st := x.X.Type().Underlying().(*types.Struct)
		return x.X, st.Field(x.Field).Name(), true
	}
	return nil, "", false
}

// StoreField: ins stores to field f of the struct base points to.
func StoreField(ins ssa.Instruction) (base ssa.Value, field string, val ssa.Value, ok bool) {
	st, isStore := ins.(*ssa.Store)
	if !isStore {
		return nil, "", nil, false
	}
	fa, isFA := st.Addr.(*ssa.FieldAddr)
	if !isFA {
		return nil, "", nil, false
	}
	s := fa.X.Type().Underlying().(*types.Pointer).Elem().Underlying().(*types.Struct)
	return fa.X, s.Field(fa.Field).Name(), st.Val, true
}

// CalleeName returns the static callee's full name, or the interface method's
// full name for invoke-mode calls, or "".
func CalleeName(c *ssa.CallCommon) string {
	if c.IsInvoke() {
		return c.Method.FullName()
	}
	if f := c.StaticCallee(); f != nil {
		if o := f.Origin(); o != nil {
			return o.String()
		}
		return f.String()
	}
	if b, ok := c.Value.(*ssa.Builtin); ok {
		return b.Name()
	}
	return ""
}

// SameValue reports whether a and b denote the same runtime value: the same
// SSA value, loads of the same closure cell (a captured variable that the
// closure never stores to), or two loads of the same field of the same
// pointer with no store to that field and no call taking the pointer in
// between.
func SameValue(a, b ssa.Value) bool {
	a, b = Strip(a), Strip(b)
	if a == b {
		return true
	}
	ua, ok1 := a.(*ssa.UnOp)
	ub, ok2 := b.(*ssa.UnOp)
	if !ok1 || !ok2 || ua.Op != token.MUL || ub.Op != token.MUL {
		return false
	}
	if fa, ok := ua.X.(*ssa.FreeVar); ok && ub.X == ssa.Value(fa) {
		// no store through the cell inside this closure
		for _, ref := range *fa.Referrers() {
			if st, ok := ref.(*ssa.Store); ok && st.Addr == ssa.Value(fa) {
				return false
			}
		}
		return true
	}
	// two loads of the same slice element s[i] with no store to an element of a
	// slice of that type and no call taking the slice in between
	if ia, ok := ua.X.(*ssa.IndexAddr); ok {
		ib, ok2 := ub.X.(*ssa.IndexAddr)
		if !ok2 || !(Strip(ia.X) == Strip(ib.X) || SameValue(ia.X, ib.X)) || !(Strip(ia.Index) == Strip(ib.Index) || SameValue(ia.Index, ib.Index)) {
			return false
		}
		first, second := ssa.Instruction(ua), ssa.Instruction(ub)
		if !Reaches(first, second) {
			first, second = second, first
		}
		for _, blk := range ua.Parent().Blocks {
			for _, ins := range blk.Instrs {
				interferes := false
				switch x := ins.(type) {
				case *ssa.Store:
					if i2, isIA := x.Addr.(*ssa.IndexAddr); isIA && types.Identical(i2.X.Type(), ia.X.Type()) {
						interferes = true
					}
				case ssa.CallInstruction:
					for _, arg := range x.Common().Args {
						if Strip(arg) == Strip(ia.X) {
							interferes = true
						}
					}
				}
				if interferes && Reaches(first, ins) && Reaches(ins, second) && ins != first && ins != second {
					return false
				}
			}
		}
		return true
	}
	fa, ok1 := ua.X.(*ssa.FieldAddr)
	fb, ok2 := ub.X.(*ssa.FieldAddr)
	if !ok1 || !ok2 || fa.Field != fb.Field || !(Strip(fa.X) == Strip(fb.X) || SameValue(fa.X, fb.X)) {
		return false
	}
	first, second := ssa.Instruction(ua), ssa.Instruction(ub)
	if !Reaches(first, second) {
		first, second = second, first
	}
	base := Strip(fa.X)
	clean := true
	for _, blk := range ua.Parent().Blocks {
		for _, ins := range blk.Instrs {
			interferes := false
			switch x := ins.(type) {
			case *ssa.Store:
				if f2, ok := x.Addr.(*ssa.FieldAddr); ok && f2.Field == fa.Field && types.Identical(f2.X.Type(), fa.X.Type()) {
					interferes = true
				}
			case ssa.CallInstruction:
				for _, arg := range x.Common().Args {
					if Strip(arg) == base {
						interferes = true
					}
				}
				if x.Common().IsInvoke() && Strip(x.Common().Value) == base {
					interferes = true
				}
			}
			if interferes && Reaches(first, ins) && Reaches(ins, second) && ins != first && ins != second {
				clean = false
			}
		}
	}
	return clean
}
