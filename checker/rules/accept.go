package rules

import (
	"fmt"
	"go/token"
	"go/types"
	"sort"
	"strings"

	"golang.org/x/tools/go/ssa"

	"tinkverif/bounds"
	"tinkverif/core"
	"tinkverif/guard"
)

// acceptSpec describes the accepting side of a primitive interface.
type acceptSpec struct {
	Prop      string    // property id prefix for rule names, e.g. "C02"
	Iface     [2]string // module-relative package, interface name
	Method    string    // accepting method
	MinTypes  int
	PkgPrefix string // only implementers in packages with this module-relative prefix ("" = all)
}

// authenticating external calls: a nil error / true result means the input was
// authenticated by the standard library.
var extAuthErr = map[string]bool{
	"(crypto/cipher.AEAD).Open": true,
	"crypto/rsa.VerifyPKCS1v15": true,
	"crypto/rsa.VerifyPSS":      true,
}
var extAuthBool = map[string]bool{
	"crypto/ecdsa.VerifyASN1": true,
	"crypto/ecdsa.Verify":     true,
	"crypto/ed25519.Verify":   true,
	"crypto/hmac.Equal":       true,
	"bytes.Equal":             true, // public-value comparison (signatures): full-length by definition
}

// interface methods whose contract is "nil error only for authentic input"
// (every module implementer is itself an obligation of its own property).
var ifaceAuth = map[string]bool{
	"(" + core.ModPath + "/tink.AEAD).Decrypt":                               true,
	"(" + core.ModPath + "/tink.AEADWithContext).DecryptWithContext":         true,
	"(" + core.ModPath + "/tink.MAC).VerifyMAC":                              true,
	"(" + core.ModPath + "/tink.Verifier).Verify":                            true,
	"(" + core.ModPath + "/tink.DeterministicAEAD).DecryptDeterministically": true,
	"(" + core.ModPath + "/tink.HybridDecrypt).Decrypt":                      true,
	"(" + core.ModPath + "/aead/subtle.INDCPACipher).Decrypt":                false,
}

// authFact: the fact establishes authenticity directly (comparison of a
// recomputed value) or through the success of an authenticating call.
func (ac *acceptCtx) authFact(f guard.Fact) (string, bool) {
	if call, isNil, ok := guard.ErrNilFact(f); ok && isNil {
		if ac.isAuthCall(&call.Call) {
			return "err==nil of " + shortName(guard.CalleeName(&call.Call)), true
		}
	}
	// v, ok := helper(…); ok — the trailing bool of a verdict function
	if ex, isEx := f.Cond.(*ssa.Extract); isEx && f.True {
		if call, isCall := ex.Tuple.(*ssa.Call); isCall {
			if callee := call.Call.StaticCallee(); callee != nil && ac.authBool[callee] && ex.Index == callee.Signature.Results().Len()-1 {
				return shortName(guard.CalleeName(&call.Call)) + " ok == true", true
			}
		}
	}
	if call, val, ok := guard.BoolCallFact(f); ok && val {
		n := guard.CalleeName(&call.Call)
		if extAuthBool[n] {
			return n + " == true", true
		}
		if callee := call.Call.StaticCallee(); callee != nil && ac.authBool[callee] {
			return shortName(n) + " == true", true
		}
	}
	// subtle.ConstantTimeCompare(x, y) == 1   /  accumulated difference == 0
	if op, x, y, ok := guard.Cmp(f); ok && op == token.EQL {
		for _, pr := range [][2]ssa.Value{{x, y}, {y, x}} {
			if call, _ := guard.CallOf(pr[0]); call != nil && guard.CalleeName(&call.Call) == "crypto/subtle.ConstantTimeCompare" {
				if k, isC := guard.ConstInt(pr[1]); isC && k == 1 {
					return "ConstantTimeCompare == 1", true
				}
			}
			if call, _ := guard.CallOf(pr[0]); call != nil && guard.CalleeName(&call.Call) == "bytes.Compare" {
				if k, isC := guard.ConstInt(pr[1]); isC && k == 0 {
					return "bytes.Compare == 0", true
				}
			}
			// hand-written constant-time comparison: OR of XORs over all bytes == 0
			if k, isC := guard.ConstInt(pr[1]); isC && k == 0 && isXorAccumulator(pr[0]) {
				if n, full := accumulatorCoversOperand(pr[0]); full {
					return fmt.Sprintf("OR-of-XORs accumulator over all %d bytes == 0", n), true
				}
			}
		}
	}
	if op, x, y, ok := guard.Cmp(f); ok && op == token.NEQ {
		// !(ConstantTimeCompare(..) != 1) is handled by Cmp polarity; nothing else
		_, _ = x, y
	}
	return "", false
}

func shortName(n string) string {
	n = strings.ReplaceAll(n, core.ModPath+"/", "")
	return n
}

type acceptCtx struct {
	c        *Ctx
	auth     map[*ssa.Function]bool // functions whose nil error implies authenticity
	authBool map[*ssa.Function]bool // functions whose true result implies authenticity
	// authVia: helpers whose nil error implies the nil error of a call made through their
	// function-typed parameter of this index (nextMessage(op, …)): authenticating at the
	// call sites that hand in an authenticating function value
	authVia map[*ssa.Function]int
	hypo    ssa.Value // during the fixpoint: the parameter assumed authenticating
}

func (ac *acceptCtx) isAuthCall(cc *ssa.CallCommon) bool {
	n := guard.CalleeName(cc)
	if extAuthErr[n] || ifaceAuth[n] {
		return true
	}
	if callee := cc.StaticCallee(); callee != nil && ac.auth[callee] {
		return true
	}
	if callee := cc.StaticCallee(); callee != nil {
		if i, ok := ac.authVia[callee]; ok && i < len(cc.Args) && ac.isAuthFuncValue(cc.Args[i], 0) {
			return true
		}
	}
	if ac.hypo != nil && !cc.IsInvoke() && cc.StaticCallee() == nil && guard.Strip(cc.Value) == ac.hypo {
		return true
	}
	// method of an unexported module interface: authenticating when every
	// module implementer's method is
	if cc.IsInvoke() && cc.Method.Pkg() != nil && core.ClassOf(cc.Method.Pkg().Path()) == core.Product {
		if it, ok := cc.Value.Type().Underlying().(*types.Interface); ok {
			impls := ac.c.P.Implementers(it, core.Product)
			if len(impls) == 0 {
				return false
			}
			for _, t := range impls {
				m := ac.c.P.MethodOf(t, cc.Method.Name())
				if m == nil || !ac.auth[m] {
					return false
				}
			}
			return true
		}
	}
	return false
}

// isAuthFuncValue: a function value whose nil error implies authenticity: an
// authenticating function, or a bound-method / closure wrapper whose body is
// one authenticating call.
func (ac *acceptCtx) isAuthFuncValue(v ssa.Value, depth int) bool {
	if depth > 2 {
		return false
	}
	v = guard.Strip(v)
	var fn *ssa.Function
	switch x := v.(type) {
	case *ssa.Function:
		fn = x
	case *ssa.MakeClosure:
		fn, _ = x.Fn.(*ssa.Function)
	}
	if fn == nil || fn.Blocks == nil {
		return false
	}
	if ac.auth[fn] {
		return true
	}
	if strings.Contains(fn.Synthetic, "bound method wrapper") || strings.Contains(fn.Synthetic, "thunk") {
		var inner *ssa.Call
		n := 0
		allInstrs(fn, func(ins ssa.Instruction) {
			if c2, ok := ins.(*ssa.Call); ok {
				inner = c2
				n++
			}
		})
		return n == 1 && ac.isAuthCall(&inner.Call)
	}
	return false
}

// returnAuthenticated: the success return is justified by an authentication
// fact or forwards the result of an authenticating call.
func (ac *acceptCtx) returnAuthenticated(ret *ssa.Return) (string, bool) {
	for _, f := range guard.BlockFacts(ret.Block()) {
		if why, ok := ac.authFact(f); ok {
			return why, true
		}
	}
	if e := guard.ErrOperand(ret); e != nil {
		if call, _ := guard.CallOf(e); call != nil && ac.isAuthCall(&call.Call) {
			return "forwards the result of " + shortName(guard.CalleeName(&call.Call)), true
		}
	}
	return "", false
}

// computeAuth finds, by fixpoint, the product functions whose success implies
// that an authentication check passed.
// installParamLen makes the bounds prover aware of constant buffer lengths
// handed to unexported helpers: every static call site in the module passes a
// value whose length folds to the same constant.
func installParamLen(p *core.Program) {
	memo := map[*ssa.Parameter]int64{}
	busy := map[*ssa.Parameter]bool{}
	bounds.ParamLen = func(prm *ssa.Parameter) (int64, bool) {
		if k, ok := memo[prm]; ok {
			return k, k >= 0
		}
		fn := prm.Parent()
		if fn == nil || busy[prm] || fn.Object() == nil || fn.Object().Exported() || core.FuncClass(fn) != core.Product {
			return 0, false
		}
		if _, isSl := prm.Type().Underlying().(*types.Slice); !isSl {
			return 0, false
		}
		busy[prm] = true
		defer func() { busy[prm] = false }()
		idx := -1
		for i, q := range fn.Params {
			if q == prm {
				idx = i
			}
		}
		val, n := int64(-1), 0
		consistent := true
		for _, site := range p.Callers(fn) {
			args := site.Common().Args
			if site.Common().StaticCallee() != fn || idx < 0 || idx >= len(args) {
				consistent = false
				continue
			}
			cx := bounds.NewCtx(site.Parent())
			l := cx.LenOf(args[idx])
			k, isConst := l.Const()
			if !isConst || (n > 0 && k != val) {
				consistent = false
			}
			val = k
			n++
		}
		if !consistent || n == 0 {
			memo[prm] = -1
			return 0, false
		}
		memo[prm] = val
		return val, true
	}
}

func newAcceptCtx(c *Ctx) *acceptCtx {
	installParamLen(c.P)
	ac := &acceptCtx{c: c, auth: map[*ssa.Function]bool{}, authBool: map[*ssa.Function]bool{}, authVia: map[*ssa.Function]int{}}
	fns := c.P.SortedFuncs(core.Product)
	for changed := true; changed; {
		changed = false
		for _, f := range fns {
			if f.Synthetic != "" && !strings.Contains(f.Synthetic, "instance") {
				continue
			}
			res := f.Signature.Results()
			if res.Len() == 0 {
				continue
			}
			last := res.At(res.Len() - 1).Type()
			if guard.IsErrorType(last) && !ac.auth[f] {
				rets := guard.SuccessReturns(f)
				ok := len(rets) > 0
				for _, r := range rets {
					if _, good := ac.returnAuthenticated(r); !good {
						ok = false
						break
					}
				}
				if ok {
					ac.auth[f] = true
					changed = true
				} else if _, has := ac.authVia[f]; !has && len(rets) > 0 && f.Object() != nil && !f.Object().Exported() {
					// relative to a function-typed parameter
					for i, prm := range f.Params {
						if _, isSig := prm.Type().Underlying().(*types.Signature); !isSig {
							continue
						}
						ac.hypo = prm
						all := true
						for _, r := range rets {
							if _, good := ac.returnAuthenticated(r); !good {
								all = false
								break
							}
						}
						ac.hypo = nil
						if all {
							ac.authVia[f] = i
							changed = true
							break
						}
					}
				}
			}
			if b, isB := last.Underlying().(*types.Basic); isB && b.Kind() == types.Bool && res.Len() >= 1 && !ac.authBool[f] {
				// bool verdict functions ((…, ok bool) included): every `return …, true` (or
				// non-constant-false return) must be authenticated
				ok, n := true, 0
				li := res.Len() - 1
				for _, r := range guard.Returns(f) {
					if len(r.Results) <= li {
						ok = false
						continue
					}
					if v, isC := guard.ConstBool(r.Results[li]); isC && !v {
						continue
					}
					n++
					good := false
					for _, fct := range guard.BlockFacts(r.Block()) {
						if _, a := ac.authFact(fct); a {
							good = true
						}
					}
					// return of an authenticating boolean call
					if call, _ := guard.CallOf(r.Results[li]); call != nil {
						nm := guard.CalleeName(&call.Call)
						if extAuthBool[nm] || (call.Call.StaticCallee() != nil && ac.authBool[call.Call.StaticCallee()]) {
							good = true
						}
					}
					// return (accumulated difference == 0)
					if cmp, isCmp := r.Results[li].(*ssa.BinOp); isCmp && cmp.Op == token.EQL {
						if isXorAccumulator(cmp.X) || isXorAccumulator(cmp.Y) {
							good = true
						}
						if _, isAuth := ac.authFact(guard.Fact{Cond: cmp, True: true}); isAuth {
							good = true
						}
					}
					if !good {
						ok = false
					}
				}
				if ok && n > 0 {
					ac.authBool[f] = true
					changed = true
				}
			}
		}
	}
	return ac
}

// accumulatorCoversOperand: the accumulation loop runs i = 0 .. K-1 with K the
// full length of a compared operand.
func accumulatorCoversOperand(v ssa.Value) (int64, bool) {
	phi, ok := guard.Strip(v).(*ssa.Phi)
	if !ok {
		return 0, false
	}
	var header *ssa.BasicBlock
	for _, b := range phi.Parent().Blocks {
		if inCycle(b) && natLoop(b)[phi.Block()] && b.Dominates(phi.Block()) {
			header = b
		}
	}
	if header == nil || len(header.Instrs) == 0 {
		return 0, false
	}
	iff, ok := header.Instrs[len(header.Instrs)-1].(*ssa.If)
	if !ok {
		return 0, false
	}
	cmp, ok := iff.Cond.(*ssa.BinOp)
	if !ok || cmp.Op != token.LSS {
		return 0, false
	}
	k, isK := guard.ConstInt(cmp.Y)
	idx, isPhi := guard.Strip(cmp.X).(*ssa.Phi)
	if !isK || !isPhi {
		return 0, false
	}
	starts0 := false
	for _, e := range idx.Edges {
		if c0, is0 := guard.ConstInt(e); is0 && c0 == 0 {
			starts0 = true
		}
	}
	if !starts0 {
		return 0, false
	}
	// the XORed elements are X[i], Y[i] with len(X) == K or len(Y) == K
	full := false
	for _, e := range phi.Edges {
		or, isOr := guard.Strip(e).(*ssa.BinOp)
		if !isOr {
			continue
		}
		for _, side := range []ssa.Value{or.X, or.Y} {
			xo, isX := guard.Strip(side).(*ssa.BinOp)
			if !isX || xo.Op != token.XOR {
				continue
			}
			for _, el := range []ssa.Value{xo.X, xo.Y} {
				if u, isU := guard.Strip(el).(*ssa.UnOp); isU {
					if ia, isIA := u.X.(*ssa.IndexAddr); isIA && guard.Strip(ia.Index) == ssa.Value(idx) {
						cx := bounds.NewCtx(phi.Parent())
						if cx.LenOf(ia.X).String() == fmt.Sprint(k) {
							full = true
						}
					}
				}
			}
		}
	}
	return k, full
}

// isXorAccumulator: v is the loop-carried OR of XORs of two byte sequences
// (the hand-written constant-time comparison idiom).
func isXorAccumulator(v ssa.Value) bool {
	phi, ok := guard.Strip(v).(*ssa.Phi)
	if !ok {
		return false
	}
	for _, e := range phi.Edges {
		if k, isC := guard.ConstInt(e); isC && k == 0 {
			continue
		}
		or, isOr := guard.Strip(e).(*ssa.BinOp)
		if !isOr || or.Op != token.OR {
			return false
		}
		x, y := guard.Strip(or.X), guard.Strip(or.Y)
		var other ssa.Value
		if x == ssa.Value(phi) {
			other = y
		} else if y == ssa.Value(phi) {
			other = x
		} else {
			return false
		}
		if xo, isX := guard.Strip(other).(*ssa.BinOp); !isX || xo.Op != token.XOR {
			return false
		}
	}
	return true
}

// taintedSlices returns the Slice/IndexAddr instructions applied to values
// derived (by slicing) from the given root values, following module callees
// to depth maxDepth.
type boundSite struct {
	fn  *ssa.Function
	ins ssa.Instruction
}

func taintedSites(p *core.Program, fn *ssa.Function, roots []ssa.Value, depth int, seen map[string]bool, out *[]boundSite) {
	key := core.FuncID(fn)
	for _, r := range roots {
		key += "|" + r.Name()
	}
	if seen[key] || depth > 3 {
		return
	}
	seen[key] = true
	tainted := map[ssa.Value]bool{}
	for _, r := range roots {
		tainted[r] = true
	}
	for changed := true; changed; {
		changed = false
		allInstrs(fn, func(ins ssa.Instruction) {
			v, ok := ins.(ssa.Value)
			if !ok || tainted[v] {
				return
			}
			switch x := ins.(type) {
			case *ssa.Slice:
				if tainted[x.X] {
					tainted[v], changed = true, true
				}
			case *ssa.ChangeType:
				if tainted[x.X] {
					tainted[v], changed = true, true
				}
			case *ssa.Phi:
				for _, e := range x.Edges {
					if tainted[e] {
						tainted[v], changed = true, true
					}
				}
			}
		})
	}
	allInstrs(fn, func(ins ssa.Instruction) {
		switch x := ins.(type) {
		case *ssa.Slice:
			if tainted[x.X] {
				*out = append(*out, boundSite{fn, ins})
			}
		case *ssa.IndexAddr:
			if tainted[x.X] {
				*out = append(*out, boundSite{fn, ins})
			}
		case *ssa.Call:
			callee := x.Call.StaticCallee()
			if callee == nil || callee.Blocks == nil || core.FuncClass(callee) != core.Product {
				return
			}
			var rs []ssa.Value
			for i, a := range x.Call.Args {
				if tainted[a] && i < len(callee.Params) && core.IsByteSlice(callee.Params[i].Type()) {
					rs = append(rs, callee.Params[i])
				}
			}
			if len(rs) > 0 {
				taintedSites(p, callee, rs, depth+1, seen, out)
			}
		}
	})
}

// prefixFieldOf finds a []byte field of the receiver struct whose name
// contains "prefix".
func prefixFieldOf(t types.Type) string {
	n := core.NamedOf(t)
	if n == nil {
		return ""
	}
	st, ok := n.Underlying().(*types.Struct)
	if !ok {
		return ""
	}
	for i := 0; i < st.NumFields(); i++ {
		f := st.Field(i)
		if strings.Contains(strings.ToLower(f.Name()), "prefix") && core.IsByteSlice(f.Type()) {
			return f.Name()
		}
	}
	return ""
}

// runAccept applies the accept-side rules to every product implementer of the
// interface.
func runAccept(c *Ctx, ac *acceptCtx, spec acceptSpec) {
	p, r := c.P, c.R
	it := p.LookupIface(core.ModPath+"/"+spec.Iface[0], spec.Iface[1])
	if it == nil {
		r.AnchorMissing(spec.Prop+".auth", "interface "+spec.Iface[0]+"."+spec.Iface[1])
		return
	}
	impls := p.Implementers(it, core.Product)
	if spec.PkgPrefix != "" {
		var keep []types.Type
		for _, t := range impls {
			if n := core.NamedOf(t); n != nil && strings.HasPrefix(core.Rel(n.Obj().Pkg().Path()), spec.PkgPrefix) {
				keep = append(keep, t)
			}
		}
		impls = keep
	}
	r.Counts["implementers_"+spec.Iface[1]] = len(impls)
	if len(impls) < spec.MinTypes {
		r.AnchorMissing(spec.Prop+".auth", fmt.Sprintf("implementers of %s.%s: %d < %d", spec.Iface[0], spec.Iface[1], len(impls), spec.MinTypes))
	}
	seenSites := map[string]bool{}
	for _, t := range impls {
		f := p.MethodOf(t, spec.Method)
		if f == nil || f.Blocks == nil {
			continue
		}
		fid := core.FuncID(f)
		if why, ok := acceptNotInstances[fid]; ok {
			r.Except(spec.Prop+".auth", spec.Prop+".auth/"+fid, p.FuncPos(f), why)
			continue
		}
		_, isAdapter := keysetAdapters[core.TypeID(f.Signature.Recv().Type())]
		input := f.Params[1]
		// ---- auth
		key := spec.Prop + ".auth/" + fid
		if ac.auth[f] {
			var whys []string
			for _, ret := range guard.SuccessReturns(f) {
				w, _ := ac.returnAuthenticated(ret)
				whys = append(whys, w)
			}
			sort.Strings(whys)
			r.Ok(spec.Prop+".auth", key, p.FuncPos(f), uniq(whys)...)
		} else {
			var bad *ssa.Return
			for _, ret := range guard.SuccessReturns(f) {
				if _, ok := ac.returnAuthenticated(ret); !ok {
					bad = ret
					break
				}
			}
			pos := p.FuncPos(f)
			if bad != nil {
				pos = p.Pos(bad.Pos())
			}
			r.Bad(spec.Prop+".auth", key, pos, "a success return is neither dominated by a passed authentication check (tag/signature comparison or the success of an authenticating call) nor forwards the result of one")
		}
		// ---- prefix
		if pf := prefixFieldOf(f.Signature.Recv().Type()); pf != "" && isAdapter && !localPrefixCheck(f, input, pf) {
			r.Except(spec.Prop+".prefix", spec.Prop+".prefix/"+fid, p.FuncPos(f), keysetAdapters[core.TypeID(f.Signature.Recv().Type())])
		} else if pf != "" {
			key := spec.Prop + ".prefix/" + fid
			bad := ""
			for _, ret := range guard.SuccessReturns(f) {
				if !prefixCheckedAt(ret.Block(), f, f.Params[0], input, pf, 0) {
					bad = p.Pos(ret.Pos())
				}
			}
			r.Check(bad == "", spec.Prop+".prefix", key, p.FuncPos(f), "a success return (at "+bad+") is not dominated by an exact comparison of the input's leading bytes with the key's whole output prefix",
				"every success return dominated by HasPrefix(input, recv."+pf+") / Equal(input[:len(recv."+pf+")], recv."+pf+")")
		}
		// ---- errprop: results of authenticating calls are consumed
		allInstrs(f, func(ins ssa.Instruction) {
			call, ok := ins.(*ssa.Call)
			if !ok || !ac.isAuthCall(&call.Call) {
				return
			}
			key := fmt.Sprintf("%s.errprop/%s/%s", spec.Prop, fid, shortName(guard.CalleeName(&call.Call)))
			used := false
			res := call.Call.Signature().Results()
			errIdx := res.Len() - 1
			for _, ref := range *call.Referrers() {
				switch x := ref.(type) {
				case *ssa.Extract:
					if x.Index == errIdx && len(*x.Referrers()) > 0 {
						used = true
					}
				case *ssa.Return, *ssa.BinOp, *ssa.If:
					used = true
				}
			}
			r.Check(used, spec.Prop+".errprop", key, p.Pos(ins.Pos()), "the verdict of an authenticating call is discarded", "error result is tested or returned")
		})
		// ---- noleak: no plaintext next to an error
		runNoLeak(c, spec, f)
		// ---- tiling: every byte of the input is consumed
		c02Tiling(c, spec, f, input)
		// ---- bounds
		var sites []boundSite
		taintedSites(p, f, []ssa.Value{input}, 0, map[string]bool{}, &sites)
		for _, s := range sites {
			sk := core.FuncID(s.fn) + "@" + fmt.Sprint(s.ins.Pos())
			if seenSites[sk] {
				continue
			}
			seenSites[sk] = true
			c02Bound(c, spec, s, isAdapter && s.fn == f)
		}
	}
}

// prefixCheckedAt: block b of fn is dominated by an exact comparison of the
// leading bytes of input with the whole recv.<pf>, made in fn itself or inside
// a callee whose success dominates b and which makes that comparison on every
// one of its own success returns (helper extraction).
func prefixCheckedAt(b *ssa.BasicBlock, fn *ssa.Function, recv, input ssa.Value, pf string, depth int) bool {
	isPF := func(v ssa.Value) bool {
		bb, fld, ok := guard.FieldOf(v)
		return ok && fld == pf && guard.Strip(bb) == recv
	}
	for _, fct := range guard.BlockFacts(b) {
		// rest, ok := bytes.CutPrefix(input, recv.prefix); ok
		if ex, isEx := fct.Cond.(*ssa.Extract); isEx && fct.True && ex.Index == 1 {
			if call, isCall := ex.Tuple.(*ssa.Call); isCall && guard.CalleeName(&call.Call) == "bytes.CutPrefix" &&
				guard.Strip(call.Call.Args[0]) == input && isPF(call.Call.Args[1]) {
				return true
			}
		}
		if call, val, isB := guard.BoolCallFact(fct); isB && val && len(call.Call.Args) >= 2 {
			n := guard.CalleeName(&call.Call)
			a0, a1 := call.Call.Args[0], call.Call.Args[1]
			switch n {
			case "bytes.HasPrefix":
				if guard.Strip(a0) == input && isPF(a1) {
					return true
				}
			case "bytes.Equal", "slices.Equal", "crypto/subtle.ConstantTimeCompare":
				for _, pr := range [][2]ssa.Value{{a0, a1}, {a1, a0}} {
					if isPF(pr[1]) && isLeadingPrefixSlice(pr[0], fn, recv, input, pf, 0) {
						return true
					}
				}
			}
		}
		// success of a helper that makes the comparison
		var call *ssa.Call
		if c, isNil, ok := guard.ErrNilFact(fct); ok && isNil {
			call = c
		} else if c, val, ok := guard.BoolCallFact(fct); ok && val {
			call = c
		}
		if call == nil || depth >= 3 {
			continue
		}
		g := call.Call.StaticCallee()
		if g == nil || g.Blocks == nil || core.FuncClass(g) != core.Product {
			continue
		}
		ri, ii := -1, -1
		for i, a := range call.Call.Args {
			if guard.Strip(a) == recv {
				ri = i
			}
			if guard.Strip(a) == input {
				ii = i
			}
		}
		if ri < 0 || ii < 0 || ri >= len(g.Params) || ii >= len(g.Params) {
			continue
		}
		all := true
		rets := guard.SuccessReturns(g)
		if len(rets) == 0 {
			all = false
		}
		for _, ret := range rets {
			if res := g.Signature.Results(); res.Len() > 0 {
				if bt, isBasic := res.At(res.Len() - 1).Type().Underlying().(*types.Basic); isBasic && bt.Kind() == types.Bool {
					// bool verdict: only returns of a possibly-true value count
					if k, isK := guard.ConstBool(ret.Results[len(ret.Results)-1]); isK && !k {
						continue
					}
				}
			}
			if !prefixCheckedAt(ret.Block(), g, g.Params[ri], g.Params[ii], pf, depth+1) {
				all = false
			}
		}
		if all {
			return true
		}
	}
	return false
}

// isLeadingPrefixSlice: v is input[:len(recv.<pf>)] — written in fn itself, or
// handed back by a helper of the module that computes it from the same
// receiver and input on every non-failing return.
func isLeadingPrefixSlice(v ssa.Value, fn *ssa.Function, recv, input ssa.Value, pf string, depth int) bool {
	v = guard.Strip(v)
	if sl, ok := v.(*ssa.Slice); ok {
		if sl.Low != nil {
			if k, isK := guard.ConstInt(sl.Low); !isK || k != 0 {
				return false
			}
		}
		if guard.Strip(sl.X) != input || sl.High == nil {
			return false
		}
		// the slice must be exactly len(prefix) long
		cx := bounds.NewCtx(fn)
		var pfLen string
		allInstrs(fn, func(ins ssa.Instruction) {
			if u, isU := ins.(*ssa.UnOp); isU && pfLen == "" {
				if b, fld, isF := guard.FieldOf(u); isF && fld == pf && guard.Strip(b) == recv {
					pfLen = cx.LenOf(u).String()
				}
			}
		})
		return pfLen != "" && cx.Lin(sl.High).String() == pfLen
	}
	ex, ok := v.(*ssa.Extract)
	if !ok || depth >= 2 {
		return false
	}
	call, isCall := ex.Tuple.(*ssa.Call)
	if !isCall {
		return false
	}
	g := call.Call.StaticCallee()
	if g == nil || g.Blocks == nil || core.FuncClass(g) != core.Product {
		return false
	}
	ri, ii := -1, -1
	for i, a := range call.Call.Args {
		if guard.Strip(a) == recv {
			ri = i
		}
		if guard.Strip(a) == input {
			ii = i
		}
	}
	if ri < 0 || ii < 0 || ri >= len(g.Params) || ii >= len(g.Params) {
		return false
	}
	n := 0
	for _, ret := range guard.Returns(g) {
		if guard.DefinitelyFails(ret) || ex.Index >= len(ret.Results) {
			continue
		}
		n++
		if !isLeadingPrefixSlice(ret.Results[ex.Index], g, g.Params[ri], g.Params[ii], pf, depth+1) {
			return false
		}
	}
	return n > 0
}

func c02Bound(c *Ctx, spec acceptSpec, s boundSite, adapter bool) {
	p, r := c.P, c.R
	var res bounds.Result
	var desc string
	switch x := s.ins.(type) {
	case *ssa.Slice:
		res = bounds.CheckSlice(x)
		desc = "slice " + valName(x.X) + "[" + optName(x.Low) + ":" + optName(x.High) + "]"
	case *ssa.IndexAddr:
		res = bounds.CheckIndex(x)
		desc = "index " + valName(x.X) + "[" + valName(x.Index) + "]"
	}
	key := fmt.Sprintf("%s.bounds/%s/%s", spec.Prop, core.FuncID(s.fn), desc)
	switch {
	case res.OK:
		r.Ok(spec.Prop+".bounds", key, p.Pos(s.ins.Pos()), res.Goals...)
	case res.LoopVariant:
		r.Outside(spec.Prop+".bounds", key, p.Pos(s.ins.Pos()), "index depends on a loop-carried value (no loop invariants in this prover)")
	case pqInternal[core.Rel(core.PkgOf(s.fn))]:
		r.Outside(spec.Prop+".bounds", key, p.Pos(s.ins.Pos()), "parameterised post-quantum code: offsets are products of parameter fields (non-linear); the exact signature-length guard and the per-parameter-set evaluation of the length formulas are decided under C10.siglen / C16.siglen")
	default:
		if why, ok := boundsExceptions[core.FuncID(s.fn)+"/"+desc]; ok {
			r.Except(spec.Prop+".bounds", key, p.Pos(s.ins.Pos()), why)
			return
		}
		if adapter {
			if sl, isSl := s.ins.(*ssa.Slice); isSl && sl.High == nil && sl.Low != nil {
				// input[len(recv.prefix):]
				if lc, _ := guard.CallOf(sl.Low); lc != nil {
					if b, isB := lc.Call.Value.(*ssa.Builtin); isB && b.Name() == "len" {
						if _, fld, isF := guard.FieldOf(lc.Call.Args[0]); isF && strings.Contains(strings.ToLower(fld), "prefix") {
							r.Except(spec.Prop+".bounds", key, p.Pos(s.ins.Pos()), keysetAdapters[core.TypeID(s.fn.Signature.Recv().Type())])
							return
						}
					}
				}
			}
		}
		r.Bad(spec.Prop+".bounds", key, p.Pos(s.ins.Pos()), "input-derived "+desc+" is not proved in bounds: "+res.Failed, res.Facts...)
	}
}

func optName(v ssa.Value) string {
	if v == nil {
		return ""
	}
	return valName(v)
}

// pqInternal: packages whose slice offsets are non-linear in parameter fields.
var pqInternal = map[string]bool{"internal/signature/slhdsa": true, "internal/signature/mldsa": true}

// boundsExceptions: sites whose in-bounds argument is not a local guard.
var boundsExceptions = map[string]string{}

// acceptNotInstances: types that implement the interface's method set by
// accident of their signature but are not instances of the primitive.
var acceptNotInstances = map[string]string{
	"(*internal/aead.AESCTR).Decrypt": "AESCTR is the raw IND-CPA cipher (Decrypt(dst, ciphertext)): its second parameter is a destination buffer, not associated data; it only happens to have tink.AEAD's method set. Authentication is the obligation of its callers (aesctrhmac), which are instances.",
}

const adapterWhy = "keyset-level legacy adapter: it strips len(prefix) bytes without a local guard; it is reached only as a candidate returned by PrimitivesMatchingPrefix(input), which returns it only when the input's first 5 bytes equal this very prefix (or the prefix is empty) — decided by C05.accept, C05.pairing (Insert prefix / adapter prefix from the same entry) and C05.prefixmap"

// keysetAdapters: the adapter types built only inside the keyset factories.
var keysetAdapters = map[string]string{
	"aead.fullAEADPrimitiveAdapter":   adapterWhy,
	"daead.fullDAEADPrimitiveAdapter": adapterWhy,
	"hybrid.fullHybridDecryptAdapter": adapterWhy,
}

// localPrefixCheck: the function itself compares the input's leading bytes
// with the prefix field (then it is an ordinary instance, no exception).
func localPrefixCheck(f *ssa.Function, input ssa.Value, pf string) bool {
	found := false
	allInstrs(f, func(ins ssa.Instruction) {
		if call, ok := ins.(*ssa.Call); ok {
			switch guard.CalleeName(&call.Call) {
			case "bytes.HasPrefix", "bytes.Equal", "slices.Equal":
				for _, a := range call.Call.Args {
					if _, fld, isF := guard.FieldOf(a); isF && fld == pf {
						found = true
					}
				}
			}
		}
	})
	return found
}

// c02Tiling: the slices taken directly from the input tile it: every explicit
// upper bound is the lower bound of another piece or the input's length, so no
// trailing bytes are silently ignored.
func c02Tiling(c *Ctx, spec acceptSpec, f *ssa.Function, input ssa.Value) {
	p, r := c.P, c.R
	cx := bounds.NewCtx(f)
	type piece struct {
		sl     *ssa.Slice
		lo, hi string
		hasHi  bool
	}
	var pieces []piece
	allInstrs(f, func(ins ssa.Instruction) {
		sl, ok := ins.(*ssa.Slice)
		if !ok || guard.Strip(sl.X) != input {
			return
		}
		pc := piece{sl: sl, lo: "0"}
		if sl.Low != nil {
			pc.lo = cx.Lin(sl.Low).String()
		}
		if sl.High != nil {
			pc.hi, pc.hasHi = cx.Lin(sl.High).String(), true
		}
		pieces = append(pieces, pc)
	})
	if len(pieces) == 0 {
		return
	}
	// the whole input is also handed on (pieces are only a lookup key): nothing is dropped
	for _, ref := range *input.Referrers() {
		if call, ok := ref.(ssa.CallInstruction); ok {
			if _, isB := call.Common().Value.(*ssa.Builtin); isB {
				continue
			}
			n := guard.CalleeName(call.Common())
			if n == "bytes.HasPrefix" || n == "bytes.Equal" || strings.HasPrefix(n, "fmt.") {
				continue
			}
			return
		}
	}
	key := fmt.Sprintf("%s.tiling/%s", spec.Prop, core.FuncID(f))
	lenIn := cx.LenOf(input).String()
	for _, pc := range pieces {
		if !pc.hasHi || pc.hi == lenIn {
			continue
		}
		covered := false
		for _, o := range pieces {
			if o.sl != pc.sl && o.lo == pc.hi {
				covered = true
			}
		}
		if !covered {
			// an equality guard len(input) == hi also covers it
			facts := cx.FactsToLin(guard.BlockFacts(pc.sl.Block()))
			goal := cx.Lin(pc.sl.High).Add(cx.LenOf(input), -1)
			if ok, _ := cx.Entails(facts, goal); ok {
				covered = true
			}
		}
		if !covered {
			r.Bad(spec.Prop+".tiling", key, p.Pos(pc.sl.Pos()),
				fmt.Sprintf("the input is cut at %s but nothing consumes or checks the bytes from there on: a valid input with trailing bytes appended would be accepted", pc.hi))
			return
		}
	}
	r.Ok(spec.Prop+".tiling", key, p.FuncPos(f), fmt.Sprintf("%d pieces tile the input; every explicit end is the start of another piece or the input's length", len(pieces)))
}

// DebugAuth lists the authenticating status of functions whose id contains sub.
func DebugAuth(c *Ctx, sub string) []string {
	ac := newAcceptCtx(c)
	var out []string
	for _, f := range c.P.SortedFuncs(core.Product) {
		id := core.FuncID(f)
		if !strings.Contains(id, sub) {
			continue
		}
		line := fmt.Sprintf("%s auth=%v authBool=%v", id, ac.auth[f], ac.authBool[f])
		for _, ret := range guard.SuccessReturns(f) {
			w, ok := ac.returnAuthenticated(ret)
			line += fmt.Sprintf("\n    return@%s ok=%v %s", c.P.Pos(ret.Pos()), ok, w)
		}
		out = append(out, line)
	}
	return out
}
