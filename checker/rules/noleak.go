package rules

import (
	"fmt"
	"go/token"
	"go/types"

	"golang.org/x/tools/go/ssa"

	"tinkverif/core"
	"tinkverif/guard"
)

// noLeak decides, for a function returning (plaintext []byte, error), that no
// return hands back a plaintext together with an error that may be non-nil:
// every return either has a constant-nil plaintext, or a nil error (constant, or
// known nil from the dominating facts), or forwards the (plaintext, error) pair
// of one call for which the same holds (module functions: by recursion; calls
// through an interface: the implementers are judged on their own; standard
// library: cipher.AEAD.Open returns a nil slice on failure).
type noLeak struct {
	p    *core.Program
	memo map[*ssa.Function]string // "" = holds
	busy map[*ssa.Function]bool
}

func isPlainErrSig(sig *types.Signature) bool {
	res := sig.Results()
	if res.Len() != 2 || !guard.IsErrorType(res.At(1).Type()) {
		return false
	}
	return core.IsByteSlice(res.At(0).Type())
}

// check returns "" when f cannot return plaintext next to an error, else where.
func (n *noLeak) check(f *ssa.Function, depth int) string {
	if w, ok := n.memo[f]; ok {
		return w
	}
	if n.busy[f] || depth > 6 {
		return ""
	}
	n.busy[f] = true
	defer delete(n.busy, f)
	why := ""
	for _, ret := range guard.Returns(f) {
		if len(ret.Results) != 2 {
			continue
		}
		if w := n.pair(f, ret.Results[0], ret.Results[1], ret.Block(), depth, 0); w != "" {
			why = fmt.Sprintf("%s at %s", w, n.p.Pos(ret.Pos()))
			break
		}
	}
	n.memo[f] = why
	return why
}

func (n *noLeak) pair(f *ssa.Function, pt, err ssa.Value, at *ssa.BasicBlock, depth, phiDepth int) string {
	if guard.IsNilConst(pt) || guard.IsNilConst(err) {
		return ""
	}
	// merged return block: judge each incoming pair where it comes from
	if pp, isP := pt.(*ssa.Phi); isP && phiDepth < 3 {
		ep, isE := err.(*ssa.Phi)
		for i, pred := range pp.Block().Preds {
			e := err
			if isE && ep.Block() == pp.Block() {
				e = ep.Edges[i]
			}
			if w := n.pair(f, pp.Edges[i], e, pred, depth, phiDepth+1); w != "" {
				return w
			}
		}
		return ""
	}
	if ep, isE := err.(*ssa.Phi); isE && phiDepth < 3 {
		for i, pred := range ep.Block().Preds {
			if w := n.pair(f, pt, ep.Edges[i], pred, depth, phiDepth+1); w != "" {
				return w
			}
		}
		return ""
	}
	ec, ei := guard.CallOf(err)
	if ec != nil {
		// the error is known to be nil here
		for _, fct := range guard.BlockFacts(at) {
			if c, isNil, ok := guard.ErrNilFact(fct); ok && isNil && c == ec {
				return ""
			}
		}
		if pc, pi := guard.CallOf(pt); pc == ec && pi == 0 && ei == 1 {
			// the pair of one call, forwarded
			if callee := ec.Call.StaticCallee(); callee != nil && callee.Blocks != nil && isPlainErrSig(callee.Signature) {
				if w := n.check(callee, depth+1); w != "" {
					return "forwards " + callee.Name() + ", which can return plaintext with an error (" + w + ")"
				}
			}
			return ""
		}
		return "a non-nil plaintext is returned together with the error of " + shortName(guard.CalleeName(&ec.Call)) + ", which may be non-nil"
	}
	if guard.DefinitelyFails(&ssa.Return{Results: []ssa.Value{pt, err}}) {
		return "a non-nil plaintext is returned together with a non-nil error"
	}
	return ""
}

func runNoLeak(c *Ctx, spec acceptSpec, f *ssa.Function) {
	if !isPlainErrSig(f.Signature) {
		return
	}
	nl := &noLeak{p: c.P, memo: map[*ssa.Function]string{}, busy: map[*ssa.Function]bool{}}
	w := nl.check(f, 0)
	c.R.Check(w == "", spec.Prop+".noleak", spec.Prop+".noleak/"+core.FuncID(f), c.P.FuncPos(f),
		"plaintext can be released although the operation reports an error: "+w,
		"every return: nil plaintext, nil error, or the forwarded pair of a call for which the same holds")
}

// errState: a struct type that carries an error field ("if err != nil the
// primitive always fails with it") is built in an error state by a constructor
// that cannot fail; its other fields are nil then. Every method reads the other
// fields only where the error field is known to be nil, so the error-state
// object answers with the error instead of dereferencing nil fields.
func errState(c *Ctx, rule string, pkgs map[string]bool, min int) {
	p, r := c.P, c.R
	n := 0
	for _, f := range p.SortedFuncs(core.Product) {
		if !pkgs[core.Rel(core.PkgOf(f))] || f.Signature.Recv() == nil || f.Blocks == nil || len(f.Params) == 0 {
			continue
		}
		nt := core.NamedOf(f.Signature.Recv().Type())
		if nt == nil {
			continue
		}
		st, ok := nt.Underlying().(*types.Struct)
		if !ok {
			continue
		}
		errField := ""
		for i := 0; i < st.NumFields(); i++ {
			if guard.IsErrorType(st.Field(i).Type()) && types.Identical(st.Field(i).Type(), types.Universe.Lookup("error").Type()) {
				errField = st.Field(i).Name()
			}
		}
		if errField == "" {
			continue
		}
		recv := f.Params[0]
		guarded := func(b *ssa.BasicBlock, isSelf func(ssa.Value) bool) bool {
			for _, fct := range guard.BlockFacts(b) {
				op, x, y, isC := guard.Cmp(fct)
				if !isC || op != token.EQL {
					continue
				}
				if guard.IsNilConst(x) {
					x, y = y, x
				}
				if !guard.IsNilConst(y) {
					continue
				}
				if b0, fld, isF := guard.FieldOf(x); isF && fld == errField && isSelf(b0) {
					return true
				}
			}
			return false
		}
		bad := ""
		reads := 0
		// self: the receiver itself, or a load of the cell it was spilled to because a
		// closure captures it (go/ssa captures variables by reference)
		var scan func(fn *ssa.Function, self ssa.Value, cell ssa.Value, outerGuarded bool)
		scan = func(fn *ssa.Function, self ssa.Value, cell ssa.Value, outerGuarded bool) {
			cells := map[ssa.Value]bool{}
			if cell != nil {
				cells[cell] = true
			}
			allInstrs(fn, func(ins ssa.Instruction) {
				if al, isAl := ins.(*ssa.Alloc); isAl && self != nil {
					stores, all := 0, true
					for _, ref := range *al.Referrers() {
						if s, isS := ref.(*ssa.Store); isS && s.Addr == ssa.Value(al) {
							stores++
							if guard.Strip(s.Val) != self {
								all = false
							}
						}
					}
					if stores > 0 && all {
						cells[al] = true
					}
				}
			})
			isSelf := func(v ssa.Value) bool {
				if self != nil && guard.Strip(v) == self {
					return true
				}
				if u, isU := guard.Strip(v).(*ssa.UnOp); isU && u.Op == token.MUL && cells[u.X] {
					return true
				}
				return false
			}
			allInstrs(fn, func(ins ssa.Instruction) {
				switch x := ins.(type) {
				case *ssa.FieldAddr:
					if !isSelf(x.X) || st.Field(x.Field).Name() == errField {
						return
					}
					reads++
					// a collaborator behind an interface is nil in the error state: calling
					// through it panics
					if _, isIface := st.Field(x.Field).Type().Underlying().(*types.Interface); !isIface {
						return
					}
					for _, ld := range *x.Referrers() {
						u, isU := ld.(*ssa.UnOp)
						if !isU || u.Op != token.MUL {
							continue
						}
						for _, use := range *u.Referrers() {
							call, isCall := use.(ssa.CallInstruction)
							if !isCall || !call.Common().IsInvoke() || call.Common().Value != ssa.Value(u) {
								continue
							}
							if !outerGuarded && !guarded(use.Block(), isSelf) && bad == "" {
								bad = fmt.Sprintf("%s.%s is called at %s where %s may be non-nil", st.Field(x.Field).Name(), call.Common().Method.Name(), p.Pos(use.Pos()), errField)
							}
						}
					}
				case *ssa.MakeClosure:
					cl, _ := x.Fn.(*ssa.Function)
					if cl == nil {
						return
					}
					for i, bnd := range x.Bindings {
						if i >= len(cl.FreeVars) {
							continue
						}
						g := outerGuarded || guarded(x.Block(), isSelf)
						switch {
						case self != nil && guard.Strip(bnd) == self:
							scan(cl, cl.FreeVars[i], nil, g)
						case cells[bnd]:
							scan(cl, nil, cl.FreeVars[i], g)
						}
					}
				}
			})
		}
		scan(f, recv, nil, false)
		if reads == 0 {
			continue
		}
		n++
		r.Check(bad == "", rule, rule+"/"+core.FuncID(f), p.FuncPos(f),
			"an object built in its error state has nil collaborators; "+bad+": the method panics instead of returning the stored error",
			"every call through an interface-typed field is dominated by "+errField+" == nil")
	}
	r.Counts["errstate_methods"] = n
	r.Min(rule, min)
}
