package rules

import (
	"fmt"
	"go/constant"
	"go/token"
	"go/types"
	"sort"
	"strings"

	"golang.org/x/tools/go/ssa"

	"tinkverif/bounds"
	"tinkverif/consteval"
	"tinkverif/core"
	"tinkverif/guard"
)

func init() {
	Registry["C06"] = func(c *Ctx) { c06(c); c06Suite(c) }
}

func c06(c *Ctx) {
	r := c.R
	r.Explanation = "C06's byte-level interoperability is value-level and NOT decided. Decided: " +
		"(auth/prefix/tiling/bounds) the accept-side rules of C02 over every tink.HybridDecrypt implementer: plaintext only under the success of the AEAD open / DEM decrypt, exact prefix comparison, no ignored bytes, input slices proved in bounds; " +
		"(ids) the KEM/KDF/AEAD identifiers, the version label and the kemLengths table equal RFC 9180 §7 and the IANA HPKE registry (values transcribed in the checker); suite ids are \"KEM\"/\"HPKE\" followed by big-endian 16-bit ids in the order kem, kdf, aead; " +
		"(digest) every hash->size table in product code (functions from a hash enum/name to a size) gives 20/28/32/48/64 for SHA-1/224/256/384/512, folded on every constant; " +
		"(injective) every enum->string table function in the hybrid packages is injective on the values it accepts (two parameter values never collapse to one wire/subtle name); " +
		"(ctxinfo) the contextInfo parameter of every Encrypt/Decrypt reaches the key schedule (labeled extract \"info_hash\" for HPKE, the HKDF info argument for ECIES) through every intermediate function. " +
		"(fixedwidth) every copy of big.Int.Bytes() (minimal big-endian) into a slot of a fixed-width buffer is right-aligned: the copy's start plus the length of the bytes does not depend on that length, and in each buffer some copy ends at the buffer's end (ECIES point encodings). " +
		"Fresh encapsulation: C20; no in-place writes to caller ciphertext: C19. Not decided: key-schedule bytes, DH/KEM arithmetic, point encoding values."
	ac := newAcceptCtx(c)
	runAccept(c, ac, acceptSpec{Prop: "C06", Iface: [2]string{"tink", "HybridDecrypt"}, Method: "Decrypt", MinTypes: 5, PkgPrefix: "hybrid"})
	r.Min("C06.auth", 5)
	c06IDs(c)
	c06FixedWidth(c)
	digestSizeTables(c, "C06")
	injectiveStringTables(c, "C06", []string{"hybrid", "hybrid/ecies", "hybrid/hpke", "hybrid/internal/hpke", "hybrid/subtle", "hybrid/internal/ecies"})
	c06KemBind(c)
	c06CtxInfo(c)
}

// ---------------------------------------------------------------- ids

func c06IDs(c *Ctx) {
	p, r := c.P, c.R
	rel := "hybrid/internal/hpke"
	want := map[string]int64{
		"P256HKDFSHA256": 0x0010, "P384HKDFSHA384": 0x0011, "P521HKDFSHA512": 0x0012, "X25519HKDFSHA256": 0x0020,
		"MLKEM768": 0x0041, "MLKEM1024": 0x0042, "XWing": 0x647a,
		"HKDFSHA256": 1, "HKDFSHA384": 2, "HKDFSHA512": 3,
		"AES128GCM": 1, "AES256GCM": 2, "ChaCha20Poly1305": 3,
	}
	var names []string
	for n := range want {
		names = append(names, n)
	}
	sort.Strings(names)
	for _, n := range names {
		v, ok := constOf(p, rel, n)
		key := "C06.ids/" + n
		if !ok {
			r.AnchorMissing("C06.ids", "constant "+rel+"."+n)
			continue
		}
		r.Check(constant.Compare(v, token.EQL, constant.MakeInt64(want[n])), "C06.ids", key, "-", fmt.Sprintf("%s = %s, RFC 9180/IANA value is %#x", n, v.ExactString(), want[n]), fmt.Sprintf("= %#x", want[n]))
	}
	if v, ok := constOf(p, rel, "hpkeV1"); !ok || constant.StringVal(v) != "HPKE-v1" {
		r.Bad("C06.ids", "C06.ids/hpkeV1", "-", "version label is not \"HPKE-v1\"")
	} else {
		r.Ok("C06.ids", "C06.ids/hpkeV1", "-", "\"HPKE-v1\"")
	}
	// kemLengths literal
	lengths := map[int64][4]int64{
		0x0010: {32, 65, 65, 32}, 0x0011: {48, 97, 97, 48}, 0x0012: {64, 133, 133, 66}, 0x0020: {32, 32, 32, 32},
		0x0041: {32, 1088, 1184, 64}, 0x0042: {32, 1568, 1568, 64}, 0x647a: {32, 1120, 1216, 32},
	}
	sp := p.Pkg(rel)
	if sp == nil || sp.Var("kemLengths") == nil {
		r.AnchorMissing("C06.ids", "hpke.kemLengths")
	} else {
		got := structMapLiteral(sp.Var("kemLengths"))
		for id, w := range lengths {
			key := fmt.Sprintf("C06.ids/kemLengths[%#x]", id)
			g, ok := got[fmt.Sprint(id)]
			if !ok {
				r.Bad("C06.ids", key, p.Pos(sp.Var("kemLengths").Pos()), "no kemLengths entry for this KEM id")
				continue
			}
			good := g["nSecret"] == w[0] && g["nEnc"] == w[1] && g["nPK"] == w[2] && g["nSK"] == w[3]
			r.Check(good, "C06.ids", key, p.Pos(sp.Var("kemLengths").Pos()), fmt.Sprintf("kemLengths = %v, RFC 9180 §7.1 / IANA says Nsecret,Nenc,Npk,Nsk = %v", g, w), fmt.Sprintf("Nsecret,Nenc,Npk,Nsk = %v", w))
		}
		if len(got) != len(lengths) {
			r.Bad("C06.ids", "C06.ids/kemLengths/size", p.Pos(sp.Var("kemLengths").Pos()), fmt.Sprintf("kemLengths has %d entries, %d KEMs are specified", len(got), len(lengths)))
		}
	}
	// suite ids
	if f := p.PkgFunc(rel, "hpkeSuiteID"); f == nil {
		r.AnchorMissing("C06.ids", "hpke.hpkeSuiteID")
	} else if len(f.Params) == 3 && layoutCheck(c, "C06.ids", "C06.ids/hpkeSuiteID", f, 0,
		cat([]byte("HPKE"), []byte{0x11, 0x22, 0x33, 0x44, 0x55, 0x66}), "\"HPKE\" || be16(kem) || be16(kdf) || be16(aead)",
		consteval.C(0x1122), consteval.C(0x3344), consteval.C(0x5566)) {
		// decided by value
	} else {
		// order of AppendUint16 calls: kem, kdf, aead
		var order []int
		var chain []ssa.Value
		allInstrs(f, func(ins ssa.Instruction) {
			if call, ok := ins.(*ssa.Call); ok && strings.HasSuffix(guard.CalleeName(&call.Call), "bigEndian).AppendUint16") {
				arg := guard.Strip(call.Call.Args[len(call.Call.Args)-1])
				for i, prm := range f.Params {
					if arg == ssa.Value(prm) {
						order = append(order, i)
					}
				}
				chain = append(chain, call)
			}
		})
		good := len(order) == 3 && order[0] == 0 && order[1] == 1 && order[2] == 2
		// each append extends the previous one
		for i := 1; i < len(chain) && good; i++ {
			if guard.Strip(chain[i].(*ssa.Call).Call.Args[1]) != chain[i-1] {
				good = false
			}
		}
		if !good {
			// fixed-offset form: PutUint16(res[4:], kem), PutUint16(res[6:], kdf), PutUint16(res[8:], aead)
			// into a 10-byte buffer whose head is the label
			cx := bounds.NewCtx(f)
			at := map[int]string{}
			allInstrs(f, func(ins ssa.Instruction) {
				call, ok := ins.(*ssa.Call)
				if !ok || !strings.HasSuffix(guard.CalleeName(&call.Call), "bigEndian).PutUint16") {
					return
				}
				base, offLin := absSliceStart(cx, call.Call.Args[1])
				if cx.LenOf(base).String() != "10" {
					return
				}
				off := offLin.String()
				arg := guard.Strip(call.Call.Args[len(call.Call.Args)-1])
				for i, prm := range f.Params {
					if arg == ssa.Value(prm) {
						at[i] = off
					}
				}
			})
			good = len(at) == 3 && at[0] == "4" && at[1] == "6" && at[2] == "8"
		}
		hasLabel := false
		allInstrs(f, func(ins ssa.Instruction) {
			for _, op := range ins.Operands(nil) {
				if k, ok := (*op).(*ssa.Const); ok && k.Value != nil && k.Value.Kind() == constant.String && constant.StringVal(k.Value) == "HPKE" {
					hasLabel = true
				}
			}
		})
		r.Check(good && hasLabel, "C06.ids", "C06.ids/hpkeSuiteID", p.FuncPos(f), "suite id is not \"HPKE\" || be16(kem) || be16(kdf) || be16(aead) in this order", "\"HPKE\" then kem, kdf, aead as big-endian uint16")
	}
	if f := p.PkgFunc(rel, "kemSuiteID"); f != nil && len(f.Params) == 1 && layoutCheck(c, "C06.ids", "C06.ids/kemSuiteID", f, 0,
		cat([]byte("KEM"), []byte{0x11, 0x22}), "\"KEM\" || be16(kem)", consteval.C(0x1122)) {
		// decided by value
	} else if f != nil {
		ok := false
		allInstrs(f, func(ins ssa.Instruction) {
			if call, isC := ins.(*ssa.Call); isC && strings.HasSuffix(guard.CalleeName(&call.Call), "bigEndian).AppendUint16") {
				if guard.Strip(call.Call.Args[len(call.Call.Args)-1]) == ssa.Value(f.Params[0]) {
					ok = true
				}
			}
		})
		hasLabel := false
		allInstrs(f, func(ins ssa.Instruction) {
			for _, op := range ins.Operands(nil) {
				if k, isK := (*op).(*ssa.Const); isK && k.Value != nil && k.Value.Kind() == constant.String && constant.StringVal(k.Value) == "KEM" {
					hasLabel = true
				}
			}
		})
		r.Check(ok && hasLabel, "C06.ids", "C06.ids/kemSuiteID", p.FuncPos(f), "KEM suite id is not \"KEM\" || be16(kem)", "\"KEM\" || be16(kem)")
	}
	// the labelled inputs of RFC 9180 §4 and the key schedule context of §5.1, by value
	suite := []byte("HPKE\x00\x10\x00\x01\x00\x01")
	ikm := []byte{0xa1, 0xa2, 0xa3}
	if f := p.PkgFunc(rel, "labelIKM"); f != nil && len(f.Params) == 3 {
		if !layoutCheck(c, "C06.ids", "C06.ids/labelIKM", f, 0, cat([]byte("HPKE-v1"), suite, []byte("secret"), ikm),
			"LabeledExtract input \"HPKE-v1\" || suite_id || label || ikm", consteval.S("secret"), consteval.BytesVal(ikm), consteval.BytesVal(suite)) {
			r.Outside("C06.ids", "C06.ids/labelIKM", p.FuncPos(f), "labelIKM does not fold on constant arguments; not decided by value")
		}
	}
	if f := p.PkgFunc(rel, "labelInfo"); f != nil && len(f.Params) == 4 {
		if !layoutCheck(c, "C06.ids", "C06.ids/labelInfo", f, 0, cat([]byte{0x01, 0x02}, []byte("HPKE-v1"), suite, []byte("key"), ikm),
			"LabeledExpand info be16(L) || \"HPKE-v1\" || suite_id || label || info", consteval.S("key"), consteval.BytesVal(ikm), consteval.BytesVal(suite), consteval.C(0x0102)) {
			r.Outside("C06.ids", "C06.ids/labelInfo", p.FuncPos(f), "labelInfo does not fold on constant arguments; not decided by value")
		}
	}
	if f := p.PkgFunc(rel, "keyScheduleContext"); f != nil && len(f.Params) == 3 {
		a, b := []byte{0xb1, 0xb2, 0xb3, 0xb4}, []byte{0xc1, 0xc2}
		if !layoutCheck(c, "C06.ids", "C06.ids/keyScheduleContext", f, 0, cat([]byte{0x00}, a, b),
			"key_schedule_context mode || psk_id_hash || info_hash", consteval.C(0), consteval.BytesVal(a), consteval.BytesVal(b)) {
			r.Outside("C06.ids", "C06.ids/keyScheduleContext", p.FuncPos(f), "keyScheduleContext does not fold on constant arguments; not decided by value")
		}
	}
	r.Min("C06.ids", 20)
}

// structMapLiteral reads `var g = map[K]struct{…}{k: {f: c, …}, …}` from the
// package initialiser: key -> field -> integer constant.
func structMapLiteral(g *ssa.Global) map[string]map[string]int64 {
	out := map[string]map[string]int64{}
	init := g.Pkg.Func("init")
	if init == nil {
		return out
	}
	allInstrs(init, func(ins ssa.Instruction) {
		mu, ok := ins.(*ssa.MapUpdate)
		if !ok {
			return
		}
		// the map must be the one stored into g
		isG := false
		for _, ref := range *mu.Map.Referrers() {
			if st, isS := ref.(*ssa.Store); isS && st.Addr == ssa.Value(g) {
				isG = true
			}
		}
		k, isK := guard.Strip(mu.Key).(*ssa.Const)
		if !isG || !isK || k.Value == nil {
			return
		}
		fields := map[string]int64{}
		// value: load of a local struct whose fields were stored with constants
		if ld, isL := mu.Value.(*ssa.UnOp); isL {
			if al, isA := ld.X.(*ssa.Alloc); isA {
				st, _ := al.Type().Underlying().(*types.Pointer).Elem().Underlying().(*types.Struct)
				for _, ref := range *al.Referrers() {
					if fa, isFA := ref.(*ssa.FieldAddr); isFA && st != nil {
						for _, r2 := range *fa.Referrers() {
							if s, isS := r2.(*ssa.Store); isS {
								if v, isC := guard.ConstInt(s.Val); isC {
									fields[st.Field(fa.Field).Name()] = v
								}
							}
						}
					}
				}
			}
		}
		out[k.Value.ExactString()] = fields
	})
	return out
}

// ---------------------------------------------------------------- hash -> size tables

var stdDigest = []struct {
	frag string
	size int64
}{{"512", 64}, {"384", 48}, {"256", 32}, {"224", 28}, {"SHA1", 20}, {"SHA_1", 20}, {"Sha1", 20}}

func digestOfName(name string) (int64, bool) {
	u := strings.ToUpper(name)
	if !strings.Contains(u, "SHA") {
		return 0, false
	}
	for _, d := range stdDigest {
		if strings.Contains(u, strings.ToUpper(d.frag)) {
			return d.size, true
		}
	}
	return 0, false
}

// digestSizeTables: every product function that maps a hash enum (or the hash
// name strings) to a size gives the standard digest size.
func digestSizeTables(c *Ctx, prop string) {
	p, r := c.P, c.R
	rule := prop + ".digest"
	ev := consteval.New()
	n := 0
	for _, f := range p.SortedFuncs(core.Product) {
		if f.Parent() != nil || f.Synthetic != "" || len(f.Params) != 1 {
			continue
		}
		ln := strings.ToLower(f.Name())
		if !(strings.Contains(ln, "digestsize") || strings.Contains(ln, "hashsize") || strings.Contains(ln, "hashlength") || strings.Contains(ln, "digestlength") || (strings.Contains(ln, "size") && strings.Contains(ln, "hash")) || (strings.Contains(ln, "size") && strings.Contains(ln, "digest"))) {
			continue
		}
		res := f.Signature.Results()
		if res.Len() == 0 || res.Len() > 2 {
			continue
		}
		if b, ok := res.At(0).Type().Underlying().(*types.Basic); !ok || b.Info()&types.IsInteger == 0 {
			continue
		}
		// argument domain
		type arg struct {
			name string
			v    consteval.Val
		}
		var args []arg
		pt := f.Params[0].Type()
		if en := enumNamed(pt); en != nil {
			for name, v := range constsOf(en) {
				args = append(args, arg{name, consteval.Val{K: consteval.Const, C: v}})
			}
		} else if b, ok := pt.Underlying().(*types.Basic); ok && b.Info()&types.IsString != 0 {
			for _, s := range []string{"SHA1", "SHA224", "SHA256", "SHA384", "SHA512"} {
				args = append(args, arg{s, consteval.S(s)})
			}
		} else {
			continue
		}
		sort.Slice(args, func(i, j int) bool { return args[i].name < args[j].name })
		for _, a := range args {
			want, isHash := digestOfName(a.name)
			if !isHash {
				continue
			}
			key := fmt.Sprintf("%s/%s(%s)", rule, core.FuncID(f), a.name)
			outs, ok := ev.Eval(f, []consteval.Val{a.v}, nil)
			if !ok || len(outs) != 1 {
				r.Unknown(rule, key, p.FuncPos(f), fmt.Sprintf("cannot fold (%d outcomes)", len(outs)))
				continue
			}
			o := outs[0]
			if o.IsErr() {
				r.Outside(rule, key, p.FuncPos(f), "hash not supported by this table")
				continue
			}
			n++
			good := o.Results[0].K == consteval.Const && constant.Compare(o.Results[0].C, token.EQL, constant.MakeInt64(want))
			r.Check(good, rule, key, p.FuncPos(f), fmt.Sprintf("digest size of %s is given as %v, the standard size is %d", a.name, o.Results[0], want), fmt.Sprintf("= %d", want))
		}
	}
	r.Counts["digest_table_rows"] = n
	r.Min(rule, 5)
}

// ---------------------------------------------------------------- injective enum -> string tables

func injectiveStringTables(c *Ctx, prop string, pkgs []string) {
	p, r := c.P, c.R
	rule := prop + ".injective"
	ev := consteval.New()
	inScope := map[string]bool{}
	for _, k := range pkgs {
		inScope[k] = true
	}
	n := 0
	for _, f := range p.SortedFuncs(core.Product) {
		if f.Parent() != nil || f.Synthetic != "" || !inScope[core.Rel(core.PkgOf(f))] {
			continue
		}
		if len(f.Params) != 1 {
			continue
		}
		en := enumNamed(f.Params[0].Type())
		res := f.Signature.Results()
		if en == nil || res.Len() == 0 || res.Len() > 2 {
			continue
		}
		if b, ok := res.At(0).Type().Underlying().(*types.Basic); !ok || b.Info()&types.IsString == 0 {
			continue
		}
		if res.Len() == 2 && !guard.IsErrorType(res.At(1).Type()) {
			continue
		}
		consts := constsOf(en)
		var names []string
		for name := range consts {
			names = append(names, name)
		}
		sort.Strings(names)
		seen := map[string]string{}
		n++
		key := fmt.Sprintf("%s/%s", rule, core.FuncID(f))
		bad := ""
		for _, name := range names {
			outs, ok := ev.Eval(f, []consteval.Val{{K: consteval.Const, C: consts[name]}}, nil)
			if !ok || len(outs) != 1 {
				continue
			}
			o := outs[0]
			if o.IsErr() || o.Results[0].K != consteval.Const || o.Results[0].C.Kind() != constant.String {
				continue
			}
			s := constant.StringVal(o.Results[0].C)
			if s == "" || strings.HasPrefix(strings.ToLower(s), "unknown") {
				continue
			}
			if prev, dup := seen[s]; dup && !constant.Compare(consts[prev], token.EQL, consts[name]) {
				bad = fmt.Sprintf("%s and %s both map to %q", prev, name, s)
			}
			seen[s] = name
		}
		r.Check(bad == "", rule, key, p.FuncPos(f), "two different parameter values collapse to the same name: "+bad, fmt.Sprintf("%d values map to distinct names", len(seen)))
	}
	r.Min(rule, 6)
	_ = n
}

// ---------------------------------------------------------------- ctxinfo

// reachesSink: parameter prm of fn is handed, possibly through module callees,
// to a call accepted by sink at the stated argument.
func reachesSink(fn *ssa.Function, prm ssa.Value, sink func(call ssa.CallInstruction, argIdx int) bool, depth int) bool {
	if depth > 5 {
		return false
	}
	found := false
	// values derived from prm by slicing / conversion only
	derived := map[ssa.Value]bool{prm: true}
	for changed := true; changed; {
		changed = false
		allInstrs(fn, func(ins ssa.Instruction) {
			v, ok := ins.(ssa.Value)
			if !ok || derived[v] {
				return
			}
			switch x := ins.(type) {
			case *ssa.Slice:
				if derived[x.X] {
					derived[v], changed = true, true
				}
			case *ssa.ChangeType:
				if derived[x.X] {
					derived[v], changed = true, true
				}
			case *ssa.Phi:
				for _, e := range x.Edges {
					if derived[e] {
						derived[v], changed = true, true
					}
				}
			}
		})
	}
	allInstrs(fn, func(ins ssa.Instruction) {
		call, ok := ins.(ssa.CallInstruction)
		if !ok || found {
			return
		}
		cc := call.Common()
		args := cc.Args
		for i, a := range args {
			if !derived[a] {
				continue
			}
			if sink(call, i) {
				found = true
				return
			}
			var callees []*ssa.Function
			if sc := cc.StaticCallee(); sc != nil {
				callees = []*ssa.Function{sc}
			}
			for _, callee := range callees {
				if callee.Blocks == nil || core.FuncClass(callee) != core.Product {
					continue
				}
				idx := i
				if idx < len(callee.Params) && reachesSink(callee, callee.Params[idx], sink, depth+1) {
					found = true
					return
				}
			}
		}
	})
	return found
}

func c06CtxInfo(c *Ctx) {
	p, r := c.P, c.R
	sink := func(call ssa.CallInstruction, argIdx int) bool {
		cc := call.Common()
		n := guard.CalleeName(cc)
		// HPKE: labeledExtract(salt, ikm=info, "info_hash", suite)
		if strings.HasSuffix(n, ".labeledExtract") {
			for _, a := range cc.Args {
				if k, ok := a.(*ssa.Const); ok && k.Value != nil && k.Value.Kind() == constant.String && constant.StringVal(k.Value) == "info_hash" {
					return true
				}
			}
		}
		// ECIES: subtle.ComputeHKDF(hashAlg, key, salt, info, size): info is argument 3
		if strings.HasSuffix(n, "/subtle.ComputeHKDF") && argIdx == 3 {
			return true
		}
		return false
	}
	n := 0
	for _, spec := range []struct{ iface, method string }{{"HybridEncrypt", "Encrypt"}, {"HybridDecrypt", "Decrypt"}} {
		it := p.LookupIface(core.ModPath+"/tink", spec.iface)
		if it == nil {
			r.AnchorMissing("C06.ctxinfo", "tink."+spec.iface)
			continue
		}
		for _, t := range p.Implementers(it, core.Product) {
			f := p.MethodOf(t, spec.method)
			if f == nil || f.Blocks == nil || len(f.Params) < 3 {
				continue
			}
			rel := core.Rel(core.PkgOf(f))
			if !strings.HasPrefix(rel, "hybrid") {
				continue // AEAD types share the method set; they are not hybrid primitives
			}
			// keyset-level wrappers and adapters only delegate through the interface
			delegates := false
			allInstrs(f, func(ins ssa.Instruction) {
				if call, ok := ins.(ssa.CallInstruction); ok && call.Common().IsInvoke() && call.Common().Method.Name() == spec.method {
					for _, a := range call.Common().Args {
						if guard.Strip(a) == ssa.Value(f.Params[2]) {
							delegates = true
						}
					}
				}
			})
			if !delegates {
				// pair objects call the wrapped primitive statically
				allInstrs(f, func(ins ssa.Instruction) {
					if call, ok := ins.(ssa.CallInstruction); ok && !call.Common().IsInvoke() {
						if callee := call.Common().StaticCallee(); callee != nil && callee.Name() == spec.method && callee.Signature.Recv() != nil {
							for _, a := range call.Common().Args {
								if guard.Strip(a) == ssa.Value(f.Params[2]) && rel == "hybrid" {
									delegates = true
								}
							}
						}
					}
				})
			}
			n++
			key := "C06.ctxinfo/" + core.FuncID(f)
			if delegates {
				r.Ok("C06.ctxinfo", key, p.FuncPos(f), "passes contextInfo on to the wrapped primitive")
				continue
			}
			ok := reachesSink(f, f.Params[2], sink, 0)
			r.Check(ok, "C06.ctxinfo", key, p.FuncPos(f), "the contextInfo parameter does not reach the key schedule (info_hash labeled extract / HKDF info): ciphertexts would not be bound to the context", "contextInfo reaches the key schedule")
		}
	}
	r.Counts["hybrid_methods"] = n
	r.Min("C06.ctxinfo", 8)
}

// c06Suite: the HPKE primitive factories pair every identifier with the
// algorithm RFC 9180 §7 assigns to it — folded by constant propagation through
// the constructors: the object built for KEM 0x0011 must say KEM 0x0011 and
// derive its shared secret with SHA-384, etc. A constructor the propagator
// cannot fold (table-driven rewrite) is reported as outside the rule.
func c06Suite(c *Ctx) {
	p, r := c.P, c.R
	rel := "hybrid/internal/hpke"
	type probe struct {
		fn      string
		id      int64
		idField []string
		field   []string
		want    string // ExactString of the expected constant
		what    string
	}
	probes := []probe{
		{"newKEM", 0x10, []string{"kemID"}, []string{"hmacHashAlg", "hashAlg"}, `"SHA256"`, "DHKEM(P-256, HKDF-SHA256)"},
		{"newKEM", 0x11, []string{"kemID"}, []string{"hmacHashAlg", "hashAlg"}, `"SHA384"`, "DHKEM(P-384, HKDF-SHA384)"},
		{"newKEM", 0x12, []string{"kemID"}, []string{"hmacHashAlg", "hashAlg"}, `"SHA512"`, "DHKEM(P-521, HKDF-SHA512)"},
		{"newKEM", 0x20, []string{"kemID"}, []string{"hmacHashAlg", "hashAlg"}, `"SHA256"`, "DHKEM(X25519, HKDF-SHA256)"},
		{"newKDF", 1, []string{"kdfID"}, []string{"hashFunction"}, "5", "HKDF-SHA256 (crypto.SHA256)"},
		{"newKDF", 2, []string{"kdfID"}, []string{"hashFunction"}, "6", "HKDF-SHA384 (crypto.SHA384)"},
		{"newKDF", 3, []string{"kdfID"}, []string{"hashFunction"}, "7", "HKDF-SHA512 (crypto.SHA512)"},
		{"newAEAD", 1, []string{"aeadID"}, []string{"keyLen", "keyLength"}, "16", "AES-128-GCM"},
		{"newAEAD", 2, []string{"aeadID"}, []string{"keyLen", "keyLength"}, "32", "AES-256-GCM"},
	}
	// the package's own HashType constants name the hash (SHA256, SHA384, SHA512)
	for i := range probes {
		if strings.HasPrefix(probes[i].want, `"SHA`) {
			name := strings.Trim(probes[i].want, `"`)
			if v, ok := constOf(p, rel, name); ok {
				probes[i].want = v.ExactString()
				probes[i].what += " = hpke." + name
			}
		}
	}
	ev := consteval.New()
	n := 0
	for _, pb := range probes {
		f := p.PkgFunc(rel, pb.fn)
		key := fmt.Sprintf("C06.suite/%s(%#x)", pb.fn, pb.id)
		if f == nil {
			r.Outside("C06.suite", key, "-", "factory "+pb.fn+" not found under this name")
			continue
		}
		outs, ok := ev.Eval(f, []consteval.Val{consteval.C(pb.id)}, nil)
		var st map[string]consteval.Val
		for _, o := range outs {
			if !o.IsErr() {
				st = o.Stores
			}
		}
		get := func(names []string) (string, bool) {
			for _, nme := range names {
				if v, has := st[nme]; has && v.K == consteval.Const {
					return v.C.ExactString(), true
				}
			}
			return "", false
		}
		idv, okID := get(pb.idField)
		alg, okAlg := get(pb.field)
		if !ok || st == nil || !okID || !okAlg {
			r.Outside("C06.suite", key, p.FuncPos(f), "the constructor does not fold to constant fields (table-driven form): not decided here")
			continue
		}
		n++
		r.Check(idv == fmt.Sprint(pb.id) && alg == pb.want, "C06.suite", key, p.FuncPos(f),
			fmt.Sprintf("the primitive built for identifier %#x carries id %s and algorithm parameter %s; RFC 9180 §7 assigns %s (%s)", pb.id, idv, alg, pb.want, pb.what),
			fmt.Sprintf("id %s, parameter %s (%s)", idv, alg, pb.what))
	}
	r.Counts["suite_probes_folded"] = n
}

// c06FixedWidth: (*big.Int).Bytes() is the minimal big-endian form; copied into
// a fixed-width slot it must be right-aligned, i.e. start at `end - len(bytes)`.
// For every copy(dst[lo:], src) in the hybrid packages whose src derives from
// big.Int.Bytes(): lo + len(src), as a linear term, must not mention len(src);
// and per buffer some such copy ends exactly at len(buffer).
func c06FixedWidth(c *Ctx) {
	p, r := c.P, c.R
	var fromBig func(v ssa.Value, depth int) bool
	fromBig = func(v ssa.Value, depth int) bool {
		if depth > 4 {
			return false
		}
		v = guard.Strip(v)
		if call, _ := guard.CallOf(v); call != nil {
			n := guard.CalleeName(&call.Call)
			if n == "(*math/big.Int).Bytes" {
				return true
			}
			if n == "bytes.Replace" || n == "bytes.TrimLeft" || n == "bytes.TrimPrefix" {
				return fromBig(call.Call.Args[0], depth+1)
			}
			return false
		}
		if phi, ok := v.(*ssa.Phi); ok {
			for _, e := range phi.Edges {
				if fromBig(e, depth+1) {
					return true
				}
			}
		}
		return false
	}
	n := 0
	for _, f := range p.SortedFuncs(core.Product) {
		if !strings.HasPrefix(core.Rel(core.PkgOf(f)), "hybrid") {
			continue
		}
		cx := bounds.NewCtx(f)
		endsAtBufEnd := map[ssa.Value]bool{}
		var bufs []ssa.Value
		bufPos := map[ssa.Value]ssa.Instruction{}
		allInstrs(f, func(ins ssa.Instruction) {
			call, ok := ins.(*ssa.Call)
			if !ok {
				return
			}
			if guard.CalleeName(&call.Call) == "(*math/big.Int).FillBytes" {
				// fixed width and right-aligned by definition
				n++
				r.Ok("C06.fixedwidth", fmt.Sprintf("C06.fixedwidth/%s/FillBytes", core.FuncID(f)), p.Pos(ins.Pos()), "big.Int.FillBytes writes the value right-aligned into the whole slot")
				return
			}
			b, isB := call.Call.Value.(*ssa.Builtin)
			if !isB || b.Name() != "copy" || !fromBig(call.Call.Args[1], 0) {
				return
			}
			n++
			src := call.Call.Args[1]
			base, lo := absSliceStart(cx, call.Call.Args[0])
			end := lo.Add(cx.LenOf(src), 1)
			aligned := true
			for a := range cx.LenOf(src).Coef {
				if end.Coef[a] != 0 {
					aligned = false
				}
			}
			if _, seen := bufPos[base]; !seen {
				bufs = append(bufs, base)
				bufPos[base] = ins
			}
			if d, isK := end.Add(cx.LenOf(base), -1).Const(); isK && d == 0 {
				endsAtBufEnd[base] = true
			}
			r.Check(aligned, "C06.fixedwidth", fmt.Sprintf("C06.fixedwidth/%s/copy ending at %s", core.FuncID(f), end.String()), p.Pos(ins.Pos()),
				"the minimal big-endian bytes of a big.Int are copied into a fixed-width slot without right alignment (start + len(bytes) depends on len(bytes)): a coordinate with a leading zero byte is shifted", "start = slot end - len(bytes)")
		})
		for _, b := range bufs {
			r.Check(endsAtBufEnd[b], "C06.fixedwidth", fmt.Sprintf("C06.fixedwidth/%s/buffer %s filled to its end", core.FuncID(f), cx.LenOf(b).String()), p.Pos(bufPos[b].Pos()),
				"no big-integer field ends at the end of the fixed-width buffer (the last coordinate is not right-aligned to the buffer)", "a copy ends at len(buffer)")
		}
	}
	r.Counts["bigint_fixed_width_copies"] = n
	r.Min("C06.fixedwidth", 3)
}
