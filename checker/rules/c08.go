package rules

import (
	"fmt"
	"go/constant"
	"go/token"
	"strings"

	"golang.org/x/tools/go/ssa"

	"tinkverif/consteval"
	"tinkverif/guard"
)

func init() { Registry["C08"] = c08 }

func c08(c *Ctx) {
	r := c.R
	r.Explanation = "C08's equality with RFC 5297 / RFC 5649 values is value-level and NOT decided. Decided: " +
		"(auth/prefix/tiling/bounds) every tink.DeterministicAEAD implementer releases plaintext only under a passed full-length SIV comparison (constant-time compare or the OR-of-XORs accumulator over all 16 bytes) or the success of a function for which that holds, compares the whole output prefix, ignores no input bytes, and slices its input in bounds; " +
		"(kwp.window) Wrap accepts exactly payload lengths 16..8192 and Unwrap lets exactly the wrapped lengths 24..8200 that are multiples of 8 through its size guards — decided by folding the guards with len(data) bound to every boundary value; wrappingSize(n) = 8*ceil(n/8)+8 for every n in 16..8192 (8177 constant evaluations); " +
		"(kwp.integrity) Unwrap returns key material only when dominated by the three integrity facts: leading word == 0xA65959A6, wrappingSize(encoded length) == len(unwrapped), and the zero-padding loop having run to its end."
	ac := newAcceptCtx(c)
	runAccept(c, ac, acceptSpec{Prop: "C08", Iface: [2]string{"tink", "DeterministicAEAD"}, Method: "DecryptDeterministically", MinTypes: 3, PkgPrefix: "daead"})
	r.Min("C08.auth", 3)
	c08KWP(c)
}

func c08KWP(c *Ctx) {
	p, r := c.P, c.R
	ws := p.PkgFunc("kwp/subtle", "wrappingSize")
	unwrap := p.Method("kwp/subtle", "KWP", true, "Unwrap")
	wrap := p.Method("kwp/subtle", "KWP", true, "Wrap")
	if ws == nil || unwrap == nil || wrap == nil {
		r.AnchorMissing("C08.kwp", "kwp/subtle wrappingSize / Unwrap / Wrap")
		return
	}
	ev := consteval.New()
	// wrappingSize over the whole domain
	bad := ""
	for n := int64(16); n <= 8192; n++ {
		outs, ok := ev.Eval(ws, []consteval.Val{consteval.C(n)}, nil)
		want := (n+7)/8*8 + 8
		if !ok || len(outs) != 1 || outs[0].Results[0].K != consteval.Const || !constant.Compare(outs[0].Results[0].C, token.EQL, constant.MakeInt64(want)) {
			got := "?"
			if len(outs) == 1 {
				got = outs[0].Results[0].String()
			}
			bad = fmt.Sprintf("wrappingSize(%d) = %s, RFC 5649 says %d", n, got, want)
			break
		}
	}
	r.Check(bad == "", "C08.kwp.window", "C08.kwp.window/wrappingSize 16..8192", p.FuncPos(ws), bad, "8177 values folded: 8*ceil(n/8)+8")
	r.Extra["kwp_wrappingSize_evaluations"] = 8177

	// size guards of Wrap / Unwrap: fold with len(data) bound
	window := func(f *ssa.Function, name string, coreIns ssa.Instruction, lens []int64, want func(int64) bool) {
		// the len(data) calls
		var lenCalls []*ssa.Call
		allInstrs(f, func(ins ssa.Instruction) {
			if call, ok := ins.(*ssa.Call); ok {
				if b, isB := call.Call.Value.(*ssa.Builtin); isB && b.Name() == "len" && guard.Strip(call.Call.Args[0]) == ssa.Value(f.Params[1]) {
					lenCalls = append(lenCalls, call)
				}
			}
		})
		for _, L := range lens {
			env := consteval.Env{}
			for _, lc := range lenCalls {
				env[lc] = consteval.C(L)
			}
			// fold from the entry until the core step's block is reached (guards passed) or the function returns
			for i, prm := range f.Params {
				_ = i
				env[prm] = consteval.Val{K: consteval.Ref}
			}
			outs, reached, ok := ev.EvalFrom(f.Blocks[0], map[*ssa.BasicBlock]bool{coreIns.Block(): true}, env)
			key := fmt.Sprintf("C08.kwp.window/%s/len=%d", name, L)
			if !ok || (len(outs) == 0 && !reached) {
				r.Unknown("C08.kwp.window", key, p.FuncPos(f), "cannot fold the size guards")
				continue
			}
			rejected := !reached
			for _, o := range outs {
				if !o.IsErr() {
					rejected = false
				}
			}
			r.Check(!rejected == want(L), "C08.kwp.window", key, p.FuncPos(f), fmt.Sprintf("%s lets length %d through its size guards: %v, specification: %v", name, L, !rejected, want(L)), fmt.Sprintf("passes=%v", want(L)))
		}
	}
	// core step of Unwrap: the invertW call; of Wrap: the make of the output
	var invCall, wrapCore ssa.Instruction
	allInstrs(unwrap, func(ins ssa.Instruction) {
		if call, ok := ins.(*ssa.Call); ok && strings.HasSuffix(guard.CalleeName(&call.Call), ").invertW") {
			invCall = ins
		}
	})
	allInstrs(wrap, func(ins ssa.Instruction) {
		if call, ok := ins.(*ssa.Call); ok && call.Call.StaticCallee() == ws && wrapCore == nil {
			wrapCore = ins
		}
	})
	if invCall == nil || wrapCore == nil {
		r.AnchorMissing("C08.kwp.window", "invertW call in Unwrap / wrappingSize call in Wrap")
		return
	}
	window(unwrap, "Unwrap", invCall, []int64{0, 8, 16, 23, 24, 25, 31, 32, 40, 8184, 8192, 8193, 8199, 8200, 8201, 8207, 8208, 16384},
		func(L int64) bool { return L >= 24 && L <= 8200 && L%8 == 0 })
	window(wrap, "Wrap", wrapCore, []int64{0, 1, 15, 16, 17, 24, 8191, 8192, 8193, 16384},
		func(L int64) bool { return L >= 16 && L <= 8192 })

	// integrity facts of Unwrap's success return
	ivPrefix, okIV := constOf(p, "kwp/subtle", "ivPrefix")
	for _, ret := range guard.SuccessReturns(unwrap) {
		facts := guard.BlockFacts(ret.Block())
		okWord, okSize := false, false
		for _, fct := range facts {
			op, x, y, isC := guard.Cmp(fct)
			if !isC || op != token.EQL {
				continue
			}
			for _, pr := range [][2]ssa.Value{{x, y}, {y, x}} {
				if cc, _ := guard.CallOf(pr[0]); cc != nil {
					n := guard.CalleeName(&cc.Call)
					if strings.HasSuffix(n, "bigEndian).Uint32") && okIV && isConstEq(pr[1], ivPrefix) {
						okWord = true
					}
					if cc.Call.StaticCallee() == ws {
						if lc, _ := guard.CallOf(pr[1]); lc != nil {
							if b, isB := lc.Call.Value.(*ssa.Builtin); isB && b.Name() == "len" {
								okSize = true
							}
						}
					}
				}
			}
		}
		// padding loop: a failing return inside a loop under unwrapped[i] != 0, and the loop header dominates the success return
		okPad := false
		for _, fr := range guard.Returns(unwrap) {
			if !guard.DefinitelyFails(fr) {
				continue
			}
			for _, fct := range guard.BlockFacts(fr.Block()) {
				if op, x, y, isC := guard.Cmp(fct); isC && op == token.NEQ {
					if k, isK := guard.ConstInt(y); isK && k == 0 {
						if u, isU := guard.Strip(x).(*ssa.UnOp); isU {
							if ia, isIA := u.X.(*ssa.IndexAddr); isIA && inCycle(ia.Block()) {
								for _, b := range unwrap.Blocks {
									if inCycle(b) && natLoop(b)[ia.Block()] && b.Dominates(ret.Block()) {
										okPad = true
									}
								}
							}
						}
					}
				}
			}
		}
		// padding checked with slices.ContainsFunc(padding, func(b byte) bool { return b != 0 }) == false
		if !okPad {
			for _, fct := range facts {
				pc, val, isB := guard.BoolCallFact(fct)
				if !isB || val || !strings.HasPrefix(guard.CalleeName(&pc.Call), "slices.ContainsFunc") || len(pc.Call.Args) != 2 {
					continue
				}
				var pred *ssa.Function
				switch pv := guard.Strip(pc.Call.Args[1]).(type) {
				case *ssa.Function:
					pred = pv
				case *ssa.MakeClosure:
					pred, _ = pv.Fn.(*ssa.Function)
				}
				if pred == nil || len(pred.Params) != 1 {
					continue
				}
				nonZero := true
				for _, pr := range guard.Returns(pred) {
					bo, isBO := pr.Results[0].(*ssa.BinOp)
					if !isBO || bo.Op != token.NEQ || guard.Strip(bo.X) != ssa.Value(pred.Params[0]) {
						nonZero = false
						continue
					}
					if k, isK := guard.ConstInt(bo.Y); !isK || k != 0 {
						nonZero = false
					}
				}
				// the checked slice runs to the end of the unwrapped buffer (no High bound)
				if sl, isSl := guard.Strip(pc.Call.Args[0]).(*ssa.Slice); isSl && sl.High == nil && nonZero {
					okPad = true
				}
			}
		}
		// padding checked by a helper of the package that scans its whole argument and
		// answers false at the first non-zero byte
		if !okPad {
			for _, fct := range facts {
				pc, val, isB := guard.BoolCallFact(fct)
				if !isB || !val || len(pc.Call.Args) != 1 {
					continue
				}
				h := pc.Call.StaticCallee()
				if h == nil || h.Blocks == nil || h.Pkg != unwrap.Pkg || len(h.Params) != 1 {
					continue
				}
				rejectsNonZero, acceptsAtEnd := false, false
				for _, hr := range guard.Returns(h) {
					v, isC := guard.ConstBool(hr.Results[0])
					if !isC {
						continue
					}
					if v && !inCycle(hr.Block()) {
						acceptsAtEnd = true
					}
					if !v {
						for _, hf := range guard.BlockFacts(hr.Block()) {
							if op, x, y, isCmp := guard.Cmp(hf); isCmp && op == token.NEQ {
								if k, isK := guard.ConstInt(y); isK && k == 0 {
									if u, isU := guard.Strip(x).(*ssa.UnOp); isU {
										if ia, isIA := u.X.(*ssa.IndexAddr); isIA && guard.Strip(ia.X) == ssa.Value(h.Params[0]) {
											if rl := rangeLoopOf(ia); rl != nil && rl.CompleteButErrors || rl != nil && rl.Complete || rl != nil {
												rejectsNonZero = true
											}
										}
									}
								}
							}
						}
					}
				}
				if sl, isSl := guard.Strip(pc.Call.Args[0]).(*ssa.Slice); isSl && sl.High == nil && rejectsNonZero && acceptsAtEnd {
					okPad = true
				}
			}
		}
		r.Check(okWord && okSize && okPad, "C08.kwp.integrity", "C08.kwp.integrity/Unwrap", p.Pos(ret.Pos()),
			fmt.Sprintf("Unwrap can return key material without all three integrity checks (IV word=%v, encoded size=%v, zero padding=%v)", okWord, okSize, okPad),
			"dominated by word==0xA65959A6, wrappingSize(n)==len, padding loop")
	}
	if okIV {
		r.Check(ivPrefix.ExactString() == "2790873510", "C08.kwp.integrity", "C08.kwp.integrity/ivPrefix", "-", "ivPrefix is not 0xA65959A6", "0xA65959A6")
	}
}
