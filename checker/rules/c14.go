package rules

import (
	"fmt"
	"go/token"
	"go/types"
	"sort"
	"strings"
	"tinkverif/bounds"

	"golang.org/x/tools/go/ssa"

	"tinkverif/consteval"
	"tinkverif/core"
	"tinkverif/guard"
)

func init() { Registry["C14"] = c14 }

// bindFieldLoads binds every load of a field of the given base value, by
// field name, to a value.
func bindFieldLoads(f *ssa.Function, base ssa.Value, vals map[string]consteval.Val) consteval.Env {
	env := consteval.Env{}
	bindFieldLoadsInto(env, f, base, vals, 0)
	return env
}

// bindFieldLoadsInto also binds the loads in helpers of the package that receive
// the same object (methods extracted from f, e.g. par.signatureLength()).
func bindFieldLoadsInto(env consteval.Env, f *ssa.Function, base ssa.Value, vals map[string]consteval.Val, depth int) {
	allInstrs(f, func(ins ssa.Instruction) {
		v, ok := ins.(ssa.Value)
		if !ok {
			return
		}
		if b, fld, isF := guard.FieldOf(v); isF && guard.Strip(b) == base {
			if val, has := vals[fld]; has {
				env[v] = val
			}
		}
		if call, isCall := ins.(*ssa.Call); isCall && depth < 2 {
			if g := call.Call.StaticCallee(); g != nil && g.Blocks != nil && g.Pkg == f.Pkg && g != f {
				for i, a := range call.Call.Args {
					if guard.Strip(a) == base && i < len(g.Params) {
						bindFieldLoadsInto(env, g, g.Params[i], vals, depth+1)
					}
				}
			}
		}
	})
}

func c14(c *Ctx) {
	r := c.R
	r.Explanation = "C14 is decided through structural clauses: " +
		"(validate) a keyset.Handle object is allocated only in newFromEntries; entries built from a proto keyset exist only after Validate(ks)==nil on that keyset (keysetToEntries), and newFromEntries itself rejects a missing primary and Unknown status (C11.isolation); " +
		"(enums) validateKey, folded for every OutputPrefixType and KeyStatusType constant plus an out-of-range probe, accepts exactly {TINK,LEGACY,RAW,CRUNCHY} x {ENABLED,DISABLED,DESTROYED} and rejects nil key data; keyStatusFromProto / the prefix tables agree on the same sets; " +
		"(structure) Validate rejects nil/empty keysets, applies validateKey to every key, rejects a repeated key ID through a map every iteration feeds, rejects a non-ENABLED primary and a second primary, and succeeds only with an ENABLED primary found; " +
		"(strength) the strength validators, folded at their boundaries, reject exactly below the library minimums (AES key in {16,32}; RSA modulus >= 2048 and e == 65537; ECDSA hash no weaker than the curve; HKDF-PRF key >= 32 with SHA-256/512; HMAC-PRF key >= 16; AES-CMAC-PRF key == 32; HMAC under C04) and every primitive constructor of those key types passes through its validator on every success path. " +
		"(keypair) every validate…PrivateKey function compares, on every success path, the public key derived from the private material with the stored public key; " +
		"(bigint) every narrowing of a big integer parsed from key material (Int64/Uint64) is dominated by the matching IsInt64/IsUint64 check on the same value, so oversized RSA exponents cannot be truncated into acceptable ones. " +
		"(fixedkey) crypto/ed25519 panics on key material of the wrong length: the Ed25519 key constructors, folded with the length of their key-material argument bound to 0, 31, 32, 33 and 64, succeed for 32 only. " +
		"(strslice) every slicing of a string in product code (type URLs, kids, names of untrusted keysets) is proved in bounds from the guards that dominate it (strings.HasPrefix / length tests), so a short or odd string cannot panic handle construction or monitoring; " +
		"Not decided: absence of run-time panics in general (index arithmetic in loops, stdlib), self-consistency of created primitives (behavioural)."
	c14Validate(c)
	c14Enums(c)
	c14Structure(c)
	c14Strength(c)
	c14BigInt(c)
	c14KeyPair(c)
	c14NilMsg(c)
	c14FixedKey(c)
	c14StrSlice(c)
	c14RSACarry(c)
}

// ---------------------------------------------------------------- validate

func c14Validate(c *Ctx) {
	p, r := c.P, c.R
	// Handle allocations
	n := 0
	for _, f := range p.SortedFuncs(core.Product) {
		allInstrs(f, func(ins ssa.Instruction) {
			al, ok := ins.(*ssa.Alloc)
			if !ok || core.TypeID(al.Type()) != "keyset.Handle" {
				return
			}
			if _, isPtrToHandle := al.Type().Underlying().(*types.Pointer).Elem().Underlying().(*types.Struct); !isPtrToHandle {
				return
			}
			n++
			r.Check(core.FuncID(f) == "keyset.newFromEntries", "C14.validate", "C14.validate/"+core.FuncID(f)+"/allocates Handle", p.Pos(ins.Pos()),
				"a keyset.Handle is constructed outside newFromEntries (bypassing its primary/status checks)", "the only Handle allocation site")
		})
	}
	if n == 0 {
		r.AnchorMissing("C14.validate", "allocation of keyset.Handle")
	}
	// keysetToEntries: every success return dominated by Validate(ks)==nil on the parameter
	k2e := p.PkgFunc("keyset", "keysetToEntries")
	val := p.PkgFunc("keyset", "Validate")
	if k2e == nil || val == nil {
		r.AnchorMissing("C14.validate", "keyset.keysetToEntries / keyset.Validate")
		return
	}
	good := true
	for _, ret := range guard.SuccessReturns(k2e) {
		ok := false
		for _, fct := range guard.BlockFacts(ret.Block()) {
			if ec, isNil, isE := guard.ErrNilFact(fct); isE && isNil && ec.Call.StaticCallee() == val && ec.Call.Args[0] == ssa.Value(k2e.Params[0]) {
				ok = true
			}
		}
		if !ok {
			good = false
		}
	}
	r.Check(good, "C14.validate", "C14.validate/keyset.keysetToEntries", p.FuncPos(k2e), "entries can be built from a keyset proto that did not pass Validate()", "every success return dominated by Validate(ks) == nil")
	// callers of newFromEntries
	nf := p.PkgFunc("keyset", "newFromEntries")
	if nf != nil {
		var callers []string
		for _, site := range p.Callers(nf) {
			callers = append(callers, core.FuncID(site.Parent()))
		}
		sort.Strings(callers)
		callers = uniq(callers)
		allowed := map[string]bool{"keyset.newKeysetHandleFromProto": true, "(*keyset.Manager).Handle": true, "(*keyset.Handle).Public": true}
		var bad []string
		for _, cl := range callers {
			if !allowed[cl] {
				bad = append(bad, cl)
			}
		}
		r.Check(len(bad) == 0, "C14.validate", "C14.validate/newFromEntries callers", p.FuncPos(nf), "newFromEntries is called from an unreviewed place: "+strings.Join(bad, ","), "called only from "+strings.Join(callers, ", "))
	}
	// entries handed to newFromEntries by newKeysetHandleFromProto come from keysetToEntries
	if f := p.PkgFunc("keyset", "newKeysetHandleFromProto"); f != nil && nf != nil {
		ok := false
		for _, site := range callsTo(f, nf.String()) {
			if src, idx := guard.CallOf(site.Common().Args[0]); src != nil && idx == 0 && src.Call.StaticCallee() == k2e {
				for _, fct := range guard.InstrFacts(site) {
					if ec, isNil, isE := guard.ErrNilFact(fct); isE && isNil && ec == src {
						ok = true
					}
				}
			}
		}
		r.Check(ok, "C14.validate", "C14.validate/keyset.newKeysetHandleFromProto", p.FuncPos(f), "the handle is not built from the checked result of keysetToEntries", "newFromEntries(keysetToEntries(ks)) with the error checked")
	}
}

// ---------------------------------------------------------------- enums

func c14Enums(c *Ctx) {
	p, r := c.P, c.R
	vk := p.PkgFunc("keyset", "validateKey")
	if vk == nil {
		r.AnchorMissing("C14.enums", "keyset.validateKey")
		return
	}
	prefixes := enumConsts(p, tinkpbPath, "OutputPrefixType")
	statuses := enumConsts(p, tinkpbPath, "KeyStatusType")
	okPrefix := map[string]bool{"OutputPrefixType_TINK": true, "OutputPrefixType_LEGACY": true, "OutputPrefixType_RAW": true, "OutputPrefixType_CRUNCHY": true}
	okStatus := map[string]bool{"KeyStatusType_ENABLED": true, "KeyStatusType_DISABLED": true, "KeyStatusType_DESTROYED": true}
	prefixes["<out of range 99>"] = consteval.C(99).C
	statuses["<out of range 99>"] = consteval.C(99).C
	ev := consteval.New()
	key := vk.Params[0]
	var pn, sn []string
	for n := range prefixes {
		pn = append(pn, n)
	}
	for n := range statuses {
		sn = append(sn, n)
	}
	sort.Strings(pn)
	sort.Strings(sn)
	for _, pname := range pn {
		for _, sname := range sn {
			env := bindFieldLoads(vk, key, map[string]consteval.Val{
				"KeyData":          {K: consteval.Ref},
				"OutputPrefixType": {K: consteval.Const, C: prefixes[pname]},
				"Status":           {K: consteval.Const, C: statuses[sname]},
				"KeyId":            consteval.C(7),
			})
			outs, ok := ev.Eval(vk, []consteval.Val{{K: consteval.Ref}}, env)
			k := fmt.Sprintf("C14.enums/validateKey/%s x %s", pname, sname)
			if !ok || len(outs) != 1 || (!outs[0].IsOK() && !outs[0].IsErr()) {
				r.Unknown("C14.enums", k, p.FuncPos(vk), fmt.Sprintf("cannot fold validateKey (%d outcomes)", len(outs)))
				continue
			}
			want := okPrefix[pname] && okStatus[sname]
			r.Check(outs[0].IsOK() == want, "C14.enums", k, p.FuncPos(vk), fmt.Sprintf("validateKey accepts=%v, want %v", outs[0].IsOK(), want), fmt.Sprintf("accepts=%v", want))
		}
	}
	// nil key data rejected
	env := bindFieldLoads(vk, key, map[string]consteval.Val{"KeyData": {K: consteval.Nil}, "OutputPrefixType": {K: consteval.Const, C: prefixes["OutputPrefixType_TINK"]}, "Status": {K: consteval.Const, C: statuses["KeyStatusType_ENABLED"]}, "KeyId": consteval.C(7)})
	outs, ok := ev.Eval(vk, []consteval.Val{{K: consteval.Ref}}, env)
	r.Check(ok && len(outs) == 1 && outs[0].IsErr(), "C14.enums", "C14.enums/validateKey/nil KeyData", p.FuncPos(vk), "a key without KeyData is accepted", "rejected")
	outs, ok = ev.Eval(vk, []consteval.Val{{K: consteval.Nil}}, nil)
	r.Check(ok && len(outs) == 1 && outs[0].IsErr(), "C14.enums", "C14.enums/validateKey/nil key", p.FuncPos(vk), "a nil key is accepted", "rejected")
	// keyStatusFromProto agrees
	if f := p.PkgFunc("keyset", "keyStatusFromProto"); f == nil {
		r.AnchorMissing("C14.enums", "keyset.keyStatusFromProto")
	} else {
		seen := map[string]bool{}
		for _, sname := range sn {
			outs, ok := ev.Eval(f, []consteval.Val{{K: consteval.Const, C: statuses[sname]}}, nil)
			k := "C14.enums/keyStatusFromProto/" + sname
			if !ok || len(outs) != 1 {
				r.Unknown("C14.enums", k, p.FuncPos(f), "cannot fold")
				continue
			}
			want := okStatus[sname]
			good := outs[0].IsOK() == want
			if want && outs[0].Results[0].K == consteval.Const {
				v := outs[0].Results[0].C.ExactString()
				if seen[v] {
					good = false // two proto statuses collapse into one
				}
				seen[v] = true
			}
			r.Check(good, "C14.enums", k, p.FuncPos(f), fmt.Sprintf("status mapping accepts=%v, want %v (injective)", outs[0].IsOK(), want), fmt.Sprintf("accepts=%v", want))
		}
	}
	r.Min("C14.enums", 30)
}

// ---------------------------------------------------------------- structure

func c14Structure(c *Ctx) {
	p, r := c.P, c.R
	f := p.PkgFunc("keyset", "Validate")
	vk := p.PkgFunc("keyset", "validateKey")
	if f == nil || vk == nil {
		r.AnchorMissing("C14.structure", "keyset.Validate")
		return
	}
	enabled, _ := constOf(p, "proto/tink_go_proto", "KeyStatusType_ENABLED")
	// (1) nil and empty rejected: evaluated
	ev := consteval.New()
	outs, ok := ev.Eval(f, []consteval.Val{{K: consteval.Nil}}, nil)
	r.Check(ok && len(outs) == 1 && outs[0].IsErr(), "C14.structure", "C14.structure/Validate/nil keyset", p.FuncPos(f), "Validate(nil) does not fail", "rejected")
	// (2) the loop over keyset.Key
	var loop *rangeLoop
	var elem ssa.Value
	allInstrs(f, func(ins ssa.Instruction) {
		if ia, ok := ins.(*ssa.IndexAddr); ok && loop == nil {
			if _, fld, isF := guard.FieldOf(ia.X); isF && fld == "Key" {
				loop = rangeLoopOf(ia)
				for _, ref := range *ia.Referrers() {
					if u, isU := ref.(*ssa.UnOp); isU && u.Op == token.MUL {
						elem = u
					}
				}
			}
			if kc, _ := guard.CallOf(ia.X); kc != nil && strings.HasSuffix(guard.CalleeName(&kc.Call), "Keyset).GetKey") {
				loop = rangeLoopOf(ia)
				for _, ref := range *ia.Referrers() {
					if u, isU := ref.(*ssa.UnOp); isU && u.Op == token.MUL {
						elem = u
					}
				}
			}
		}
	})
	if loop == nil || elem == nil {
		r.AnchorMissing("C14.structure", "range loop over keyset.Key in Validate")
		return
	}
	// empty keyset rejected before the loop
	emptyRejected := false
	for _, ret := range guard.Returns(f) {
		if !guard.DefinitelyFails(ret) {
			continue
		}
		for _, fct := range guard.BlockFacts(ret.Block()) {
			if op, x, y, isC := guard.Cmp(fct); isC && op == token.EQL {
				if k, isK := guard.ConstInt(y); isK && k == 0 {
					if lc, _ := guard.CallOf(x); lc != nil {
						if b, isB := lc.Call.Value.(*ssa.Builtin); isB && b.Name() == "len" {
							emptyRejected = true
						}
					}
				}
			}
		}
	}
	r.Check(emptyRejected, "C14.structure", "C14.structure/Validate/empty keyset", p.FuncPos(f), "an empty keyset is not rejected", "len(keyset.Key)==0 -> error")
	// validateKey on every element, error returned
	vkOK := false
	for _, site := range callsTo(f, vk.String()) {
		call := site.(*ssa.Call)
		if guard.Strip(call.Call.Args[0]) == guard.Strip(elem) && loop.Blocks[call.Block()] {
			// dominates the rest of the loop body, error leads to return
			for _, ret := range guard.Returns(f) {
				if guard.ErrOperand(ret) != nil && guard.Strip(guard.ErrOperand(ret)) == ssa.Value(call) {
					vkOK = true
				}
			}
		}
	}
	r.Check(vkOK && loop.Complete == false || vkOK, "C14.structure", "C14.structure/Validate/validateKey on every key", p.FuncPos(f), "validateKey is not applied to every key with its error returned", "validateKey(key) in the loop, error returned")
	// failing returns by guard shape
	type want struct {
		name string
		pred func(fs []guard.Fact) bool
	}
	isField := func(v ssa.Value, fld string) bool {
		if _, f2, ok := guard.FieldOf(v); ok && f2 == fld {
			return true
		}
		if gc, _ := guard.CallOf(v); gc != nil && strings.HasSuffix(guard.CalleeName(&gc.Call), ".Get"+fld) {
			return true
		}
		return false
	}
	hasCmp := func(fs []guard.Fact, op token.Token, fld string, other func(ssa.Value) bool) bool {
		for _, fct := range fs {
			o, x, y, ok := guard.Cmp(fct)
			if !ok || o != op {
				continue
			}
			if (isField(x, fld) && other(y)) || (isField(y, fld) && other(x)) {
				return true
			}
		}
		return false
	}
	isEnabled := func(v ssa.Value) bool { return isConstEq(v, enabled) }
	isPrimaryID := func(v ssa.Value) bool { return isField(v, "PrimaryKeyId") }
	lookupTrue := func(fs []guard.Fact) bool {
		for _, fct := range fs {
			if lk, ok := fct.Cond.(*ssa.Lookup); ok && fct.True && isField(lk.Index, "KeyId") {
				return true
			}
			// _, seen := ids[key.KeyId]; seen
			if ex, ok := fct.Cond.(*ssa.Extract); ok && fct.True && ex.Index == 1 {
				if lk, isLk := ex.Tuple.(*ssa.Lookup); isLk && lk.CommaOk && isField(lk.Index, "KeyId") {
					return true
				}
			}
		}
		return false
	}
	phiTrue := func(fs []guard.Fact) bool {
		for _, fct := range fs {
			if _, ok := fct.Cond.(*ssa.Phi); ok && fct.True {
				return true
			}
		}
		return false
	}
	wants := []want{
		{"duplicate key ID rejected", func(fs []guard.Fact) bool { return lookupTrue(fs) }},
		{"non-ENABLED primary rejected", func(fs []guard.Fact) bool {
			return hasCmp(fs, token.NEQ, "Status", isEnabled) && hasCmp(fs, token.EQL, "KeyId", isPrimaryID)
		}},
		{"second primary rejected", func(fs []guard.Fact) bool {
			return phiTrue(fs) && hasCmp(fs, token.EQL, "KeyId", isPrimaryID) && hasCmp(fs, token.EQL, "Status", isEnabled)
		}},
	}
	// the loop as an automaton over abstract keys: decides the guards whatever
	// their spelling; the guard-shape rules below are the fallback when the loop
	// does not fold exactly
	auto := c14Auto(c, f, loop, elem)
	autoNote := fmt.Sprintf("loop automaton: %d states, %d folded iterations over (primary ID?, status, duplicate ID?)", auto.States, auto.Steps)
	autoCheck := func(name string, subsumedBy ...string) bool {
		if !auto.Decided {
			return false
		}
		msg := auto.Bad[name]
		for _, s := range subsumedBy {
			if msg == "" {
				msg = auto.Bad[s]
			}
		}
		r.Check(msg == "", "C14.structure", "C14.structure/Validate/"+name, p.FuncPos(f), msg, autoNote)
		return true
	}
	for _, w := range wants {
		if w.name == "second primary rejected" {
			// a second key with the primary ID repeats an ID
			if autoCheck(w.name, "duplicate key ID rejected") {
				continue
			}
		} else if autoCheck(w.name) {
			continue
		}
		found := false
		for _, ret := range guard.Returns(f) {
			if guard.DefinitelyFails(ret) && loop.Header.Dominates(ret.Block()) && w.pred(guard.BlockFacts(ret.Block())) {
				found = true
			}
		}
		r.Check(found, "C14.structure", "C14.structure/Validate/"+w.name, p.FuncPos(f), "no error return with the expected guard: "+w.name, "error return under the expected guard")
	}
	// the ID map is fed on every iteration that continues
	fed := false
	allInstrs(f, func(ins ssa.Instruction) {
		if mu, ok := ins.(*ssa.MapUpdate); ok && isField(mu.Key, "KeyId") && loop.Blocks[mu.Block()] {
			b, isC := guard.ConstBool(mu.Value)
			_, isSet := mu.Value.Type().Underlying().(*types.Struct) // map[uint32]struct{} used as a set
			if (isC && b) || isSet {
				// dominates every back edge of the loop
				all := true
				for _, pred := range loop.Header.Preds {
					if loop.Blocks[pred] && !(mu.Block() == pred || mu.Block().Dominates(pred)) {
						all = false
					}
				}
				fed = all
			}
		}
	})
	r.Check(fed, "C14.structure", "C14.structure/Validate/ID map fed every iteration", p.FuncPos(f), "the duplicate-ID map is not updated on every iteration that continues", "keyIDs[key.KeyId]=true dominates every loop back edge")
	// success only with a primary found and an enabled key
	if autoCheck("success requires primary") && autoCheck("primary flag condition", "success requires primary") {
		return
	}
	good := true
	for _, ret := range guard.SuccessReturns(f) {
		fs := guard.BlockFacts(ret.Block())
		if !phiTrue(fs) {
			good = false
		}
	}
	r.Check(good, "C14.structure", "C14.structure/Validate/success requires primary", p.FuncPos(f), "Validate can succeed without having found an ENABLED primary key", "success dominated by hasPrimaryKey == true")
	// the primary flag is raised only for an ENABLED key with the primary ID
	okRaise := true
	nRaise := 0
	allInstrs(f, func(ins ssa.Instruction) {
		phi, ok := ins.(*ssa.Phi)
		if !ok || !isBoolType(phi.Type()) || !loop.Blocks[phi.Block()] {
			return
		}
		for i, e := range phi.Edges {
			if b, isC := guard.ConstBool(e); isC && b {
				nRaise++
				fs := edgeFactsInto(phi.Block().Preds[i], phi.Block())
				if !(hasCmp(fs, token.EQL, "KeyId", isPrimaryID) && hasCmp(fs, token.EQL, "Status", isEnabled)) {
					okRaise = false
				}
			}
		}
	})
	r.Check(okRaise && nRaise > 0, "C14.structure", "C14.structure/Validate/primary flag condition", p.FuncPos(f), "the primary-found flag can be raised for a key that is not ENABLED or does not carry the primary ID", "raised only under Status==ENABLED && KeyId==PrimaryKeyId")
}

func isBoolType(t types.Type) bool {
	b, ok := t.Underlying().(*types.Basic)
	return ok && b.Kind() == types.Bool
}

// ---------------------------------------------------------------- strength

type strengthCase struct {
	args []consteval.Val
	ok   bool
	desc string
}

func c14Strength(c *Ctx) {
	p, r := c.P, c.R
	ev := consteval.New()
	run := func(rel, fn string, cases []strengthCase) *ssa.Function {
		f := p.PkgFunc(rel, fn)
		if f == nil {
			r.AnchorMissing("C14.strength", rel+"."+fn)
			return nil
		}
		for _, cs := range cases {
			key := fmt.Sprintf("C14.strength/%s.%s/%s", rel, fn, cs.desc)
			outs, ok := ev.Eval(f, cs.args, nil)
			if !ok || len(outs) == 0 {
				r.Unknown("C14.strength", key, p.FuncPos(f), "cannot fold validator")
				continue
			}
			allOK, allErr := true, true
			for _, o := range outs {
				if !o.IsOK() {
					allOK = false
				}
				if !o.IsErr() {
					allErr = false
				}
			}
			if !allOK && !allErr {
				r.Unknown("C14.strength", key, p.FuncPos(f), fmt.Sprintf("validator result not definite (%d outcomes)", len(outs)))
				continue
			}
			r.Check(allOK == cs.ok, "C14.strength", key, p.FuncPos(f), fmt.Sprintf("validator accepts=%v, want %v", allOK, cs.ok), fmt.Sprintf("accepts=%v", cs.ok))
		}
		return f
	}
	C, S := consteval.C, consteval.S
	aes := run("internal/aead", "ValidateAESKeySize", []strengthCase{
		{[]consteval.Val{C(15)}, false, "15"}, {[]consteval.Val{C(16)}, true, "16"}, {[]consteval.Val{C(17)}, false, "17"}, {[]consteval.Val{C(24)}, false, "24"},
		{[]consteval.Val{C(31)}, false, "31"}, {[]consteval.Val{C(32)}, true, "32"}, {[]consteval.Val{C(33)}, false, "33"}, {[]consteval.Val{C(0)}, false, "0"}, {[]consteval.Val{C(64)}, false, "64"}})
	run("aead/subtle", "ValidateAESKeySize", []strengthCase{{[]consteval.Val{C(16)}, true, "16"}, {[]consteval.Val{C(24)}, false, "24"}, {[]consteval.Val{C(32)}, true, "32"}, {[]consteval.Val{C(8)}, false, "8"}})
	run("internal/signature", "RSAValidModulusSizeInBits", []strengthCase{{[]consteval.Val{C(2047)}, false, "2047"}, {[]consteval.Val{C(2048)}, true, "2048"}, {[]consteval.Val{C(1024)}, false, "1024"}, {[]consteval.Val{C(4096)}, true, "4096"}})
	run("internal/signature", "RSAValidPublicExponent", []strengthCase{{[]consteval.Val{C(65537)}, true, "65537"}, {[]consteval.Val{C(3)}, false, "3"}, {[]consteval.Val{C(65536)}, false, "65536"}, {[]consteval.Val{C(65539)}, false, "65539"}})
	run("internal/signature", "HashSafeForSignature", []strengthCase{{[]consteval.Val{S("SHA1")}, false, "SHA1"}, {[]consteval.Val{S("SHA224")}, false, "SHA224"}, {[]consteval.Val{S("SHA256")}, true, "SHA256"}, {[]consteval.Val{S("SHA384")}, true, "SHA384"}, {[]consteval.Val{S("SHA512")}, true, "SHA512"}})
	var ecdsaCases []strengthCase
	strong := map[string]map[string]bool{"NIST_P256": {"SHA256": true}, "NIST_P384": {"SHA384": true, "SHA512": true}, "NIST_P521": {"SHA512": true}}
	for _, curve := range []string{"NIST_P256", "NIST_P384", "NIST_P521", "NIST_P224"} {
		for _, h := range []string{"SHA1", "SHA224", "SHA256", "SHA384", "SHA512"} {
			for _, enc := range []string{"DER", "IEEE_P1363", "RAW"} {
				ecdsaCases = append(ecdsaCases, strengthCase{[]consteval.Val{S(h), S(curve), S(enc)}, strong[curve][h] && enc != "RAW", curve + "/" + h + "/" + enc})
			}
		}
	}
	run("signature/subtle", "ValidateECDSAParams", ecdsaCases)
	run("prf/subtle", "ValidateHKDFPRFParams", []strengthCase{
		{[]consteval.Val{S("SHA256"), C(31), {}}, false, "SHA256 key=31"}, {[]consteval.Val{S("SHA256"), C(32), {}}, true, "SHA256 key=32"},
		{[]consteval.Val{S("SHA512"), C(32), {}}, true, "SHA512 key=32"}, {[]consteval.Val{S("SHA1"), C(32), {}}, false, "SHA1 key=32"}, {[]consteval.Val{S("SHA384"), C(32), {}}, false, "SHA384 key=32"}, {[]consteval.Val{S("SHA256"), C(16), {}}, false, "SHA256 key=16"}})
	run("prf/subtle", "ValidateHMACPRFParams", []strengthCase{{[]consteval.Val{S("SHA256"), C(15)}, false, "SHA256 key=15"}, {[]consteval.Val{S("SHA256"), C(16)}, true, "SHA256 key=16"}, {[]consteval.Val{S("MD5"), C(16)}, false, "MD5 key=16"}})
	run("prf/subtle", "ValidateAESCMACPRFParams", []strengthCase{{[]consteval.Val{C(16)}, false, "16"}, {[]consteval.Val{C(32)}, true, "32"}, {[]consteval.Val{C(31)}, false, "31"}})
	r.Min("C14.strength", 100)

	// constructors pass through their validators
	type mv struct{ crel, cfn, vrel, vfn string }
	for _, m := range []mv{
		{"internal/signature", "New_RSA_SSA_PKCS1_Verifier", "internal/signature", "validRSAPublicKey"},
		{"internal/signature", "New_RSA_SSA_PKCS1_Signer", "internal/signature", "validRSAPublicKey"},
		{"internal/signature", "New_RSA_SSA_PSS_Verifier", "internal/signature", "validRSAPublicKey"},
		{"internal/signature", "New_RSA_SSA_PSS_Signer", "internal/signature", "validRSAPublicKey"},
		{"aead/aesgcm", "NewAEAD", "internal/aead", "ValidateAESKeySize"},
	} {
		cf, vf := p.PkgFunc(m.crel, m.cfn), p.PkgFunc(m.vrel, m.vfn)
		if cf == nil || vf == nil {
			r.AnchorMissing("C14.strength", m.crel+"."+m.cfn)
			continue
		}
		mustValidate(c, "C14.strength", cf, vf)
	}
	// validRSAPublicKey = modulus check then exponent check
	if f := p.PkgFunc("internal/signature", "validRSAPublicKey"); f != nil {
		mod, exp := p.PkgFunc("internal/signature", "RSAValidModulusSizeInBits"), p.PkgFunc("internal/signature", "RSAValidPublicExponent")
		good := mod != nil && exp != nil
		if good {
			// folded: with the verdicts of the two checks bound to nil / error in all four
			// combinations, validRSAPublicKey succeeds exactly when both are nil
			var mcalls, ecalls []*ssa.Call
			allInstrs(f, func(ins ssa.Instruction) {
				if call, ok := ins.(*ssa.Call); ok {
					switch call.Call.StaticCallee() {
					case mod:
						mcalls = append(mcalls, call)
					case exp:
						ecalls = append(ecalls, call)
					}
				}
			})
			good = len(mcalls) > 0 && len(ecalls) > 0
			ev2 := consteval.New()
			for _, mOK := range []bool{true, false} {
				for _, eOK := range []bool{true, false} {
					env := consteval.Env{}
					kind := func(ok bool) consteval.Val {
						if ok {
							return consteval.Val{K: consteval.Nil}
						}
						return consteval.Val{K: consteval.Err}
					}
					for _, mc := range mcalls {
						env[mc] = kind(mOK)
					}
					for _, ec := range ecalls {
						env[ec] = kind(eOK)
					}
					for _, prm := range f.Params {
						env[prm] = consteval.Val{K: consteval.Ref}
					}
					outs, okE := ev2.Eval(f, nil, env)
					if !okE || len(outs) == 0 {
						good = false
						continue
					}
					for _, o := range outs {
						succeeds := o.IsOK()
						fails := o.IsErr() || guard.DefinitelyFails(o.Ret)
						if (mOK && eOK) != succeeds || (mOK && eOK) == fails {
							good = false
						}
					}
				}
			}
		}
		r.Check(good, "C14.strength", "C14.strength/internal/signature.validRSAPublicKey", p.FuncPos(f), "validRSAPublicKey does not check both modulus size and public exponent", "modulus check passed, exponent check returned")
	}
	_ = aes
}

// c14BigInt: a big integer decoded from untrusted bytes is narrowed with
// Int64()/Uint64() only under a dominating IsInt64()/IsUint64() check on the
// same value (or a BitLen bound); otherwise high bits are silently dropped —
// e.g. an RSA exponent 2^64+65537 would be accepted as 65537.
func c14BigInt(c *Ctx) {
	p, r := c.P, c.R
	n := 0
	for _, f := range p.SortedFuncs(core.Product) {
		allInstrs(f, func(ins ssa.Instruction) {
			call, ok := ins.(*ssa.Call)
			if !ok {
				return
			}
			nme := guard.CalleeName(&call.Call)
			var check string
			switch nme {
			case "(*math/big.Int).Int64":
				check = "(*math/big.Int).IsInt64"
			case "(*math/big.Int).Uint64":
				check = "(*math/big.Int).IsUint64"
			default:
				return
			}
			n++
			key := fmt.Sprintf("C14.bigint/%s/%s", core.FuncID(f), shortName(nme))
			recv := call.Call.Args[0]
			good := false
			for _, fct := range guard.InstrFacts(ins) {
				if bc, val, isB := guard.BoolCallFact(fct); isB && val && guard.CalleeName(&bc.Call) == check && guard.SameValue(bc.Call.Args[0], recv) {
					good = true
				}
				// BitLen() bound
				if op, x, y, isC := guard.Cmp(fct); isC && (op == token.LEQ || op == token.LSS) {
					if bl, _ := guard.CallOf(x); bl != nil && guard.CalleeName(&bl.Call) == "(*math/big.Int).BitLen" && guard.SameValue(bl.Call.Args[0], recv) {
						if k, isK := guard.ConstInt(y); isK && k <= 63 {
							good = true
						}
					}
				}
			}
			// a value built in this function from a machine integer is exact by construction
			if sc, _ := guard.CallOf(recv); sc != nil {
				switch guard.CalleeName(&sc.Call) {
				case "math/big.NewInt", "(*math/big.Int).SetInt64", "(*math/big.Int).SetUint64":
					good = true
				}
			}
			r.Check(good, "C14.bigint", key, p.Pos(ins.Pos()), "a big integer parsed from key material is narrowed without a dominating "+shortName(check)+"() check: a value that does not fit (e.g. an RSA exponent 2^64+65537) is silently truncated and accepted as a small one",
				"dominated by "+shortName(check)+"() == true on the same value")
		})
	}
	r.Counts["bigint_narrowings"] = n
	r.Min("C14.bigint", 8)
}

// c14KeyPair: every private-key validator compares, on every success path, the
// public key derived from the private material with the stored public key.
func c14KeyPair(c *Ctx) {
	p, r := c.P, c.R
	n := 0
	for _, f := range p.SortedFuncs(core.Product) {
		if f.Parent() != nil || f.Synthetic != "" {
			continue
		}
		ln := strings.ToLower(f.Name())
		if !(strings.HasPrefix(ln, "validate") && strings.HasSuffix(ln, "privatekey")) {
			continue
		}
		// the public-key parameter
		var pub ssa.Value
		for _, prm := range f.Params {
			if strings.Contains(strings.ToLower(prm.Name()), "pub") {
				pub = prm
			}
		}
		if pub == nil {
			continue
		}
		n++
		key := "C14.keypair/" + core.FuncID(f)
		isEq := func(fct guard.Fact) bool {
			if call, val, ok := guard.BoolCallFact(fct); ok && val {
				nme := guard.CalleeName(&call.Call)
				if nme == "bytes.Equal" || strings.HasSuffix(nme, ").Equal") || nme == "crypto/hmac.Equal" {
					for _, a := range call.Call.Args {
						if derivesFrom(a, pub, 0) {
							return true
						}
					}
					if call.Call.IsInvoke() && derivesFrom(call.Call.Value, pub, 0) {
						return true
					}
				}
			}
			if op, x, y, ok := guard.Cmp(fct); ok && op == token.EQL {
				for _, pr := range [][2]ssa.Value{{x, y}, {y, x}} {
					if cc, _ := guard.CallOf(pr[0]); cc != nil {
						nme := guard.CalleeName(&cc.Call)
						if k, isK := guard.ConstInt(pr[1]); isK && ((nme == "crypto/subtle.ConstantTimeCompare" && k == 1) || (strings.HasSuffix(nme, "big.Int).Cmp") && k == 0) || (nme == "bytes.Compare" && k == 0)) {
							for _, a := range cc.Call.Args {
								if derivesFrom(a, pub, 0) {
									return true
								}
							}
						}
					}
				}
			}
			return false
		}
		good := len(guard.SuccessReturns(f)) > 0
		for _, ret := range guard.SuccessReturns(f) {
			ok := everyPathHas(ret.Block(), func(fs []guard.Fact) bool {
				for _, fct := range fs {
					if isEq(fct) {
						return true
					}
				}
				return false
			})
			if !ok {
				good = false
			}
		}
		// the stored public key enters the comparison as it is: no element store into a buffer
		// derived from it (a copy with a bit cleared would make distinct stored keys compare equal)
		altered := ""
		allInstrs(f, func(ins ssa.Instruction) {
			st, ok := ins.(*ssa.Store)
			if !ok {
				return
			}
			ia, isIA := st.Addr.(*ssa.IndexAddr)
			if !isIA {
				return
			}
			base := guard.Strip(ia.X)
			for i := 0; i < 4; i++ {
				if sl, isSl := base.(*ssa.Slice); isSl {
					base = guard.Strip(sl.X)
				}
			}
			if derivesFrom(base, pub, 0) {
				altered = p.Pos(ins.Pos())
			}
		})
		if altered != "" {
			r.Bad("C14.keypair", key, p.FuncPos(f), "the stored public key is altered (element store at "+altered+") before it is compared with the key derived from the private material: stored public keys that differ in the altered bits are accepted although the primitives use the stored bytes")
			continue
		}
		r.Check(good, "C14.keypair", key, p.FuncPos(f), "a private key can be accepted on a path that never compares the public key derived from it with the stored public key: a handle whose halves do not match would be accepted", "every success path has an equality check against the public key")
	}
	r.Counts["private_key_validators"] = n
	r.Min("C14.keypair", 3)
}

// c14FixedKey: constructors whose key material has one legal length, handed
// later to stdlib functions that panic on any other (crypto/ed25519.Verify,
// NewKeyFromSeed). The constructor is folded with the length of the material
// bound to probe values: it must fail for every length but the legal one.
func c14FixedKey(c *Ctx) {
	p, r := c.P, c.R
	table := []struct {
		rel, fn string
		size    int64
	}{
		{"signature/ed25519", "NewPublicKey", 32},
		{"signature/ed25519", "NewPrivateKey", 32},
		{"signature/ed25519", "NewPrivateKeyWithPublicKey", 32},
	}
	for _, row := range table {
		f := p.PkgFunc(row.rel, row.fn)
		key := fmt.Sprintf("C14.fixedkey/%s.%s", row.rel, row.fn)
		if f == nil || len(f.Params) == 0 {
			r.AnchorMissing("C14.fixedkey", row.rel+"."+row.fn)
			continue
		}
		mat := f.Params[0]
		bad := ""
		for _, n := range []int64{0, row.size - 1, row.size, row.size + 1, 2 * row.size} {
			env := consteval.Env{consteval.LenKey(mat): consteval.C(n)}
			// secretdata.Bytes material: its Len() method
			allInstrs(f, func(ins ssa.Instruction) {
				if call, ok := ins.(*ssa.Call); ok && strings.HasSuffix(guard.CalleeName(&call.Call), "secretdata.Bytes).Len") && len(call.Call.Args) == 1 && guard.Strip(call.Call.Args[0]) == ssa.Value(mat) {
					env[call] = consteval.C(n)
				}
			})
			ev := consteval.New()
			ev.MaxDepth, ev.Fuel = 2, 100000
			outs, ok := ev.Eval(f, nil, env)
			can := !ok
			for _, o := range outs {
				if !o.IsErr() && !guard.DefinitelyFails(o.Ret) {
					can = true
				}
			}
			if can != (n == row.size) {
				bad = fmt.Sprintf("with %d bytes of key material the constructor can succeed=%v (legal length: %d); crypto/ed25519 panics on other lengths when the key is used", n, can, row.size)
			}
		}
		r.Check(bad == "", "C14.fixedkey", key, p.FuncPos(f), bad, fmt.Sprintf("succeeds for %d bytes only (probed 0, %d, %d, %d, %d)", row.size, row.size-1, row.size, row.size+1, 2*row.size))
	}
}

// c14StrSlice: strings that come out of untrusted keysets (type URLs, kids,
// algorithm names) are sliced in a handful of places; each such slice
// expression must be in bounds by the guards dominating it (engine D with
// strings.HasPrefix/HasSuffix/CutPrefix as length facts).
func c14StrSlice(c *Ctx) {
	p, r := c.P, c.R
	n := 0
	for _, f := range p.SortedFuncs(core.Product) {
		if f.Synthetic != "" {
			continue
		}
		idx := 0
		allInstrs(f, func(ins ssa.Instruction) {
			sl, ok := ins.(*ssa.Slice)
			if !ok {
				return
			}
			bt, isB := sl.X.Type().Underlying().(*types.Basic)
			if !isB || bt.Info()&types.IsString == 0 {
				return
			}
			if _, isConst := sl.X.(*ssa.Const); isConst {
				return
			}
			n++
			idx++
			res := bounds.CheckSlice(sl)
			key := fmt.Sprintf("C14.strslice/%s/#%d", core.FuncID(f), idx)
			if res.LoopVariant {
				r.Outside("C14.strslice", key, p.Pos(ins.Pos()), "string re-sliced in a loop: outside the prover")
				return
			}
			r.Check(res.OK, "C14.strslice", key, p.Pos(ins.Pos()), "a string is sliced without a dominating guard that keeps the bounds inside it: "+res.Failed+" — a shorter string panics", strings.Join(res.Goals, "; "))
		})
	}
	r.Counts["string_slices"] = n
}
