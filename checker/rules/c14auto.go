package rules

import (
	"fmt"
	"go/constant"
	"go/token"
	"go/types"
	"sort"
	"strings"

	"golang.org/x/tools/go/ssa"

	"tinkverif/consteval"
	"tinkverif/guard"
)

// c14Auto decides the loop of keyset.Validate as a finite automaton. The loop
// state is the tuple of loop-carried variables (header phis: booleans, and
// integers saturated at 2); one iteration is folded by constant propagation
// for every abstract key
//
//	P  key.KeyId == keyset.PrimaryKeyId     (true/false)
//	E  key.Status                           (ENABLED/DISABLED/DESTROYED)
//	D  key.KeyId already in the ID set      (true/false)
//
// from every reachable state, and the code after the loop from every
// reachable state. A ghost component remembers the history: whether the key
// with the primary ID was seen and was ENABLED, and whether an ID repeated
// (IDs being distinct otherwise, at most one key carries the primary ID).
// Required: a success return, after the loop or from inside it, only with an
// ENABLED primary seen and no repeated ID. Whether a bad key is refused at
// once or by a flag tested later, and how the guards are spelled (if chains,
// switches, flags or counters), does not matter.
type c14Ghost struct {
	prim int  // 0: no key with the primary ID yet; 1: it was ENABLED; 2: it was not
	dup  bool // some key repeated an earlier ID
}

type c14AutoResult struct {
	Decided bool   // false: the loop could not be folded exactly
	Why     string // reason when undecided
	Bad     map[string]string
	States  int
	Steps   int
}

func c14Auto(c *Ctx, f *ssa.Function, loop *rangeLoop, elem ssa.Value) c14AutoResult {
	res := c14AutoResult{Bad: map[string]string{}}
	p := c.P
	und := func(format string, a ...any) c14AutoResult {
		res.Why = fmt.Sprintf(format, a...)
		return res
	}
	hdr := loop.Header
	iff := lastIf(hdr)
	if iff == nil {
		return und("loop header has no condition")
	}
	inDir := -1
	for i, s := range hdr.Succs {
		if loop.Blocks[s] && s != hdr {
			inDir = i
		}
	}
	if inDir < 0 || loop.Blocks[hdr.Succs[1-inDir]] {
		return und("loop header does not branch between body and exit")
	}
	// the loop-carried state
	type svar struct {
		phi   *ssa.Phi
		isInt bool
		init  consteval.Val
	}
	var state []svar
	for _, ins := range hdr.Instrs {
		phi, ok := ins.(*ssa.Phi)
		if !ok {
			continue
		}
		// the index variable of the loop
		if ssa.Value(phi) == guard.Strip(loop.Index) {
			continue
		}
		if bo, isB := guard.Strip(loop.Index).(*ssa.BinOp); isB && bo.X == ssa.Value(phi) {
			continue
		}
		bt, isBasic := phi.Type().Underlying().(*types.Basic)
		if !isBasic || (bt.Kind() != types.Bool && bt.Info()&types.IsInteger == 0) {
			return und("loop-carried variable %s is neither a flag nor a counter", phi.Comment)
		}
		sv := svar{phi: phi, isInt: bt.Kind() != types.Bool}
		n := 0
		for i, pr := range hdr.Preds {
			if loop.Blocks[pr] {
				continue
			}
			k, isC := phi.Edges[i].(*ssa.Const)
			if !isC || k.Value == nil {
				return und("loop-carried variable %s does not start from a constant", phi.Comment)
			}
			sv.init = consteval.Val{K: consteval.Const, C: k.Value}
			n++
		}
		if n != 1 {
			return und("loop is entered from %d places", n)
		}
		state = append(state, sv)
	}
	enabled, ok1 := constOf(p, "proto/tink_go_proto", "KeyStatusType_ENABLED")
	disabled, ok2 := constOf(p, "proto/tink_go_proto", "KeyStatusType_DISABLED")
	destroyed, ok3 := constOf(p, "proto/tink_go_proto", "KeyStatusType_DESTROYED")
	if !ok1 || !ok2 || !ok3 {
		return und("status constants not found")
	}
	statuses := []constant.Value{enabled, disabled, destroyed}
	// values to bind
	isGetter := func(v ssa.Value, fld string) bool {
		gc, _ := guard.CallOf(v)
		return gc != nil && strings.HasSuffix(guard.CalleeName(&gc.Call), ".Get"+fld)
	}
	var lookups []*ssa.Lookup
	var getters = map[string][]ssa.Value{}
	var validators []ssa.Value
	bad := ""
	allInstrs(f, func(ins ssa.Instruction) {
		switch x := ins.(type) {
		case *ssa.Lookup:
			if _, isMap := x.X.Type().Underlying().(*types.Map); isMap && loop.Blocks[x.Block()] {
				if _, fld, isF := guard.FieldOf(x.Index); (isF && fld == "KeyId") || isGetter(x.Index, "KeyId") {
					lookups = append(lookups, x)
				} else {
					bad = "a map is looked up with something else than the key ID"
				}
			}
		case *ssa.Call:
			for _, fld := range []string{"KeyId", "PrimaryKeyId", "Status"} {
				if isGetter(x, fld) {
					getters[fld] = append(getters[fld], x)
				}
			}
			if g := x.Call.StaticCallee(); g != nil && g.Pkg == f.Pkg && loop.Blocks[x.Block()] && types.Identical(x.Type(), types.Universe.Lookup("error").Type()) {
				validators = append(validators, x)
			}
		}
	})
	if bad != "" {
		return und("%s", bad)
	}
	mkEnv := func(st []consteval.Val, pIs bool, status constant.Value, dup bool, stay bool) consteval.Env {
		prim := int64(7)
		if !pIs {
			prim = 8
		}
		vals := map[string]consteval.Val{
			"KeyId":        consteval.C(7),
			"PrimaryKeyId": consteval.C(prim),
			"Status":       {K: consteval.Const, C: status},
		}
		env := bindFieldLoadsByName(f, vals)
		for fld, calls := range getters {
			for _, gc := range calls {
				env[gc] = vals[fld]
			}
		}
		for _, v := range validators {
			env[v] = consteval.Val{K: consteval.Nil}
		}
		for _, lk := range lookups {
			if lk.CommaOk {
				env[consteval.TupleKey(lk, 0)] = consteval.B(dup)
				env[consteval.TupleKey(lk, 1)] = consteval.B(dup)
			} else {
				env[lk] = consteval.B(dup)
			}
		}
		for i, sv := range state {
			env[sv.phi] = st[i]
		}
		env[iff.Cond] = consteval.B(stay == (inDir == 0))
		return env
	}
	norm := func(sv svar, v consteval.Val) (consteval.Val, bool) {
		if v.K != consteval.Const {
			return v, false
		}
		if !sv.isInt {
			return v, v.C.Kind() == constant.Bool
		}
		k, exact := constant.Int64Val(v.C)
		if v.C.Kind() != constant.Int || !exact || k < 0 {
			return v, false
		}
		if k > 2 {
			k = 2
		}
		return consteval.C(k), true
	}
	stKey := func(st []consteval.Val, ghost c14Ghost) string {
		s := fmt.Sprint(ghost)
		for _, v := range st {
			s += "," + v.String()
		}
		return s
	}
	describe := func(st []consteval.Val) string {
		var parts []string
		for i, sv := range state {
			parts = append(parts, fmt.Sprintf("%s=%s", sv.phi.Comment, st[i]))
		}
		return "{" + strings.Join(parts, " ") + "}"
	}
	fails := func(o consteval.Outcome) bool { return o.IsErr() || guard.DefinitelyFails(o.Ret) }
	type node struct {
		st    []consteval.Val
		ghost c14Ghost
	}
	// why success is not allowed with this history ("" = allowed)
	forbidden := func(g c14Ghost) (string, string) {
		switch {
		case g.dup:
			return "duplicate key ID rejected", "a key repeating an earlier ID"
		case g.prim == 2:
			return "non-ENABLED primary rejected", "the key with the primary ID not being ENABLED"
		case g.prim == 0:
			return "success requires primary", "no key carrying the primary ID"
		}
		return "", ""
	}
	var init []consteval.Val
	for _, sv := range state {
		v, ok := norm(sv, sv.init)
		if !ok {
			return und("initial value of %s is not a flag/counter constant", sv.phi.Comment)
		}
		init = append(init, v)
	}
	seen := map[string]bool{stKey(init, c14Ghost{}): true}
	work := []node{{init, c14Ghost{}}}
	ev := consteval.New()
	accepts := false
	note := func(name, msg string) {
		if _, has := res.Bad[name]; !has {
			res.Bad[name] = msg
		}
	}
	for len(work) > 0 {
		nd := work[0]
		work = work[1:]
		res.States++
		// after the loop
		outs, _, ok := ev.EvalFrom(hdr, nil, mkEnv(nd.st, false, enabled, false, false))
		if !ok || len(outs) == 0 {
			return und("the code after the loop could not be folded from state %s", describe(nd.st))
		}
		for _, o := range outs {
			if fails(o) {
				continue
			}
			if name, what := forbidden(nd.ghost); name != "" {
				note(name, fmt.Sprintf("Validate succeeds (return at %s) from loop state %s, reached with %s", p.Pos(o.Ret.Pos()), describe(nd.st), what))
			} else {
				accepts = true
			}
		}
		// one more key
		for _, pIs := range []bool{true, false} {
			for _, status := range statuses {
				for _, dup := range []bool{false, true} {
					isEn := constant.Compare(status, token.EQL, enabled)
					if nd.ghost.prim != 0 && pIs && !dup {
						continue // a second key with the primary ID repeats an ID
					}
					res.Steps++
					var nexts [][]consteval.Val
					okNext := true
					ev.OnStop = func(from, stop *ssa.BasicBlock, get func(ssa.Value) consteval.Val) {
						var nx []consteval.Val
						for _, sv := range state {
							found := false
							for i, pr := range hdr.Preds {
								if pr == from {
									v, ok := norm(sv, get(sv.phi.Edges[i]))
									if !ok {
										okNext = false
									}
									nx = append(nx, v)
									found = true
									break
								}
							}
							if !found {
								okNext = false
							}
						}
						nexts = append(nexts, nx)
					}
					outs, _, ok := ev.EvalFrom(hdr, map[*ssa.BasicBlock]bool{hdr: true}, mkEnv(nd.st, pIs, status, dup, true))
					ev.OnStop = nil
					if !ok || !okNext {
						return und("an iteration could not be folded from state %s", describe(nd.st))
					}
					input := fmt.Sprintf("key with primaryID=%v status=%s duplicateID=%v in loop state %s", pIs, status.ExactString(), dup, describe(nd.st))
					ghost2 := nd.ghost
					if dup {
						ghost2.dup = true
					} else if pIs && isEn {
						ghost2.prim = 1
					} else if pIs {
						ghost2.prim = 2
					}
					for _, o := range outs {
						if fails(o) {
							continue
						}
						if name, what := forbidden(ghost2); name != "" {
							note(name, fmt.Sprintf("Validate returns success from inside the loop with %s: %s", what, input))
						}
					}
					for _, nx := range nexts {
						if k := stKey(nx, ghost2); !seen[k] {
							seen[k] = true
							work = append(work, node{nx, ghost2})
						}
					}
				}
			}
		}
		if res.States > 4096 {
			return und("too many loop states")
		}
	}
	if !accepts {
		return und("no reachable loop state leads to success")
	}
	if ev.Forks > 0 && len(res.Bad) > 0 {
		// an unfolded branch was explored both ways: a reported success path may not exist
		var names []string
		for n := range res.Bad {
			names = append(names, n)
		}
		sort.Strings(names)
		return und("%d branch conditions did not fold; inexact findings: %s", ev.Forks, strings.Join(names, ", "))
	}
	res.Decided = true
	return res
}
