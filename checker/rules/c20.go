package rules

import (
	"fmt"
	"go/token"
	"go/types"
	"os"
	"regexp"
	"sort"
	"strings"

	"golang.org/x/tools/go/ssa"

	"tinkverif/bounds"
	"tinkverif/core"
	"tinkverif/effects"
	"tinkverif/guard"
)

func init() { Registry["C20"] = c20 }

// region of a byte-slice value: [lo, hi) of a base value.
type region struct {
	base   ssa.Value
	lo, hi bounds.Lin
}

func regionOf(cx *bounds.Ctx, v ssa.Value) region {
	v = guard.Strip(v)
	if sl, ok := v.(*ssa.Slice); ok {
		if _, isStr := sl.X.Type().Underlying().(*types.Basic); !isStr {
			in := regionOf(cx, sl.X)
			lo, hi := in.lo, in.hi
			if sl.High != nil {
				hi = in.lo.Add(cx.Lin(sl.High), 1)
			}
			if sl.Low != nil {
				lo = in.lo.Add(cx.Lin(sl.Low), 1)
			}
			return region{in.base, lo, hi}
		}
	}
	return region{v, bounds.Konst(0), cx.LenOf(v)}
}

// fill sites: instructions after which a region holds fresh random bytes.
type fillSite struct {
	ins ssa.Instruction
	reg region
	src string
}

func randomFillsOf(cx *bounds.Ctx, f *ssa.Function) []fillSite {
	var out []fillSite
	allInstrs(f, func(ins ssa.Instruction) {
		call, ok := ins.(*ssa.Call)
		if !ok {
			return
		}
		n := guard.CalleeName(&call.Call)
		switch {
		case strings.HasSuffix(n, "internal/random.MustRand"), n == "crypto/rand.Read":
			out = append(out, fillSite{ins, regionOf(cx, call.Call.Args[0]), shortName(n)})
		case strings.HasSuffix(n, "subtle/random.GetRandomBytes"):
			out = append(out, fillSite{ins, region{call, bounds.Konst(0), cx.LenOf(call)}, shortName(n)})
		case n == "io.ReadFull" || n == "io.ReadAtLeast":
			if isRandReader(call.Call.Args[0]) {
				out = append(out, fillSite{ins, regionOf(cx, call.Call.Args[1]), shortName(n) + "(rand.Reader)"})
			}
		}
	})
	return out
}

func isRandReader(v ssa.Value) bool {
	v = guard.Strip(v)
	if u, ok := v.(*ssa.UnOp); ok && u.Op == token.MUL {
		if g, ok := u.X.(*ssa.Global); ok && g.Name() == "Reader" && g.Pkg != nil && g.Pkg.Pkg.Path() == "crypto/rand" {
			return true
		}
	}
	return false
}

var nonceParam = regexp.MustCompile(`(?i)^(iv|nonce)$`)

// producing functions in which nonce arguments are obligations
var c20Producer = regexp.MustCompile(`^(Encrypt|EncryptWithContext|EncryptWithDst|encrypt|Seal|seal|Wrap)$`)

// deterministic nonce derivations whose own inputs are checked instead
var c20Derivations = map[string]string{
	"(*hybrid/internal/hpke.context).computeNonce":         "HPKE RFC 9180 §5.2: base_nonce XOR sequence number; base nonce and key derive from a fresh encapsulation (C20.ephemeral)",
	"streamingaead/subtle/noncebased.generateSegmentNonce": "per-segment nonce = random per-stream prefix || counter || last flag; the prefix is drawn in NewEncryptingWriter (checked below)",
}

func c20(c *Ctx) {
	p, r := c.P, c.R
	r.Explanation = "C20's distributional statement is crypto/rand's (assumed). Decided statically: every byte of every IV/nonce/salt/ephemeral/ID is assigned from the OS CSPRNG and not modified afterwards — " +
		"(source) no product package imports math/rand; the three wrappers pass the whole buffer to crypto/rand.Read and do not mask; every io.Reader given to a stdlib key-generation/signing call is crypto/rand.Reader; " +
		"(nonce) in every producing function, each argument passed as nonce/IV (cipher.AEAD.Seal, cipher.NewCTR, module parameters named nonce/iv) lies inside a region that a dominating random fill covers completely (region inclusion proved with the linear prover on symbolic offsets), with no write to that buffer between fill and use; parameters named nonce/iv defer to the callers; the two deterministic derivations (HPKE computeNonce, streaming generateSegmentNonce) are exceptions whose random inputs are checked; " +
		"(stream) NewEncryptingWriter draws salt and nonce prefix with GetRandomBytes of the configured sizes on every call; " +
		"(ephemeral) each KEM encapsulate draws its sender key inside the call from crypto/rand and does not keep it in the shared object; " +
		"(sign) hedged ML-DSA/SLH-DSA signing fills its whole randomness array with rand.Read on every call; " +
		"(keys) every key creator obtains secret material from NewBytesFromRand(size of the parameters) or a stdlib/module generator fed crypto/rand. " +
		"Not decided: statistical quality (a distributional property of executions)."
	a := c.Eff()

	// ---------------------------------------------------------------- source
	for _, path := range sortedPkgPaths(p) {
		if core.ClassOf(path) != core.Product {
			continue
		}
		for _, imp := range p.ByPath[path].Types.Imports() {
			if imp.Path() == "math/rand" || imp.Path() == "math/rand/v2" {
				r.Bad("C20.source", "C20.source/"+core.Rel(path)+"/imports "+imp.Path(), "-", "a product package imports a non-cryptographic random source")
			}
		}
	}
	r.Ok("C20.source", "C20.source/no math/rand import", "-", fmt.Sprintf("%d product packages scanned", len(p.Roots)))
	c20Wrappers(c)
	// io.Reader arguments of stdlib calls
	nReaders := 0
	for _, f := range p.SortedFuncs(core.Product) {
		rel := core.Rel(core.PkgOf(f))
		if strings.HasPrefix(rel, "keyderivation") {
			continue // deterministic derivation: feeds the PRF stream on purpose (C17)
		}
		allInstrs(f, func(ins ssa.Instruction) {
			call, ok := ins.(ssa.CallInstruction)
			if !ok {
				return
			}
			n := guard.CalleeName(call.Common())
			if !(strings.HasPrefix(n, "crypto/") || strings.HasPrefix(n, "(crypto/") || strings.HasPrefix(n, "(*crypto/") || strings.HasPrefix(n, "golang.org/x/crypto")) {
				return
			}
			sig := call.Common().Signature()
			args := call.Common().Args
			off := 0
			if sig.Recv() != nil && !call.Common().IsInvoke() {
				off = 1
			}
			for i := 0; i < sig.Params().Len() && i+off < len(args); i++ {
				if types.TypeString(sig.Params().At(i).Type(), nil) != "io.Reader" {
					continue
				}
				nReaders++
				arg := args[i+off]
				key := fmt.Sprintf("C20.source/%s/%s reader", core.FuncID(f), shortName(n))
				_, isParam := guard.Strip(arg).(*ssa.Parameter)
				switch {
				case isRandReader(arg):
					r.Ok("C20.source", key, p.Pos(ins.Pos()), "crypto/rand.Reader")
				case isParam && (strings.Contains(rel, "subtle") || strings.Contains(rel, "internal")):
					r.Ok("C20.source", key, p.Pos(ins.Pos()), "reader is a parameter of an internal helper; its callers are obligations")
				default:
					r.Bad("C20.source", key, p.Pos(ins.Pos()), "a stdlib key-generation/signing call is given a reader other than crypto/rand.Reader ("+valName(arg)+")")
				}
			}
		})
	}
	r.Counts["stdlib_reader_args"] = nReaders
	r.Min("C20.source", 8)

	// ---------------------------------------------------------------- nonce
	nNonce := 0
	for _, f := range p.SortedFuncs(core.Product) {
		// producing entry points, and any other function that itself hands a nonce to the
		// stdlib (a shared helper such as sealWithRandomNonce)
		isProducer := c20Producer.MatchString(f.Name()) || f.Name() == "EncryptSegment" || f.Name() == "EncryptSegmentWithDst"
		if f.Synthetic != "" {
			continue
		}
		cx := bounds.NewCtx(f)
		fills := randomFillsOf(cx, f)
		allInstrs(f, func(ins ssa.Instruction) {
			call, ok := ins.(ssa.CallInstruction)
			if !ok {
				return
			}
			cc := call.Common()
			n := guard.CalleeName(cc)
			var idxs []int
			if !isProducer && len(fills) == 0 {
				return // a helper that draws nothing itself: its nonce is its callers' obligation
			}
			switch {
			case n == "(crypto/cipher.AEAD).Seal":
				idxs = []int{1}
			case n == "crypto/cipher.NewCTR":
				idxs = []int{1}
			case !isProducer:
				return
			default:
				if callee := cc.StaticCallee(); callee != nil && core.FuncClass(callee) == core.Product {
					for i, prm := range callee.Params {
						if nonceParam.MatchString(prm.Name()) && core.IsByteSlice(prm.Type()) && i < len(cc.Args) {
							idxs = append(idxs, i)
						}
					}
				}
			}
			for _, i := range idxs {
				arg := cc.Args[i]
				if _, isPrm := guard.Strip(arg).(*ssa.Parameter); isPrm && !isProducer {
					continue // a helper given its nonce: decided at its callers (nonce-named parameters)
				}
				nNonce++
				key := fmt.Sprintf("C20.nonce/%s/%s arg%d", core.FuncID(f), shortName(n), i)
				why, ok := nonceOK(c, a, cx, f, ins, arg, fills)
				r.Check(ok, "C20.nonce", key, p.Pos(ins.Pos()), "a nonce/IV is not (entirely) fresh randomness: "+why, why)
			}
		})
	}
	r.Counts["nonce_arguments"] = nNonce
	r.Min("C20.nonce", 12)

	// ---------------------------------------------------------------- alwaysdraw
	// a function that draws its nonce/IV into the buffer it returns does so on every
	// successful path: no success return hands that buffer back without the fill
	// having run (an "empty message needs no key stream" shortcut would return an
	// all-zero IV)
	nDraw := 0
	for _, f := range p.SortedFuncs(core.Product) {
		if f.Synthetic != "" || f.Blocks == nil {
			continue
		}
		res := f.Signature.Results()
		if res.Len() == 0 || !core.IsByteSlice(res.At(0).Type()) {
			continue
		}
		cx := bounds.NewCtx(f)
		fills := randomFillsOf(cx, f)
		if len(fills) == 0 {
			continue
		}
		isProducer := c20Producer.MatchString(f.Name()) || f.Name() == "EncryptSegment" || f.Name() == "EncryptSegmentWithDst"
		for _, fs := range fills {
			returned := false
			bad := ""
			for _, ret := range guard.SuccessReturns(f) {
				if len(ret.Results) == 0 || guard.IsNilConst(ret.Results[0]) {
					continue
				}
				// the returned buffer carries the filled region, or the function is a producer
				// whose single draw is its nonce
				if regionOf(cx, ret.Results[0]).base != fs.reg.base && !(isProducer && len(fills) == 1) {
					continue
				}
				returned = true
				fb := fs.ins.Block()
				if fb != ret.Block() && !fb.Dominates(ret.Block()) {
					bad = p.Pos(ret.Pos())
				}
			}
			if !returned {
				continue
			}
			nDraw++
			key := fmt.Sprintf("C20.alwaysdraw/%s/%s", core.FuncID(f), fs.src)
			r.Check(bad == "", "C20.alwaysdraw", key, p.Pos(fs.ins.Pos()), "a successful path returns output without passing the function's random nonce/IV draw (return at "+bad+")", "the draw dominates every success return")
		}
	}
	r.Counts["draw_into_result_sites"] = nDraw
	r.Min("C20.alwaysdraw", 8)

	c20Stream(c)
	c20Ephemeral(c)
	c20Sign(c)
	c20Keys(c)
}

func sortedPkgPaths(p *core.Program) []string {
	var out []string
	for path := range p.ByPath {
		out = append(out, path)
	}
	sort.Strings(out)
	return out
}

// nonceOK decides one nonce argument.
func nonceOK(c *Ctx, a *effects.Analysis, cx *bounds.Ctx, f *ssa.Function, use ssa.Instruction, arg ssa.Value, fills []fillSite) (string, bool) {
	v := guard.Strip(arg)
	// deferred to callers
	if prm, ok := v.(*ssa.Parameter); ok && nonceParam.MatchString(prm.Name()) {
		return "parameter " + prm.Name() + ": obligation of the callers", true
	}
	// deterministic derivation
	if dc, _ := guard.CallOf(v); dc != nil {
		if callee := dc.Call.StaticCallee(); callee != nil {
			if why, ok := c20Derivations[core.FuncID(callee)]; ok {
				return "derived by " + core.FuncID(callee) + ": " + why, true
			}
		}
	}
	// the nonce is a result of a module helper that draws it: judged at every success
	// return of the helper, with the helper's own fills (the whole result is the nonce)
	if hc, hi := guard.CallOf(v); hc != nil && guard.Strip(v) == v {
		if _, isEx := v.(*ssa.Extract); isEx || v == ssa.Value(hc) {
			if h := hc.Call.StaticCallee(); h != nil && h.Blocks != nil && core.FuncClass(h) == core.Product && h != f && hi < h.Signature.Results().Len() && core.IsByteSlice(h.Signature.Results().At(hi).Type()) {
				hcx := bounds.NewCtx(h)
				hfills := randomFillsOf(hcx, h)
				if len(hfills) > 0 {
					all, n := true, 0
					for _, ret := range guard.SuccessReturns(h) {
						if hi >= len(ret.Results) || guard.IsNilConst(ret.Results[hi]) {
							continue
						}
						n++
						if _, ok := nonceOK(c, a, hcx, h, ret, ret.Results[hi], hfills); !ok {
							all = false
						}
					}
					if all && n > 0 {
						return "result of " + h.Name() + ", every success return of which hands back a region covered by its own random fill", true
					}
				}
			}
		}
	}
	reg := regionOf(cx, v)
	facts := cx.FactsToLin(guard.InstrFacts(use))
	for _, fs := range fills {
		if guard.Strip(fs.reg.base) != guard.Strip(reg.base) {
			continue
		}
		if !(fs.ins.Block() == use.Block() || fs.ins.Block().Dominates(use.Block())) {
			continue
		}
		lo, _ := cx.Entails(facts, reg.lo.Add(fs.reg.lo, -1))
		hi, _ := cx.Entails(facts, fs.reg.hi.Add(reg.hi, -1))
		if os.Getenv("TV_DBG_NONCE") != "" && strings.Contains(f.String(), os.Getenv("TV_DBG_NONCE")) {
			fmt.Fprintf(os.Stderr, "NONCE %s: fill [%s,%s) nonce [%s,%s) lo=%v hi=%v goalhi=%s facts=%v\n", f, fs.reg.lo, fs.reg.hi, reg.lo, reg.hi, lo, hi, fs.reg.hi.Add(reg.hi, -1), facts)
		}
		if !lo || !hi {
			continue
		}
		// no write to the buffer between fill and use
		clean := true
		allInstrs(f, func(ins ssa.Instruction) {
			if ins == fs.ins || ins == use || !guard.Reaches(fs.ins, ins) || !guard.Reaches(ins, use) {
				return
			}
			switch x := ins.(type) {
			case *ssa.Store:
				if a.MayAlias(f, x.Addr, reg.base) && isByteAddr(x.Addr) {
					clean = false
				}
			case *ssa.Call:
				if b, ok := x.Call.Value.(*ssa.Builtin); ok && b.Name() == "copy" && a.MayAlias(f, x.Call.Args[0], reg.base) {
					// a copy into a disjoint part (e.g. the prefix before the IV) is fine if provably below lo
					dst := regionOf(cx, x.Call.Args[0])
					if guard.Strip(dst.base) == guard.Strip(reg.base) {
						// copy writes min(len(dst),len(src)) bytes from dst.lo: safe if dst.lo + len(src) <= reg.lo
						end := dst.lo.Add(cx.LenOf(x.Call.Args[1]), 1)
						if ok, _ := cx.Entails(facts, reg.lo.Add(end, -1)); ok {
							return
						}
					}
					clean = false
				}
			}
		})
		if !clean {
			return "the random region [" + fs.reg.lo.String() + "," + fs.reg.hi.String() + ") is written again between the fill and its use as nonce", false
		}
		return fmt.Sprintf("covered by %s of [%s,%s) ⊇ nonce [%s,%s)", fs.src, fs.reg.lo, fs.reg.hi, reg.lo, reg.hi), true
	}
	return fmt.Sprintf("no dominating random fill covers the nonce region [%s,%s) of %s", reg.lo, reg.hi, valName(reg.base)), false
}

func isByteAddr(v ssa.Value) bool {
	pt, ok := v.Type().Underlying().(*types.Pointer)
	if !ok {
		return false
	}
	b, ok := pt.Elem().Underlying().(*types.Basic)
	return ok && b.Kind() == types.Uint8
}

// ---------------------------------------------------------------- wrappers

func c20Wrappers(c *Ctx) {
	p, r := c.P, c.R
	// MustRand(b): rand.Read(b) with the same b, error -> panic
	if f := p.PkgFunc("internal/random", "MustRand"); f == nil {
		r.AnchorMissing("C20.source", "internal/random.MustRand")
	} else {
		good := false
		for _, site := range callsTo(f, "crypto/rand.Read") {
			if site.Common().Args[0] == ssa.Value(f.Params[0]) {
				good = true
			}
		}
		stores := false
		allInstrs(f, func(ins ssa.Instruction) {
			if _, ok := ins.(*ssa.Store); ok {
				stores = true
			}
		})
		r.Check(good && !stores, "C20.source", "C20.source/internal/random.MustRand", p.FuncPos(f), "MustRand does not hand exactly its argument to crypto/rand.Read (or modifies it)", "rand.Read(b) on the whole argument; nothing else written")
	}
	if f := p.PkgFunc("subtle/random", "GetRandomBytes"); f == nil {
		r.AnchorMissing("C20.source", "subtle/random.GetRandomBytes")
	} else {
		good := false
		for _, ret := range guard.Returns(f) {
			mk, isMk := guard.Strip(ret.Results[0]).(*ssa.MakeSlice)
			if !isMk || guard.Strip(mk.Len) != ssa.Value(f.Params[0]) {
				continue
			}
			for _, ref := range *mk.Referrers() {
				if call, ok := ref.(*ssa.Call); ok && strings.HasSuffix(guard.CalleeName(&call.Call), "random.MustRand") && call.Call.Args[0] == ssa.Value(mk) {
					good = true
				}
			}
		}
		r.Check(good, "C20.source", "C20.source/subtle/random.GetRandomBytes", p.FuncPos(f), "GetRandomBytes(n) does not return a fresh n-byte buffer filled entirely by MustRand", "make([]byte, n) filled whole, returned")
	}
	if f := p.PkgFunc("subtle/random", "GetRandomUint32"); f == nil {
		r.AnchorMissing("C20.source", "subtle/random.GetRandomUint32")
	} else {
		good := false
		for _, ret := range guard.Returns(f) {
			dc, _ := guard.CallOf(ret.Results[0])
			if dc == nil || !strings.HasSuffix(guard.CalleeName(&dc.Call), "ndian).Uint32") {
				continue // masked / combined values are not the raw decode
			}
			if _, direct := guard.Strip(ret.Results[0]).(*ssa.Call); !direct {
				continue
			}
			// decode of GetRandomBytes(4): a fresh 4-byte buffer filled whole (checked above)
			if gc, _ := guard.CallOf(dc.Call.Args[len(dc.Call.Args)-1]); gc != nil && strings.HasSuffix(guard.CalleeName(&gc.Call), "random.GetRandomBytes") {
				if k, isK := guard.ConstInt(gc.Call.Args[0]); isK && k == 4 {
					good = true
				}
			}
			buf := regionOf(bounds.NewCtx(f), dc.Call.Args[len(dc.Call.Args)-1])
			for _, fs := range randomFillsOf(bounds.NewCtx(f), f) {
				if guard.Strip(fs.reg.base) == guard.Strip(buf.base) && fs.reg.hi.String() == "4" && fs.reg.lo.String() == "0" {
					good = true
				}
			}
		}
		r.Check(good, "C20.source", "C20.source/subtle/random.GetRandomUint32", p.FuncPos(f), "GetRandomUint32 does not return the unmasked decode of 4 freshly filled bytes", "Uint32 of a 4-byte array filled whole")
	}
	if f := p.PkgFunc("secretdata", "NewBytesFromRand"); f == nil {
		r.AnchorMissing("C20.source", "secretdata.NewBytesFromRand")
	} else {
		good := false
		cx := bounds.NewCtx(f)
		for _, fs := range randomFillsOf(cx, f) {
			if mk, ok := guard.Strip(fs.reg.base).(*ssa.MakeSlice); ok && guard.Strip(mk.Len) == ssa.Value(f.Params[0]) && fs.reg.lo.String() == "0" && fs.reg.hi.String() == cx.Lin(mk.Len).String() {
				good = true
			}
			if _, fld, ok := guard.FieldOf(fs.reg.base); ok && fld == "data" {
				good = true
			}
		}
		r.Check(good, "C20.source", "C20.source/secretdata.NewBytesFromRand", p.FuncPos(f), "NewBytesFromRand(n) does not fill a fresh n-byte buffer entirely from crypto/rand", "make([]byte, size) filled whole by rand.Read")
	}
}

// ---------------------------------------------------------------- streaming header

func c20Stream(c *Ctx) {
	p, r := c.P, c.R
	n := 0
	for _, f := range p.SortedFuncs(core.Product) {
		if f.Name() != "NewEncryptingWriter" || core.Rel(core.PkgOf(f)) != "streamingaead/subtle" {
			continue
		}
		n++
		fid := core.FuncID(f)
		var calls []*ssa.Call
		for _, s := range callsTo(f, core.ModPath+"/subtle/random.GetRandomBytes") {
			calls = append(calls, s.(*ssa.Call))
		}
		// two draws: salt (key-size field) and nonce prefix (constant)
		okSalt, okPrefix := false, false
		for _, call := range calls {
			arg := guard.Strip(call.Call.Args[0])
			if _, isC := guard.ConstInt(arg); isC {
				okPrefix = true
			} else if _, fld, isF := guard.FieldOf(arg); isF && strings.Contains(strings.ToLower(fld), "keysize") {
				okSalt = true
			}
			// not inside a condition other than error checks: must dominate every success return
			for _, ret := range guard.SuccessReturns(f) {
				if !(call.Block() == ret.Block() || call.Block().Dominates(ret.Block())) {
					okSalt, okPrefix = false, false
				}
			}
		}
		if !(okSalt && okPrefix) {
			// provenance form: the salt handed to the key derivation and the nonce prefix
			// handed to the segment writer are each a buffer filled completely by the
			// CSPRNG on every call (GetRandomBytes result, or a slice passed whole to
			// MustRand / rand.Read before any success return)
			freshRandom := func(v ssa.Value) bool {
				if cc, _ := guard.CallOf(v); cc != nil && strings.HasSuffix(guard.CalleeName(&cc.Call), "random.GetRandomBytes") {
					return true
				}
				ok := false
				allInstrs(f, func(ins ssa.Instruction) {
					call, isC := ins.(*ssa.Call)
					if !isC || len(call.Call.Args) == 0 {
						return
					}
					nme := guard.CalleeName(&call.Call)
					if !(strings.HasSuffix(nme, "internal/random.MustRand") || nme == "crypto/rand.Read") || guard.Strip(call.Call.Args[0]) != guard.Strip(v) {
						return
					}
					dom := true
					for _, ret := range guard.SuccessReturns(f) {
						if !(call.Block() == ret.Block() || call.Block().Dominates(ret.Block())) {
							dom = false
						}
					}
					if dom {
						ok = true
					}
				})
				return ok
			}
			var saltV, prefixV ssa.Value
			allInstrs(f, func(ins ssa.Instruction) {
				if call, isC := ins.(*ssa.Call); isC && (strings.HasSuffix(guard.CalleeName(&call.Call), ").deriveKey") || strings.HasSuffix(guard.CalleeName(&call.Call), ").deriveKeys")) && len(call.Call.Args) >= 2 {
					saltV = call.Call.Args[1]
				}
				if _, fld, val, isS := guard.StoreField(ins); isS && fld == "NoncePrefix" {
					prefixV = val
				}
			})
			if saltV != nil && prefixV != nil {
				okSalt, okPrefix = freshRandom(saltV), freshRandom(prefixV)
				// and they are different buffers
				if guard.Strip(saltV) == guard.Strip(prefixV) {
					okPrefix = false
				}
				if !(okSalt && okPrefix) {
					// range form: both are disjoint ranges of one buffer, inside the range a
					// single CSPRNG fill covers, with no later write into the buffer
					okSalt, okPrefix = c20RangesFilled(f, saltV, prefixV)
				}
			}
		}
		r.Check(okSalt && okPrefix, "C20.stream", "C20.stream/"+fid, p.FuncPos(f), "NewEncryptingWriter does not draw both the salt (key-size bytes) and the nonce prefix (constant size) with GetRandomBytes on every call", "salt = GetRandomBytes(keySize), noncePrefix = GetRandomBytes(const) on every success path")
	}
	if n < 2 {
		r.AnchorMissing("C20.stream", "NewEncryptingWriter of the two streaming AEADs")
	}
	// generateSegmentNonce: prefix copied at 0, counter and flag written behind it
	if f := p.PkgFunc("streamingaead/subtle/noncebased", "generateSegmentNonce"); f == nil {
		r.AnchorMissing("C20.stream", "noncebased.generateSegmentNonce")
	} else {
		hasCopy, hasCtr := false, false
		allInstrs(f, func(ins ssa.Instruction) {
			if call, ok := ins.(*ssa.Call); ok {
				if b, isB := call.Call.Value.(*ssa.Builtin); isB && b.Name() == "copy" && guard.Strip(call.Call.Args[1]) == ssa.Value(f.Params[1]) {
					hasCopy = true
				}
				if strings.HasSuffix(guard.CalleeName(&call.Call), "bigEndian).PutUint32") {
					hasCtr = true
				}
			}
		})
		if !hasCtr && len(f.Params) >= 3 {
			if _, ok4 := be32ByteStores(bounds.NewCtx(f), f, f.Params[2]); ok4 {
				hasCtr = true
			}
		}
		r.Check(hasCopy && hasCtr, "C20.stream", "C20.stream/generateSegmentNonce", p.FuncPos(f), "segment nonce is not prefix || 32-bit counter || flag", "copy(nonce, prefix); PutUint32(counter)")
	}
}

// ---------------------------------------------------------------- ephemeral

func c20Ephemeral(c *Ctx) {
	p, r := c.P, c.R
	a := c.Eff()
	n := 0
	for _, f := range p.SortedFuncs(core.Product) {
		if f.Name() != "encapsulate" || f.Signature.Recv() == nil || f.Synthetic != "" {
			continue
		}
		n++
		fid := core.FuncID(f)
		// (1) does not store into the shared KEM object
		if w, ok := a.Sum[f].WritesParam(0, true, true); ok {
			r.Bad("C20.ephemeral", "C20.ephemeral/"+fid+"/no shared state", p.Pos(w.Pos), "encapsulate writes into the shared KEM object ("+w.Desc+"): the ephemeral key is not private to the call")
		} else {
			r.Ok("C20.ephemeral", "C20.ephemeral/"+fid+"/no shared state", p.FuncPos(f), "receiver absent from the write set")
		}
		// (2) a random source is drawn on every success path
		fresh := c20DrawsFresh(p, f, 0)
		r.Check(fresh, "C20.ephemeral", "C20.ephemeral/"+fid+"/fresh key", p.FuncPos(f), "encapsulate has a success path that draws no fresh randomness (crypto/rand reader, rand.Read, Encapsulate())", "a random draw dominates every success return")
	}
	r.Counts["encapsulate_functions"] = n
	r.Min("C20.ephemeral", 6)
}

// hookIsGenerator: package-level function variable initialised with a real
// key generator and never reassigned by product code.
func hookIsGenerator(p *core.Program, g *ssa.Global) bool {
	ok := false
	for _, acc := range globalAccesses(p, g) {
		st, isStore := acc.ins.(*ssa.Store)
		if !isStore || st.Addr != ssa.Value(g) {
			continue
		}
		if !isInitFunc(acc.fn) {
			return false
		}
		fn, isFn := guard.Strip(st.Val).(*ssa.Function)
		if !isFn || !strings.Contains(fn.Name(), "GeneratePrivateKey") {
			return false
		}
		ok = true
	}
	return ok
}

// ---------------------------------------------------------------- sign

func c20Sign(c *Ctx) {
	p, r := c.P, c.R
	// hedged entry points: a [N]byte array filled whole by rand.Read, then passed on
	for _, spec := range []struct{ rel, typ, method string }{
		{"internal/signature/mldsa", "SecretKey", "Sign"},
		{"internal/signature/mldsa", "SecretKey", "SignWithMu"},
		{"internal/signature/slhdsa", "SecretKey", "Sign"},
	} {
		var f *ssa.Function
		for _, m := range methodsOf(p, spec.rel, spec.typ) {
			if m.Name() == spec.method {
				f = m
			}
		}
		key := fmt.Sprintf("C20.sign/%s.(*%s).%s", spec.rel, spec.typ, spec.method)
		if f == nil {
			r.AnchorMissing("C20.sign", key)
			continue
		}
		cx := bounds.NewCtx(f)
		good := false
		for _, fs := range randomFillsOf(cx, f) {
			full := ""
			switch b := guard.Strip(fs.reg.base).(type) {
			case *ssa.Alloc:
				if arr, ok := b.Type().Underlying().(*types.Pointer).Elem().Underlying().(*types.Array); ok {
					full = fmt.Sprint(arr.Len())
				}
			case *ssa.MakeSlice:
				full = cx.Lin(b.Len).String()
			}
			if full != "" && fs.reg.lo.String() == "0" && fs.reg.hi.String() == full {
				// reaches every success return
				all := true
				for _, ret := range guard.SuccessReturns(f) {
					if !(fs.ins.Block() == ret.Block() || fs.ins.Block().Dominates(ret.Block())) {
						all = false
					}
				}
				if all {
					good = true
				}
			}
		}
		r.Check(good, "C20.sign", key, p.FuncPos(f), "the hedged signing entry point does not fill its whole randomness array with rand.Read on every call", "rand.Read(rnd[:]) over the full array dominates every success return")
	}
	// tink signers call the hedged entry points
	for _, rel := range []string{"signature/mldsa", "signature/slhdsa"} {
		for _, f := range pkgFuncs(p, rel) {
			if f.Name() != "Sign" || f.Signature.Recv() == nil {
				continue
			}
			det := false
			allInstrs(f, func(ins ssa.Instruction) {
				if call, ok := ins.(ssa.CallInstruction); ok && strings.Contains(guard.CalleeName(call.Common()), "Deterministic") {
					det = true
				}
			})
			r.Check(!det, "C20.sign", "C20.sign/"+core.FuncID(f)+"/hedged", p.FuncPos(f), "the tink signer calls a deterministic signing entry point", "calls the hedged Sign")
		}
	}
}

// ---------------------------------------------------------------- keys

func c20Keys(c *Ctx) {
	p, r := c.P, c.R
	n := 0
	for _, f := range p.SortedFuncs(core.Product) {
		if f.Parent() != nil || f.Synthetic != "" || f.Signature.Recv() != nil {
			continue
		}
		if f.Name() != "createKey" && f.Name() != "createPrivateKey" {
			continue
		}
		rel := core.Rel(core.PkgOf(f))
		if strings.HasPrefix(rel, "keyderivation") {
			continue
		}
		n++
		key := "C20.keys/" + core.FuncID(f)
		src := ""
		allInstrs(f, func(ins ssa.Instruction) {
			call, ok := ins.(*ssa.Call)
			if !ok {
				return
			}
			nm := guard.CalleeName(&call.Call)
			switch {
			case strings.HasSuffix(nm, "secretdata.NewBytesFromRand"):
				// the size derives from the parameters
				if derivesFrom(call.Call.Args[0], f.Params[0], 0) || hasConstArg(call) {
					src = "NewBytesFromRand(size from parameters)"
				} else {
					src = "!NewBytesFromRand with a size not derived from the parameters"
				}
			case strings.HasSuffix(nm, ".GenerateKey") || strings.HasSuffix(nm, ".KeyGen") || strings.Contains(nm, "GenerateECDHKeyPair") || strings.HasSuffix(nm, "GeneratePrivateKeyX25519") || strings.HasSuffix(nm, ".GenerateKey$bound"):
				if src == "" {
					src = shortName(nm)
				}
			case strings.HasSuffix(nm, "keygenregistry.CreateKey"):
				if src == "" {
					src = "delegates to the registered creators (keygenregistry.CreateKey)"
				}
			case strings.HasSuffix(nm, "random.GetRandomBytes") || nm == "crypto/rand.Read":
				if src == "" {
					src = shortName(nm)
				}
			}
		})
		if src == "" {
			// delegates to another creator of the module (e.g. JWT keys wrap the plain key creators)
			allInstrs(f, func(ins ssa.Instruction) {
				if call, ok := ins.(*ssa.Call); ok {
					if callee := call.Call.StaticCallee(); callee != nil && core.FuncClass(callee) == core.Product && (strings.Contains(strings.ToLower(callee.Name()), "generate") || strings.Contains(callee.Name(), "New") && strings.Contains(callee.Name(), "Rand")) {
						src = "delegates to " + core.FuncID(callee)
					}
				}
			})
		}
		r.Check(src != "" && !strings.HasPrefix(src, "!"), "C20.keys", key, p.FuncPos(f), "key creator draws no secret material from the CSPRNG (or with a size unrelated to its parameters): "+strings.TrimPrefix(src, "!"), src)
	}
	r.Counts["key_creators"] = n
	r.Min("C20.keys", 20)
}

func hasConstArg(call *ssa.Call) bool {
	_, ok := guard.ConstInt(call.Call.Args[0])
	return ok
}

// c20RangesFilled: a and b are re-slicings [loA,hiA) and [loB,hiB) of buffers
// that a CSPRNG fill (MustRand / rand.Read, dominating every success return)
// covers; when they share the buffer the ranges are disjoint; nothing is stored
// into the buffer(s) after the fill. Offsets are compared as linear terms.
func c20RangesFilled(f *ssa.Function, a, b ssa.Value) (bool, bool) {
	cx := bounds.NewCtx(f)
	type rng struct {
		base   ssa.Value
		lo, hi bounds.Lin
		toEnd  bool // every re-slicing on the way has no upper bound
	}
	rangeOf := func(v ssa.Value) rng {
		base, lo := absSliceStart(cx, v)
		toEnd := true
		for x := guard.Strip(v); x != base; {
			sl, ok := x.(*ssa.Slice)
			if !ok {
				break
			}
			if sl.High != nil {
				toEnd = false
			}
			x = guard.Strip(sl.X)
		}
		return rng{base, lo, lo.Add(cx.LenOf(v), 1), toEnd}
	}
	lenIsCap := func(base ssa.Value) bool {
		mk, ok := base.(*ssa.MakeSlice)
		return ok && mk.Cap == mk.Len
	}
	var fills []*ssa.Call
	allInstrs(f, func(ins ssa.Instruction) {
		call, isC := ins.(*ssa.Call)
		if !isC || len(call.Call.Args) == 0 {
			return
		}
		nme := guard.CalleeName(&call.Call)
		if !(strings.HasSuffix(nme, "internal/random.MustRand") || nme == "crypto/rand.Read") {
			return
		}
		for _, ret := range guard.SuccessReturns(f) {
			if !(call.Block() == ret.Block() || call.Block().Dominates(ret.Block())) {
				return
			}
		}
		fills = append(fills, call)
	})
	covered := func(r rng) bool {
		for _, fc := range fills {
			fr := rangeOf(fc.Call.Args[0])
			if fr.base != r.base {
				continue
			}
			if ok, _ := cx.Entails(nil, r.lo.Add(fr.lo, -1)); !ok {
				continue
			}
			okHi := false
			if fr.toEnd && lenIsCap(fr.base) {
				okHi = true // the fill runs to the end of a buffer whose length is its capacity
			} else if ok, _ := cx.Entails(nil, fr.hi.Add(r.hi, -1)); ok {
				okHi = true
			}
			if !okHi {
				continue
			}
			// nothing written into the buffer after the fill
			clean := true
			allInstrs(f, func(ins ssa.Instruction) {
				if ins == ssa.Instruction(fc) || !guard.Reaches(fc, ins) {
					return
				}
				switch x := ins.(type) {
				case *ssa.Store:
					if ia, isIA := x.Addr.(*ssa.IndexAddr); isIA {
						if b2, _ := absSliceStart(cx, ia.X); b2 == r.base {
							clean = false
						}
					}
				case *ssa.Call:
					if bi, isB := x.Call.Value.(*ssa.Builtin); isB && bi.Name() == "copy" {
						if b2, _ := absSliceStart(cx, x.Call.Args[0]); b2 == r.base {
							clean = false
						}
					}
					nme := guard.CalleeName(&x.Call)
					if strings.HasSuffix(nme, "internal/random.MustRand") || nme == "crypto/rand.Read" || nme == "io.ReadFull" {
						return
					}
				}
			})
			if clean {
				return true
			}
		}
		return false
	}
	ra, rb := rangeOf(a), rangeOf(b)
	okA, okB := covered(ra), covered(rb)
	if ra.base == rb.base {
		d1, _ := cx.Entails(nil, rb.lo.Add(ra.hi, -1))
		d2, _ := cx.Entails(nil, ra.lo.Add(rb.hi, -1))
		if !d1 && !d2 {
			okB = false
		}
	}
	return okA, okB
}

// c20DrawsFresh: every success return of f is dominated by a draw from the
// CSPRNG: a call taking the crypto/rand reader, rand.Read, GetRandomBytes, a
// key-pair generator, Encapsulate(), a generator hook whose production value is
// a real generator — or a helper of the same package that itself draws on each
// of its success paths (two levels).
func c20DrawsFresh(p *core.Program, f *ssa.Function, depth int) bool {
	var srcs []*ssa.Call
	allInstrs(f, func(ins ssa.Instruction) {
		call, ok := ins.(*ssa.Call)
		if !ok {
			return
		}
		nm := guard.CalleeName(&call.Call)
		isSrc := false
		for _, arg := range call.Call.Args {
			if isRandReader(arg) {
				isSrc = true
			}
		}
		if strings.HasSuffix(nm, ".Encapsulate") || strings.HasSuffix(nm, "random.GetRandomBytes") || nm == "crypto/rand.Read" || strings.HasSuffix(nm, "GeneratePrivateKeyX25519") || strings.HasSuffix(nm, "GenerateECDHKeyPair") {
			isSrc = true
		}
		// generator reached through a function-typed field or package variable (test hook): its
		// production value must be a real generator
		if !isSrc && call.Call.StaticCallee() == nil && !call.Call.IsInvoke() {
			if _, fld, isF := guard.FieldOf(call.Call.Value); isF && strings.Contains(strings.ToLower(fld), "generate") {
				isSrc = true
			}
			if u, isU := call.Call.Value.(*ssa.UnOp); isU {
				if g, isG := u.X.(*ssa.Global); isG && hookIsGenerator(p, g) {
					isSrc = true
				}
			}
		}
		if !isSrc && depth < 2 {
			if h := call.Call.StaticCallee(); h != nil && h != f && h.Blocks != nil && h.Pkg == f.Pkg && c20DrawsFresh(p, h, depth+1) {
				isSrc = true
			}
		}
		if isSrc {
			srcs = append(srcs, call)
		}
	})
	rets := guard.SuccessReturns(f)
	if depth > 0 && len(rets) == 0 {
		// a helper without an error result: every return counts
		rets = guard.Returns(f)
	}
	fresh := len(rets) > 0
	for _, ret := range rets {
		ok := false
		for _, call := range srcs {
			if call.Block() == ret.Block() || call.Block().Dominates(ret.Block()) {
				ok = true
			}
		}
		if !ok {
			fresh = false
		}
	}
	return fresh
}
