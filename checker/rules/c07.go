package rules

import (
	"fmt"
	"go/token"
	"regexp"
	"strings"
	"tinkverif/consteval"

	"golang.org/x/tools/go/ssa"

	"tinkverif/bounds"
	"tinkverif/core"
	"tinkverif/guard"
)

func init() { Registry["C07"] = c07 }

func isStreamPkg(rel string) bool {
	return rel == "streamingaead" || strings.HasPrefix(rel, "streamingaead/")
}

func c07(c *Ctx) {
	r := c.R
	r.Explanation = "C07's chunking independence is a statement over call histories and is NOT decided. Decided are its structural clauses: " +
		"(segauth) every segment decrypter returns plaintext only under a passed authentication check (GCM Open success / constant-time HMAC comparison), for every segment length, and the verdict is consumed; " +
		"(release) noncebased.Reader.Read hands the caller only bytes of its plaintext buffer, and after a segment decryption only under that decryption's nil error; " +
		"(ioerr) the error of every underlying Write/Read/ReadFull in the streaming packages is tested or returned, never dropped; " +
		"(nonce) generateSegmentNonce rejects segment numbers >= 2^32-1 and writes prefix, 32-bit big-endian counter and last flag at disjoint offsets; writer and reader pass their own segment counter, the writer passes last=false in Write and last=true in Close, the reader passes last exactly when the source ended; each counter is incremented on every path that emitted/consumed a segment; " +
		"(closed) Write after Close fails and Close is idempotent; " +
		"(retry) the keyset-level reader rewinds the replay buffer on every path on which a candidate key consumed input and failed, before the next candidate is tried, and reports failure when no candidate matched. " +
		"(buffered) every segment the writer hands to the segment encrypter is its own buffer from offset 0 (to plaintextPos in Close), or caller memory only under a dominating plaintextPos == 0 — bytes buffered by earlier calls cannot be skipped. " +
		"(fullread) no Read on an underlying reader has its byte count discarded; (replay) the replaying wrapper of the keyset-level reader records everything it reads while replay is enabled, on every return path. " +
		"(params) at every call of the subtle streaming constructors each format parameter is fed from the key parameters' accessor of the same meaning (derived key size, HKDF hash, HMAC hash and tag size, segment size; first segment offset 0; main key from the key bytes) — confirmed table. " +
		"Not decided: buffer arithmetic across call boundaries (chunking independence), format interoperability."
	c07SegAuth(c)
	c07Release(c)
	c07IOErr(c)
	c07Nonce(c)
	c07Closed(c)
	c07Retry(c)
	c07Buffered(c)
	c07FullRead(c)
	c07Replay(c)
	c07Params(c)
	c07MainKey(c)
}

func c07SegAuth(c *Ctx) {
	p, r := c.P, c.R
	ac := newAcceptCtx(c)
	n := 0
	for _, f := range p.SortedFuncs(core.Product) {
		if core.Rel(core.PkgOf(f)) != "streamingaead/subtle" || f.Signature.Recv() == nil || f.Synthetic != "" {
			continue
		}
		if f.Name() != "DecryptSegment" && f.Name() != "DecryptSegmentWithDst" {
			continue
		}
		n++
		fid := core.FuncID(f)
		key := "C07.segauth/" + fid
		if ac.auth[f] {
			r.Ok("C07.segauth", key, p.FuncPos(f), "every success return authenticated")
		} else {
			var bad *ssa.Return
			for _, ret := range guard.SuccessReturns(f) {
				if _, ok := ac.returnAuthenticated(ret); !ok {
					bad = ret
					break
				}
			}
			pos := p.FuncPos(f)
			if bad != nil {
				pos = p.Pos(bad.Pos())
			}
			r.Bad("C07.segauth", key, pos, "a segment decrypter can return success without a passed tag check (e.g. for an empty or short segment): a truncated or forged stream end would be accepted")
		}
		allInstrs(f, func(ins ssa.Instruction) {
			call, ok := ins.(*ssa.Call)
			if !ok || !ac.isAuthCall(&call.Call) {
				return
			}
			used := false
			errIdx := call.Call.Signature().Results().Len() - 1
			for _, ref := range *call.Referrers() {
				switch x := ref.(type) {
				case *ssa.Extract:
					if x.Index == errIdx && len(*x.Referrers()) > 0 {
						used = true
					}
				case *ssa.Return:
					used = true
				}
			}
			r.Check(used, "C07.segauth", key+"/verdict of "+shortName(guard.CalleeName(&call.Call)), p.Pos(ins.Pos()), "the verdict of the authenticating call is discarded", "consumed")
		})
	}
	if n < 4 {
		r.AnchorMissing("C07.segauth", fmt.Sprintf("segment decrypter methods (found %d)", n))
	}
}

// phiOfCallErrors: v is an error that is the error result of one of several
// calls (if/else assigning the same variable); returns the calls.
func errSources(v ssa.Value, depth int) []*ssa.Call {
	if depth > 3 {
		return nil
	}
	v = guard.Strip(v)
	if c, _ := guard.CallOf(v); c != nil {
		return []*ssa.Call{c}
	}
	if phi, ok := v.(*ssa.Phi); ok {
		var out []*ssa.Call
		for _, e := range phi.Edges {
			s := errSources(e, depth+1)
			if s == nil {
				return nil
			}
			out = append(out, s...)
		}
		return out
	}
	return nil
}

func c07Release(c *Ctx) {
	p, r := c.P, c.R
	f := p.Method("streamingaead/subtle/noncebased", "Reader", true, "Read")
	if f == nil {
		r.AnchorMissing("C07.release", "noncebased.(*Reader).Read")
		return
	}
	// decrypt calls in Read
	var decs []*ssa.Call
	allInstrs(f, func(ins ssa.Instruction) {
		if call, ok := ins.(*ssa.Call); ok && call.Call.IsInvoke() && strings.HasPrefix(call.Call.Method.Name(), "DecryptSegment") {
			decs = append(decs, call)
		}
	})
	if len(decs) == 0 {
		// the decryption may sit in a helper of the package whose error result
		// forwards the segment decrypter's verdict
		allInstrs(f, func(ins ssa.Instruction) {
			call, ok := ins.(*ssa.Call)
			if !ok {
				return
			}
			h := call.Call.StaticCallee()
			if h == nil || h.Blocks == nil || h.Pkg != f.Pkg {
				return
			}
			var inner []*ssa.Call
			allInstrs(h, func(i2 ssa.Instruction) {
				if c2, ok2 := i2.(*ssa.Call); ok2 && c2.Call.IsInvoke() && strings.HasPrefix(c2.Call.Method.Name(), "DecryptSegment") {
					inner = append(inner, c2)
				}
			})
			if len(inner) == 0 {
				return
			}
			forwards := true
			for _, ret := range guard.Returns(h) {
				if guard.DefinitelyFails(ret) {
					continue
				}
				ev := guard.ErrOperand(ret)
				if ev == nil {
					forwards = false
					continue
				}
				if guard.IsNilConst(ev) {
					// success: every decrypt verdict known nil here
					okNil := false
					for _, fct := range guard.BlockFacts(ret.Block()) {
						if c3, isNil, isE := guard.ErrNilFact(fct); isE && isNil {
							for _, in := range inner {
								if c3 == in {
									okNil = true
								}
							}
						}
					}
					if !okNil {
						forwards = false
					}
					continue
				}
				srcs := errSources(ev, 0)
				if len(srcs) == 0 {
					forwards = false
				}
				for _, sc := range srcs {
					isInner := false
					for _, in := range inner {
						if sc == in {
							isInner = true
						}
					}
					if !isInner {
						forwards = false
					}
				}
			}
			if forwards {
				decs = append(decs, call)
			}
		})
	}
	if len(decs) == 0 {
		r.AnchorMissing("C07.release", "DecryptSegment calls in Reader.Read")
		return
	}
	n := 0
	allInstrs(f, func(ins ssa.Instruction) {
		call, ok := ins.(*ssa.Call)
		if !ok {
			return
		}
		b, isB := call.Call.Value.(*ssa.Builtin)
		if !isB || b.Name() != "copy" || guard.Strip(call.Call.Args[0]) != ssa.Value(f.Params[1]) {
			return
		}
		n++
		key := "C07.release/Reader.Read/copy to caller"
		src := call.Call.Args[1]
		fromPlain := false
		v := guard.Strip(src)
		for i := 0; i < 4; i++ {
			if sl, isSl := v.(*ssa.Slice); isSl {
				v = guard.Strip(sl.X)
				continue
			}
			break
		}
		if _, fld, isF := guard.FieldOf(v); isF && fld == "plaintext" {
			fromPlain = true
		}
		if !fromPlain {
			r.Bad("C07.release", key, p.Pos(ins.Pos()), "bytes other than the reader's plaintext buffer are copied to the caller")
			return
		}
		// if a decrypt call can reach this copy, its error must be known nil here
		needs := false
		for _, d := range decs {
			if guard.Reaches(d, call) {
				needs = true
			}
		}
		if !needs {
			r.Ok("C07.release", key, p.Pos(ins.Pos()), "serves already decrypted bytes (no decryption on this path)")
			return
		}
		good := false
		for _, fct := range guard.InstrFacts(call) {
			op, x, y, isC := guard.Cmp(fct)
			if !isC || op != token.EQL {
				continue
			}
			var ev ssa.Value
			if guard.IsNilConst(y) {
				ev = x
			} else if guard.IsNilConst(x) {
				ev = y
			}
			if ev == nil {
				continue
			}
			srcs := errSources(ev, 0)
			if len(srcs) == 0 {
				continue
			}
			all := true
			for _, s := range srcs {
				isDec := false
				for _, d := range decs {
					if s == d {
						isDec = true
					}
				}
				if !isDec {
					all = false
				}
			}
			if all && len(srcs) == len(decs) {
				good = true
			}
		}
		r.Check(good, "C07.release", key, p.Pos(ins.Pos()), "plaintext of a freshly decrypted segment is copied to the caller without the decryption's error having been checked", "dominated by err == nil of the segment decryption")
	})
	if n < 2 {
		r.AnchorMissing("C07.release", "copies to the caller's buffer in Reader.Read")
	}
}

func c07IOErr(c *Ctx) {
	p, r := c.P, c.R
	n := 0
	for _, f := range p.SortedFuncs(core.Product) {
		if !isStreamPkg(core.Rel(core.PkgOf(f))) {
			continue
		}
		allInstrs(f, func(ins ssa.Instruction) {
			call, ok := ins.(*ssa.Call)
			if !ok {
				return
			}
			nme := guard.CalleeName(&call.Call)
			switch nme {
			case "(io.Writer).Write", "(io.Reader).Read", "io.ReadFull", "io.ReadAtLeast":
			default:
				return
			}
			// calls on the cipher/hash objects are not I/O
			if call.Call.IsInvoke() {
				tn := core.TypeID(call.Call.Value.Type())
				if tn != "io.Writer" && tn != "io.Reader" && tn != "io.WriteCloser" {
					return
				}
			}
			n++
			key := fmt.Sprintf("C07.ioerr/%s/%s", core.FuncID(f), nme)
			used := false
			for _, ref := range *call.Referrers() {
				switch x := ref.(type) {
				case *ssa.Extract:
					if x.Index == 1 && len(*x.Referrers()) > 0 {
						used = true
					}
				case *ssa.Return:
					used = true
				}
			}
			r.Check(used, "C07.ioerr", key, p.Pos(ins.Pos()), "the error of an underlying I/O call is dropped: a failing writer/reader would not surface", "error tested or returned")
		})
	}
	r.Counts["io_call_sites"] = n
	r.Min("C07.ioerr", 8)
}

func c07Nonce(c *Ctx) {
	p, r := c.P, c.R
	g := p.PkgFunc("streamingaead/subtle/noncebased", "generateSegmentNonce")
	if g == nil {
		r.AnchorMissing("C07.nonce", "noncebased.generateSegmentNonce")
		return
	}
	// limit
	limit := false
	for _, ret := range guard.Returns(g) {
		if !guard.DefinitelyFails(ret) {
			continue
		}
		for _, fct := range guard.BlockFacts(ret.Block()) {
			if op, x, y, ok := guard.Cmp(fct); ok && op == token.GEQ && guard.Strip(x) == ssa.Value(g.Params[2]) {
				if k, isC := guard.Strip(y).(*ssa.Const); isC && k.Value != nil && k.Value.ExactString() == "4294967295" {
					limit = true
				}
			}
		}
	}
	r.Check(limit, "C07.nonce", "C07.nonce/generateSegmentNonce/limit", p.FuncPos(g), "segment numbers >= 2^32-1 are not rejected (the 32-bit counter would wrap and nonces repeat)", "segmentNum >= MaxUint32 -> error")
	// layout by value: folded on a 12-byte nonce with a 7-byte prefix
	layoutByValue := false
	if len(g.Params) == 4 {
		prefix := []byte{0xa1, 0xa2, 0xa3, 0xa4, 0xa5, 0xa6, 0xa7}
		d1 := layoutCheck(c, "C07.nonce", "C07.nonce/generateSegmentNonce/layout", g, 0, cat(prefix, []byte{0x01, 0x02, 0x03, 0x04, 0x00}),
			"prefix || be32(counter) || 0x00 (not last)", consteval.C(12), consteval.BytesVal(prefix), consteval.C(0x01020304), consteval.B(false))
		d2 := d1 && layoutCheck(c, "C07.nonce", "C07.nonce/generateSegmentNonce/layout (last)", g, 0, cat(prefix, []byte{0x01, 0x02, 0x03, 0x04, 0x01}),
			"prefix || be32(counter) || 0x01 (last)", consteval.C(12), consteval.BytesVal(prefix), consteval.C(0x01020304), consteval.B(true))
		layoutByValue = d1 && d2
	}
	// layout: PutUint32 at absolute offset len(prefix) of the nonce; flag byte = 1 at
	// len(prefix)+4 under last==true. Offsets are compared as linear terms, so
	// sub-slices (suffix := nonce[o:o+5]) and n := copy(nonce, prefix) are fine.
	okCtr, okFlag := false, false
	cx := bounds.NewCtx(g)
	wantCtr := cx.LenOf(g.Params[1]).String()
	wantFlag := cx.LenOf(g.Params[1]).Add(bounds.Konst(4), 1).String()
	// offLin: linear form of an offset; n := copy(nonce, prefix) counts as len(prefix)
	// (the buffer is at least as long as the prefix: NewWriter/NewReader reject
	// NonceSize - len(NoncePrefix) < 5)
	var offLin func(v ssa.Value, depth int) bounds.Lin
	offLin = func(v ssa.Value, depth int) bounds.Lin {
		sv := guard.Strip(v)
		if call, ok := sv.(*ssa.Call); ok {
			if b, isB := call.Call.Value.(*ssa.Builtin); isB && b.Name() == "copy" && guard.Strip(call.Call.Args[1]) == ssa.Value(g.Params[1]) {
				return cx.LenOf(g.Params[1])
			}
		}
		if bo, ok := sv.(*ssa.BinOp); ok && bo.Op == token.ADD && depth < 4 {
			return offLin(bo.X, depth+1).Add(offLin(bo.Y, depth+1), 1)
		}
		return cx.Lin(v)
	}
	// absolute offset of the start of a (possibly nested) slice of the nonce buffer
	var absLow func(v ssa.Value, depth int) (bounds.Lin, bool)
	absLow = func(v ssa.Value, depth int) (bounds.Lin, bool) {
		v = guard.Strip(v)
		if _, isMk := v.(*ssa.MakeSlice); isMk {
			return bounds.Konst(0), true
		}
		if sl, isSl := v.(*ssa.Slice); isSl && depth < 4 {
			base, ok := absLow(sl.X, depth+1)
			if !ok {
				return base, false
			}
			if sl.Low == nil {
				return base, true
			}
			return base.Add(offLin(sl.Low, 0), 1), true
		}
		return bounds.Konst(0), false
	}
	allInstrs(g, func(ins ssa.Instruction) {
		if call, ok := ins.(*ssa.Call); ok && strings.HasSuffix(guard.CalleeName(&call.Call), "bigEndian).PutUint32") {
			if off, okO := absLow(call.Call.Args[1], 0); okO && off.String() == wantCtr {
				val := call.Call.Args[2]
				for {
					cv, isCv := val.(*ssa.Convert)
					if !isCv {
						break
					}
					val = cv.X
				}
				if guard.Strip(val) == ssa.Value(g.Params[2]) {
					okCtr = true
				}
			}
		}
		if st, ok := ins.(*ssa.Store); ok {
			if ia, isIA := st.Addr.(*ssa.IndexAddr); isIA {
				if k, isC := guard.ConstInt(st.Val); isC && k == 1 {
					if off, okO := absLow(ia.X, 0); okO && off.Add(offLin(ia.Index, 0), 1).String() == wantFlag {
						for _, fct := range guard.InstrFacts(ins) {
							if fct.Cond == ssa.Value(g.Params[3]) && fct.True {
								okFlag = true
							}
						}
					}
				}
			}
		}
	})
	if !okCtr {
		// counter written with four explicit byte stores
		if off, ok4 := be32ByteStoresAt(cx, g, g.Params[2], func(v ssa.Value) (bounds.Lin, bool) { return absLow(v, 0) }); ok4 && off == wantCtr {
			okCtr = true
		}
	}
	if !layoutByValue {
		r.Check(okCtr && okFlag, "C07.nonce", "C07.nonce/generateSegmentNonce/layout", p.FuncPos(g), "nonce is not prefix || be32(counter) at len(prefix) || last flag at len(prefix)+4 (set only when last)", "counter at len(prefix); flag at +4 under last")
	}
	_ = func() {
		r.Check(okCtr && okFlag, "C07.nonce", "C07.nonce/generateSegmentNonce/layout", p.FuncPos(g), "nonce is not prefix || be32(counter) at len(prefix) || last flag at len(prefix)+4 (set only when last)", "counter at len(prefix); flag at +4 under last")
	}
	// callers
	type want struct {
		typ, method, counter string
		last                 string // "false", "true", "eof"
	}
	for _, w := range []want{{"Writer", "Write", "encryptedSegmentCnt", "false"}, {"Writer", "Close", "encryptedSegmentCnt", "true"}, {"Reader", "Read", "decryptedSegmentCnt", "eof"}} {
		f := p.Method("streamingaead/subtle/noncebased", w.typ, true, w.method)
		key := fmt.Sprintf("C07.nonce/noncebased.(*%s).%s", w.typ, w.method)
		if f == nil {
			r.AnchorMissing("C07.nonce", key)
			continue
		}
		// nonce call sites reached from this method: in the method itself or in a
		// helper of the package it calls (parameters of the helper are bound to the
		// arguments of that call)
		type nsite struct {
			call ssa.CallInstruction
			fn   *ssa.Function
			bind map[ssa.Value]ssa.Value
			via  ssa.CallInstruction // the call in the method itself through which the site is reached
		}
		var found []nsite
		var visit func(fn *ssa.Function, bind map[ssa.Value]ssa.Value, depth int, via ssa.CallInstruction)
		visit = func(fn *ssa.Function, bind map[ssa.Value]ssa.Value, depth int, via ssa.CallInstruction) {
			for _, cs := range callsTo(fn, g.String()) {
				v := via
				if v == nil {
					v = cs
				}
				found = append(found, nsite{cs, fn, bind, v})
			}
			if depth >= 2 {
				return
			}
			allInstrs(fn, func(ins ssa.Instruction) {
				call, ok := ins.(*ssa.Call)
				if !ok {
					return
				}
				h := call.Call.StaticCallee()
				if h == nil || h.Blocks == nil || h.Pkg != f.Pkg || h == g || h == fn {
					return
				}
				nb := map[ssa.Value]ssa.Value{}
				for i, prm := range h.Params {
					if i < len(call.Call.Args) {
						a := call.Call.Args[i]
						if r2, has := bind[guard.Strip(a)]; has {
							a = r2
						}
						nb[prm] = a
					}
				}
				v := via
				if v == nil {
					v = call
				}
				visit(h, nb, depth+1, v)
			})
		}
		visit(f, map[ssa.Value]ssa.Value{}, 0, nil)
		if len(found) != 1 {
			r.Bad("C07.nonce", key, p.FuncPos(f), fmt.Sprintf("expected one generateSegmentNonce call reached from this method, found %d", len(found)))
			continue
		}
		site := found[0]
		sites := []ssa.CallInstruction{site.call}
		sf := site.fn
		args := append([]ssa.Value{}, site.call.Common().Args...)
		for i, a := range args {
			if r2, has := site.bind[guard.Strip(a)]; has {
				args[i] = r2
			}
		}
		_, cf, okc := guard.FieldOf(args[2])
		okCounter := okc && cf == w.counter
		okLast := false
		switch w.last {
		case "false", "true":
			if b, isC := guard.ConstBool(args[3]); isC && b == (w.last == "true") {
				okLast = true
			}
		case "eof":
			// phi: true exactly on the edge where the read error is non-nil
			if phi, isPhi := guard.Strip(args[3]).(*ssa.Phi); isPhi && len(phi.Edges) >= 2 {
				okLast = true
				for i, e := range phi.Edges {
					b, isC := guard.ConstBool(e)
					if !isC {
						okLast = false
						continue
					}
					// the read error on this edge: non-nil (err != nil, or err == io.EOF / ErrUnexpectedEOF) or nil
					errNonNil, errNil := false, false
					for _, fct := range edgeFactsInto(phi.Block().Preds[i], phi.Block()) {
						op, x, y, ok := guard.Cmp(fct)
						if !ok || !guard.IsErrorType(x.Type()) {
							continue
						}
						isNilCmp := guard.IsNilConst(y) || guard.IsNilConst(x)
						switch {
						case op == token.NEQ && isNilCmp:
							errNonNil = true
						case op == token.EQL && isNilCmp:
							errNil = true
						case op == token.EQL && !isNilCmp:
							for _, side := range []ssa.Value{x, y} {
								if u, isU := guard.Strip(side).(*ssa.UnOp); isU {
									if gl, isG := u.X.(*ssa.Global); isG && strings.HasPrefix(gl.Name(), "E") || isG && strings.HasPrefix(gl.Name(), "Err") {
										errNonNil = true // a sentinel error such as io.EOF
									}
								}
							}
						}
					}
					if b != errNonNil || (!b && !errNil && !errNonNil && false) {
						okLast = false
					}
				}
			}
		}
		// counter incremented: a store counter = counter + 1 that dominates every success return reachable from the call
		inc := false
		incScopes := []struct {
			fn     *ssa.Function
			anchor ssa.CallInstruction
		}{{sf, site.call}}
		if sf != f {
			incScopes = append(incScopes, struct {
				fn     *ssa.Function
				anchor ssa.CallInstruction
			}{f, site.via})
		}
		for _, sc := range incScopes {
			sf := sc.fn
			sites := []ssa.CallInstruction{sc.anchor}
			allInstrs(sf, func(ins ssa.Instruction) {
				if _, fld, val, ok := guard.StoreField(ins); ok && fld == w.counter {
					if add, isAdd := guard.Strip(val).(*ssa.BinOp); isAdd && add.Op == token.ADD {
						if k, isC := guard.ConstInt(add.Y); isC && k == 1 {
							if _, f2, isF := guard.FieldOf(add.X); isF && f2 == w.counter {
								// on every path from the nonce call to a success return (or loop back edge)
								okAll := true
								for _, ret := range guard.SuccessReturns(sf) {
									if guard.Reaches(sites[0], ret) && !(ins.Block() == ret.Block() || ins.Block().Dominates(ret.Block())) {
										// Write: the success return after `break` is reached before a nonce was generated in this iteration
										if !inCycle(sites[0].Block()) {
											okAll = false
										}
									}
								}
								if inCycle(sites[0].Block()) {
									// loop: the increment must dominate the back edge
									for _, b := range sf.Blocks {
										for _, sc := range b.Succs {
											if sc.Dominates(b) && guard.Reaches(sites[0], b.Instrs[len(b.Instrs)-1]) && natLoop(sc)[sites[0].Block()] {
												if !(ins.Block() == b || ins.Block().Dominates(b)) {
													okAll = false
												}
											}
										}
									}
								}
								if okAll {
									inc = true
								}
							}
						}
					}
				}
			})
		}
		r.Check(okCounter && okLast && inc, "C07.nonce", key, p.Pos(sites[0].Pos()),
			fmt.Sprintf("segment nonce inputs wrong (own counter=%v, last flag=%v, counter incremented on every emitting path=%v)", okCounter, okLast, inc),
			"own counter, correct last flag, counter++ after each segment")
	}
}

func c07Closed(c *Ctx) {
	p, r := c.P, c.R
	w := p.Method("streamingaead/subtle/noncebased", "Writer", true, "Write")
	cl := p.Method("streamingaead/subtle/noncebased", "Writer", true, "Close")
	if w == nil || cl == nil {
		r.AnchorMissing("C07.closed", "noncebased.(*Writer).Write/Close")
		return
	}
	closedFact := func(fs []guard.Fact, val bool) bool {
		for _, fct := range fs {
			if _, fld, ok := guard.FieldOf(fct.Cond); ok && fld == "closed" && fct.True == val {
				return true
			}
		}
		return false
	}
	// Write: every instruction that touches the underlying writer or the buffers is under closed==false; an error is returned under closed==true
	errOnClosed := false
	for _, ret := range guard.Returns(w) {
		if guard.DefinitelyFails(ret) && closedFact(guard.BlockFacts(ret.Block()), true) {
			errOnClosed = true
		}
	}
	guarded := true
	allInstrs(w, func(ins ssa.Instruction) {
		if call, ok := ins.(*ssa.Call); ok && call.Call.IsInvoke() {
			if !closedFact(guard.InstrFacts(ins), false) {
				guarded = false
			}
		}
	})
	r.Check(errOnClosed && guarded, "C07.closed", "C07.closed/Writer.Write", p.FuncPos(w), "Write does not fail on a closed writer before doing any work", "closed -> error; all work under !closed")
	// Close: closed=true stored before the success return of the working path; early nil under closed
	early, sets := false, false
	for _, ret := range guard.SuccessReturns(cl) {
		if closedFact(guard.BlockFacts(ret.Block()), true) {
			early = true
		}
	}
	allInstrs(cl, func(ins ssa.Instruction) {
		if _, fld, val, ok := guard.StoreField(ins); ok && fld == "closed" {
			if b, isC := guard.ConstBool(val); isC && b {
				all := true
				for _, ret := range guard.SuccessReturns(cl) {
					if closedFact(guard.BlockFacts(ret.Block()), true) {
						continue
					}
					if !(ins.Block() == ret.Block() || ins.Block().Dominates(ret.Block())) {
						all = false
					}
				}
				sets = all
			}
		}
	})
	r.Check(early && sets, "C07.closed", "C07.closed/Writer.Close", p.FuncPos(cl), "Close is not idempotent or does not mark the writer closed on success", "closed -> nil; closed=true before success")
}

func c07Retry(c *Ctx) {
	p, r := c.P, c.R
	f := p.Method("streamingaead", "decryptReader", true, "Read")
	if f == nil {
		r.AnchorMissing("C07.retry", "streamingaead.(*decryptReader).Read")
		return
	}
	// consuming instructions: NewDecryptingReader(ur, …) directly, or a call of a closure that contains it
	consumes := func(fn *ssa.Function) bool {
		found := false
		allInstrs(fn, func(ins ssa.Instruction) {
			if call, ok := ins.(ssa.CallInstruction); ok && strings.HasSuffix(guard.CalleeName(call.Common()), ".NewDecryptingReader") {
				found = true
			}
		})
		return found
	}
	var cons []ssa.Instruction
	allInstrs(f, func(ins ssa.Instruction) {
		call, ok := ins.(*ssa.Call)
		if !ok {
			return
		}
		if strings.HasSuffix(guard.CalleeName(&call.Call), ".NewDecryptingReader") {
			cons = append(cons, ins)
			return
		}
		if mc, isMC := call.Call.Value.(*ssa.MakeClosure); isMC {
			if fn, isFn := mc.Fn.(*ssa.Function); isFn && consumes(fn) {
				cons = append(cons, ins)
			}
			return
		}
		// a helper function or method of the package that makes the attempt
		if g := call.Call.StaticCallee(); g != nil && g.Blocks != nil && g.Pkg == f.Pkg && consumes(g) {
			cons = append(cons, ins)
		}
	})
	if len(cons) == 0 {
		r.AnchorMissing("C07.retry", "candidate NewDecryptingReader call in decryptReader.Read")
		return
	}
	isUnread := func(ins ssa.Instruction) bool {
		call, ok := ins.(ssa.CallInstruction)
		return ok && strings.HasSuffix(guard.CalleeName(call.Common()), "streamingaead.unreader).unread")
	}
	for _, cs := range cons {
		key := "C07.retry/decryptReader.Read/rewind before next candidate"
		// search from the consuming instruction to any loop back edge (an edge to a block that dominates its source)
		// without passing an unread call
		type st struct {
			b   *ssa.BasicBlock
			idx int
		}
		start := st{cs.Block(), 0}
		for i, ins := range cs.Block().Instrs {
			if ins == cs {
				start.idx = i + 1
			}
		}
		seen := map[*ssa.BasicBlock]bool{}
		bad := ""
		var walk func(s st)
		walk = func(s st) {
			if bad != "" {
				return
			}
			for i := s.idx; i < len(s.b.Instrs); i++ {
				if isUnread(s.b.Instrs[i]) {
					return // rewound on this path
				}
				if _, isRet := s.b.Instrs[i].(*ssa.Return); isRet {
					return
				}
			}
			for _, nx := range s.b.Succs {
				if nx.Dominates(s.b) && natLoop(nx)[cs.Block()] {
					bad = "the next candidate can be tried (loop back edge from block " + fmt.Sprint(s.b.Index) + ") after a candidate consumed input, without ur.unread()"
					return
				}
				if !seen[nx] {
					seen[nx] = true
					walk(st{nx, 0})
				}
			}
		}
		walk(start)
		r.Check(bad == "", "C07.retry", key, p.Pos(cs.Pos()), bad, "every path from a failed candidate to the next iteration passes ur.unread()")
	}
	// no candidate matched -> non-nil error
	okFail := false
	for _, ret := range guard.Returns(f) {
		if guard.DefinitelyFails(ret) && !inCycle(ret.Block()) {
			okFail = true
		}
	}
	r.Check(okFail, "C07.retry", "C07.retry/decryptReader.Read/no match is an error", p.FuncPos(f), "when no key matches, Read does not return an error", "errKeyNotFound after the loop")
}

// c07Params: the streaming wire format (header length, segment key size, tag
// size, segment size) is fixed by the arguments of subtle.NewAESGCMHKDF /
// NewAESCTRHMAC. At every call site in product code each of them must come
// from the key-parameters accessor of the same meaning. The table was read off
// the two key types (and agrees between them); the accessor is matched by the
// words in its name, through conversions, String() and field loads.
func c07Params(c *Ctx) {
	p, r := c.P, c.R
	want := map[string]string{ // parameter of the subtle constructor -> words required in the source chain
		"mainKey":               `keybytes|keyvalue|keymaterial`,
		"hkdfAlg":               `hkdf.*hash`,
		"keySizeInBytes":        `derivedkeysize`,
		"tagAlg":                `hmac.*hash`,
		"tagSizeInBytes":        `tagsize`,
		"ciphertextSegmentSize": `segmentsize`,
	}
	chain := func(v ssa.Value) []string {
		var out []string
		for i := 0; i < 8; i++ {
			v = guard.Strip(v)
			if cv, ok := v.(*ssa.Convert); ok {
				v = cv.X
				continue
			}
			if call, _ := guard.CallOf(v); call != nil {
				if g := call.Call.StaticCallee(); g != nil && len(call.Call.Args) > 0 {
					out = append(out, g.Name())
					v = call.Call.Args[0]
					continue
				}
				if call.Call.IsInvoke() {
					out = append(out, call.Call.Method.Name())
					v = call.Call.Value
					continue
				}
				break
			}
			if b, fld, ok := guard.FieldOf(v); ok {
				out = append(out, fld)
				v = b
				continue
			}
			break
		}
		return out
	}
	n := 0
	for _, f := range p.SortedFuncs(core.Product) {
		allInstrs(f, func(ins ssa.Instruction) {
			call, ok := ins.(*ssa.Call)
			if !ok {
				return
			}
			g := call.Call.StaticCallee()
			if g == nil || core.Rel(core.PkgOf(g)) != "streamingaead/subtle" || (g.Name() != "NewAESGCMHKDF" && g.Name() != "NewAESCTRHMAC") {
				return
			}
			n++
			for i, prm := range g.Params {
				if i >= len(call.Call.Args) {
					continue
				}
				key := fmt.Sprintf("C07.params/%s/%s.%s", core.FuncID(f), g.Name(), prm.Name())
				arg := call.Call.Args[i]
				if prm.Name() == "firstSegmentOffset" {
					k, isK := guard.ConstInt(arg)
					r.Check(isK && k == 0, "C07.params", key, p.Pos(call.Pos()), "the first segment offset handed to the streaming constructor is not the constant 0 of the key types' format", "= 0")
					continue
				}
				re, has := want[prm.Name()]
				if !has {
					r.Unknown("C07.params", key, p.Pos(call.Pos()), "parameter "+prm.Name()+" of "+g.Name()+" is not in the confirmed table")
					continue
				}
				ch := chain(arg)
				okArg := false
				for _, nme := range ch {
					if regexp.MustCompile(re).MatchString(strings.ToLower(nme)) {
						okArg = true
					}
				}
				r.Check(okArg, "C07.params", key, p.Pos(call.Pos()),
					fmt.Sprintf("%s of %s is fed from %v, not from the key parameter of the same meaning (/%s/): header length and segment keys would differ from the format of this key type", prm.Name(), g.Name(), ch, re),
					fmt.Sprintf("from %v", ch))
			}
		})
	}
	r.Counts["streaming_constructor_sites"] = n
	r.Min("C07.params", 8)
}
