package rules

import (
	"fmt"
	"go/token"
	"go/types"
	"sort"
	"strings"

	"golang.org/x/tools/go/ssa"

	"tinkverif/core"
	"tinkverif/effects"
	"tinkverif/guard"
)

func init() { Registry["C18"] = c18 }

// primitive interfaces: (package path rel, name)
var primitiveIfaces = [][2]string{
	{"tink", "AEAD"}, {"tink", "AEADWithContext"}, {"tink", "DeterministicAEAD"}, {"tink", "MAC"},
	{"tink", "Signer"}, {"tink", "Verifier"}, {"tink", "HybridEncrypt"}, {"tink", "HybridDecrypt"},
	{"tink", "StreamingAEAD"}, {"tink", "PrehashSigner"}, {"tink", "Prehash"},
	{"prf", "PRF"}, {"jwt", "MAC"}, {"jwt", "Signer"}, {"jwt", "Verifier"},
	{"keyderivation", "KeysetDeriver"}, {"keyderivation/internal/keyderiver", "KeyDeriver"},
	{"keyderivation/internal/streamingprf", "StreamingPRF"},
	{"key", "Key"}, {"key", "Parameters"},
	{"monitoring", "Logger"},
}

// c18ConcurrentFuncs: package-level functions documented as safe for
// concurrent use (registry lookups and readers).
var c18ConcurrentFuncs = [][2]string{
	{"internal/protoserialization", "ParseKey"}, {"internal/protoserialization", "SerializeKey"},
	{"internal/protoserialization", "ParseParameters"}, {"internal/protoserialization", "SerializeParameters"},
	{"core/registry", "GetKeyManager"}, {"core/registry", "NewKeyData"}, {"core/registry", "NewKey"},
	{"core/registry", "Primitive"}, {"core/registry", "PrimitiveFromKeyData"}, {"core/registry", "GetKMSClient"},
	{"internal/primitiveregistry", "Primitive"}, {"internal/keygenregistry", "CreateKey"},
	{"internal/internalregistry", "GetMonitoringClient"},
}

// lockNames: mutex operations that make an access synchronised.
var lockCalls = map[string]bool{
	"(*sync.RWMutex).RLock": true, "(*sync.RWMutex).Lock": true, "(*sync.Mutex).Lock": true,
}

func c18(c *Ctx) {
	p, r := c.P, c.R
	a := c.Eff()
	r.Explanation = "C18 is decided through its structural necessary (and, modulo the stdlib contract table, sufficient) condition: no concurrent entry point writes memory reachable from the shared object or from a package-level variable. " +
		"(nowrite) for every method of every product type implementing a primitive / key / parameters interface, every exported method of keyset.Handle, keyset.Entry and prf.Set, and the registry lookup functions, the receiver (shallow and deep) and all module globals are absent from the function's write set W computed by engine B — including appends onto slices held in fields and receiver-mutating stdlib methods (hash.Hash.Write, cipher.Stream.XORKeyStream, big.Int setters, bytes.Buffer…) applied to objects reachable from the receiver; " +
		"(globals) every product package-level variable that is written outside package initialisation is a synchronised type or every direct access to it is dominated by Lock/RLock of one fixed mutex with a deferred Unlock. " +
		"(derived) per-call objects that keep a pointer to the shared primitive (streaming readers/writers, iterators): none of their methods, nor any other function, writes through a field holding such a pointer into the shared primitive's own memory (element stores, map updates, copy, append through it). " +
		"(pool) an object handed back to a sync.Pool (Put, also deferred) is not returned to the caller, in whole or as a slice/field of it: after Put another goroutine may own it. " +
		"Not decided: schedules as such; thread safety of user-supplied loggers, KMS clients and io objects."

	// ---- collect shared types and their concurrent methods
	type entry struct {
		fn   *ssa.Function
		why  string
		recv bool
	}
	var entries []entry
	seen := map[*ssa.Function]bool{}
	add := func(f *ssa.Function, why string, recv bool) {
		if f == nil || seen[f] || f.Blocks == nil {
			return
		}
		seen[f] = true
		entries = append(entries, entry{f, why, recv})
	}
	nTypes := 0
	for _, in := range primitiveIfaces {
		it := p.LookupIface(core.ModPath+"/"+in[0], in[1])
		if it == nil {
			r.AnchorMissing("C18.nowrite", "interface "+in[0]+"."+in[1])
			continue
		}
		impls := p.Implementers(it, core.Product)
		nTypes += len(impls)
		for _, t := range impls {
			if n := core.NamedOf(t); n != nil && in[0] != "key" {
				c18Shared[n.Origin()] = true
			}
			for i := 0; i < it.NumMethods(); i++ {
				add(p.MethodOf(t, it.Method(i).Name()), "implements "+in[0]+"."+in[1], true)
			}
			// all exported methods of keys and parameters are read operations
			if in[0] == "key" {
				ms := p.SSA.MethodSets.MethodSet(t)
				for i := 0; i < ms.Len(); i++ {
					if ms.At(i).Obj().Exported() {
						add(p.SSA.MethodValue(ms.At(i)), "read method of a key/parameters type", true)
					}
				}
			}
		}
	}
	for _, tn := range [][2]string{{"keyset", "Handle"}, {"keyset", "Entry"}, {"prf", "Set"}, {"internal/prefixmap", "PrefixMap"}} {
		sp := p.Pkg(tn[0])
		if sp == nil || sp.Type(tn[1]) == nil {
			r.AnchorMissing("C18.nowrite", "type "+tn[0]+"."+tn[1])
			continue
		}
		nTypes++
		named, _ := sp.Type(tn[1]).Type().(*types.Named)
		if named != nil && named.TypeParams().Len() > 0 {
			// generic: take all instantiations present in the program
			for f := range p.Funcs {
				if f.Signature.Recv() == nil || f.Blocks == nil || f.Synthetic != "" {
					continue
				}
				if n := core.NamedOf(f.Signature.Recv().Type()); n != nil && n.Origin() == named && f.Object() != nil && f.Object().(*types.Func).Exported() && f.Name() != "Insert" {
					add(f, "read method of "+tn[0]+"."+tn[1], true)
				}
			}
			continue
		}
		for _, t := range []types.Type{sp.Type(tn[1]).Type(), types.NewPointer(sp.Type(tn[1]).Type())} {
			ms := p.SSA.MethodSets.MethodSet(t)
			for i := 0; i < ms.Len(); i++ {
				if ms.At(i).Obj().Exported() {
					add(p.SSA.MethodValue(ms.At(i)), "read method of "+tn[0]+"."+tn[1], true)
				}
			}
		}
	}
	for _, fn := range c18ConcurrentFuncs {
		f := p.PkgFunc(fn[0], fn[1])
		if f == nil {
			r.AnchorMissing("C18.nowrite", "function "+fn[0]+"."+fn[1])
			continue
		}
		add(f, "registry lookup", false)
	}
	sort.Slice(entries, func(i, j int) bool { return core.FuncID(entries[i].fn) < core.FuncID(entries[j].fn) })
	r.Counts["shared_types"] = nTypes
	r.Counts["concurrent_entry_points"] = len(entries)

	type agg struct {
		pos, detail string
		entry       []string
	}
	viol := map[string]*agg{}
	for _, e := range entries {
		f := e.fn
		s := a.Sum[f]
		if s == nil {
			continue
		}
		fid := core.FuncID(f)
		key := "C18.nowrite/" + fid
		var bad []string
		var wks []effects.WKey
		for wk := range s.W {
			wks = append(wks, wk)
		}
		sort.Slice(wks, func(i, j int) bool { return fmt.Sprint(wks[i]) < fmt.Sprint(wks[j]) })
		for _, wk := range wks {
			w := s.W[wk]
			what := ""
			switch {
			case wk.Root.Kind == effects.RParam && wk.Root.Idx == 0 && e.recv:
				what = "the shared receiver"
			case wk.Root.Kind == effects.RGlobal:
				if core.ClassOf(globalPkg(wk.Root.G)) == core.External {
					continue // e.g. crypto/rand.Reader: synchronised by the stdlib
				}
				if synchronisedGlobal(p, wk.Root.G) {
					continue
				}
				what = "package-level variable " + wk.Root.G.Pkg.Pkg.Name() + "." + wk.Root.G.Name()
			default:
				continue
			}
			if runsOnlyUnderOnce(w.OriginFn) {
				continue // the writing closure is only ever run by (*sync.Once).Do: executed once, with happens-before for every caller
			}
			ofn, opos := originKey(p, w, f)
			okey := fmt.Sprintf("C18.nowrite/%s/%s", ofn, shortDesc(w.OriginDesc, w.Desc))
			g := viol[okey]
			if g == nil {
				g = &agg{pos: opos, detail: fmt.Sprintf("a concurrent entry point writes %s without synchronisation: %s", what, firstNonEmpty(w.OriginDesc, w.Desc))}
				viol[okey] = g
			}
			g.entry = append(g.entry, fmt.Sprintf("%s (%s): %s", fid, e.why, w.Desc))
			bad = append(bad, okey)
		}
		if len(bad) == 0 {
			r.Ok("C18.nowrite", key, p.FuncPos(f), "receiver and module globals absent from W("+fid+"); "+e.why)
		}
	}
	var keys []string
	for k := range viol {
		keys = append(keys, k)
	}
	sort.Strings(keys)
	for _, k := range keys {
		g := viol[k]
		sort.Strings(g.entry)
		g.entry = uniq(g.entry)
		if len(g.entry) > 10 {
			g.entry = append(g.entry[:10], fmt.Sprintf("… and %d more entry points", len(g.entry)-10))
		}
		var facts []string
		for _, e := range g.entry {
			facts = append(facts, "reached from: "+e)
		}
		r.Bad("C18.nowrite", k, g.pos, g.detail, facts...)
	}
	r.Min("C18.nowrite", 500)

	c18Globals(c)
	c18Pool(c)
	c18Derived(c)

	// positive control: a per-stream type (not shared) must be seen mutating its receiver
	if f := p.Method("streamingaead/subtle/noncebased", "Writer", true, "Write"); f == nil {
		r.AnchorMissing("C18.control", "streamingaead/subtle/noncebased.(*Writer).Write")
	} else {
		_, ok := a.Sum[f].WritesParam(0, true, true)
		r.Check(ok, "C18.control", "C18.control/noncebased.(*Writer).Write", p.FuncPos(f),
			"positive control failed: the per-stream Writer.Write is not seen writing its receiver — engine blind", "W contains receiver of the per-stream writer (expected: it is not a shared type)")
	}
	var assumed []string
	for n := range a.Assumed {
		assumed = append(assumed, n)
	}
	sort.Strings(assumed)
	r.Extra["assumed_pure_externals"] = assumed
	r.Assume("stdlib / x/crypto / protobuf callees behave as listed in checker/effects/contracts.go (sync.Mutex/RWMutex/Map, atomic and crypto/rand.Reader are synchronised and not counted as writes)")
	r.Assume("monitoring.Logger / monitoring.Client / KMS client implementations supplied by the user are concurrency-safe as their API documents")
}

func uniq(s []string) []string {
	var out []string
	for i, x := range s {
		if i == 0 || x != s[i-1] {
			out = append(out, x)
		}
	}
	return out
}

func globalPkg(g *ssa.Global) string {
	if g.Pkg == nil {
		return ""
	}
	return g.Pkg.Pkg.Path()
}

// syncType reports whether t is a type whose methods synchronise internally.
func syncType(t types.Type) bool {
	n := core.NamedOf(t)
	if n == nil || n.Obj().Pkg() == nil {
		return false
	}
	path, name := n.Obj().Pkg().Path(), n.Obj().Name()
	switch {
	case path == "sync" && (name == "Map" || name == "Mutex" || name == "RWMutex" || name == "Once" || name == "Pool"):
		return true
	case path == "sync/atomic":
		return true
	case path == core.ModPath+"/internal/syncmap" && name == "Map":
		return true
	}
	return false
}

// synchronisedGlobal: a global of a synchronised type, or one whose every
// direct access is lock-dominated (decided by c18Globals; here: by name of
// the obligations it discharged).
func synchronisedGlobal(p *core.Program, g *ssa.Global) bool {
	t := g.Type().(*types.Pointer).Elem()
	if syncType(t) {
		return true
	}
	ok, _ := lockDisciplined(p, g)
	return ok
}

type gaccess struct {
	fn   *ssa.Function
	ins  ssa.Instruction
	kind string
}

// globalAccesses lists every instruction that references g directly.
func globalAccesses(p *core.Program, g *ssa.Global) []gaccess {
	var out []gaccess
	for _, f := range p.SortedFuncs(core.Product) {
		for _, b := range f.Blocks {
			for _, ins := range b.Instrs {
				for _, op := range ins.Operands(nil) {
					if *op == ssa.Value(g) {
						kind := "use"
						switch x := ins.(type) {
						case *ssa.Store:
							if x.Addr == ssa.Value(g) {
								kind = "store"
							}
						case *ssa.UnOp:
							if x.Op == token.MUL {
								kind = "load"
							}
						}
						out = append(out, gaccess{f, ins, kind})
					}
				}
			}
		}
	}
	return out
}

// runsOnlyUnderOnce: fn is an anonymous function whose only use is as the
// argument of (*sync.Once).Do.
func runsOnlyUnderOnce(fn *ssa.Function) bool {
	if fn == nil || fn.Parent() == nil {
		return false
	}
	uses, onceUses := 0, 0
	allInstrs(fn.Parent(), func(ins ssa.Instruction) {
		for _, op := range ins.Operands(nil) {
			v := *op
			if mc, ok := v.(*ssa.MakeClosure); ok {
				if mc.Fn != ssa.Value(fn) {
					continue
				}
			} else if v != ssa.Value(fn) {
				continue
			}
			if _, isMC := ins.(*ssa.MakeClosure); isMC {
				continue // the closure creation itself
			}
			uses++
			if call, ok := ins.(ssa.CallInstruction); ok && guard.CalleeName(call.Common()) == "(*sync.Once).Do" {
				onceUses++
			}
		}
	})
	return uses > 0 && uses == onceUses
}

func isInitFunc(f *ssa.Function) bool {
	for f.Parent() != nil {
		f = f.Parent()
	}
	return f.Name() == "init" || strings.HasPrefix(f.Name(), "init#")
}

var (
	initOnlyCache map[*ssa.Function]bool
	initOnlyProg  *core.Program
)

// initOnly: f runs only during package initialisation — it is an init
// function, or every call-graph edge into it comes from such a function.
func initOnly(p *core.Program, f *ssa.Function) bool {
	if initOnlyCache == nil || initOnlyProg != p {
		initOnlyProg = p
		initOnlyCache = map[*ssa.Function]bool{}
		cg := p.CallGraph()
		for fn := range cg.Nodes {
			if fn != nil && isInitFunc(fn) {
				initOnlyCache[fn] = true
			}
		}
		for changed := true; changed; {
			changed = false
			for fn, n := range cg.Nodes {
				if fn == nil || initOnlyCache[fn] || len(n.In) == 0 {
					continue
				}
				all := true
				for _, e := range n.In {
					if e.Caller == nil || !initOnlyCache[e.Caller.Func] {
						all = false
						break
					}
				}
				if all {
					initOnlyCache[fn] = true
					changed = true
				}
			}
		}
	}
	for g := f; g != nil; g = g.Parent() {
		if initOnlyCache[g] {
			return true
		}
	}
	return false
}

// lockDisciplined: every access of g outside init is dominated by a
// Lock/RLock on one fixed global mutex, writes by Lock, with an Unlock
// deferred or present in the function.
func lockDisciplined(p *core.Program, g *ssa.Global) (bool, string) {
	var mutex *ssa.Global
	n := 0
	for _, acc := range globalAccesses(p, g) {
		if initOnly(p, acc.fn) {
			continue
		}
		n++
		m, excl := dominatingLock(acc.fn, acc.ins)
		if m == nil {
			return false, fmt.Sprintf("%s of %s in %s at %s is not dominated by a mutex Lock/RLock", acc.kind, g.Name(), core.FuncID(acc.fn), p.Pos(acc.ins.Pos()))
		}
		if mutex == nil {
			mutex = m
		} else if mutex != m {
			return false, fmt.Sprintf("%s is guarded by two different mutexes (%s, %s)", g.Name(), mutex.Name(), m.Name())
		}
		if !excl && writesThrough(acc) {
			return false, fmt.Sprintf("write of %s in %s at %s holds only a read lock", g.Name(), core.FuncID(acc.fn), p.Pos(acc.ins.Pos()))
		}
	}
	if n == 0 {
		return false, "no access outside init"
	}
	return true, "all " + fmt.Sprint(n) + " accesses outside init hold " + mutex.Name()
}

// writesThrough: the access stores to the global or updates/deletes in the map
// it holds.
func writesThrough(acc gaccess) bool {
	if acc.kind == "store" {
		return true
	}
	v, ok := acc.ins.(ssa.Value)
	if !ok {
		return false
	}
	for _, ref := range *v.Referrers() {
		switch x := ref.(type) {
		case *ssa.MapUpdate:
			if x.Map == v {
				return true
			}
		case *ssa.Call:
			if b, ok := x.Call.Value.(*ssa.Builtin); ok && (b.Name() == "delete" || b.Name() == "clear") {
				return true
			}
		}
	}
	return false
}

// dominatingLock finds a call to Lock/RLock on a global mutex that dominates
// ins, with an Unlock/RUnlock of the same mutex deferred or called later in
// the function. Returns the mutex and whether the lock is exclusive.
func dominatingLock(f *ssa.Function, ins ssa.Instruction) (*ssa.Global, bool) {
	blk := ins.Block()
	for _, b := range f.Blocks {
		if !b.Dominates(blk) {
			continue
		}
		for _, i2 := range b.Instrs {
			if b == blk && i2 == ins {
				break
			}
			call, ok := i2.(*ssa.Call)
			if !ok {
				continue
			}
			callee := call.Call.StaticCallee()
			if callee == nil || !lockCalls[callee.String()] || len(call.Call.Args) == 0 {
				continue
			}
			m, ok := call.Call.Args[0].(*ssa.Global)
			if !ok {
				continue
			}
			if !hasUnlock(f, m) {
				continue
			}
			return m, !strings.HasSuffix(callee.String(), "RLock")
		}
	}
	return nil, false
}

func hasUnlock(f *ssa.Function, m *ssa.Global) bool {
	for _, b := range f.Blocks {
		for _, ins := range b.Instrs {
			var cc *ssa.CallCommon
			switch x := ins.(type) {
			case *ssa.Defer:
				cc = &x.Call
			case *ssa.Call:
				cc = &x.Call
			}
			if cc == nil {
				continue
			}
			callee := cc.StaticCallee()
			if callee == nil || len(cc.Args) == 0 {
				continue
			}
			n := callee.String()
			if (n == "(*sync.RWMutex).Unlock" || n == "(*sync.RWMutex).RUnlock" || n == "(*sync.Mutex).Unlock") && cc.Args[0] == ssa.Value(m) {
				return true
			}
		}
	}
	return false
}

// c18Globals: lock discipline of product package-level variables written
// outside initialisation.
func c18Globals(c *Ctx) {
	p, r := c.P, c.R
	a := c.Eff()
	// globals written (directly) by a function that is not package initialisation
	written := map[*ssa.Global][]string{}
	var fns []*ssa.Function
	for f := range a.Sum {
		fns = append(fns, f)
	}
	sort.Slice(fns, func(i, j int) bool { return core.FuncID(fns[i]) < core.FuncID(fns[j]) })
	for _, f := range fns {
		if core.FuncClass(f) != core.Product {
			continue
		}
		for wk, w := range a.Sum[f].W {
			if wk.Root.Kind != effects.RGlobal || w.Via != nil {
				continue
			}
			if core.ClassOf(globalPkg(wk.Root.G)) != core.Product {
				continue
			}
			if initOnly(p, f) {
				continue
			}
			written[wk.Root.G] = append(written[wk.Root.G], core.FuncID(f))
		}
	}
	var gs []*ssa.Global
	for g := range written {
		gs = append(gs, g)
	}
	sort.Slice(gs, func(i, j int) bool { return gs[i].String() < gs[j].String() })
	nGlobals := 0
	for _, sp := range p.SSA.AllPackages() {
		if core.ClassOf(sp.Pkg.Path()) != core.Product {
			continue
		}
		for _, m := range sp.Members {
			if _, ok := m.(*ssa.Global); ok {
				nGlobals++
			}
		}
	}
	r.Counts["product_globals"] = nGlobals
	r.Counts["globals_written_after_init"] = len(gs)
	for _, g := range gs {
		key := "C18.globals/" + core.Rel(globalPkg(g)) + "." + g.Name()
		t := g.Type().(*types.Pointer).Elem()
		writers := uniq(written[g])
		if syncType(t) {
			r.Ok("C18.globals", key, p.Pos(g.Pos()), "synchronised type "+t.String(), "written by "+strings.Join(writers, ", "))
			continue
		}
		ok, why := lockDisciplined(p, g)
		if ok {
			r.Ok("C18.globals", key, p.Pos(g.Pos()), why, "written by "+strings.Join(writers, ", "))
		} else {
			r.Bad("C18.globals", key, p.Pos(g.Pos()), "package-level variable written after initialisation without a consistent lock: "+why, "written by "+strings.Join(writers, ", "))
		}
	}
	r.Min("C18.globals", 2)
}

// c18Pool: typestate of pooled objects. After pool.Put(x) — in particular a
// deferred Put — x belongs to whoever calls Get next. A function that puts x
// back and returns x, or a slice / element / field address of x, hands its
// caller memory that another goroutine may overwrite.
func c18Pool(c *Ctx) {
	p, r := c.P, c.R
	base := func(v ssa.Value) ssa.Value {
		for i := 0; i < 12; i++ {
			v = guard.Strip(v)
			switch x := v.(type) {
			case *ssa.Slice:
				v = x.X
			case *ssa.IndexAddr:
				v = x.X
			case *ssa.FieldAddr:
				v = x.X
			case *ssa.TypeAssert:
				v = x.X
			case *ssa.MakeInterface:
				v = x.X
			case *ssa.ChangeInterface:
				v = x.X
			case *ssa.Extract:
				v = x.Tuple
			case *ssa.UnOp:
				// a result spilled into a local because of a defer: the one value stored there
				al, isAl := x.X.(*ssa.Alloc)
				if x.Op != token.MUL || !isAl {
					return v
				}
				var stored ssa.Value
				nSt := 0
				for _, ref := range *al.Referrers() {
					if st, isSt := ref.(*ssa.Store); isSt && st.Addr == ssa.Value(al) {
						stored = st.Val
						nSt++
					}
				}
				if nSt != 1 {
					return v
				}
				v = stored
			default:
				return v
			}
		}
		return v
	}
	n := 0
	for _, f := range p.SortedFuncs(core.Product) {
		allInstrs(f, func(ins ssa.Instruction) {
			ci, ok := ins.(ssa.CallInstruction)
			if !ok || guard.CalleeName(ci.Common()) != "(*sync.Pool).Put" || len(ci.Common().Args) < 2 {
				return
			}
			n++
			obj := base(ci.Common().Args[1])
			key := fmt.Sprintf("C18.pool/%s/Put", core.FuncID(f))
			bad := ""
			for _, ret := range guard.Returns(f) {
				for _, res := range ret.Results {
					if !a18HasRefs(res.Type()) {
						continue
					}
					if base(res) == obj {
						bad = "the function puts an object back into a sync.Pool and returns memory of that same object to its caller (" + p.Pos(ret.Pos()) + "): the next Get may hand it to another goroutine while the caller still reads it"
					}
				}
			}
			r.Check(bad == "", "C18.pool", key, p.Pos(ins.Pos()), bad, "no result of the function is (a slice, element or field of) the object put back")
		})
	}
	r.Counts["pool_put_sites"] = n
	if n == 0 {
		r.Ok("C18.pool", "C18.pool/none", "-", "no sync.Pool.Put in product code")
	}
}

func a18HasRefs(t types.Type) bool {
	switch t.Underlying().(type) {
	case *types.Basic:
		return false
	}
	return true
}

// c18Shared: the named types implementing a primitive interface (shared between goroutines).
var c18Shared = map[*types.Named]bool{}

// c18Derived: a per-call object (a decrypting reader, an iterator) may hold a
// pointer to the shared primitive that created it. Its methods are not entry
// points of (nowrite), yet a write through that pointer — reordering the
// primitive's slice, caching in its fields — is a write to shared memory by
// whatever goroutine uses the per-call object. For every function whose
// receiver is not itself a shared type: no Store / MapUpdate / copy
// destination / append base whose address is reached through a load of a field
// of (pointer to) shared type.
func c18Derived(c *Ctx) {
	p, r := c.P, c.R
	isShared := func(t types.Type) bool {
		if pt, ok := t.Underlying().(*types.Pointer); ok {
			t = pt.Elem()
		}
		n := core.NamedOf(t)
		return n != nil && c18Shared[n.Origin()]
	}
	// through: the address/value v is reached through a field that holds a shared object
	var through func(v ssa.Value, depth int, below bool) (string, bool)
	through = func(v ssa.Value, depth int, below bool) (string, bool) {
		if depth > 10 {
			return "", false
		}
		v = guard.Strip(v)
		switch x := v.(type) {
		case *ssa.IndexAddr:
			return through(x.X, depth+1, true)
		case *ssa.FieldAddr:
			return through(x.X, depth+1, true)
		case *ssa.Slice:
			return through(x.X, depth+1, below)
		case *ssa.Index:
			return through(x.X, depth+1, true)
		case *ssa.UnOp:
			if x.Op != token.MUL {
				return "", false
			}
			if fa, isFA := x.X.(*ssa.FieldAddr); isFA && below && isShared(x.Type()) {
				if _, fresh := guard.Strip(fa.X).(*ssa.Alloc); !fresh {
					st := fa.X.Type().Underlying().(*types.Pointer).Elem().Underlying().(*types.Struct)
					return st.Field(fa.Field).Name(), true
				}
			}
			return through(x.X, depth+1, true)
		}
		return "", false
	}
	n := 0
	for _, f := range p.SortedFuncs(core.Product) {
		if f.Synthetic != "" || f.Blocks == nil {
			continue
		}
		if f.Signature.Recv() != nil && isShared(f.Signature.Recv().Type()) {
			continue // decided by (nowrite)
		}
		fid := core.FuncID(f)
		report := func(ins ssa.Instruction, fld, what string) {
			r.Bad("C18.derived", fmt.Sprintf("C18.derived/%s/%s via %s", fid, what, fld), p.Pos(ins.Pos()),
				"writes into the memory of a shared primitive through the pointer kept in field "+fld+" ("+what+"): concurrent users of the primitive, or of other objects derived from it, race with this write")
		}
		allInstrs(f, func(ins ssa.Instruction) {
			switch x := ins.(type) {
			case *ssa.Store:
				if fld, ok := through(x.Addr, 0, false); ok {
					n++
					report(ins, fld, "store")
				}
			case *ssa.MapUpdate:
				if fld, ok := through(x.Map, 0, true); ok {
					n++
					report(ins, fld, "map update")
				}
			case *ssa.Call:
				if b, isB := x.Call.Value.(*ssa.Builtin); isB && (b.Name() == "copy" || b.Name() == "append" || b.Name() == "clear") && len(x.Call.Args) > 0 {
					if fld, ok := through(x.Call.Args[0], 0, b.Name() != "append"); ok && b.Name() != "append" {
						n++
						report(ins, fld, b.Name())
					}
				}
			}
		})
	}
	r.Counts["writes_through_shared_pointer_fields"] = n
	if n == 0 {
		r.Ok("C18.derived", "C18.derived/none", "-", fmt.Sprintf("no write through a field holding one of the %d shared primitive types, outside those types' own methods", len(c18Shared)))
	}
}
