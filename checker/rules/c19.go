package rules

import (
	"fmt"
	"go/token"
	"go/types"
	"sort"
	"strings"

	"golang.org/x/tools/go/ssa"

	"tinkverif/core"
	"tinkverif/effects"
	"tinkverif/guard"
)

func init() { Registry["C19"] = c19 }

// c19Exceptions: API functions whose documented contract is to fill, extend
// or hold the caller's memory. One symbol per line, with the reason.
var c19Exceptions = map[string]string{
	"(*keyset.MemReaderWriter).Read":           "MemReaderWriter is a plain in-memory holder with exported fields Keyset/EncryptedKeyset; holding and handing back the caller's message is its documented purpose",
	"(*keyset.MemReaderWriter).ReadEncrypted":  "see (*keyset.MemReaderWriter).Read",
	"(*keyset.MemReaderWriter).Write":          "see (*keyset.MemReaderWriter).Read",
	"(*keyset.MemReaderWriter).WriteEncrypted": "see (*keyset.MemReaderWriter).Read",
}

// c19Excepted returns the reason an obligation is covered by a contract
// exception: io.Reader.Read implementations fill p; …WithDst methods append
// to dst and return the extended slice; table entries above.
func c19Excepted(f *ssa.Function, key string, param int) string {
	if why, ok := c19Exceptions[core.FuncID(f)]; ok {
		return why
	}
	sig := f.Signature
	if sig.Recv() != nil && f.Name() == "Read" && sig.Params().Len() == 1 && sig.Results().Len() == 2 && core.IsByteSlice(sig.Params().At(0).Type()) {
		return "io.Reader contract: Read fills p"
	}
	if sig.Recv() != nil && strings.HasSuffix(f.Name(), "WithDst") && param == 1 && f.Params[1].Name() == "dst" {
		return "…WithDst contract: output is appended to dst and the extended slice is returned"
	}
	return ""
}

// isInternalPath reports whether a module-relative package path is internal.
func isInternalPath(rel string) bool {
	return rel == "internal" || strings.HasPrefix(rel, "internal/") || strings.Contains(rel, "/internal/") || strings.HasSuffix(rel, "/internal")
}

// trackedKind classifies types whose memory C19 is about.
// 1: []byte-like (bytes only), 2: container of byte slices / proto message (deep), 0: untracked.
func trackedKind(t types.Type) int {
	t = types.Unalias(t)
	if core.IsByteSlice(t) {
		return 1
	}
	switch u := t.Underlying().(type) {
	case *types.Slice:
		if trackedKind(u.Elem()) != 0 {
			return 2
		}
	case *types.Array:
		if trackedKind(u.Elem()) != 0 {
			return 2
		}
	case *types.Struct:
		// option structs passed by value (jwt…PublicKeyOpts{Modulus: …}): the
		// caller's byte slices travel in their fields
		for i := 0; i < u.NumFields(); i++ {
			if u.Field(i).Exported() && trackedKind(u.Field(i).Type()) != 0 {
				return 3
			}
		}
	case *types.Pointer:
		if n := core.NamedOf(u.Elem()); n != nil && n.Obj().Pkg() != nil {
			if core.ClassOf(n.Obj().Pkg().Path()) == core.Generated {
				if _, ok := n.Underlying().(*types.Struct); ok {
					return 2
				}
			}
		}
		if a, ok := u.Elem().Underlying().(*types.Array); ok {
			if b, ok := a.Elem().Underlying().(*types.Basic); ok && b.Kind() == types.Uint8 {
				return 1
			}
		}
		if st, ok := u.Elem().Underlying().(*types.Struct); ok && trackedKind(st) == 3 {
			return 3 // pointer to an option struct with exported byte-slice fields
		}
	}
	return 0
}

// apiSurface lists exported functions and exported-name methods of
// non-internal product packages (methods of unexported types are included:
// they are reached through interfaces handed out by factories).
func apiSurface(p *core.Program) []*ssa.Function {
	var out []*ssa.Function
	for _, f := range p.SortedFuncs(core.Product) {
		if f.Parent() != nil || f.Synthetic != "" {
			continue
		}
		if isInternalPath(core.Rel(core.PkgOf(f))) {
			continue
		}
		obj, _ := f.Object().(*types.Func)
		if obj == nil || !obj.Exported() {
			continue
		}
		if f.Origin() != nil && f.Origin() != f {
			continue // instantiations are covered through their callers
		}
		out = append(out, f)
	}
	return out
}

func paramName(f *ssa.Function, i int) string {
	if i < len(f.Params) {
		return f.Params[i].Name()
	}
	return fmt.Sprintf("freevar%d", i-len(f.Params))
}

func originKey(p *core.Program, w effects.Why, self *ssa.Function) (string, string) {
	of := w.OriginFn
	if of == nil {
		of = self
	}
	pos := w.OriginPos
	if pos == token.NoPos {
		pos = w.Pos
	}
	return core.FuncID(of), p.Pos(pos)
}

func c19(c *Ctx) {
	p, r := c.P, c.R
	a := c.Eff()
	r.Explanation = "C19 is decided as three structural rules over the whole-program memory-effect summaries (engine B) of every exported function/method of non-internal product packages: " +
		"(nowrite) no byte-slice / proto-message parameter's memory is in the function's write set — includes append() onto a parameter (spare capacity) and writes by stdlib callees per the contract table; " +
		"(noretain) no reference into such a parameter is stored into the receiver, another parameter, a global, or an object returned by the function; " +
		"(noexpose) no byte-slice / proto-message result aliases the receiver's memory, a global, or a parameter. " +
		"Violations are keyed by the function and instruction where the effect is direct (origin), so one defect reached through several API entry points is one obligation. " +
		"Not decided: behaviour of stdlib/x-crypto/protobuf callees beyond the contract table; user-supplied implementations of tink interfaces."
	surf := apiSurface(p)
	r.Counts["api_functions"] = len(surf)
	r.Counts["summarised_functions"] = len(a.Sum)
	r.Counts["effect_rounds"] = a.Rounds

	type agg struct {
		rule, key, pos, detail string
		entry                  []string
	}
	viol := map[string]*agg{}
	addViol := func(rule, key, pos, detail, entry string) {
		g := viol[key]
		if g == nil {
			g = &agg{rule: rule, key: key, pos: pos, detail: detail}
			viol[key] = g
		}
		g.entry = append(g.entry, entry)
	}
	nTrackedParams := 0
	for _, f := range surf {
		s := a.Sum[f]
		if s == nil {
			continue
		}
		fid := core.FuncID(f)
		hasRecv := f.Signature.Recv() != nil
		// ---- nowrite / noretain per tracked parameter
		for i, prm := range f.Params {
			if hasRecv && i == 0 {
				continue
			}
			k := trackedKind(prm.Type())
			if k == 0 {
				continue
			}
			nTrackedParams++
			if k == 3 {
				// option struct by value: the summaries do not separate its byte-slice
				// fields from the (immutable, legitimately shared) objects its other
				// fields point to; decide on the function's own instructions
				c19StructParam(c, f, i, addViol)
				continue
			}
			key := fmt.Sprintf("C19.nowrite/%s/%s", fid, prm.Name())
			if w, ok := s.WritesParam(i, true, k == 2); ok {
				if why := c19Excepted(f, key, i); why != "" {
					r.Except("C19.nowrite", key, p.FuncPos(f), why)
				} else {
					ofn, opos := originKey(p, w, f)
					okey := fmt.Sprintf("C19.nowrite/%s/%s", ofn, shortDesc(w.OriginDesc, w.Desc))
					addViol("C19.nowrite", okey, opos,
						fmt.Sprintf("writes into caller-provided memory: %s", firstNonEmpty(w.OriginDesc, w.Desc)),
						fmt.Sprintf("%s param %s (%s)", fid, prm.Name(), w.Desc))
				}
			} else {
				r.Ok("C19.nowrite", key, p.FuncPos(f), "param not in write set W("+fid+")")
			}
			// retention
			rkey := fmt.Sprintf("C19.noretain/%s/%s", fid, prm.Name())
			bad := false
			for kk, w := range s.K {
				if kk[0].Kind != effects.RParam || kk[0].Idx != i {
					continue
				}
				if kk[1].Kind == effects.RParam && kk[1].Idx == i {
					continue
				}
				// storing into another *tracked byte* param's own object is a write, handled above;
				// storing into the receiver/another object/global is retention.
				if why, ok := c19Exceptions[fid]; ok {
					r.Except("C19.noretain", rkey, p.FuncPos(f), why)
					continue
				}
				bad = true
				ofn, opos := originKey(p, w, f)
				okey := fmt.Sprintf("C19.noretain/%s/%s", ofn, shortDesc(w.OriginDesc, w.Desc))
				addViol("C19.noretain", okey, opos,
					fmt.Sprintf("keeps a reference to caller-provided memory in %s: %s", kk[1], firstNonEmpty(w.OriginDesc, w.Desc)),
					fmt.Sprintf("%s param %s -> %s", fid, prm.Name(), kk[1]))
			}
			for j := range s.RA {
				rt := f.Signature.Results().At(j).Type()
				for mi, m := range []map[effects.SRoot]effects.Why{s.RA[j], s.RC[j]} {
					for sr, w := range m {
						if sr.Kind != effects.RParam || sr.Idx != i {
							continue
						}
						xkey := fmt.Sprintf("C19.noexpose/%s/result%d<-%s", fid, j, prm.Name())
						if why := c19Excepted(f, xkey, i); why != "" {
							r.Except("C19.noexpose", xkey, p.FuncPos(f), why)
							continue
						}
						bad = true
						var ofn, opos, odesc string
						if mi == 1 && w.OriginFn != nil {
							ofn, opos = originKey(p, w, f)
							odesc = shortDesc(w.OriginDesc, w.Desc)
						} else {
							ofn, opos, odesc = resultOrigin(p, a, f, j, sr, w)
						}
						okey := fmt.Sprintf("C19.noretain/%s/%s", ofn, odesc)
						addViol("C19.noretain", okey, opos,
							fmt.Sprintf("an object returned to the caller shares memory with a caller-provided parameter: %s", odesc),
							fmt.Sprintf("%s result %d (%s) <- param %s", fid, j, types.TypeString(rt, nil), prm.Name()))
					}
				}
			}
			if !bad {
				r.Ok("C19.noretain", rkey, p.FuncPos(f), "no K/R entry from this parameter")
			}
		}
		// ---- noexpose: tracked results must not alias receiver / globals
		for j := range s.RA {
			rt := f.Signature.Results().At(j).Type()
			if trackedKind(rt) == 0 {
				continue
			}
			xkey := fmt.Sprintf("C19.noexpose/%s/result%d", fid, j)
			bad := false
			for _, m := range []map[effects.SRoot]effects.Why{s.RA[j], s.RC[j]} {
				for sr, w := range m {
					isRecv := sr.Kind == effects.RParam && hasRecv && sr.Idx == 0
					isGlobal := sr.Kind == effects.RGlobal
					if !isRecv && !isGlobal {
						continue
					}
					if isGlobal && !globalIsMutableBytes(sr.G) {
						continue
					}
					if why, ok := c19Exceptions[fid]; ok {
						r.Except("C19.noexpose", xkey, p.FuncPos(f), why)
						continue
					}
					bad = true
					ofn, opos, odesc := resultOrigin(p, a, f, j, sr, w)
					okey := fmt.Sprintf("C19.noexpose/%s/%s", ofn, odesc)
					what := "the receiver's internal memory"
					if isGlobal {
						what = "package-level variable " + sr.G.Name()
					}
					addViol("C19.noexpose", okey, opos,
						fmt.Sprintf("returned %s shares memory with %s: %s", types.TypeString(rt, nil), what, odesc),
						fmt.Sprintf("%s result %d", fid, j))
				}
			}
			if !bad {
				r.Ok("C19.noexpose", xkey, p.FuncPos(f), "result roots: "+rootsString(s.RA[j]))
			}
		}
	}
	r.Counts["tracked_params"] = nTrackedParams
	var keys []string
	for k := range viol {
		keys = append(keys, k)
	}
	// ---- noglobal: no function of the module (API or internal) keeps a reference to a
	// byte buffer it was handed in a package-level variable (memoisation caches keyed by the
	// caller's slice, pools). Decided on the K summaries of every function; reported once,
	// at the function whose own instruction does the storing.
	nGlob := 0
	for _, f := range p.SortedFuncs(core.Product) {
		s := a.Sum[f]
		if s == nil || f.Synthetic != "" || isInitFunc(f) {
			continue
		}
		for kk, w := range s.K {
			if kk[1].Kind != effects.RGlobal || kk[0].Kind != effects.RParam || kk[0].Idx >= len(f.Params) {
				continue
			}
			if w.OriginFn != nil && w.OriginFn != f {
				continue // reported at the origin
			}
			if k := trackedKind(f.Params[kk[0].Idx].Type()); k != 1 && k != 2 {
				continue
			}
			nGlob++
			ofn, opos := originKey(p, w, f)
			addViol("C19.noretain", fmt.Sprintf("C19.noretain/%s/global %s", ofn, shortDesc(w.OriginDesc, w.Desc)), opos,
				fmt.Sprintf("keeps a reference to a byte buffer it was handed in package-level state (%s): %s", kk[1], firstNonEmpty(w.OriginDesc, w.Desc)),
				fmt.Sprintf("%s param %s -> %s", core.FuncID(f), f.Params[kk[0].Idx].Name(), kk[1]))
		}
	}
	r.Counts["byte_params_kept_in_globals"] = nGlob
	if nGlob == 0 {
		r.Ok("C19.noretain", "C19.noretain/globals", "-", "no function stores a reference to a byte-buffer parameter into package-level state")
	}
	keys = keys[:0]
	for k := range viol {
		keys = append(keys, k)
	}
	sort.Strings(keys)
	for _, k := range keys {
		g := viol[k]
		sort.Strings(g.entry)
		if len(g.entry) > 12 {
			g.entry = append(g.entry[:12], fmt.Sprintf("… and %d more entry points", len(g.entry)-12))
		}
		facts := []string{}
		for _, e := range g.entry {
			facts = append(facts, "reached from API: "+e)
		}
		r.Bad(g.rule, g.key, g.pos, g.detail, facts...)
	}
	// anti-vacuity, hand-confirmed on the unchanged tree
	r.Min("C19.nowrite", 300)
	r.Min("C19.noretain", 300)
	r.Min("C19.noexpose", 200)
	var assumed []string
	for n := range a.Assumed {
		assumed = append(assumed, n)
	}
	sort.Strings(assumed)
	r.Extra["assumed_pure_externals"] = assumed
	r.Assume("stdlib / x/crypto / protobuf callees behave as listed in checker/effects/contracts.go; unlisted external callees are pure (listed in coverage.assumed_pure_externals)")
	r.Assume("user-supplied implementations of tink interfaces (KMS AEADs, loggers, io.Reader/Writer) are outside the claim")
	// positive control: the analysis must see a write through append onto a parameter
	c19Control(c)
}

func firstNonEmpty(a, b string) string {
	if a != "" {
		return a
	}
	return b
}

// shortDesc makes a line-independent construct description.
func shortDesc(a, b string) string {
	d := firstNonEmpty(a, b)
	if i := strings.Index(d, " ("); i > 0 {
		d = d[:i]
	}
	return d
}

func rootsString(m map[effects.SRoot]effects.Why) string {
	var s []string
	for sr := range m {
		s = append(s, sr.String())
	}
	sort.Strings(s)
	return strings.Join(s, ",")
}

// globalIsMutableBytes: exposing a package-level error value or function table
// is not a C19 matter; a package-level byte slice / proto message is.
func globalIsMutableBytes(g *ssa.Global) bool {
	t := g.Type().(*types.Pointer).Elem()
	return trackedKind(t) != 0 || containsTracked(t, 0)
}

func containsTracked(t types.Type, depth int) bool {
	if depth > 3 {
		return false
	}
	if trackedKind(t) != 0 {
		return true
	}
	switch u := t.Underlying().(type) {
	case *types.Struct:
		for i := 0; i < u.NumFields(); i++ {
			if containsTracked(u.Field(i).Type(), depth+1) {
				return true
			}
		}
	case *types.Pointer:
		return containsTracked(u.Elem(), depth+1)
	case *types.Map:
		return containsTracked(u.Elem(), depth+1)
	case *types.Slice:
		return containsTracked(u.Elem(), depth+1)
	}
	return false
}

// resultOrigin follows a returned value back through calls whose callee has
// the same aliasing in its own summary, to name the function where the
// aliasing originates.
func resultOrigin(p *core.Program, a *effects.Analysis, f *ssa.Function, j int, sr effects.SRoot, w effects.Why) (string, string, string) {
	cur, curJ := f, j
	for depth := 0; depth < 8; depth++ {
		next, nj := calleeWithSameAlias(a, cur, curJ)
		if next == nil {
			break
		}
		cur, curJ = next, nj
	}
	s := a.Sum[cur]
	desc := "return"
	pos := p.FuncPos(cur)
	if s != nil && curJ < len(s.RA) {
		for _, m := range []map[effects.SRoot]effects.Why{s.RA[curJ], s.RC[curJ]} {
			for sr2, w2 := range m {
				if sr2.Kind == effects.RParam || sr2.Kind == effects.RGlobal {
					desc = w2.Desc
					pos = p.Pos(w2.Pos)
					goto done
				}
			}
		}
	}
done:
	return core.FuncID(cur), pos, desc
}

// calleeWithSameAlias: if every aliasing return of f's result j is the direct
// result of a call to one module function whose own result aliases a
// parameter, return that callee.
func calleeWithSameAlias(a *effects.Analysis, f *ssa.Function, j int) (*ssa.Function, int) {
	var found *ssa.Function
	fj := 0
	for _, b := range f.Blocks {
		if len(b.Instrs) == 0 {
			continue
		}
		ret, ok := b.Instrs[len(b.Instrs)-1].(*ssa.Return)
		if !ok || j >= len(ret.Results) {
			continue
		}
		v := ret.Results[j]
		idx := 0
		for {
			switch x := v.(type) {
			case *ssa.ChangeType:
				v = x.X
				continue
			case *ssa.Extract:
				idx = x.Index
				v = x.Tuple
				continue
			}
			break
		}
		call, ok := v.(*ssa.Call)
		if !ok {
			continue
		}
		callee := call.Call.StaticCallee()
		if callee == nil {
			continue
		}
		s := a.Sum[callee]
		if s == nil || idx >= len(s.RA) {
			continue
		}
		alias := false
		for sr := range s.RA[idx] {
			if sr.Kind == effects.RParam || sr.Kind == effects.RGlobal {
				alias = true
			}
		}
		for sr := range s.RC[idx] {
			if sr.Kind == effects.RParam || sr.Kind == effects.RGlobal {
				alias = true
			}
		}
		if alias {
			found, fj = callee, idx
		}
	}
	return found, fj
}

// c19Control is the positive example that must match on every run: an
// internal helper known to write its argument (random.MustRand fills b) must
// appear with that parameter in its write set; otherwise the engine is blind.
// c19StructParam: parameter i of f is a struct passed by value with exported
// byte-slice (or proto) fields. A byte-typed value derived from it must not be
// stored anywhere but a local variable, handed to a callee that keeps or
// returns it, appended to, or written through.
func c19StructParam(c *Ctx, f *ssa.Function, i int, addViol func(rule, key, pos, detail, entry string)) {
	p, r, a := c.P, c.R, c.Eff()
	fid := core.FuncID(f)
	prm := f.Params[i]
	derived := func(v ssa.Value) bool {
		if k := trackedKind(v.Type()); k != 1 && k != 2 {
			return false
		}
		for _, pt := range a.PointsTo(f, v) {
			if pt.Root.Kind == effects.RParam && pt.Root.Idx == i && pt.Fn == nil {
				return true
			}
		}
		return false
	}
	bad := false
	for _, g := range withClosures(f) {
		if g != f {
			continue // closures see the parameter as a free variable (own summaries)
		}
		allInstrs(g, func(ins ssa.Instruction) {
			switch x := ins.(type) {
			case *ssa.Store:
				if _, local := x.Addr.(*ssa.Alloc); local {
					return
				}
				if derived(x.Val) {
					bad = true
					addViol("C19.noretain", fmt.Sprintf("C19.noretain/%s/store of %s", fid, effects.Describe(x.Val)), p.Pos(x.Pos()),
						fmt.Sprintf("keeps a reference to a byte slice of the caller's %s (passed by value, slices shared): store of %s", prm.Name(), effects.Describe(x.Val)),
						fmt.Sprintf("%s param %s", fid, prm.Name()))
				}
			case ssa.CallInstruction:
				cc := x.Common()
				var avals []ssa.Value
				if cc.IsInvoke() {
					avals = append(avals, cc.Value)
				}
				avals = append(avals, cc.Args...)
				for idx, av := range avals {
					if derived(av) && a.ArgEscapes(x, idx) {
						bad = true
						addViol("C19.noretain", fmt.Sprintf("C19.noretain/%s/%s handed to %s", fid, effects.Describe(av), guard.CalleeName(cc)), p.Pos(x.Pos()),
							fmt.Sprintf("a byte slice of the caller's %s is handed to a callee that keeps or returns it: %s", prm.Name(), guard.CalleeName(cc)),
							fmt.Sprintf("%s param %s", fid, prm.Name()))
					}
				}
			}
		})
	}
	key := fmt.Sprintf("C19.noretain/%s/%s", fid, prm.Name())
	if !bad {
		r.Ok("C19.noretain", key, p.FuncPos(f), "no byte-typed value derived from the by-value struct parameter is stored outside a local or handed to a retaining callee")
	}
	wkey := fmt.Sprintf("C19.nowrite/%s/%s", fid, prm.Name())
	written := ""
	allInstrs(f, func(ins ssa.Instruction) {
		for _, w := range a.WritesAt(ins) {
			if w.Root.Kind == effects.RParam && w.Root.Idx == i && w.Fn == nil && w.Root.Depth >= 1 && (w.T == "" || w.T == "byte" || w.T == "uint8") {
				written = p.Pos(ins.Pos())
			}
		}
	})
	if written != "" {
		addViol("C19.nowrite", fmt.Sprintf("C19.nowrite/%s/%s", fid, prm.Name()), written, "writes into memory reachable from the caller's "+prm.Name(), fid)
	} else {
		r.Ok("C19.nowrite", wkey, p.FuncPos(f), "no write to memory reachable from the by-value struct parameter")
	}
}

func c19Control(c *Ctx) {
	f := c.P.PkgFunc("internal/random", "MustRand")
	if f == nil {
		c.R.AnchorMissing("C19.control", "internal/random.MustRand")
		return
	}
	s := c.Eff().Sum[f]
	_, ok := s.WritesParam(0, true, false)
	c.R.Check(ok, "C19.control", "C19.control/internal/random.MustRand/b", c.P.FuncPos(f),
		"positive control failed: MustRand(b) is not seen writing b — effect engine or rand.Read contract broken", "W(MustRand) contains param#0 via crypto/rand.Read contract")
}
