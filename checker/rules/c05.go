package rules

import (
	"fmt"
	"go/constant"
	"go/token"
	"go/types"
	"os"
	"regexp"
	"strings"
	"tinkverif/bounds"

	"golang.org/x/tools/go/ssa"

	"tinkverif/core"
	"tinkverif/guard"
)

func init() { Registry["C05"] = c05 }

const entryRecv = "(*" + core.ModPath + "/keyset.Entry)."

var keyIDField = regexp.MustCompile(`(?i)^(key)?id$|keyid`)

func isEntryMethod(c *ssa.CallCommon, name string) bool {
	return guard.CalleeName(c) == entryRecv+name
}

func c05(c *Ctx) {
	p, r := c.P, c.R
	r.Explanation = "C05 is decided as structural rules over every keyset factory (every call site of factoryutil.PrimitiveFromKey, found by census) and over the wrappers they build: " +
		"(enabled) EnabledUnmonitoredEntries yields an entry only under KeyStatus()==Enabled, for a loop over 0..Len()-1, and every primitive is built from the key of such an entry or of Handle.Primary(); no factory reads Handle.Entry(i) itself; " +
		"(pairing) within one iteration every Entry accessor is applied to the iteration's own entry, every key-ID field or map key stored next to a primitive is entry.KeyID() of that entry, the prefix used for the map insertion and for legacy adapters is OutputPrefix(entry.Key()) of that entry; " +
		"(primary) the captured primary slot is assigned only under entry.IsPrimary()==true of that entry (or from Handle.Primary()); " +
		"(log) every Logger.Log(id, …) names a key ID read from the same pair object whose operation's success dominates the call (accepting side) or from the primary slot that produced the output; " +
		"(accept) in every wrapper holding a prefix map, accepting operations (Decrypt/Verify/VerifyMAC/DecryptDeterministically) are applied only to candidates returned by PrimitivesMatchingPrefix(input).Next(); " +
		"(prefixfn) every key type's output-prefix function, folded on every variant constant and on key IDs 0, 1, 0x01020304, 0xffffffff: failure / no prefix / prefix depends on the variant only (0 is a legal key ID), TINK/CRUNCHY/LEGACY give a prefix, NO_PREFIX/RAW none, and the ID encoded is the function's parameter. " +
		"(prefixmap) lookup uses exactly the first NonRawPrefixSize bytes under a length guard and always appends the prefix-less bucket. " +
		"Not decided: the behaviour of the wrapped primitives; rotation histories (manager side: C11)."
	pfk := "internal/factoryutil.PrimitiveFromKey"
	type site struct {
		fn     *ssa.Function
		call   *ssa.Call
		keyArg ssa.Value // the key the primitive is built from, as seen in fn
		entry  ssa.Value
		how    string
		// helper: the primitive is built in this named helper from its parameter;
		// fn/call are then a call site of the helper
		helper *ssa.Function
	}
	var sites []site
	for _, f := range p.SortedFuncs(core.Product) {
		allInstrs(f, func(ins ssa.Instruction) {
			call, ok := ins.(*ssa.Call)
			if !ok {
				return
			}
			if n := guard.CalleeName(&call.Call); !strings.HasSuffix(n, pfk) {
				return
			}
			sites = append(sites, site{fn: f, call: call, keyArg: call.Call.Args[0]})
		})
	}
	// a named helper building the primitive from a key it is handed (newMonitoredX(key, keyID, …)):
	// each call site of the helper stands for the site
	var expanded []site
	for _, s := range sites {
		prm, isP := guard.Strip(s.keyArg).(*ssa.Parameter)
		if !isP || s.fn.Parent() != nil || s.fn.Object() == nil || s.fn.Object().Exported() {
			expanded = append(expanded, s)
			continue
		}
		idx := -1
		for i, q := range s.fn.Params {
			if q == prm {
				idx = i
			}
		}
		n := 0
		for _, caller := range p.SortedFuncs(core.Product) {
			allInstrs(caller, func(ins ssa.Instruction) {
				if c2, isC := ins.(*ssa.Call); isC && c2.Call.StaticCallee() == s.fn && idx >= 0 && idx < len(c2.Call.Args) {
					expanded = append(expanded, site{fn: caller, call: c2, keyArg: c2.Call.Args[idx], helper: s.fn})
					n++
				}
			})
		}
		if n == 0 {
			expanded = append(expanded, s)
		}
	}
	sites = expanded
	r.Counts["PrimitiveFromKey_sites"] = len(sites)
	c05Enabled(c)
	for i := range sites {
		s := &sites[i]
		fid := core.FuncID(s.fn)
		key := "C05.source/" + fid
		kc, _ := guard.CallOf(s.keyArg)
		if kc == nil || !isEntryMethod(&kc.Call, "Key") {
			r.Bad("C05.source", key, p.Pos(s.call.Pos()), "the key given to PrimitiveFromKey is not entry.Key() of a keyset entry")
			continue
		}
		e := kc.Call.Args[0]
		s.entry = e
		switch x := e.(type) {
		case *ssa.Parameter:
			// range-over-func closure of EnabledUnmonitoredEntries
			ok := false
			if s.fn.Parent() == nil {
				// a named helper (newMonitoredPRF(entry, …)): at every call site the
				// argument is the loop variable of an enabled-entries loop
				idx := -1
				for i, q := range s.fn.Params {
					if q == x {
						idx = i
					}
				}
				nCalls, good := 0, true
				for _, caller := range p.SortedFuncs(core.Product) {
					allInstrs(caller, func(ins ssa.Instruction) {
						c2, isC := ins.(*ssa.Call)
						if !isC || c2.Call.StaticCallee() != s.fn || idx < 0 || idx >= len(c2.Call.Args) {
							return
						}
						nCalls++
						ap, isP := guard.Strip(c2.Call.Args[idx]).(*ssa.Parameter)
						par := caller.Parent()
						if !isP || par == nil || len(caller.Params) != 1 || ap != caller.Params[0] {
							good = false
							return
						}
						fromLoop := false
						allInstrs(par, func(i3 ssa.Instruction) {
							mc, isMC := i3.(*ssa.MakeClosure)
							if !isMC || mc.Fn != ssa.Value(caller) {
								return
							}
							for _, ref := range *mc.Referrers() {
								if call, isCl := ref.(*ssa.Call); isCl && len(call.Call.Args) == 1 && call.Call.Args[0] == ssa.Value(mc) {
									if src, _ := guard.CallOf(call.Call.Value); src != nil && strings.HasSuffix(guard.CalleeName(&src.Call), "internal/factoryutil.EnabledUnmonitoredEntries") {
										fromLoop = true
									}
								}
							}
						})
						if !fromLoop {
							good = false
						}
					})
				}
				ok = good && nCalls > 0
			}
			if par := s.fn.Parent(); par != nil && len(s.fn.Params) == 1 && x == s.fn.Params[0] {
				allInstrs(par, func(ins ssa.Instruction) {
					mc, isMC := ins.(*ssa.MakeClosure)
					if !isMC || mc.Fn != ssa.Value(s.fn) {
						return
					}
					for _, ref := range *mc.Referrers() {
						if call, isC := ref.(*ssa.Call); isC && len(call.Call.Args) == 1 && call.Call.Args[0] == ssa.Value(mc) {
							if src, _ := guard.CallOf(call.Call.Value); src != nil && strings.HasSuffix(guard.CalleeName(&src.Call), "internal/factoryutil.EnabledUnmonitoredEntries") {
								ok = true
							}
						}
					}
				})
			}
			r.Check(ok, "C05.source", key, p.Pos(s.call.Pos()), "primitive built from an entry that does not come from ranging over factoryutil.EnabledUnmonitoredEntries(handle)", "entry is the loop variable of EnabledUnmonitoredEntries(handle)")
			s.how = "loop"
		default:
			pc, idx := guard.CallOf(canonEntry(e))
			ok := pc != nil && idx == 0 && guard.CalleeName(&pc.Call) == "(*"+core.ModPath+"/keyset.Handle).Primary"
			r.Check(ok, "C05.source", key, p.Pos(s.call.Pos()), "primitive built from an entry that is neither an enabled-entries loop variable nor Handle.Primary()", "entry is Handle.Primary()")
			s.how = "primary"
		}
	}
	r.Min("C05.source", 14)
	// no factory reads Handle.Entry(i) itself
	for _, f := range p.SortedFuncs(core.Product) {
		rel := core.Rel(core.PkgOf(f))
		if rel == "keyset" || rel == "internal/factoryutil" || rel == "internal/jwk" {
			continue // keyset itself; the iterator; JWK export (C09.jwkpublic checks its status filter)
		}
		allInstrs(f, func(ins ssa.Instruction) {
			if call, ok := ins.(ssa.CallInstruction); ok && guard.CalleeName(call.Common()) == "(*"+core.ModPath+"/keyset.Handle).Entry" {
				r.Bad("C05.source", "C05.source/"+core.FuncID(f)+"/Handle.Entry", p.Pos(ins.Pos()), "product code outside keyset/factoryutil indexes keyset entries directly, bypassing the Enabled filter")
			}
		})
	}

	// ---- pairing / primary per site
	seenFn := map[*ssa.Function]bool{}
	for _, s := range sites {
		if s.entry == nil || seenFn[s.fn] {
			continue
		}
		seenFn[s.fn] = true
		fid := core.FuncID(s.fn)
		// (a) every Entry accessor on the same entry
		okAll := true
		var keyIDCalls int
		allInstrs(s.fn, func(ins ssa.Instruction) {
			call, ok := ins.(*ssa.Call)
			if !ok || !strings.HasPrefix(guard.CalleeName(&call.Call), entryRecv) {
				return
			}
			if !sameEntry(call.Call.Args[0], s.entry) {
				okAll = false
				r.Bad("C05.pairing", fmt.Sprintf("C05.pairing/%s/%s on another entry", fid, call.Call.StaticCallee().Name()), p.Pos(ins.Pos()),
					"an Entry accessor is applied to an entry other than the one the primitive is built from")
			}
			if isEntryMethod(&call.Call, "KeyID") {
				keyIDCalls++
			}
		})
		if okAll {
			r.Ok("C05.pairing", "C05.pairing/"+fid+"/one entry", p.FuncPos(s.fn), "all Entry accessors take the entry the primitive is built from")
		}
		// (b) key-ID fields / map keys
		allInstrs(s.fn, func(ins ssa.Instruction) {
			if base, fld, val, ok := guard.StoreField(ins); ok && keyIDField.MatchString(fld) && isUint32(val.Type()) && core.ClassOf(pkgOfType(base.Type())) == core.Product {
				vc, _ := guard.CallOf(val)
				good := vc != nil && isEntryMethod(&vc.Call, "KeyID") && sameEntry(vc.Call.Args[0], s.entry)
				r.Check(good, "C05.pairing", fmt.Sprintf("C05.pairing/%s/%s.%s", fid, core.TypeID(base.Type()), fld), p.Pos(ins.Pos()),
					"the key ID stored next to the primitive is not entry.KeyID() of the entry the primitive is built from (value: "+valName(val)+")", "= entry.KeyID()")
			}
			if mu, ok := ins.(*ssa.MapUpdate); ok && isUint32(mu.Key.Type()) {
				vc, _ := guard.CallOf(mu.Key)
				good := vc != nil && isEntryMethod(&vc.Call, "KeyID") && sameEntry(vc.Call.Args[0], s.entry)
				r.Check(good, "C05.pairing", fmt.Sprintf("C05.pairing/%s/map key", fid), p.Pos(ins.Pos()),
					"a primitive is registered under a key ID that is not entry.KeyID() of its own entry", "map key = entry.KeyID()")
			}
		})
		if s.helper != nil {
			allInstrs(s.helper, func(ins ssa.Instruction) {
				base, fld, val, ok := guard.StoreField(ins)
				if !ok || !keyIDField.MatchString(fld) || !isUint32(val.Type()) || core.ClassOf(pkgOfType(base.Type())) != core.Product {
					return
				}
				good := false
				if prm, isP := guard.Strip(val).(*ssa.Parameter); isP {
					for i, q := range s.helper.Params {
						if q == prm && i < len(s.call.Call.Args) {
							vc, _ := guard.CallOf(s.call.Call.Args[i])
							good = vc != nil && isEntryMethod(&vc.Call, "KeyID") && sameEntry(vc.Call.Args[0], s.entry)
						}
					}
				}
				r.Check(good, "C05.pairing", fmt.Sprintf("C05.pairing/%s/%s.%s via %s", fid, core.TypeID(base.Type()), fld, s.helper.Name()), p.Pos(ins.Pos()),
					"the key ID stored next to the primitive in "+s.helper.Name()+" is not entry.KeyID() of the entry the primitive is built from", "= the helper's parameter, bound to entry.KeyID() at the call")
			})
		}
		// (c) prefix: every use of a prefix for insertion/adapters comes from OutputPrefix(entry.Key())
		allInstrs(s.fn, func(ins ssa.Instruction) {
			call, ok := ins.(*ssa.Call)
			if !ok {
				return
			}
			n := guard.CalleeName(&call.Call)
			if strings.HasSuffix(n, "internal/factoryutil.OutputPrefix") || strings.HasSuffix(n, "cryptofmt.OutputPrefix") {
				kc, _ := guard.CallOf(call.Call.Args[0])
				good := kc != nil && isEntryMethod(&kc.Call, "Key") && sameEntry(kc.Call.Args[0], s.entry)
				r.Check(good, "C05.pairing", "C05.pairing/"+fid+"/OutputPrefix arg", p.Pos(ins.Pos()), "output prefix computed from another key than the entry's", "OutputPrefix(entry.Key())")
			}
			if strings.Contains(n, "internal/prefixmap.PrefixMap[") && strings.HasSuffix(n, ".Insert") {
				// Insert(m, string(prefix), pair)
				conv, isConv := call.Call.Args[1].(*ssa.Convert)
				good := false
				if isConv {
					if oc, oi := guard.CallOf(conv.X); oc != nil && oi == 0 && strings.HasSuffix(guard.CalleeName(&oc.Call), ".OutputPrefix") {
						good = true
					}
				}
				r.Check(good, "C05.pairing", "C05.pairing/"+fid+"/Insert prefix", p.Pos(ins.Pos()), "primitive inserted under a prefix that is not OutputPrefix(entry.Key())", "Insert(string(OutputPrefix(entry.Key())), pair)")
			}
		})
		// (d) primary slot
		if s.how == "loop" {
			nPrim := 0
			// the loop body: the site's own closure, or — when the primitive is built in a
			// named helper — the loop closures calling that helper
			type loopFn struct {
				fn    *ssa.Function
				entry ssa.Value
			}
			loops := []loopFn{{s.fn, s.entry}}
			if s.fn.Parent() == nil {
				loops = nil
				for _, caller := range p.SortedFuncs(core.Product) {
					if caller.Parent() == nil || len(caller.Params) != 1 {
						continue
					}
					calls := false
					allInstrs(caller, func(ins ssa.Instruction) {
						if c2, isC := ins.(*ssa.Call); isC && c2.Call.StaticCallee() == s.fn {
							calls = true
						}
					})
					if calls {
						loops = append(loops, loopFn{caller, caller.Params[0]})
					}
				}
			}
			for _, lf := range loops {
				allInstrs(lf.fn, func(ins ssa.Instruction) {
					st, ok := ins.(*ssa.Store)
					if !ok {
						return
					}
					slot := ""
					if fv, isFV := st.Addr.(*ssa.FreeVar); isFV && strings.Contains(strings.ToLower(fv.Name()), "primary") {
						slot = fv.Name()
					} else if _, fld, _, isSF := guard.StoreField(ins); isSF && strings.Contains(strings.ToLower(fld), "primary") {
						slot = fld
					}
					if slot == "" {
						return
					}
					nPrim++
					good := false
					for _, f := range guard.InstrFacts(ins) {
						if call, val, ok := guard.BoolCallFact(f); ok && val && isEntryMethod(&call.Call, "IsPrimary") && sameEntry(call.Call.Args[0], lf.entry) {
							good = true
						}
					}
					r.Check(good, "C05.primary", fmt.Sprintf("C05.primary/%s/%s", fid, slot), p.Pos(ins.Pos()),
						"the primary slot is assigned without a dominating entry.IsPrimary()==true for the same entry", "dominated by entry.IsPrimary()")
				})
			}
			// factories whose wrapper produces output need a primary
			if nPrim == 0 {
				r.Outside("C05.primary", "C05.primary/"+fid+"/none", p.FuncPos(s.fn), "no primary slot assigned in this loop (accept-only wrapper)")
			}
		}
	}
	r.Min("C05.pairing", 30)
	r.Min("C05.primary", 6)
	c05Log(c)
	c05PrefixFns(c)
	c05PrefixMap(c)
	c05Accept(c)
	idZeroRule(c, "C05.idzero", func(rel string) bool {
		return !strings.HasPrefix(rel, "keyset") && !strings.HasPrefix(rel, "proto/") && !strings.HasPrefix(rel, "internal/protoserialization")
	})
}

// canonEntry strips ToUnmonitoredEntry wrappers: the same keyset entry.
func canonEntry(v ssa.Value) ssa.Value {
	for i := 0; i < 4; i++ {
		v = guard.Strip(v)
		c, _ := guard.CallOf(v)
		if c != nil && isEntryMethod(&c.Call, "ToUnmonitoredEntry") {
			v = c.Call.Args[0]
			continue
		}
		break
	}
	return v
}

func sameEntry(a, b ssa.Value) bool { return canonEntry(a) == canonEntry(b) }

func isUint32(t types.Type) bool {
	b, ok := t.Underlying().(*types.Basic)
	return ok && b.Kind() == types.Uint32
}

func pkgOfType(t types.Type) string {
	if n := core.NamedOf(t); n != nil && n.Obj().Pkg() != nil {
		return n.Obj().Pkg().Path()
	}
	return ""
}

// ---------------------------------------------------------------- enabled

func c05Enabled(c *Ctx) {
	p, r := c.P, c.R
	f := p.PkgFunc("internal/factoryutil", "EnabledUnmonitoredEntries")
	if f == nil {
		r.AnchorMissing("C05.enabled", "factoryutil.EnabledUnmonitoredEntries")
		return
	}
	enabled, _ := constOf(p, "keyset", "Enabled")
	n := 0
	for _, cl := range f.AnonFuncs {
		allInstrs(cl, func(ins ssa.Instruction) {
			call, ok := ins.(*ssa.Call)
			if !ok || call.Call.StaticCallee() != nil || call.Call.IsInvoke() {
				return
			}
			if _, isParam := call.Call.Value.(*ssa.Parameter); !isParam || len(call.Call.Args) != 1 {
				return
			}
			n++
			key := "C05.enabled/EnabledUnmonitoredEntries/yield"
			// yielded value: entry or entry.ToUnmonitoredEntry()
			y := call.Call.Args[0]
			if uc, _ := guard.CallOf(y); uc != nil && isEntryMethod(&uc.Call, "ToUnmonitoredEntry") {
				y = uc.Call.Args[0]
			}
			ec, ei := guard.CallOf(y)
			if ec == nil || ei != 0 || guard.CalleeName(&ec.Call) != "(*"+core.ModPath+"/keyset.Handle).Entry" {
				r.Bad("C05.enabled", key, p.Pos(ins.Pos()), "the yielded entry is not kh.Entry(i)")
				return
			}
			good := false
			for _, fct := range guard.InstrFacts(ins) {
				op, x, yv, ok := guard.Cmp(fct)
				if !ok || op != token.EQL {
					continue
				}
				for _, pair := range [][2]ssa.Value{{x, yv}, {yv, x}} {
					if sc, _ := guard.CallOf(pair[0]); sc != nil && isEntryMethod(&sc.Call, "KeyStatus") && guard.Strip(sc.Call.Args[0]) == guard.Strip(y) && isConstEq(pair[1], enabled) {
						good = true
					}
				}
			}
			if !good {
				r.Bad("C05.enabled", key, p.Pos(ins.Pos()), "an entry is yielded without a dominating entry.KeyStatus() == keyset.Enabled on that entry")
				return
			}
			// index loop 0..Len()-1 (classic, or range over kh.Len())
			loopOK := false
			if cl := countedLoopOf(ec.Call.Args[1]); cl != nil {
				if lc, _ := guard.CallOf(cl.Bound); lc != nil && guard.CalleeName(&lc.Call) == "(*"+core.ModPath+"/keyset.Handle).Len" {
					// the only early exits: the consumer stopped (yield returned false) or the impossible-error panic
					loopOK = true
					for b := range cl.Blocks {
						for _, sc := range b.Succs {
							if cl.Blocks[sc] || len(sc.Instrs) == 0 {
								continue
							}
							switch sc.Instrs[len(sc.Instrs)-1].(type) {
							case *ssa.Panic:
								continue
							case *ssa.Return:
								stopped := false
								for _, fct := range guard.BlockFacts(sc) {
									if yc, val, isB := guard.BoolCallFact(fct); isB && !val && yc == call {
										stopped = true
									}
								}
								if stopped {
									continue
								}
							}
							// the regular exit: the exhausted loop condition
							if iff := lastIf(b); iff != nil {
								if cmp, isB := iff.Cond.(*ssa.BinOp); isB && (cmp.Y == cl.Bound || cmp.X == cl.Bound) {
									continue
								}
							}
							loopOK = false
						}
					}
				}
			}
			r.Check(loopOK, "C05.enabled", key, p.Pos(ins.Pos()), "the iterator does not visit every index 0..Len()-1", "dominated by KeyStatus()==Enabled of the same entry; i from 0 while i < kh.Len(), i++")
		})
	}
	if n == 0 {
		r.AnchorMissing("C05.enabled", "yield call in EnabledUnmonitoredEntries")
	}
}

// ---------------------------------------------------------------- log

func sameAddr(x, y ssa.Value) bool {
	x, y = guard.Strip(x), guard.Strip(y)
	if x == y {
		return true
	}
	fx, ok1 := x.(*ssa.FieldAddr)
	fy, ok2 := y.(*ssa.FieldAddr)
	if ok1 && ok2 && fx.Field == fy.Field {
		return sameAddr(fx.X, fy.X)
	}
	return false
}

// ownerChain lists v and the bases it is a field (address) of.
func ownerChain(v ssa.Value) []ssa.Value {
	var out []ssa.Value
	for i := 0; i < 6 && v != nil; i++ {
		v = guard.Strip(v)
		out = append(out, v)
		switch x := v.(type) {
		case *ssa.FieldAddr:
			v = x.X
		case *ssa.Field:
			v = x.X
		case *ssa.UnOp:
			if x.Op == token.MUL {
				v = x.X
			} else {
				v = nil
			}
		default:
			v = nil
		}
	}
	return out
}

func c05Log(c *Ctx) {
	p, r := c.P, c.R
	logName := "(" + core.ModPath + "/monitoring.Logger).Log"
	n := 0
	for _, f := range p.SortedFuncs(core.Product) {
		rel := core.Rel(core.PkgOf(f))
		if strings.HasPrefix(rel, "internal/monitoringutil") || rel == "monitoring" {
			continue
		}
		allInstrs(f, func(ins ssa.Instruction) {
			call, ok := ins.(*ssa.Call)
			if !ok || !call.Call.IsInvoke() || call.Call.Method.FullName() != logName {
				return
			}
			n++
			fid := core.FuncID(f)
			key := "C05.log/" + fid
			id := call.Call.Args[0]
			idChain := ownerChain(id)
			// the key ID itself handed back by a verdict helper: pt, keyID, ok := m.decryptWithAny(…)
			_, idFromHelper := guard.Strip(id).(*ssa.Extract)
			if len(idChain) < 2 && !idFromHelper {
				r.Bad("C05.log", key, p.Pos(ins.Pos()), "logged key ID is not read from a primitive/key-ID pair object ("+valName(id)+")")
				return
			}
			owners := idChain[1:] // drop the loaded value itself
			// find a dominating success fact of a call whose receiver/first argument shares an owner
			good := ""
			for _, fct := range guard.InstrFacts(ins) {
				ec, isNil, ok := guard.ErrNilFact(fct)
				if !ok || !isNil {
					continue
				}
				var recv ssa.Value
				if ec.Call.IsInvoke() {
					recv = ec.Call.Value
				} else if len(ec.Call.Args) > 0 {
					recv = ec.Call.Args[0]
				}
				if recv == nil {
					continue
				}
				for _, rc := range ownerChain(recv) {
					for _, o := range owners {
						if _, isParam := guard.Strip(o).(*ssa.Parameter); isParam {
							continue // the wrapper itself is not a pair object
						}
						if sameAddr(rc, o) {
							good = "key ID read from the object whose " + shortCalleeName(ec) + " succeeded"
						}
					}
				}
			}
			if good == "" {
				// the pair is handed back by a verdict helper: p, ok := m.verifyWithMatching(…); ok —
				// inside the helper every `return x, true` is dominated by the success of an
				// operation on that very x
				cands := owners
				if idFromHelper {
					cands = append([]ssa.Value{id}, owners...)
				}
				for _, o := range cands {
					ov := guard.Strip(o)
					// a struct value kept in a local: the one value stored into it
					if al, isAl := ov.(*ssa.Alloc); isAl {
						var stored ssa.Value
						nst := 0
						for _, ref := range *al.Referrers() {
							if st, isS := ref.(*ssa.Store); isS && st.Addr == ssa.Value(al) {
								stored = st.Val
								nst++
							}
						}
						if nst == 1 {
							ov = guard.Strip(stored)
						}
					}
					ex, isEx := ov.(*ssa.Extract)
					if !isEx {
						continue
					}
					hc, isCall := ex.Tuple.(*ssa.Call)
					if !isCall {
						continue
					}
					h := hc.Call.StaticCallee()
					if h == nil || h.Blocks == nil || h.Pkg != f.Pkg {
						continue
					}
					li := h.Signature.Results().Len() - 1
					okFact := false
					for _, fct := range guard.InstrFacts(ins) {
						if e2, isE2 := fct.Cond.(*ssa.Extract); isE2 && fct.True && e2.Tuple == ssa.Value(hc) && e2.Index == li {
							okFact = true
						}
					}
					if !okFact || li <= ex.Index {
						continue
					}
					all, some := true, false
					for _, ret := range guard.Returns(h) {
						if v, isC := guard.ConstBool(ret.Results[li]); isC && !v {
							continue
						}
						some = true
						paired := false
						for _, fct := range guard.BlockFacts(ret.Block()) {
							ec, isNil, okE := guard.ErrNilFact(fct)
							if !okE || !isNil {
								continue
							}
							var recv ssa.Value
							if ec.Call.IsInvoke() {
								recv = ec.Call.Value
							} else if len(ec.Call.Args) > 0 {
								recv = ec.Call.Args[0]
							}
							if recv == nil {
								continue
							}
							for _, rc := range ownerChain(recv) {
								for _, ro := range ownerChain(ret.Results[ex.Index]) {
									if sameAddr(rc, ro) {
										paired = true
									}
								}
							}
						}
						if !paired {
							all = false
						}
					}
					if all && some {
						good = "key ID read from the pair returned by " + h.Name() + " with ok == true, which returns only pairs whose operation succeeded"
					}
				}
			}
			if good == "" {
				// flat wrapper (one primitive, one key ID, both direct fields of the receiver): the
				// pairing is fixed at construction and checked there (C05.pairing)
				if directFieldOfParam(id) {
					for _, fct := range guard.InstrFacts(ins) {
						if ec, isNil, ok := guard.ErrNilFact(fct); ok && isNil {
							var recv ssa.Value
							if ec.Call.IsInvoke() {
								recv = ec.Call.Value
							} else if len(ec.Call.Args) > 0 {
								recv = ec.Call.Args[0]
							}
							if recv != nil && directFieldOfParam(recv) {
								good = "single-primitive wrapper: key ID and primitive are both direct fields of the receiver (paired at construction)"
							}
						}
					}
				}
			}
			r.Check(good != "", "C05.log", key, p.Pos(ins.Pos()), "the logged key ID does not come from the same pair object as the primitive whose success dominates the log call", good)
		})
	}
	r.Counts["log_sites"] = n
	r.Min("C05.log", 14)
}

// directFieldOfParam: v is a load of a field of the function's receiver
// parameter (x.f with x the first parameter).
func directFieldOfParam(v ssa.Value) bool {
	b, _, ok := guard.FieldOf(v)
	if !ok {
		return false
	}
	prm, isP := guard.Strip(b).(*ssa.Parameter)
	return isP && len(prm.Parent().Params) > 0 && prm.Parent().Params[0] == prm
}

func shortCalleeName(c *ssa.Call) string {
	n := guard.CalleeName(&c.Call)
	return n[strings.LastIndex(n, ".")+1:]
}

// ---------------------------------------------------------------- prefixmap

func c05PrefixMap(c *Ctx) {
	p, r := c.P, c.R
	nonRaw, ok := constOf(p, "core/cryptofmt", "NonRawPrefixSize")
	if !ok {
		r.AnchorMissing("C05.prefixmap", "cryptofmt.NonRawPrefixSize")
		return
	}
	var pm *ssa.Function
	for f := range p.Funcs {
		if strings.HasPrefix(f.Name(), "PrimitivesMatchingPrefix") && f.Blocks != nil && strings.Contains(core.PkgOf(f), "internal/prefixmap") {
			if pm == nil || core.FuncID(f) < core.FuncID(pm) {
				pm = f
			}
		}
	}
	if pm == nil {
		r.AnchorMissing("C05.prefixmap", "prefixmap.PrimitivesMatchingPrefix body")
		return
	}
	key := "C05.prefixmap/PrimitivesMatchingPrefix"
	// lookups of m.items
	var prefixed, raw bool
	why := ""
	allInstrs(pm, func(ins ssa.Instruction) {
		lk, ok := ins.(*ssa.Lookup)
		if !ok || !isLoadOfField(lk.X, "items") {
			return
		}
		if cst, isC := lk.Index.(*ssa.Const); isC && cst.Value != nil && cst.Value.ExactString() == `""` {
			// unconditional: block dominates every return
			all := true
			for _, ret := range guard.Returns(pm) {
				if !(lk.Block() == ret.Block() || lk.Block().Dominates(ret.Block())) {
					all = false
				}
			}
			raw = all
			if !all {
				why = "the prefix-less bucket is not consulted on every path"
			}
			return
		}
		// the prefixed key: string(prefix[:NonRawPrefixSize]) under len(prefix) >= NonRawPrefixSize,
		// computed here or by a helper of the package that hands back (key, ok)
		direct := func(fn *ssa.Function, prm ssa.Value, v ssa.Value, facts []guard.Fact) string {
			conv, isConv := guard.Strip(v).(*ssa.Convert)
			if !isConv {
				return "lookup key is not a conversion of a prefix slice"
			}
			sl, isSl := conv.X.(*ssa.Slice)
			if !isSl || guard.Strip(sl.X) != guard.Strip(prm) || sl.Low != nil {
				return "lookup key is not prefix[:NonRawPrefixSize]"
			}
			if !isConstEq(sl.High, nonRaw) {
				return "lookup key length is not NonRawPrefixSize"
			}
			cx := bounds.NewCtx(fn)
			nr, _ := constant.Int64Val(nonRaw)
			if ok, _ := cx.Entails(cx.FactsToLin(facts), cx.LenOf(prm).Add(bounds.Konst(nr), -1)); !ok {
				return "prefixed lookup is not guarded by len(prefix) >= NonRawPrefixSize"
			}
			return ""
		}
		if _, isConv := guard.Strip(lk.Index).(*ssa.Convert); isConv {
			if w := direct(pm, pm.Params[1], lk.Index, guard.InstrFacts(ins)); w != "" {
				why = w
			} else {
				prefixed = true
			}
			return
		}
		hc, hi := guard.CallOf(lk.Index)
		if hc == nil || hi != 0 || hc.Call.StaticCallee() == nil || hc.Call.StaticCallee().Blocks == nil || !strings.Contains(core.PkgOf(hc.Call.StaticCallee()), "internal/prefixmap") {
			why = "lookup key is neither the empty prefix nor string(prefix[:NonRawPrefixSize])"
			return
		}
		h := hc.Call.StaticCallee()
		argIdx := -1
		for i, a := range hc.Call.Args {
			if guard.Strip(a) == ssa.Value(pm.Params[1]) {
				argIdx = i
			}
		}
		// the lookup happens only under the helper's ok verdict
		guarded := false
		for _, fct := range guard.InstrFacts(ins) {
			if ex, isE := fct.Cond.(*ssa.Extract); isE && fct.True && ex.Index == 1 && ex.Tuple == ssa.Value(hc) {
				guarded = true
			}
		}
		if argIdx < 0 || !guarded || h.Signature.Results().Len() != 2 {
			why = "the helper computing the lookup key is not applied to the prefix under its ok verdict"
			return
		}
		okAll, some := true, false
		for _, ret := range guard.Returns(h) {
			if b, isC := guard.ConstBool(ret.Results[1]); isC && !b {
				continue // "no prefixed key" return
			}
			some = true
			if w := direct(h, h.Params[argIdx], ret.Results[0], guard.BlockFacts(ret.Block())); w != "" {
				okAll, why = false, w+" (in "+h.Name()+")"
			}
		}
		if okAll && some {
			prefixed = true
		}
	})
	if why == "" && (!prefixed || !raw) {
		why = "expected one guarded prefixed lookup and one unconditional lookup of the empty prefix"
	}
	r.Check(prefixed && raw && why == "", "C05.prefixmap", key, p.FuncPos(pm), why, "items[string(prefix[:5])] under len(prefix)>=5; items[\"\"] always")
	// Insert: stores under the given prefix, appending
	var insF *ssa.Function
	for f := range p.Funcs {
		if (f.Name() == "Insert" || strings.HasPrefix(f.Name(), "Insert[")) && f.Blocks != nil && strings.Contains(f.String(), "internal/prefixmap.PrefixMap[") {
			if insF == nil || core.FuncID(f) < core.FuncID(insF) {
				insF = f
			}
		}
	}
	if insF == nil {
		r.AnchorMissing("C05.prefixmap", "prefixmap.Insert body")
		return
	}
	okIns := false
	allInstrs(insF, func(ins ssa.Instruction) {
		mu, ok := ins.(*ssa.MapUpdate)
		if !ok || mu.Key != ssa.Value(insF.Params[1]) {
			return
		}
		if ac, _ := guard.CallOf(mu.Value); ac != nil {
			if b, isB := ac.Call.Value.(*ssa.Builtin); isB && b.Name() == "append" {
				if lk, isLk := ac.Call.Args[0].(*ssa.Lookup); isLk && lk.Index == ssa.Value(insF.Params[1]) {
					okIns = true
				}
			}
		}
	})
	r.Check(okIns, "C05.prefixmap", "C05.prefixmap/Insert", p.FuncPos(insF), "Insert does not append the primitive to the bucket of exactly the given prefix", "items[prefix] = append(items[prefix], primitive)")
}

// ---------------------------------------------------------------- accept

var acceptingOps = map[string]bool{"Decrypt": true, "DecryptDeterministically": true, "Verify": true, "VerifyMAC": true}

// derivedFromNext: v is (a copy / field / address of) a value returned by
// prefixmap.Iterator.Next.
func derivedFromNext(v ssa.Value, depth int) bool {
	return derivedFromNext1(v, map[ssa.Value]bool{})
}

func derivedFromNext1(v ssa.Value, seen map[ssa.Value]bool) bool {
	v = guard.Strip(v)
	if seen[v] {
		return true // on a cycle (loop-carried copy): decided by the other edges
	}
	seen[v] = true
	switch x := v.(type) {
	case *ssa.Extract:
		if c, ok := x.Tuple.(*ssa.Call); ok && x.Index == 0 {
			n := guard.CalleeName(&c.Call)
			return strings.Contains(n, "internal/prefixmap.Iterator[") && strings.Contains(n, ").Next")
		}
	case *ssa.Phi:
		for _, e := range x.Edges {
			if !derivedFromNext1(e, seen) {
				return false
			}
		}
		return len(x.Edges) > 0
	case *ssa.Alloc:
		n := 0
		for _, ref := range *x.Referrers() {
			if st, ok := ref.(*ssa.Store); ok && st.Addr == ssa.Value(x) {
				n++
				if !derivedFromNext1(st.Val, seen) {
					return false
				}
			}
		}
		return n > 0
	case *ssa.UnOp:
		if x.Op == token.MUL {
			return derivedFromNext1(x.X, seen)
		}
	case *ssa.FieldAddr:
		return derivedFromNext1(x.X, seen)
	case *ssa.Field:
		return derivedFromNext1(x.X, seen)
	}
	return false
}

func c05Accept(c *Ctx) {
	p, r := c.P, c.R
	n := 0
	for _, f := range p.SortedFuncs(core.Product) {
		if f.Signature.Recv() == nil || f.Synthetic != "" {
			continue
		}
		rt := core.NamedOf(f.Signature.Recv().Type())
		if rt == nil {
			continue
		}
		st, ok := rt.Underlying().(*types.Struct)
		if !ok {
			continue
		}
		var pairT *types.Named
		for i := 0; i < st.NumFields(); i++ {
			if ft := core.NamedOf(st.Field(i).Type()); ft != nil && ft.Obj().Pkg() != nil && strings.HasSuffix(ft.Obj().Pkg().Path(), "internal/prefixmap") && ft.Obj().Name() == "PrefixMap" && ft.TypeArgs().Len() == 1 {
				pairT = core.NamedOf(ft.TypeArgs().At(0))
			}
		}
		if pairT == nil {
			continue
		}
		fid := core.FuncID(f)
		allInstrs(f, func(ins ssa.Instruction) {
			call, ok := ins.(*ssa.Call)
			if !ok {
				return
			}
			callee := call.Call.StaticCallee()
			// accepting operations on the pair type
			if callee != nil && callee.Signature.Recv() != nil && core.NamedOf(callee.Signature.Recv().Type()) == pairT && acceptingOps[callee.Name()] {
				n++
				r.Check(derivedFromNext(call.Call.Args[0], 0), "C05.accept", fmt.Sprintf("C05.accept/%s/%s candidate", fid, callee.Name()), p.Pos(ins.Pos()),
					"an accepting operation is tried on a primitive that does not come from PrimitivesMatchingPrefix(input).Next() (e.g. the primary is tried without a prefix match)",
					"candidate is a value returned by Iterator.Next()")
				// every candidate is tried: the search loop is left only when the iterator is
				// exhausted or when this candidate accepted — never because a candidate failed
				var loop map[*ssa.BasicBlock]bool
				for _, h := range f.Blocks {
					isHeader := false
					for _, pr := range h.Preds {
						if h.Dominates(pr) {
							isHeader = true // a back edge
						}
					}
					if isHeader && h.Dominates(call.Block()) {
						if l := natLoop(h); l[call.Block()] && (loop == nil || len(l) < len(loop)) {
							loop = l
						}
					}
				}
				if loop != nil {
					bad := ""
					for b := range loop {
						for _, sx := range b.Succs {
							if loop[sx] {
								continue
							}
							okExit := false
							for _, fct := range edgeFactsInto(b, sx) {
								// iterator exhausted: ok of Next() is false
								if ex, isE := fct.Cond.(*ssa.Extract); isE && ex.Index == 1 && !fct.True {
									if nc, isC := ex.Tuple.(*ssa.Call); isC && strings.HasSuffix(guard.CalleeName(&nc.Call), ").Next") {
										okExit = true
									}
								}
								if ph, isPhi := fct.Cond.(*ssa.Phi); isPhi && !fct.True {
									for _, e := range ph.Edges {
										if ex, isE := e.(*ssa.Extract); isE && ex.Index == 1 {
											if nc, isC := ex.Tuple.(*ssa.Call); isC && strings.HasSuffix(guard.CalleeName(&nc.Call), ").Next") {
												okExit = true
											}
										}
									}
								}
								// this candidate accepted
								if ec, isNil, isErrFact := guard.ErrNilFact(fct); isErrFact && isNil && ec == call {
									okExit = true
								}
							}
							if !okExit {
								bad = fmt.Sprintf("block %d -> %d", b.Index, sx.Index)
								if os.Getenv("TV_DBG_ACC") != "" {
									for _, fct := range edgeFactsInto(b, sx) {
										fmt.Fprintf(os.Stderr, "ACC %s %d->%d fact %v %T true=%v\n", f.Name(), b.Index, sx.Index, fct.Cond, fct.Cond, fct.True)
									}
								}
							}
						}
					}
					r.Check(bad == "", "C05.accept", fmt.Sprintf("C05.accept/%s/%s tries every candidate", fid, callee.Name()), p.Pos(ins.Pos()),
						"the search over the matching primitives can end (at "+bad+") although the iterator is not exhausted and no candidate accepted: a later key of the keyset that would accept the input is never tried", "the loop is left only on exhaustion or acceptance")
				}
			}
			// lookup argument
			if nme := guard.CalleeName(&call.Call); strings.Contains(nme, "internal/prefixmap.PrefixMap[") && strings.Contains(nme, ").PrimitivesMatchingPrefix") {
				var validKey func(arg ssa.Value, d int) bool
				validKey = func(arg ssa.Value, d int) bool {
					arg = guard.Strip(arg)
					if guard.IsNilConst(arg) {
						return true // prefix-less candidates only
					}
					if sl, isSl := arg.(*ssa.Slice); isSl && sl.Low == nil {
						arg = guard.Strip(sl.X)
					}
					if prm, isP := arg.(*ssa.Parameter); isP && len(f.Params) > 1 && prm == f.Params[1] {
						return true
					}
					if d < 2 {
						// element of a local literal: for _, prefix := range [][]byte{input[:n], nil}
						if elems, _, isLit := literalElements(arg); isLit && len(elems) > 0 {
							for _, e := range elems {
								if !validKey(e, d+1) {
									return false
								}
							}
							return true
						}
						if ph, isPhi := arg.(*ssa.Phi); isPhi {
							for _, e := range ph.Edges {
								if !validKey(e, d+1) {
									return false
								}
							}
							return true
						}
					}
					return false
				}
				okArg := validKey(call.Call.Args[1], 0)
				r.Check(okArg, "C05.accept", fmt.Sprintf("C05.accept/%s/lookup key", fid), p.Pos(ins.Pos()),
					"candidates are looked up under something other than the (leading bytes of the) input", "PrimitivesMatchingPrefix(input) / input[:n] / nil")
			}
		})
	}
	r.Counts["accepting_calls"] = n
	r.Min("C05.accept", 10)
}
