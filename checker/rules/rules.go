// Package rules holds one file per property; each instantiates the engines and
// lists obligations.
package rules

import (
	"sync"

	"tinkverif/core"
	"tinkverif/effects"
)

// Ctx is what a rule sees.
type Ctx struct {
	P    *core.Program
	R    *core.Report
	Tier string
	eff  *effects.Analysis
	once sync.Once
}

// Eff returns the (lazily computed) effect analysis.
func (c *Ctx) Eff() *effects.Analysis {
	c.once.Do(func() { c.eff = effects.Run(c.P) })
	return c.eff
}

// Rule is a property check.
type Rule func(c *Ctx)

// Registry maps property ids to rules.
var Registry = map[string]Rule{}
