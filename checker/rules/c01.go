package rules

import (
	"fmt"
	"go/constant"
	"go/token"
	"go/types"
	"strings"

	"golang.org/x/tools/go/ssa"

	"tinkverif/consteval"
	"tinkverif/core"
	"tinkverif/guard"
)

func init() { Registry["C01"] = c01 }

// C01 as a whole (round trip and equality with independent implementations of
// the standard algorithms) quantifies over cipher arithmetic and is NOT
// decided. Decided are three structural necessary conditions of it.
func c01(c *Ctx) {
	c.R.Explanation = "C01's round-trip equality and interoperability with independent AES-GCM/CTR-HMAC/ChaCha20-Poly1305/GCM-SIV/XAES implementations quantify over cipher arithmetic and are NOT decided. Decided are structural necessary conditions: " +
		"(envelope) the KMS envelope serializer and parser accept exactly the same encrypted-DEK lengths — both size guards are folded by constant propagation at 0, 1, 2, 4095, 4096, 4097 and 2^20 bytes and their verdicts compared, so a ciphertext Encrypt can produce is never refused by Decrypt for its DEK length (and vice versa); both use a 4-byte big-endian length field; " +
		"(sizes) the IV/nonce and tag size constants of AES-GCM (12/16), AES-GCM-SIV (12/16), XAES-256-GCM (12/16) and the minimum AES-CTR IV size (12) equal the standard values, and the HMAC minimum tag size of AES-CTR-HMAC is 10; " +
		"(lenwidth, shared with C02) the associated-data bit length of encrypt-then-MAC is computed in 64 bits before any multiplication and written as 8 big-endian bytes. " +
		"Caller-buffer effects of Encrypt/Decrypt are decided under C19, nonce freshness under C20, tag checks and framing of Decrypt under C02."
	c01Envelope(c)
	c01Sizes(c)
	narrowingRule(c, "C01.lenwidth", map[string]bool{"aead/aesctrhmac": true, "aead/subtle": true, "internal/aead": true}, 0)
	c01Suffix(c)
}

// c01Suffix: the associated-data length suffix of encrypt-then-MAC, by value.
// Every helper of the two packages that maps a byte slice (or a uint64) to a
// fresh 8-byte buffer is folded on constant arguments (engine E, byte-buffer
// domain): a 3-byte associated data gives be64(24); 0x0102030405060708 gives
// those eight bytes big-endian.
func c01Suffix(c *Ctx) {
	p, r := c.P, c.R
	n := 0
	for _, rel := range []string{"aead/aesctrhmac", "aead/subtle"} {
		for _, f := range pkgFuncs(p, rel) {
			sig := f.Signature
			if f.Parent() != nil || sig.Recv() != nil || sig.Params().Len() != 1 || sig.Results().Len() != 1 || !core.IsByteSlice(sig.Results().At(0).Type()) {
				continue
			}
			key := fmt.Sprintf("C01.lenwidth/%s/value", core.FuncID(f))
			switch {
			case core.IsByteSlice(sig.Params().At(0).Type()) && strings.Contains(strings.ToLower(f.Name()), "bits"):
				if layoutCheck(c, "C01.lenwidth", key, f, 0, []byte{0, 0, 0, 0, 0, 0, 0, 24}, "be64(8*len(associatedData)) for 3 bytes of associated data", consteval.BytesVal([]byte{1, 2, 3})) {
					n++
				}
			case isUint64(sig.Params().At(0).Type()):
				if layoutCheck(c, "C01.lenwidth", key, f, 0, []byte{1, 2, 3, 4, 5, 6, 7, 8}, "be64(0x0102030405060708)", consteval.Val{K: consteval.Const, C: constant.MakeUint64(0x0102030405060708)}) {
					n++
				}
			}
		}
	}
	r.Counts["length_suffix_helpers_folded"] = n
}

func isUint64(t types.Type) bool {
	b, ok := t.Underlying().(*types.Basic)
	return ok && b.Kind() == types.Uint64
}

func c01Envelope(c *Ctx) {
	p, r := c.P, c.R
	var ser, par *ssa.Function
	var serDEK ssa.Value
	var parLen *ssa.Call
	var parCT ssa.Value
	isBytesParam := func(f *ssa.Function, v ssa.Value) bool {
		prm, ok := guard.Strip(v).(*ssa.Parameter)
		return ok && prm.Parent() == f && core.IsByteSlice(prm.Type())
	}
	for _, f := range pkgFuncs(p, "aead") {
		allInstrs(f, func(ins ssa.Instruction) {
			call, ok := ins.(*ssa.Call)
			if !ok {
				return
			}
			n := guard.CalleeName(&call.Call)
			switch {
			case strings.HasSuffix(n, "bigEndian).AppendUint32") || strings.HasSuffix(n, "bigEndian).PutUint32"):
				// value = uint32(len(param))
				v := call.Call.Args[len(call.Call.Args)-1]
				for {
					cv, isC := v.(*ssa.Convert)
					if !isC {
						break
					}
					v = cv.X
				}
				if lc, isL := v.(*ssa.Call); isL {
					if b, isB := lc.Call.Value.(*ssa.Builtin); isB && b.Name() == "len" && isBytesParam(f, lc.Call.Args[0]) {
						ser, serDEK = f, guard.Strip(lc.Call.Args[0])
					}
				}
			case strings.HasSuffix(n, "bigEndian).Uint32"):
				if sl, isS := guard.Strip(call.Call.Args[len(call.Call.Args)-1]).(*ssa.Slice); isS && isBytesParam(f, sl.X) {
					par, parLen, parCT = f, call, guard.Strip(sl.X)
				}
			}
		})
	}
	if ser == nil || par == nil {
		r.AnchorMissing("C01.envelope", "the length-prefix writer (AppendUint32/PutUint32 of len(encryptedDEK)) and reader (Uint32 of the ciphertext head) of the KMS envelope in package aead")
		return
	}
	// the size guard of the serializer may sit in the function that calls the
	// length-prefix writer: walk up while the DEK is handed down as a parameter
	serChain := []ssa.Value{serDEK}
	for depth := 0; depth < 2; depth++ {
		var up *ssa.Function
		var upParam ssa.Value
		n := 0
		for _, site := range p.Callers(ser) {
			if site.Common().StaticCallee() != ser {
				continue
			}
			idx := -1
			for i, q := range ser.Params {
				if ssa.Value(q) == serDEK {
					idx = i
				}
			}
			if idx < 0 || idx >= len(site.Common().Args) {
				continue
			}
			if prm, isP := guard.Strip(site.Common().Args[idx]).(*ssa.Parameter); isP && core.IsByteSlice(prm.Type()) {
				up, upParam = site.Parent(), prm
				n++
			}
		}
		if n != 1 || up == nil || up.Pkg != ser.Pkg {
			break
		}
		ser, serDEK = up, upParam
		serChain = append(serChain, upParam)
	}
	ev := consteval.New()
	verdict := func(f *ssa.Function, env consteval.Env) (accepts, ok bool) {
		for _, prm := range f.Params {
			if _, bound := env[prm]; !bound {
				env[prm] = consteval.Val{K: consteval.Ref}
			}
		}
		outs, ok := ev.Eval(f, nil, env)
		if !ok || len(outs) == 0 {
			return false, false
		}
		for _, o := range outs {
			if !(o.IsErr() || guard.DefinitelyFails(o.Ret)) {
				accepts = true
			}
		}
		return accepts, true
	}
	bad := ""
	var table []string
	for _, L := range []int64{0, 1, 2, 4095, 4096, 4097, 1 << 20} {
		senv := consteval.Env{}
		for _, v := range serChain {
			senv[consteval.LenKey(v)] = consteval.C(L)
		}
		sAcc, ok1 := verdict(ser, senv)
		pAcc, ok2 := verdict(par, consteval.Env{ssa.Value(parLen): consteval.Val{K: consteval.Const, C: constant.MakeInt64(L)}, consteval.LenKey(parCT): consteval.C(L + 4 + 64)})
		if !ok1 || !ok2 {
			r.Unknown("C01.envelope", "C01.envelope/DEK length window", p.FuncPos(par), "cannot fold the size guards of the envelope serializer/parser")
			return
		}
		table = append(table, fmt.Sprintf("%d:%v/%v", L, sAcc, pAcc))
		if sAcc != pAcc {
			bad = fmt.Sprintf("an encrypted DEK of %d bytes: serializer (%s) accepts=%v, parser (%s) accepts=%v — Encrypt and Decrypt of the envelope AEAD disagree on this length", L, core.FuncID(ser), sAcc, core.FuncID(par), pAcc)
		}
	}
	r.Check(bad == "", "C01.envelope", "C01.envelope/DEK length window", p.FuncPos(par), bad, "serializer/parser verdicts per DEK length: "+strings.Join(table, " "))
}

func c01Sizes(c *Ctx) {
	p, r := c.P, c.R
	want := []struct {
		pkg, name string
		val       int64
		why       string
	}{
		{"aead/aesgcm", "ivSize", 12, "AES-GCM IV (NIST SP 800-38D, 96 bits)"},
		{"aead/aesgcm", "tagSize", 16, "AES-GCM tag"},
		{"internal/aead", "AESGCMIVSize", 12, "AES-GCM IV"},
		{"internal/aead", "AESGCMTagSize", 16, "AES-GCM tag"},
		{"aead/subtle", "AESGCMIVSize", 12, "AES-GCM IV"},
		{"aead/subtle", "AESGCMTagSize", 16, "AES-GCM tag"},
		{"internal/aead", "AESGCMSIVNonceSize", 12, "AES-GCM-SIV nonce (RFC 8452)"},
		{"internal/aead", "AESGCMSIVTagSize", 16, "AES-GCM-SIV tag (RFC 8452)"},
		{"aead/xaesgcm", "ivSize", 12, "XAES-256-GCM inner IV"},
		{"aead/xaesgcm", "tagSize", 16, "XAES-256-GCM tag"},
		{"aead/aesctrhmac", "minTagSize", 10, "minimum HMAC tag"},
	}
	n := 0
	for _, w := range want {
		v, ok := constOf(p, w.pkg, w.name)
		if !ok {
			r.Outside("C01.sizes", "C01.sizes/"+w.pkg+"."+w.name, "-", "constant no longer declared under this name")
			continue
		}
		n++
		r.Check(constant.Compare(v, token.EQL, constant.MakeInt64(w.val)), "C01.sizes", "C01.sizes/"+w.pkg+"."+w.name, "-",
			fmt.Sprintf("%s.%s = %s, the standard value is %d (%s)", w.pkg, w.name, v.ExactString(), w.val, w.why), fmt.Sprintf("= %d (%s)", w.val, w.why))
	}
	if n < 4 {
		r.AnchorMissing("C01.sizes", fmt.Sprintf("AEAD size constants (found %d of %d)", n, len(want)))
	}
}
