package rules

import (
	"fmt"
	"go/constant"
	"go/token"
	"go/types"
	"strings"

	"golang.org/x/tools/go/ssa"

	"tinkverif/bounds"
	"tinkverif/core"
	"tinkverif/guard"
)

// ---------------------------------------------------------------- C07.buffered
//
// The stream writer emits every byte it buffered: the plaintext handed to the
// segment encrypter is the internal buffer from offset 0 (to the segment limit
// in Write, to plaintextPos in Close). A segment taken straight from the
// caller's slice is accepted only where the buffer is known to be empty
// (a dominating plaintextPos == 0 on that arm).
func c07Buffered(c *Ctx) {
	p, r := c.P, c.R
	n := 0
	writerMethods := methodsOf(p, "streamingaead/subtle/noncebased", "Writer")
	for _, m := range writerMethods {
		if len(m.Params) == 0 {
			continue
		}
		_ = m.Params[0]
		allInstrs(m, func(ins ssa.Instruction) {
			call, ok := ins.(*ssa.Call)
			if !ok || !call.Call.IsInvoke() {
				return
			}
			var seg ssa.Value
			switch call.Call.Method.Name() {
			case "EncryptSegment":
				seg = call.Call.Args[0]
			case "EncryptSegmentWithDst":
				seg = call.Call.Args[1]
			default:
				return
			}
			n++
			key := fmt.Sprintf("C07.buffered/%s/%s#%d", core.FuncID(m), call.Call.Method.Name(), n)
			bad := ""
			var visit func(v ssa.Value, from *ssa.BasicBlock, seen map[ssa.Value]bool, ctx *ssa.Function, at *ssa.BasicBlock)
			visit = func(v ssa.Value, from *ssa.BasicBlock, seen map[ssa.Value]bool, ctx *ssa.Function, at *ssa.BasicBlock) {
				if seen[v] {
					return
				}
				seen[v] = true
				switch x := v.(type) {
				case *ssa.Phi:
					for i, e := range x.Edges {
						visit(e, x.Block().Preds[i], seen, ctx, at)
					}
					return
				case *ssa.Parameter:
					// a helper's parameter: the segment is whatever the Writer's methods pass
					idx := -1
					for i, q := range ctx.Params {
						if q == x {
							idx = i
						}
					}
					nCalls := 0
					for _, caller := range writerMethods {
						allInstrs(caller, func(ins ssa.Instruction) {
							if c2, isC := ins.(*ssa.Call); isC && c2.Call.StaticCallee() == ctx && idx >= 0 && idx < len(c2.Call.Args) {
								nCalls++
								visit(c2.Call.Args[idx], nil, map[ssa.Value]bool{}, caller, c2.Block())
							}
						})
					}
					if nCalls > 0 && ctx.Object() != nil && !ctx.Object().Exported() {
						return
					}
				case *ssa.Slice:
					if base, fld, isF := guard.FieldOf(x.X); isF && fld == "plaintext" && len(ctx.Params) > 0 && guard.Strip(base) == ssa.Value(ctx.Params[0]) {
						if x.Low != nil {
							if k, isK := guard.ConstInt(x.Low); !isK || k != 0 {
								bad = "the segment does not start at offset 0 of the writer's buffer: buffered bytes before it are never emitted"
							}
						}
						if ctx.Name() == "Close" {
							_, hf, isHF := guard.FieldOf(x.High)
							if x.High == nil || !isHF || hf != "plaintextPos" {
								bad = "Close does not emit exactly the buffered bytes plaintext[:plaintextPos]"
							}
						}
						return
					}
				}
				// not the internal buffer: only where the buffer is known to be empty
				blk := from
				if blk == nil {
					blk = at
				}
				empty := false
				for _, fct := range guard.BlockFacts(blk) {
					if op, a, b, isC := guard.Cmp(fct); isC && op == token.EQL {
						for _, pr := range [][2]ssa.Value{{a, b}, {b, a}} {
							if _, fld, isF := guard.FieldOf(pr[0]); isF && fld == "plaintextPos" {
								if k, isK := guard.ConstInt(pr[1]); isK && k == 0 {
									empty = true
								}
							}
						}
					}
				}
				if !empty {
					bad = fmt.Sprintf("the segment handed to the encrypter (%s) is not the writer's buffer and the buffer is not known to be empty there: bytes buffered by earlier Write calls are lost", valName(v))
				}
			}
			visit(seg, nil, map[ssa.Value]bool{}, m, call.Block())
			r.Check(bad == "", "C07.buffered", key, p.Pos(call.Pos()), bad, "segment = w.plaintext[0:…] (or caller memory under plaintextPos == 0)")
		})
	}
	r.Min("C07.buffered", 2)
}

// ---------------------------------------------------------------- C10.counter
//
// FIPS 204 Algorithm 34 (ExpandMask): polynomial r of the mask is sampled from
// rho” || IntegerToBytes(mu + r, 2). Both bytes following rho” in the SHAKE
// input of expandMask must be bytes of the same sum (counter parameter + loop
// index): the low byte and the byte shifted down by 8. The high byte is only
// non-zero after dozens of rejections, which no test reaches.
func c10Counter(c *Ctx) {
	p, r := c.P, c.R
	var f *ssa.Function
	for _, m := range methodsOf(p, "internal/signature/mldsa", "params") {
		if m.Name() == "expandMask" {
			f = m
		}
	}
	if f == nil || len(f.Params) < 3 {
		r.AnchorMissing("C10.counter", "(*mldsa.params).expandMask(rho, mu)")
		return
	}
	mu := f.Params[2]
	// sumOfMuAndIndex: v is an ADD tree whose leaves are exactly mu and one loop-carried value
	var leaves func(v ssa.Value, out *[]ssa.Value)
	leaves = func(v ssa.Value, out *[]ssa.Value) {
		v = guard.Strip(v)
		if b, ok := v.(*ssa.BinOp); ok && b.Op == token.ADD {
			leaves(b.X, out)
			leaves(b.Y, out)
			return
		}
		if cv, ok := v.(*ssa.Convert); ok {
			leaves(cv.X, out)
			return
		}
		*out = append(*out, v)
	}
	isSum := func(v ssa.Value) bool {
		var ls []ssa.Value
		leaves(v, &ls)
		if len(ls) != 2 {
			return false
		}
		nMu, nIdx := 0, 0
		for _, l := range ls {
			if l == ssa.Value(mu) {
				nMu++
			} else if ph, ok := l.(*ssa.Phi); ok && inCycle(ph.Block()) {
				nIdx++
			}
		}
		return nMu == 1 && nIdx == 1
	}
	// classify the value stored: low byte / high byte of a sum
	classify := func(v ssa.Value) (kind string, ok bool) {
		for {
			if cv, isC := v.(*ssa.Convert); isC {
				v = cv.X
				continue
			}
			break
		}
		if b, isB := v.(*ssa.BinOp); isB {
			switch b.Op {
			case token.AND:
				if k, isK := guard.ConstInt(b.Y); isK && k == 0xFF {
					return "low", isSum(b.X)
				}
			case token.SHR:
				if k, isK := guard.ConstInt(b.Y); isK && k == 8 {
					// the shifted value may itself be masked afterwards
					return "high", isSum(b.X)
				}
			case token.ADD:
				return "low", isSum(b)
			}
		}
		return "?", false
	}
	found := map[int64]string{}
	okAll := true
	detail := ""
	record := func(idx int64, kind string, ok bool, pos token.Pos) {
		found[idx] = kind
		if !ok {
			okAll = false
			detail = fmt.Sprintf("byte %d of the SHAKE input is not a byte of (mu + polynomial index) at %s", idx, p.Pos(pos))
		}
	}
	allInstrs(f, func(ins ssa.Instruction) {
		switch x := ins.(type) {
		case *ssa.Store:
			ia, ok := x.Addr.(*ssa.IndexAddr)
			if !ok {
				return
			}
			al, isA := ia.X.(*ssa.Alloc)
			if !isA {
				return
			}
			at, isArr := al.Type().(*types.Pointer).Elem().Underlying().(*types.Array)
			if !isArr || at.Len() != 66 {
				return
			}
			idx, isK := guard.ConstInt(ia.Index)
			if !isK || idx < 64 {
				return
			}
			kind, ok2 := classify(x.Val)
			record(idx, kind, ok2, x.Pos())
		case *ssa.Call:
			// binary.LittleEndian.PutUint16(rhop[64:], uint16(mu+i))
			if strings.HasSuffix(guard.CalleeName(&x.Call), "littleEndian).PutUint16") && len(x.Call.Args) >= 3 {
				ok2 := isSum(x.Call.Args[2])
				record(64, "low", ok2, x.Pos())
				record(65, "high", ok2, x.Pos())
			}
		}
	})
	key := "C10.counter/expandMask"
	if found[64] == "" || found[65] == "" {
		r.Unknown("C10.counter", key, p.FuncPos(f), "the two counter bytes of the SHAKE input (array of 66 bytes, offsets 64 and 65) were not found in a recognised form (two byte stores or LittleEndian.PutUint16)")
		return
	}
	if okAll && (found[64] != "low" || found[65] != "high") {
		okAll = false
		detail = fmt.Sprintf("offset 64 holds the %s byte and offset 65 the %s byte; FIPS 204 IntegerToBytes is little-endian", found[64], found[65])
	}
	r.Check(okAll, "C10.counter", key, p.FuncPos(f), detail, "SHAKE input = rho'' || low byte(mu+i) || high byte(mu+i)")
}

// ---------------------------------------------------------------- C12.canonical
//
// Normal-form agreement between parser and constructor: where a parser hands a
// constructor the canonical big-endian form of an integer ((*big.Int).Bytes()),
// the constructor must store that canonical form too, and not the caller's
// bytes verbatim — otherwise a key built from bytes with leading zeros
// serializes with them and parses back to a different (not Equal) key.
func c12Canonical(c *Ctx) {
	p, r := c.P, c.R
	isBigBytes := func(v ssa.Value) bool {
		call, _ := guard.CallOf(guard.Strip(v))
		return call != nil && guard.CalleeName(&call.Call) == "(*math/big.Int).Bytes"
	}
	type target struct {
		ctor *ssa.Function
		idx  int
	}
	canon := map[target][]string{}
	for _, f := range p.SortedFuncs(core.Product) {
		if f.Synthetic != "" {
			continue
		}
		allInstrs(f, func(ins ssa.Instruction) {
			call, ok := ins.(*ssa.Call)
			if !ok {
				return
			}
			callee := call.Call.StaticCallee()
			if callee == nil || callee.Pkg != f.Pkg || !strings.HasPrefix(callee.Name(), "New") || callee == f {
				return
			}
			for i, a := range call.Call.Args {
				if core.IsByteSlice(a.Type()) && isBigBytes(a) {
					t := target{callee, i}
					canon[t] = append(canon[t], p.Pos(call.Pos()))
				}
			}
		})
	}
	n := 0
	for _, f := range p.SortedFuncs(core.Product) {
		for i := range f.Params {
			sites, ok := canon[target{f, i}]
			if !ok {
				continue
			}
			n++
			prm := f.Params[i]
			key := fmt.Sprintf("C12.canonical/%s/%s", core.FuncID(f), prm.Name())
			bad := ""
			verbatim := func(v ssa.Value) bool {
				v = guard.Strip(v)
				if v == ssa.Value(prm) {
					return true
				}
				if sl, isS := v.(*ssa.Slice); isS && guard.Strip(sl.X) == ssa.Value(prm) {
					return true
				}
				if call, _ := guard.CallOf(v); call != nil {
					switch guard.CalleeName(&call.Call) {
					case "bytes.Clone", "slices.Clone":
						return len(call.Call.Args) > 0 && guard.Strip(call.Call.Args[0]) == ssa.Value(prm)
					case "append":
						for _, a := range call.Call.Args {
							if guard.Strip(a) == ssa.Value(prm) {
								return true
							}
						}
					}
				}
				return false
			}
			allInstrs(f, func(ins ssa.Instruction) {
				if st, isS := ins.(*ssa.Store); isS {
					if _, isFA := st.Addr.(*ssa.FieldAddr); isFA && core.IsByteSlice(st.Val.Type()) && verbatim(st.Val) {
						bad = p.Pos(st.Pos())
					}
				}
			})
			r.Check(bad == "", "C12.canonical", key, p.FuncPos(f),
				fmt.Sprintf("stores the caller's bytes verbatim (at %s) while the parser hands it the canonical (*big.Int).Bytes() form (%s): a key built from bytes with leading zeros is not Equal to its own parse(serialize())", bad, strings.Join(sites, ", ")),
				fmt.Sprintf("the constructor stores no verbatim copy of %s; parser call sites handing it the canonical form: %d", prm.Name(), len(sites)))
		}
	}
	if n < 2 {
		r.AnchorMissing("C12.canonical", fmt.Sprintf("constructors receiving (*big.Int).Bytes() from their parser (found %d, expected the RSA-SSA-PKCS1 and RSA-SSA-PSS public key constructors)", n))
	}
}

// ---------------------------------------------------------------- C07.fullread
//
// A bare r.Read(buf) may return fewer bytes than len(buf) without an error
// (io.Reader contract). In the streaming packages every Read on an underlying
// reader either has its count used, or its results forwarded unchanged to the
// caller; a read whose count is thrown away treats a short read as a full one.
func c07FullRead(c *Ctx) {
	p, r := c.P, c.R
	n := 0
	for _, f := range p.SortedFuncs(core.Product) {
		if !isStreamPkg(core.Rel(core.PkgOf(f))) {
			continue
		}
		allInstrs(f, func(ins ssa.Instruction) {
			call, ok := ins.(*ssa.Call)
			if !ok || !call.Call.IsInvoke() || call.Call.Method.Name() != "Read" || call.Call.Method.Pkg() == nil || call.Call.Method.Pkg().Path() != "io" {
				return
			}
			n++
			key := fmt.Sprintf("C07.fullread/%s#%d", core.FuncID(f), n)
			used := false
			for _, ref := range *call.Referrers() {
				switch x := ref.(type) {
				case *ssa.Extract:
					if x.Index == 0 && len(*x.Referrers()) > 0 {
						used = true
					}
				case *ssa.Return:
					used = true // results forwarded as they are
				}
			}
			r.Check(used, "C07.fullread", key, p.Pos(call.Pos()), "the byte count of a Read on the underlying reader is discarded: a short read (allowed by io.Reader without an error) is treated as if the buffer had been filled — use io.ReadFull or the count", "count used or forwarded")
		})
	}
	if n == 0 {
		r.Outside("C07.fullread", "C07.fullread/none", "-", "no direct io.Reader.Read call in the streaming packages")
	}
}

// ---------------------------------------------------------------- C07.replay
//
// The keyset-level reader tries each key on a replaying wrapper of the source.
// Everything the wrapper reads from the source while replay is enabled must go
// into the replay buffer — including bytes that arrive together with an error
// (io.Reader may return n > 0 and io.EOF at once): every return after the
// underlying read is either under disabled == true or dominated by the append
// of buf[:n].
func c07Replay(c *Ctx) {
	p, r := c.P, c.R
	var rd *ssa.Function
	for _, f := range pkgFuncs(p, "streamingaead") {
		if f.Name() == "unread" && f.Signature.Recv() != nil {
			rd = p.MethodOf(f.Signature.Recv().Type(), "Read")
		}
	}
	if rd == nil {
		r.Outside("C07.replay", "C07.replay/none", "-", "no type with an unread() method in package streamingaead")
		return
	}
	var src *ssa.Call
	allInstrs(rd, func(ins ssa.Instruction) {
		if call, ok := ins.(*ssa.Call); ok && call.Call.IsInvoke() && call.Call.Method.Name() == "Read" {
			src = call
		}
	})
	key := "C07.replay/" + core.FuncID(rd)
	if src == nil {
		r.Outside("C07.replay", key, p.FuncPos(rd), "no read of the underlying source in this method")
		return
	}
	// appends of buf[:n] (n the count of that read) to the replay buffer
	var recs []*ssa.BasicBlock
	allInstrs(rd, func(ins ssa.Instruction) {
		call, ok := ins.(*ssa.Call)
		if !ok {
			return
		}
		b, isB := call.Call.Value.(*ssa.Builtin)
		if !isB || b.Name() != "append" || len(call.Call.Args) != 2 {
			return
		}
		sl, isSl := guard.Strip(call.Call.Args[1]).(*ssa.Slice)
		if !isSl || guard.Strip(sl.X) != ssa.Value(rd.Params[1]) || sl.High == nil {
			return
		}
		if ex, isEx := guard.Strip(sl.High).(*ssa.Extract); !isEx || ex.Tuple != ssa.Value(src) || ex.Index != 0 {
			return
		}
		recs = append(recs, call.Block())
	})
	bad := ""
	for _, ret := range guard.Returns(rd) {
		if !guard.Reaches(src, ret) {
			continue
		}
		paths, okP := guard.PathsTo(ret.Block(), 5000)
		if !okP {
			bad = p.Pos(ret.Pos()) + " (too many paths)"
			continue
		}
		for _, pa := range paths {
			if !pa.Has(src.Block()) {
				continue
			}
			ok := false
			for _, rb := range recs {
				if pa.Has(rb) {
					ok = true
				}
			}
			for _, fct := range pa.Facts {
				if _, fld, isF := guard.FieldOf(fct.Cond); isF && fld == "disabled" && fct.True {
					ok = true
				}
			}
			if !ok {
				bad = p.Pos(ret.Pos())
			}
		}
	}
	r.Check(bad == "" && len(recs) > 0, "C07.replay", key, p.FuncPos(rd), "a return after reading from the source (at "+bad+") is reached without the bytes read having been appended to the replay buffer while replay is enabled: bytes delivered together with an error are lost for the next candidate key", "every return after the read: disabled, or buf[:n] recorded")
}

// ---------------------------------------------------------------- idzero
//
// Key IDs are arbitrary 32-bit values: 0 is a legal key ID (a manager hands it
// out with probability 2^-32, WithFixedID(0) and keys with ID requirement 0
// produce it deterministically). A comparison of a key ID with the constant 0
// uses 0 as an "absent" sentinel and makes the key with ID 0 behave differently
// from every other key. (ID *requirements*, where 0 does mean "none", are other
// values and are not touched by this rule.)
func isKeyIDValue(v ssa.Value, depth int) bool {
	if depth > 4 {
		return false
	}
	v = guard.Strip(v)
	switch x := v.(type) {
	case *ssa.Phi:
		for _, e := range x.Edges {
			if _, isC := e.(*ssa.Const); isC {
				continue
			}
			if isKeyIDValue(e, depth+1) {
				return true
			}
		}
		return false
	case *ssa.Extract:
		if call, ok := x.Tuple.(*ssa.Call); ok {
			return keyIDCall(call, x.Index, depth)
		}
		return false
	case *ssa.Call:
		return keyIDCall(x, 0, depth)
	case *ssa.UnOp:
		if x.Op == token.MUL {
			if b, fld, ok := guard.FieldOf(x); ok {
				tn := core.TypeID(b.Type())
				switch fld {
				case "KeyId", "PrimaryKeyId":
					return strings.Contains(tn, "tink_go_proto")
				case "keyID", "fixedID":
					return strings.HasPrefix(tn, "keyset.") || strings.HasSuffix(tn, "AndKeyID") || strings.Contains(tn, "KeyID")
				}
			}
		}
	}
	return false
}

func keyIDCall(call *ssa.Call, idx, depth int) bool {
	n := guard.CalleeName(&call.Call)
	switch {
	case strings.HasSuffix(n, "keyset.Entry).KeyID"), strings.HasSuffix(n, ").GetKeyId"), strings.HasSuffix(n, ").GetPrimaryKeyId"):
		return true
	}
	g := call.Call.StaticCallee()
	if g == nil || g.Blocks == nil || core.FuncClass(g) != core.Product || depth > 2 {
		return false
	}
	for _, ret := range guard.Returns(g) {
		if idx < len(ret.Results) && isKeyIDValue(ret.Results[idx], depth+1) {
			return true
		}
	}
	return false
}

func idZeroRule(c *Ctx, rule string, inScope func(rel string) bool) {
	p, r := c.P, c.R
	n := 0
	for _, f := range p.SortedFuncs(core.Product) {
		if !inScope(core.Rel(core.PkgOf(f))) {
			continue
		}
		allInstrs(f, func(ins ssa.Instruction) {
			cmp, ok := ins.(*ssa.BinOp)
			if !ok || !(cmp.Op == token.EQL || cmp.Op == token.NEQ) {
				return
			}
			for _, pr := range [][2]ssa.Value{{cmp.X, cmp.Y}, {cmp.Y, cmp.X}} {
				k, isK := guard.ConstInt(pr[1])
				if !isK || k != 0 {
					continue
				}
				if bt, isB := pr[0].Type().Underlying().(*types.Basic); !isB || bt.Kind() != types.Uint32 {
					continue
				}
				if isKeyIDValue(pr[0], 0) {
					n++
					r.Bad(rule, fmt.Sprintf("%s/%s/%s compared with 0", rule, core.FuncID(f), valName(pr[0])), p.Pos(cmp.Pos()),
						"a key ID is compared with the constant 0 (used as an 'absent' sentinel): 0 is a legal key ID, so the key with ID 0 is treated differently from every other key")
				}
			}
		})
	}
	r.Counts["key_id_zero_comparisons"] = n
	if n == 0 {
		r.Ok(rule, rule+"/none", "-", "no key ID value is compared with the constant 0")
	}
}

// ---------------------------------------------------------------- C12.fieldcopy
//
// Where a serializer fills a proto field straight from a getter of another
// proto message, the two fields are the same field (KeySize from GetKeySize):
// a copy between fields of different names (KeySize from GetDerivedKeySize)
// writes one quantity where the parser reads another.
func c12FieldCopy(c *Ctx) {
	p, r := c.P, c.R
	n := 0
	for _, f := range p.SortedFuncs(core.Product) {
		allInstrs(f, func(ins ssa.Instruction) {
			base, fld, val, ok := guard.StoreField(ins)
			if !ok {
				return
			}
			bn := core.NamedOf(base.Type())
			if pt, isP := base.Type().Underlying().(*types.Pointer); isP {
				bn = core.NamedOf(pt.Elem())
			}
			if bn == nil || bn.Obj().Pkg() == nil || core.ClassOf(bn.Obj().Pkg().Path()) != core.Generated {
				return
			}
			v := val
			for {
				if cv, isC := v.(*ssa.Convert); isC {
					v = cv.X
					continue
				}
				break
			}
			call, isCall := v.(*ssa.Call)
			if !isCall {
				return
			}
			g := call.Call.StaticCallee()
			if g != nil && g.Signature.Recv() != nil && core.FuncClass(g) == core.Product {
				c12AccessorCopy(c, f, ins, fld, g)
				return
			}
			if g == nil || g.Signature.Recv() == nil || !strings.HasPrefix(g.Name(), "Get") || core.FuncClass(g) != core.Generated {
				return
			}
			n++
			src := strings.TrimPrefix(g.Name(), "Get")
			key := fmt.Sprintf("C12.fieldcopy/%s/%s<-%s", core.FuncID(f), fld, g.Name())
			r.Check(src == fld, "C12.fieldcopy", key, p.Pos(ins.Pos()),
				fmt.Sprintf("proto field %s is filled from %s() of another message: the serializer writes %s where the parser reads %s", fld, g.Name(), src, fld),
				"copied from the field of the same name")
		})
	}
	r.Counts["proto_field_copies"] = n
}

// ---------------------------------------------------------------- C09.has
//
// The presence accessors of RawJWT (HasTypeHeader, HasAudiences, …) and the
// hasField helper decide presence, not content: no value is dereferenced and
// compared, no length is taken. A token with `"typ":""` has a type header.
func c09Has(c *Ctx) {
	p, r := c.P, c.R
	n := 0
	for _, m := range methodsOf(p, "jwt", "RawJWT") {
		if !(strings.HasPrefix(m.Name(), "Has") || m.Name() == "hasField") {
			continue
		}
		n++
		bad := ""
		allInstrs(m, func(ins ssa.Instruction) {
			switch x := ins.(type) {
			case *ssa.BinOp:
				for _, side := range []ssa.Value{x.X, x.Y} {
					if k, ok := side.(*ssa.Const); ok && k.Value != nil && k.Value.Kind() == constant.String {
						bad = "compares a header/claim value with a string constant"
					}
				}
			case *ssa.Call:
				if b, ok := x.Call.Value.(*ssa.Builtin); ok && b.Name() == "len" {
					bad = "takes the length of a header/claim value"
				}
			}
		})
		r.Check(bad == "", "C09.has", "C09.has/"+core.FuncID(m), p.FuncPos(m), "presence accessor "+bad+": an empty but present value is reported as absent, so the validator's presence rules judge another token than the one that was signed", "presence only (nil / map membership)")
	}
	if n < 5 {
		r.AnchorMissing("C09.has", fmt.Sprintf("presence accessors of jwt.RawJWT (found %d)", n))
	}
}

// ---------------------------------------------------------------- C16.instances
//
// Every switch of package signature/slhdsa that maps a parameter set to the
// internal SLH-DSA instance uses, in the case for slhDSA<X>(), the instance
// SLH_DSA_<X>: key generation, encoding lengths, signer and verifier all agree
// on which of the twelve instances a parameter set means (SHA2-192f and
// SHAKE-192f have the same sizes, so a swapped case passes every length check).
func c16Instances(c *Ctx) {
	p, r := c.P, c.R
	norm := func(s string) string {
		s = strings.ToUpper(strings.ReplaceAll(s, "_", ""))
		return strings.TrimPrefix(s, "SLHDSA")
	}
	n := 0
	for _, f := range pkgFuncs(p, "signature/slhdsa") {
		allInstrs(f, func(ins ssa.Instruction) {
			u, ok := ins.(*ssa.UnOp)
			if !ok || u.Op != token.MUL {
				return
			}
			g, isG := u.X.(*ssa.Global)
			if !isG || g.Pkg == nil || core.Rel(g.Pkg.Pkg.Path()) != "internal/signature/slhdsa" || !strings.HasPrefix(g.Name(), "SLH_DSA_") {
				return
			}
			var cases []string
			for _, fct := range guard.BlockFacts(ins.Block()) {
				op, x, y, isC := guard.Cmp(fct)
				if !isC || op != token.EQL {
					continue
				}
				for _, side := range []ssa.Value{x, y} {
					if cc, _ := guard.CallOf(side); cc != nil {
						if callee := cc.Call.StaticCallee(); callee != nil && callee.Pkg == f.Pkg && strings.HasPrefix(callee.Name(), "slhDSA") {
							cases = append(cases, callee.Name())
						}
					}
				}
			}
			if len(cases) != 1 {
				return
			}
			n++
			key := fmt.Sprintf("C16.instances/%s/%s", core.FuncID(f), cases[0])
			r.Check(norm(cases[0]) == norm(g.Name()), "C16.instances", key, p.Pos(ins.Pos()),
				fmt.Sprintf("the case for parameter set %s() uses the internal instance %s", cases[0], g.Name()), "case "+cases[0]+"() uses "+g.Name())
		})
	}
	if n < 24 {
		r.AnchorMissing("C16.instances", fmt.Sprintf("parameter-set cases using an internal SLH-DSA instance in signature/slhdsa (found %d)", n))
	}
}

// ---------------------------------------------------------------- C04.cbcchain
//
// CMAC is a chained CBC-MAC: a bulk path that feeds the message to
// crypto/cipher's CBC mode in chunks must carry the chaining value from one
// chunk to the next. A cipher.NewCBCEncrypter created inside a loop therefore
// takes an IV buffer that the same loop writes (the last ciphertext block of
// the previous chunk); an encrypter created once outside the loop keeps the
// chain in its own state. An encrypter re-created per chunk over an IV that the
// loop never updates restarts the chain at every chunk.
func c04CBCChain(c *Ctx) {
	p, r := c.P, c.R
	n := 0
	for _, f := range pkgFuncs(p, "internal/mac/aescmac") {
		allInstrs(f, func(ins ssa.Instruction) {
			call, ok := ins.(*ssa.Call)
			if !ok || guard.CalleeName(&call.Call) != "crypto/cipher.NewCBCEncrypter" || !inCycle(call.Block()) {
				return
			}
			n++
			key := fmt.Sprintf("C04.cbcchain/%s#%d", core.FuncID(f), n)
			// the IV buffer: strip slicing
			iv := guard.Strip(call.Call.Args[1])
			for {
				sl, isSl := iv.(*ssa.Slice)
				if !isSl {
					break
				}
				iv = guard.Strip(sl.X)
			}
			written := false
			allInstrs(f, func(i2 ssa.Instruction) {
				if !inCycle(i2.Block()) {
					return
				}
				c2, isC := i2.(*ssa.Call)
				if !isC || len(c2.Call.Args) == 0 {
					return
				}
				nme := guard.CalleeName(&c2.Call)
				if nme != "copy" && nme != "crypto/subtle.XORBytes" && !strings.HasSuffix(nme, ").Encrypt") && !strings.HasSuffix(nme, ").CryptBlocks") {
					return
				}
				dst := guard.Strip(c2.Call.Args[0])
				if c2.Call.IsInvoke() && len(c2.Call.Args) > 0 {
					dst = guard.Strip(c2.Call.Args[0])
				}
				for {
					sl, isSl := dst.(*ssa.Slice)
					if !isSl {
						break
					}
					dst = guard.Strip(sl.X)
				}
				if dst == iv {
					written = true
				}
			})
			r.Check(written, "C04.cbcchain", key, p.Pos(call.Pos()), "a CBC encrypter is created per chunk over an IV that the loop never updates: the CBC-MAC chain restarts at every chunk, so the tag of a long message depends only on its last chunk", "the loop writes the IV buffer (chaining value carried)")
		})
	}
	if n == 0 {
		r.Ok("C04.cbcchain", "C04.cbcchain/none", "-", "no CBC encrypter is created inside a loop of the CMAC implementation")
	}
}

// ---------------------------------------------------------------- C14.nilmsg
//
// A sub-message getter of a generated proto type returns nil when the
// sub-message is absent (untrusted input may omit it). Reading a *field* of
// that result directly — instead of through its nil-safe getter — panics.
// Every direct field access on a getter's pointer result is dominated by a
// nil test of that value.
func c14NilMsg(c *Ctx) {
	p, r := c.P, c.R
	n := 0
	for _, f := range p.SortedFuncs(core.Product) {
		allInstrs(f, func(ins ssa.Instruction) {
			fa, ok := ins.(*ssa.FieldAddr)
			if !ok {
				return
			}
			call, isCall := guard.Strip(fa.X).(*ssa.Call)
			if !isCall {
				return
			}
			g := call.Call.StaticCallee()
			if g == nil || !strings.HasPrefix(g.Name(), "Get") || core.FuncClass(g) != core.Generated {
				return
			}
			if _, isPtr := call.Type().Underlying().(*types.Pointer); !isPtr {
				return
			}
			n++
			key := fmt.Sprintf("C14.nilmsg/%s/%s().%s", core.FuncID(f), g.Name(), effectsFieldName(fa))
			guarded := false
			for _, fct := range guard.InstrFacts(ins) {
				if op, x, y, isC := guard.Cmp(fct); isC && op == token.NEQ {
					if (guard.Strip(x) == ssa.Value(call) && guard.IsNilConst(y)) || (guard.Strip(y) == ssa.Value(call) && guard.IsNilConst(x)) {
						guarded = true
					}
				}
			}
			r.Check(guarded, "C14.nilmsg", key, p.Pos(ins.Pos()), "a field of the (possibly nil) result of "+g.Name()+"() is read directly: a serialized key that omits the sub-message makes the parser panic instead of returning an error", "dominated by a nil test of the sub-message")
		})
	}
	r.Counts["direct_fields_of_getter_results"] = n
	if n == 0 {
		r.Ok("C14.nilmsg", "C14.nilmsg/none", "-", "no direct field access on the result of a proto sub-message getter")
	}
}

func effectsFieldName(fa *ssa.FieldAddr) string {
	if pt, ok := fa.X.Type().Underlying().(*types.Pointer); ok {
		if st, ok := pt.Elem().Underlying().(*types.Struct); ok {
			return st.Field(fa.Field).Name()
		}
	}
	return "?"
}

// be32ByteStores reports whether fn writes the 32-bit big-endian encoding of
// val with four explicit byte stores b[o]=byte(v>>24), b[o+1]=byte(v>>16),
// b[o+2]=byte(v>>8), b[o+3]=byte(v), and returns the absolute offset o of the
// first byte as a linear term (through nested re-slicings).
func be32ByteStores(cx *bounds.Ctx, fn *ssa.Function, val ssa.Value) (string, bool) {
	return be32ByteStoresAt(cx, fn, val, nil)
}

// be32ByteStoresAt: as be32ByteStores, with the rule's own notion of the
// absolute offset of a (re-)slice of the buffer (abs), when it knows more than
// the generic one (e.g. that n := copy(buf, prefix) is len(prefix)).
func be32ByteStoresAt(cx *bounds.Ctx, fn *ssa.Function, val ssa.Value, abs func(v ssa.Value) (bounds.Lin, bool)) (string, bool) {
	shiftOf := func(v ssa.Value) (int64, bool) {
		// byte(x >> k) or byte(x), x the value (possibly converted)
		for {
			cv, ok := v.(*ssa.Convert)
			if !ok {
				break
			}
			v = cv.X
		}
		k := int64(0)
		if bo, ok := v.(*ssa.BinOp); ok && bo.Op == token.SHR {
			kk, isK := guard.ConstInt(bo.Y)
			if !isK {
				return 0, false
			}
			k, v = kk, bo.X
		}
		for {
			cv, ok := v.(*ssa.Convert)
			if !ok {
				break
			}
			v = cv.X
		}
		if bo, ok := v.(*ssa.BinOp); ok && bo.Op == token.AND {
			v = bo.X
		}
		return k, guard.Strip(v) == guard.Strip(val)
	}
	at := map[int64]string{}
	atLin := map[int64]bounds.Lin{}
	allInstrs(fn, func(ins ssa.Instruction) {
		st, ok := ins.(*ssa.Store)
		if !ok {
			return
		}
		ia, isIA := st.Addr.(*ssa.IndexAddr)
		if !isIA {
			return
		}
		k, okS := shiftOf(st.Val)
		if !okS {
			return
		}
		_, off := absSliceStart(cx, ia.X)
		if abs != nil {
			o2, okA := abs(ia.X)
			if !okA {
				return
			}
			off = o2
		}
		at[k] = off.Add(cx.Lin(ia.Index), 1).String()
		atLin[k] = off.Add(cx.Lin(ia.Index), 1)
	})
	if len(at) != 4 {
		return "", false
	}
	base := at[24]
	for i, k := range []int64{24, 16, 8, 0} {
		if at[k] == "" || at[k] != atLin[24].Add(bounds.Konst(int64(i)), 1).String() {
			return "", false
		}
	}
	return base, true
}

// c12AccessorCopy: a serializer fills proto field fld from accessor g of a
// key/parameters type of the module. If that type has an accessor whose name
// is the field's name (up to the unit suffix: KeySize <- KeySizeInBytes) and g
// is a different one (KeySize <- DerivedKeySizeInBytes), the serializer writes
// one quantity where the parser reads another. Nothing is demanded when no
// accessor carries the field's name.
func c12AccessorCopy(c *Ctx, f *ssa.Function, ins ssa.Instruction, fld string, g *ssa.Function) {
	p, r := c.P, c.R
	norm := func(s string) string {
		s = strings.ToLower(s)
		for _, suf := range []string{"inbytes", "inbits", "bytes"} {
			s = strings.TrimSuffix(s, suf)
		}
		return strings.TrimPrefix(s, "get")
	}
	want := norm(fld)
	if norm(g.Name()) == want {
		r.Ok("C12.fieldcopy", fmt.Sprintf("C12.fieldcopy/%s/%s<-%s", core.FuncID(f), fld, g.Name()), p.Pos(ins.Pos()), "filled from the accessor of the same name")
		return
	}
	recv := g.Signature.Recv().Type()
	if pt, ok := recv.Underlying().(*types.Pointer); ok {
		recv = pt.Elem()
	}
	named, ok := recv.(*types.Named)
	if !ok {
		return
	}
	exact := ""
	for i := 0; i < named.NumMethods(); i++ {
		m := named.Method(i)
		sig := m.Type().(*types.Signature)
		if sig.Params().Len() == 0 && sig.Results().Len() == 1 && norm(m.Name()) == want && m.Name() != g.Name() {
			exact = m.Name()
		}
	}
	if exact == "" {
		return
	}
	r.Bad("C12.fieldcopy", fmt.Sprintf("C12.fieldcopy/%s/%s<-%s", core.FuncID(f), fld, g.Name()), p.Pos(ins.Pos()),
		fmt.Sprintf("proto field %s is filled from %s() although %s has the accessor %s(): the serializer writes one quantity where the parser reads another", fld, g.Name(), named.Obj().Name(), exact))
}
