package rules

import (
	"fmt"
	"go/types"
	"sort"
	"strings"

	"golang.org/x/tools/go/ssa"

	"tinkverif/consteval"
	"tinkverif/core"
	"tinkverif/guard"
)

// c05PrefixFns folds every output-prefix function of a key type
// (func(variant, keyID uint32) ([]byte, error), name "…OutputPrefix") on every
// constant of its variant type and several key IDs, including 0:
//   - whether it fails, yields no prefix, or yields a prefix depends on the
//     variant only, never on the key ID (0 is a legal key ID);
//   - TINK / CRUNCHY / LEGACY variants yield a prefix, NO_PREFIX / RAW none,
//     UNKNOWN fails;
//   - the key ID handed to outputprefix.Tink / Legacy is the function's own
//     parameter.
func c05PrefixFns(c *Ctx) {
	p, r := c.P, c.R
	n := 0
	ids := []int64{0, 1, 0x01020304, 0xffffffff}
	for _, f := range p.SortedFuncs(core.Product) {
		if f.Parent() != nil || f.Synthetic != "" || f.Signature.Recv() != nil || !strings.Contains(strings.ToLower(f.Name()), "outputprefix") {
			continue
		}
		sig := f.Signature
		if sig.Params().Len() != 2 || sig.Results().Len() != 2 || len(f.Blocks) == 0 {
			continue
		}
		vt, isNamed := sig.Params().At(0).Type().(*types.Named)
		bt, isBasic := sig.Params().At(1).Type().Underlying().(*types.Basic)
		if !isNamed || !isBasic || bt.Kind() != types.Uint32 || vt.Obj().Pkg() == nil {
			continue
		}
		if vb, ok := vt.Underlying().(*types.Basic); !ok || vb.Info()&types.IsInteger == 0 {
			continue
		}
		if _, isSlice := sig.Results().At(0).Type().Underlying().(*types.Slice); !isSlice {
			continue
		}
		n++
		fid := core.FuncID(f)
		consts := enumConsts(p, vt.Obj().Pkg().Path(), vt.Obj().Name())
		var names []string
		for nme := range consts {
			names = append(names, nme)
		}
		sort.Strings(names)
		ev := consteval.New()
		for _, nme := range names {
			key := fmt.Sprintf("C05.prefixfn/%s/%s", fid, nme)
			classOf := func(id int64) (string, bool) {
				outs, ok := ev.Eval(f, []consteval.Val{{K: consteval.Const, C: consts[nme]}, consteval.C(id)}, nil)
				if !ok || len(outs) == 0 {
					return "", false
				}
				set := map[string]bool{}
				for _, o := range outs {
					switch {
					case o.IsErr() || guard.DefinitelyFails(o.Ret):
						set["error"] = true
					case !o.IsOK():
						return "", false
					case o.Results[0].K == consteval.Nil:
						set["no prefix"] = true
					case o.Results[0].K == consteval.Ref:
						set["prefix"] = true
					default:
						return "", false
					}
				}
				var ks []string
				for k := range set {
					ks = append(ks, k)
				}
				sort.Strings(ks)
				return strings.Join(ks, "|"), true
			}
			base, ok := classOf(ids[1])
			if !ok {
				r.Unknown("C05.prefixfn", key, p.FuncPos(f), "the prefix function does not fold for this variant")
				continue
			}
			bad := ""
			for _, id := range ids {
				cl, ok := classOf(id)
				if !ok {
					bad = fmt.Sprintf("does not fold for key ID %#x", id)
				} else if cl != base {
					bad = fmt.Sprintf("key ID %#x gives %q, key ID 1 gives %q: the outcome depends on the key ID (0 is a legal key ID)", id, cl, base)
				}
			}
			up := strings.ToUpper(nme)
			want := ""
			switch {
			case strings.Contains(up, "UNKNOWN") || strings.Contains(up, "UNSPECIFIED"):
				want = "error"
			case strings.Contains(up, "NOPREFIX") || strings.Contains(up, "NO_PREFIX") || strings.HasSuffix(up, "RAW"):
				want = "no prefix"
			case strings.Contains(up, "TINK") || strings.Contains(up, "CRUNCHY") || strings.Contains(up, "LEGACY"):
				want = "prefix"
			}
			if bad == "" && want != "" && base != want {
				bad = fmt.Sprintf("variant %s gives %q, want %q", nme, base, want)
			}
			r.Check(bad == "", "C05.prefixfn", key, p.FuncPos(f), bad, fmt.Sprintf("%s for key IDs 0, 1, 0x01020304, 0xffffffff", base))
		}
		// the key ID handed on is the parameter
		allInstrs(f, func(ins ssa.Instruction) {
			call, ok := ins.(*ssa.Call)
			if !ok {
				return
			}
			cn := guard.CalleeName(&call.Call)
			if !strings.HasSuffix(cn, "internal/outputprefix.Tink") && !strings.HasSuffix(cn, "internal/outputprefix.Legacy") {
				return
			}
			r.Check(guard.Strip(call.Call.Args[0]) == ssa.Value(f.Params[1]), "C05.prefixfn", fmt.Sprintf("C05.prefixfn/%s/%s argument", fid, call.Call.StaticCallee().Name()), p.Pos(ins.Pos()),
				"the key ID encoded into the output prefix is not the function's key-ID parameter", "outputprefix."+call.Call.StaticCallee().Name()+"(keyID parameter)")
		})
	}
	r.Counts["output_prefix_functions"] = n
	r.Min("C05.prefixfn", 40)
}
