package rules

import (
	"bytes"
	"fmt"
	"go/types"
	"sort"
	"strings"

	"golang.org/x/tools/go/ssa"

	"tinkverif/consteval"
	"tinkverif/core"
	"tinkverif/guard"
)

// c05PrefixFns folds every output-prefix function of a key type
// (func(variant, keyID uint32) ([]byte, error), name "…OutputPrefix") on every
// constant of its variant type and several key IDs, including 0:
//   - whether it fails, yields no prefix, or yields a prefix depends on the
//     variant only, never on the key ID (0 is a legal key ID);
//   - TINK / CRUNCHY / LEGACY variants yield a prefix, NO_PREFIX / RAW none,
//     UNKNOWN fails;
//   - the key ID handed to outputprefix.Tink / Legacy is the function's own
//     parameter.
func c05PrefixFns(c *Ctx) {
	p, r := c.P, c.R
	n := 0
	ids := []int64{0, 1, 0x01020304, 0xffffffff}
	for _, f := range p.SortedFuncs(core.Product) {
		if f.Parent() != nil || f.Synthetic != "" || f.Signature.Recv() != nil || !strings.Contains(strings.ToLower(f.Name()), "outputprefix") {
			continue
		}
		sig := f.Signature
		if sig.Params().Len() != 2 || sig.Results().Len() != 2 || len(f.Blocks) == 0 {
			continue
		}
		vt, isNamed := sig.Params().At(0).Type().(*types.Named)
		bt, isBasic := sig.Params().At(1).Type().Underlying().(*types.Basic)
		if !isNamed || !isBasic || bt.Kind() != types.Uint32 || vt.Obj().Pkg() == nil {
			continue
		}
		if vb, ok := vt.Underlying().(*types.Basic); !ok || vb.Info()&types.IsInteger == 0 {
			continue
		}
		if _, isSlice := sig.Results().At(0).Type().Underlying().(*types.Slice); !isSlice {
			continue
		}
		n++
		fid := core.FuncID(f)
		consts := enumConsts(p, vt.Obj().Pkg().Path(), vt.Obj().Name())
		var names []string
		for nme := range consts {
			names = append(names, nme)
		}
		sort.Strings(names)
		ev := consteval.New()
		ev.Bytes = true // the prefix bytes themselves fold (byte-buffer constants)
		for _, nme := range names {
			wrongBytes := ""
			key := fmt.Sprintf("C05.prefixfn/%s/%s", fid, nme)
			classOf := func(id int64) (string, bool) {
				outs, ok := ev.Eval(f, []consteval.Val{{K: consteval.Const, C: consts[nme]}, consteval.C(id)}, nil)
				if !ok || len(outs) == 0 {
					return "", false
				}
				set := map[string]bool{}
				for _, o := range outs {
					switch {
					case o.IsErr() || guard.DefinitelyFails(o.Ret):
						set["error"] = true
					case !o.IsOK():
						return "", false
					case o.Results[0].K == consteval.Nil:
						set["no prefix"] = true
					case o.Results[0].K == consteval.Ref:
						set["prefix"] = true
						// by value: start byte 0x01 (TINK) / 0x00 (CRUNCHY, LEGACY), then the key ID big-endian
						if b, isB := o.Results[0].Bytes(); isB {
							start := byte(0x00)
							if strings.Contains(strings.ToUpper(nme), "TINK") {
								start = 0x01
							}
							want := []byte{start, byte(id >> 24), byte(id >> 16), byte(id >> 8), byte(id)}
							if !bytes.Equal(b, want) {
								wrongBytes = fmt.Sprintf("for key ID %#x the prefix is %x, the Tink wire format says %x", id, b, want)
							}
						}
					default:
						return "", false
					}
				}
				var ks []string
				for k := range set {
					ks = append(ks, k)
				}
				sort.Strings(ks)
				return strings.Join(ks, "|"), true
			}
			base, ok := classOf(ids[1])
			if !ok {
				r.Unknown("C05.prefixfn", key, p.FuncPos(f), "the prefix function does not fold for this variant")
				continue
			}
			bad := ""
			for _, id := range ids {
				cl, ok := classOf(id)
				if !ok {
					bad = fmt.Sprintf("does not fold for key ID %#x", id)
				} else if cl != base {
					bad = fmt.Sprintf("key ID %#x gives %q, key ID 1 gives %q: the outcome depends on the key ID (0 is a legal key ID)", id, cl, base)
				}
			}
			up := strings.ToUpper(nme)
			want := ""
			switch {
			case strings.Contains(up, "UNKNOWN") || strings.Contains(up, "UNSPECIFIED"):
				want = "error"
			case strings.Contains(up, "NOPREFIX") || strings.Contains(up, "NO_PREFIX") || strings.HasSuffix(up, "RAW"):
				want = "no prefix"
			case strings.Contains(up, "TINK") || strings.Contains(up, "CRUNCHY") || strings.Contains(up, "LEGACY"):
				want = "prefix"
			}
			if bad == "" && wrongBytes != "" {
				bad = wrongBytes
			}
			if bad == "" && want != "" && base != want {
				bad = fmt.Sprintf("variant %s gives %q, want %q", nme, base, want)
			}
			r.Check(bad == "", "C05.prefixfn", key, p.FuncPos(f), bad, fmt.Sprintf("%s for key IDs 0, 1, 0x01020304, 0xffffffff", base))
		}
		// the key ID handed on is the parameter
		allInstrs(f, func(ins ssa.Instruction) {
			call, ok := ins.(*ssa.Call)
			if !ok {
				return
			}
			cn := guard.CalleeName(&call.Call)
			if !strings.HasSuffix(cn, "internal/outputprefix.Tink") && !strings.HasSuffix(cn, "internal/outputprefix.Legacy") {
				return
			}
			r.Check(guard.Strip(call.Call.Args[0]) == ssa.Value(f.Params[1]), "C05.prefixfn", fmt.Sprintf("C05.prefixfn/%s/%s argument", fid, call.Call.StaticCallee().Name()), p.Pos(ins.Pos()),
				"the key ID encoded into the output prefix is not the function's key-ID parameter", "outputprefix."+call.Call.StaticCallee().Name()+"(keyID parameter)")
		})
	}
	// the shared helpers themselves, by value
	for _, h := range []struct {
		name  string
		start byte
	}{{"Tink", 0x01}, {"Legacy", 0x00}} {
		if f := p.PkgFunc("internal/outputprefix", h.name); f == nil {
			r.AnchorMissing("C05.prefixfn", "internal/outputprefix."+h.name)
		} else if !layoutCheck(c, "C05.prefixfn", "C05.prefixfn/outputprefix."+h.name, f, 0, []byte{h.start, 1, 2, 3, 4},
			fmt.Sprintf("%#02x || be32(key ID)", h.start), consteval.C(0x01020304)) {
			r.Unknown("C05.prefixfn", "C05.prefixfn/outputprefix."+h.name, p.FuncPos(f), "the prefix helper does not fold on a constant key ID")
		}
	}
	// cryptofmt.OutputPrefix(proto key): the same bytes, as a string
	if f := p.PkgFunc("core/cryptofmt", "OutputPrefix"); f != nil && len(f.Params) == 1 {
		for _, row := range []struct{ pt, want string }{{"TINK", "\x01\x01\x02\x03\x04"}, {"LEGACY", "\x00\x01\x02\x03\x04"}, {"CRUNCHY", "\x00\x01\x02\x03\x04"}, {"RAW", ""}} {
			ptc, ok := constOf(p, "proto/tink_go_proto", "OutputPrefixType_"+row.pt)
			if !ok {
				continue
			}
			env := bindFieldsAndGetters(f, map[string]consteval.Val{"OutputPrefixType": {K: consteval.Const, C: ptc}, "KeyId": consteval.C(0x01020304)})
			got, why := foldStringEnv(f, 0, env, consteval.Val{K: consteval.Ref})
			key := "C05.prefixfn/cryptofmt.OutputPrefix/" + row.pt
			if why != "" {
				r.Outside("C05.prefixfn", key, p.FuncPos(f), "cryptofmt.OutputPrefix does not fold: "+why)
				continue
			}
			r.Check(got == row.want, "C05.prefixfn", key, p.FuncPos(f), fmt.Sprintf("folded on key ID 0x01020304 and prefix type %s the prefix is %x, the Tink wire format says %x", row.pt, got, row.want), fmt.Sprintf("%x", row.want))
		}
	}
	r.Counts["output_prefix_functions"] = n
	r.Min("C05.prefixfn", 40)
}
