package rules

import (
	"fmt"
	"go/constant"
	"go/token"
	"go/types"
	"sort"
	"strings"
	"tinkverif/bounds"

	"golang.org/x/tools/go/ssa"

	"tinkverif/consteval"
	"tinkverif/core"
	"tinkverif/effects"
	"tinkverif/guard"
)

func init() { Registry["C03"] = c03 }

func c03(c *Ctx) {
	r := c.R
	r.Explanation = "C03 (classical signatures) is decided through structural necessary conditions over every product implementer of tink.Verifier / tink.Signer: " +
		"(auth/errprop) every nil return of Verify is dominated by the positive verdict of the stdlib verification call (ecdsa.VerifyASN1, ed25519.Verify, rsa.VerifyPKCS1v15/VerifyPSS) or of a module verifier for which that holds; the verdict is never discarded; " +
		"(prefix/tiling/bounds) exact output-prefix comparison, no ignored trailing bytes, input-derived slices proved in bounds; " +
		"(rawsig) the signature bytes handed to the RSA / Ed25519 stdlib verifier are the caller's bytes themselves (a sub-slice of the input), not a re-padded or rebuilt buffer; " +
		"(fixedlen) fixed-size encodings are length-checked by equality before use: Ed25519 against ed25519.SignatureSize, IEEE-P1363 against the size of the key's own curve, whose table (folded by constant propagation) is 64/96/132 for P-256/384/521; " +
		"(legacy) the 0x00 message suffix is applied under exactly the condition variant==VariantLegacy (key types) / OutputPrefixType==LEGACY (keyset adapters), and both the producing and the accepting side of every such package reach a suffix site; " +
		"(derstrict) the ASN.1 decoder re-encodes and compares; " +
		"(bitbytes) a bit count (ModulusSizeBits(), BitLen(), BitSize, …) is turned into a byte count only by rounding up, (bits+7)/8: a floor division makes every size that is not a multiple of 8 one byte short (RSA moduli of 2049..2055 bits are legal keys); " +
		"(saltbinding) the PSS salt length given to the stdlib is the configured one and cannot be a value the stdlib interprets as 'auto'. " +
		"Not decided: equality with an independent verifier on all inputs; RSA/ECDSA arithmetic (stdlib)."
	ac := newAcceptCtx(c)
	runAccept(c, ac, acceptSpec{Prop: "C03", Iface: [2]string{"tink", "Verifier"}, Method: "Verify", MinTypes: 10})
	r.Min("C03.auth", 10)
	r.Min("C03.prefix", 6)
	c03RawSig(c)
	c03FixedLen(c)
	legacySuffixRule(c, "C03", []string{"signature/ecdsa", "signature/ed25519", "signature/rsassapkcs1", "signature/rsassapss", "signature"}, map[string]bool{"Sign": true, "Verify": true})
	c03DERStrict(c)
	c03SaltBinding(c)
	c03BitBytes(c)
	r.Assume("stdlib verification calls (ecdsa.VerifyASN1, ed25519.Verify, rsa.VerifyPKCS1v15, rsa.VerifyPSS) accept exactly the valid signatures of their standard")
}

// ---------------------------------------------------------------- rawsig

// sigArgIndex: index of the signature argument of stdlib verification calls
// that take the signature bytes verbatim.
var sigArgIndex = map[string]int{
	"crypto/ed25519.Verify":     2,
	"crypto/rsa.VerifyPKCS1v15": 3,
	"crypto/rsa.VerifyPSS":      3,
}

func c03RawSig(c *Ctx) {
	p, r := c.P, c.R
	a := c.Eff()
	n := 0
	for _, f := range p.SortedFuncs(core.Product) {
		allInstrs(f, func(ins ssa.Instruction) {
			call, ok := ins.(*ssa.Call)
			if !ok {
				return
			}
			idx, isV := sigArgIndex[guard.CalleeName(&call.Call)]
			if !isV {
				return
			}
			n++
			key := fmt.Sprintf("C03.rawsig/%s/%s", core.FuncID(f), shortName(guard.CalleeName(&call.Call)))
			arg := call.Call.Args[idx]
			good := true
			var roots []string
			for _, pt := range a.PointsTo(f, arg) {
				roots = append(roots, pt.Root.String())
				if pt.Root.Kind != effects.RParam || pt.Root.Depth != 0 {
					good = false
				}
			}
			sort.Strings(roots)
			if len(roots) == 0 {
				good = false
			}
			// and it must be a plain sub-slice chain of a parameter (no copy)
			v := guard.Strip(arg)
			for {
				if sl, isSl := v.(*ssa.Slice); isSl {
					v = guard.Strip(sl.X)
					continue
				}
				// rest, ok := bytes.CutPrefix(sig, prefix): rest is a sub-slice of sig
				if ex, isEx := v.(*ssa.Extract); isEx && ex.Index == 0 {
					if cc, isCall := ex.Tuple.(*ssa.Call); isCall {
						if nme := guard.CalleeName(&cc.Call); nme == "bytes.CutPrefix" || nme == "bytes.CutSuffix" {
							v = guard.Strip(cc.Call.Args[0])
							continue
						}
					}
				}
				if cc, isCall := v.(*ssa.Call); isCall {
					if nme := guard.CalleeName(&cc.Call); nme == "bytes.TrimPrefix" || nme == "bytes.TrimSuffix" {
						v = guard.Strip(cc.Call.Args[0])
						continue
					}
				}
				break
			}
			if _, isParam := v.(*ssa.Parameter); !isParam {
				good = false
			} else {
				// a pure re-slicing chain of the parameter is the caller's memory, whatever
				// the points-to summary of the helpers in the chain (CutPrefix) adds
				good = true
			}
			r.Check(good, "C03.rawsig", key, p.Pos(ins.Pos()), "the signature handed to the stdlib verifier is not the caller's bytes (a sub-slice of the input parameter) but a rebuilt/padded buffer: encodings the standard rejects may be normalised into acceptance (points to: "+strings.Join(roots, ",")+")",
				"signature argument is a sub-slice of the input parameter")
		})
	}
	r.Min("C03.rawsig", 3)
	_ = n
}

// ---------------------------------------------------------------- fixedlen

func c03FixedLen(c *Ctx) {
	p, r := c.P, c.R
	// Ed25519: every call of ed25519.Verify is dominated by len(sig) == SignatureSize on the same value
	for _, f := range p.SortedFuncs(core.Product) {
		for _, site := range callsTo(f, "crypto/ed25519.Verify") {
			call := site.(*ssa.Call)
			sig := call.Call.Args[2]
			key := fmt.Sprintf("C03.fixedlen/%s/ed25519", core.FuncID(f))
			good := false
			for _, fct := range guard.InstrFacts(call) {
				op, x, y, ok := guard.Cmp(fct)
				if !ok || op != token.EQL {
					continue
				}
				for _, pr := range [][2]ssa.Value{{x, y}, {y, x}} {
					if lc, _ := guard.CallOf(pr[0]); lc != nil {
						if b, isB := lc.Call.Value.(*ssa.Builtin); isB && b.Name() == "len" && guard.SameValue(lc.Call.Args[0], sig) {
							if k, isC := guard.ConstInt(pr[1]); isC && k == 64 {
								good = true
							}
						}
					}
				}
			}
			if !good {
				// by arithmetic: the facts at the call, the CutPrefix/re-slicing relations
				// and the constructor-established field invariants (x.size == len(x.prefix)+64)
				// entail len(sig) == 64
				cx := bounds.NewCtx(f)
				facts := append(cx.FactsToLin(guard.InstrFacts(call)), fieldLenFacts(p, cx, f)...)
				d := cx.LenOf(sig).Add(bounds.Konst(64), -1)
				ge, _ := cx.Entails(facts, d)
				le, _ := cx.Entails(facts, bounds.Konst(0).Add(d, -1))
				good = ge && le
			}
			r.Check(good, "C03.fixedlen", key, p.Pos(call.Pos()), "ed25519.Verify is reached without a dominating len(signature) == 64 check on the same bytes", "dominated by len(sig) == ed25519.SignatureSize")
		}
	}
	// IEEE P1363: the table
	tbl := p.PkgFunc("internal/signature/ecdsa", "ieeeSignatureSize")
	if tbl == nil {
		r.AnchorMissing("C03.fixedlen", "internal/signature/ecdsa.ieeeSignatureSize")
		return
	}
	want := map[string]int64{"P-256": 64, "P-384": 96, "P-521": 132}
	ev := consteval.New()
	env := stdCurveNames(tbl)
	for _, name := range []string{"P-256", "P-384", "P-521", "P-224", ""} {
		outs, ok := ev.Eval(tbl, []consteval.Val{consteval.S(name)}, env)
		key := "C03.fixedlen/ieeeSignatureSize/" + name
		if !ok || len(outs) != 1 {
			r.Unknown("C03.fixedlen", key, p.FuncPos(tbl), fmt.Sprintf("cannot fold the table for %q (%d outcomes)", name, len(outs)))
			continue
		}
		o := outs[0]
		if w, has := want[name]; has {
			good := o.IsOK() && o.Results[0].K == consteval.Const && constant.Compare(o.Results[0].C, token.EQL, constant.MakeInt64(w))
			r.Check(good, "C03.fixedlen", key, p.FuncPos(tbl), fmt.Sprintf("IEEE-P1363 signature size for %s is %v, want %d", name, o.Results[0], w), fmt.Sprintf("= %d = 2*ceil(bits/8)", w))
		} else {
			r.Check(o.IsErr(), "C03.fixedlen", key, p.FuncPos(tbl), fmt.Sprintf("unsupported curve %q is given a signature size", name), "rejected")
		}
	}
	// every verifier that decodes P1363 does so through a function that pins len(sig) to the size of the key's curve
	n := 0
	for _, f := range p.SortedFuncs(core.Product) {
		if f.Name() != "Verify" || f.Signature.Recv() == nil {
			continue
		}
		// decode calls made by Verify itself or by module helpers it calls (depth 3); fromKey
		// tells whether a value of the function at hand derives from the verifier's key
		var walk func(g *ssa.Function, fromKey func(ssa.Value) bool, depth int, seen map[*ssa.Function]bool)
		walk = func(g *ssa.Function, fromKey func(ssa.Value) bool, depth int, seen map[*ssa.Function]bool) {
			if seen[g] || depth > 3 {
				return
			}
			seen[g] = true
			allInstrs(g, func(ins ssa.Instruction) {
				call, ok := ins.(*ssa.Call)
				if !ok {
					return
				}
				callee := call.Call.StaticCallee()
				if callee == nil || callee.Blocks == nil {
					return
				}
				if core.Rel(core.PkgOf(callee)) != "internal/signature/ecdsa" || !strings.Contains(callee.Name(), "IEEEP1363Decode") {
					if strings.HasPrefix(core.PkgOf(callee), core.ModPath) && len(callee.Params) > 0 && core.IsByteSlice(callee.Params[0].Type()) {
						// a helper handed the signature bytes
						args := call.Call.Args
						walk(callee, func(v ssa.Value) bool {
							for i, prm := range callee.Params {
								if i < len(args) && derivesFrom(v, prm, 0) && fromKey(args[i]) {
									return true
								}
							}
							return false
						}, depth+1, seen)
					}
					return
				}
				n++
				key := fmt.Sprintf("C03.fixedlen/%s/%s", core.FuncID(f), callee.Name())
				if g != f {
					key += " via " + g.Name()
				}
				// the callee must compare len(param0) for equality with ieeeSignatureSize(param) of a curve argument
				pins := false
				allInstrs(callee, func(i2 ssa.Instruction) {
					iff, isIf := i2.(*ssa.If)
					if !isIf {
						return
					}
					cmp, isCmp := iff.Cond.(*ssa.BinOp)
					if !isCmp || (cmp.Op != token.NEQ && cmp.Op != token.EQL) {
						return
					}
					for _, pr := range [][2]ssa.Value{{cmp.X, cmp.Y}, {cmp.Y, cmp.X}} {
						lc, _ := guard.CallOf(pr[0])
						sc, si := guard.CallOf(pr[1])
						if lc == nil || sc == nil || si != 0 {
							continue
						}
						if b, isB := lc.Call.Value.(*ssa.Builtin); isB && b.Name() == "len" && lc.Call.Args[0] == ssa.Value(callee.Params[0]) && sc.Call.StaticCallee() == tbl {
							if _, isP := sc.Call.Args[0].(*ssa.Parameter); isP {
								pins = true
							}
						}
					}
				})
				// and the curve argument at the call site derives from the receiver
				fromRecv := false
				for _, arg := range call.Call.Args[1:] {
					if fromKey(arg) {
						fromRecv = true
					}
				}
				if !pins {
					// or the caller itself pins the length before decoding: len(sig) == size, the
					// size deriving from the key
					for _, fct := range guard.InstrFacts(ins) {
						op, x, y, isC := guard.Cmp(fct)
						if !isC || op != token.EQL {
							continue
						}
						for _, pr := range [][2]ssa.Value{{x, y}, {y, x}} {
							lc, _ := guard.CallOf(pr[0])
							if lc == nil {
								continue
							}
							if b, isB := lc.Call.Value.(*ssa.Builtin); isB && b.Name() == "len" && guard.Strip(lc.Call.Args[0]) == guard.Strip(call.Call.Args[0]) && fromKey(pr[1]) {
								pins, fromRecv = true, true
							}
						}
					}
				}
				r.Check(pins && fromRecv, "C03.fixedlen", key, p.Pos(ins.Pos()), "an IEEE-P1363 signature is decoded without pinning its length to the size of this key's curve (a signature padded to another curve's size would be accepted)",
					"decoder compares len(sig) with ieeeSignatureSize(curve); curve argument derives from the verifier's key")
			})
		}
		walk(f, func(v ssa.Value) bool { return derivesFrom(v, f.Params[0], 0) }, 0, map[*ssa.Function]bool{})
	}
	if n == 0 {
		r.AnchorMissing("C03.fixedlen", "IEEE-P1363 decode call in an ECDSA verifier")
	}
}

// stdCurveNames binds loads of elliptic.PXXX().Params().Name to the stdlib's
// curve names (a stdlib contract: "P-256", "P-384", "P-521", "P-224").
func stdCurveNames(f *ssa.Function) consteval.Env {
	env := consteval.Env{}
	names := map[string]string{"crypto/elliptic.P256": "P-256", "crypto/elliptic.P384": "P-384", "crypto/elliptic.P521": "P-521", "crypto/elliptic.P224": "P-224"}
	allInstrs(f, func(ins ssa.Instruction) {
		u, ok := ins.(*ssa.UnOp)
		if !ok || u.Op != token.MUL {
			return
		}
		fa, ok := u.X.(*ssa.FieldAddr)
		if !ok {
			return
		}
		st := fa.X.Type().Underlying().(*types.Pointer).Elem().Underlying().(*types.Struct)
		if st.Field(fa.Field).Name() != "Name" {
			return
		}
		pc, _ := guard.CallOf(fa.X)
		if pc == nil || !pc.Call.IsInvoke() || pc.Call.Method.Name() != "Params" {
			return
		}
		cc, _ := guard.CallOf(pc.Call.Value)
		if cc == nil {
			return
		}
		if n, ok := names[guard.CalleeName(&cc.Call)]; ok {
			env[u] = consteval.S(n)
		}
	})
	return env
}

// derivesFrom: the backward slice of v (fields, loads, call receivers and
// arguments) reaches root.
func derivesFrom(v, root ssa.Value, depth int) bool {
	if depth > 8 || v == nil {
		return false
	}
	v = guard.Strip(v)
	if v == root {
		return true
	}
	switch x := v.(type) {
	case *ssa.UnOp:
		return derivesFrom(x.X, root, depth+1)
	case *ssa.FieldAddr:
		return derivesFrom(x.X, root, depth+1)
	case *ssa.Field:
		return derivesFrom(x.X, root, depth+1)
	case *ssa.IndexAddr:
		return derivesFrom(x.X, root, depth+1)
	case *ssa.Slice:
		return derivesFrom(x.X, root, depth+1)
	case *ssa.Extract:
		return derivesFrom(x.Tuple, root, depth+1)
	case *ssa.TypeAssert:
		return derivesFrom(x.X, root, depth+1)
	case *ssa.Alloc:
		// spilled value receiver / local copy: what is stored into it
		for _, ref := range *x.Referrers() {
			if st, ok := ref.(*ssa.Store); ok && st.Addr == ssa.Value(x) && derivesFrom(st.Val, root, depth+1) {
				return true
			}
		}
	case *ssa.Phi:
		for _, e := range x.Edges {
			if derivesFrom(e, root, depth+1) {
				return true
			}
		}
	case *ssa.Call:
		if x.Call.IsInvoke() && derivesFrom(x.Call.Value, root, depth+1) {
			return true
		}
		for _, a := range x.Call.Args {
			if derivesFrom(a, root, depth+1) {
				return true
			}
		}
	}
	return false
}

// ---------------------------------------------------------------- legacy suffix

// zeroByteSlice: v is []byte{0} built in this function.
func zeroByteSlice(v ssa.Value) bool {
	sl, ok := guard.Strip(v).(*ssa.Slice)
	if !ok {
		return false
	}
	al, ok := sl.X.(*ssa.Alloc)
	if !ok {
		return false
	}
	arr, ok := al.Type().Underlying().(*types.Pointer).Elem().Underlying().(*types.Array)
	if !ok || arr.Len() != 1 {
		return false
	}
	if b, ok := arr.Elem().Underlying().(*types.Basic); !ok || b.Kind() != types.Uint8 {
		return false
	}
	for _, ref := range *al.Referrers() {
		if ia, ok := ref.(*ssa.IndexAddr); ok {
			for _, r2 := range *ia.Referrers() {
				if st, ok := r2.(*ssa.Store); ok {
					if k, isC := guard.ConstInt(st.Val); !isC || k != 0 {
						return false
					}
				}
			}
		}
	}
	return true
}

// suffixSites lists instructions that append the single byte 0x00 to a
// message (slices.Concat / append / hash Write of []byte{0}).
func suffixSites(f *ssa.Function) []ssa.Instruction {
	var out []ssa.Instruction
	allInstrs(f, func(ins ssa.Instruction) {
		// out := make([]byte, len(msg)+1); copy(out, msg) [; out[len(msg)] = 0]: msg || 0x00
		if mk, isMk := ins.(*ssa.MakeSlice); isMk && core.IsByteSlice(mk.Type()) {
			if bo, isB := guard.Strip(mk.Len).(*ssa.BinOp); isB && bo.Op == token.ADD {
				for _, pr := range [][2]ssa.Value{{bo.X, bo.Y}, {bo.Y, bo.X}} {
					lc, _ := guard.CallOf(pr[0])
					one, isK := guard.ConstInt(pr[1])
					if lc == nil || !isK || one != 1 {
						continue
					}
					if b, isBu := lc.Call.Value.(*ssa.Builtin); isBu && b.Name() == "len" {
						src := guard.Strip(lc.Call.Args[0])
						copied, badStore := false, false
						for _, ref := range *mk.Referrers() {
							if cc, isC := ref.(*ssa.Call); isC {
								if bb, isBB := cc.Call.Value.(*ssa.Builtin); isBB && bb.Name() == "copy" && cc.Call.Args[0] == ssa.Value(mk) && guard.Strip(cc.Call.Args[1]) == src {
									copied = true
								}
							}
							if ia, isIA := ref.(*ssa.IndexAddr); isIA {
								for _, r2 := range *ia.Referrers() {
									if st, isS := r2.(*ssa.Store); isS && st.Addr == ssa.Value(ia) {
										if k, isC := guard.ConstInt(st.Val); !isC || k != 0 {
											badStore = true
										}
									}
								}
							}
						}
						if copied && !badStore {
							out = append(out, ins)
							return
						}
					}
				}
			}
		}
		call, ok := ins.(ssa.CallInstruction)
		if !ok {
			return
		}
		n := guard.CalleeName(call.Common())
		if !(n == "slices.Concat" || n == "append" || strings.HasSuffix(n, ").Write")) {
			return
		}
		for _, a := range call.Common().Args {
			if zeroByteSlice(a) {
				out = append(out, ins)
				return
			}
			// variadic Concat: a slice of slices whose element is []byte{0}
			if sl, ok := a.(*ssa.Slice); ok {
				if al, ok := sl.X.(*ssa.Alloc); ok {
					for _, ref := range *al.Referrers() {
						if ia, ok := ref.(*ssa.IndexAddr); ok {
							for _, r2 := range *ia.Referrers() {
								if st, ok := r2.(*ssa.Store); ok && zeroByteSlice(st.Val) {
									out = append(out, ins)
									return
								}
							}
						}
					}
				}
			}
		}
	})
	return out
}

// legacySuffixRule: condition and sibling agreement of the LEGACY 0x00 suffix.
func legacySuffixRule(c *Ctx, prop string, pkgs []string, methods map[string]bool) {
	p, r := c.P, c.R
	rule := prop + ".legacy"
	legacyPT, _ := constOf(p, "proto/tink_go_proto", "OutputPrefixType_LEGACY")
	nSites := 0
	for _, rel := range pkgs {
		legacyConst, hasVariant := constOf(p, rel, "VariantLegacy")
		reach := map[string]bool{}
		for _, f := range pkgFuncs(p, rel) {
			sites := suffixSites(f)
			// a suffix kept in a field of the object ([]byte{0} stored by the constructor under the
			// legacy condition, appended here whatever its content): the condition is judged where
			// the field is set
			fieldSites := fieldSuffixSites(p, f)
			condAt := map[ssa.Instruction]ssa.Instruction{}
			for use, stores := range fieldSites {
				for _, st := range stores {
					sites = append(sites, st)
					condAt[st] = use
				}
			}
			for _, s := range sites {
				nSites++
				key := fmt.Sprintf("%s/%s/suffix condition", rule, core.FuncID(f))
				if use, isField := condAt[s]; isField {
					key = fmt.Sprintf("%s/%s/suffix condition (field set in %s)", rule, core.FuncID(f), s.Parent().Name())
					_ = use
				}
				var conds []string
				good := true
				for _, fct := range guard.InstrFacts(s) {
					op, x, y, isCmp := guard.Cmp(fct)
					if isCmp {
						// comparison with a Variant constant
						for _, pr := range [][2]ssa.Value{{x, y}, {y, x}} {
							if k, isC := guard.Strip(pr[1]).(*ssa.Const); isC && k.Value != nil {
								if tn := core.NamedOf(pr[1].Type()); tn != nil && tn.Obj().Name() == "Variant" {
									conds = append(conds, fmt.Sprintf("variant %s %s", op, k.Value.ExactString()))
									if !(hasVariant && op == token.EQL && constant.Compare(k.Value, token.EQL, legacyConst)) {
										good = false
									}
								}
							}
						}
						continue
					}
					if _, fld, isF := guard.FieldOf(fct.Cond); isF && strings.Contains(strings.ToLower(fld), "legacy") {
						conds = append(conds, fmt.Sprintf("%s == %v", fld, fct.True))
						if !fct.True {
							good = false
						}
					}
				}
				if len(conds) != 1 {
					good = false
				}
				r.Check(good, rule, key, p.Pos(s.Pos()), "the 0x00 suffix is mixed into the message under a condition other than exactly variant==VariantLegacy / hasLegacyPrefix: "+strings.Join(conds, " && "), strings.Join(conds, " && "))
			}
			if len(sites) > 0 {
				reach[core.FuncID(f)] = true
			}
		}
		// adapters: hasLegacyPrefix is set from OutputPrefixType == LEGACY
		for _, f := range pkgFuncs(p, rel) {
			allInstrs(f, func(ins ssa.Instruction) {
				_, fld, val, ok := guard.StoreField(ins)
				if !ok || !strings.Contains(strings.ToLower(fld), "legacy") {
					return
				}
				key := fmt.Sprintf("%s/%s/%s source", rule, core.FuncID(f), fld)
				good := false
				var walk func(v ssa.Value, d int)
				walk = func(v ssa.Value, d int) {
					if d > 4 {
						return
					}
					switch x := guard.Strip(v).(type) {
					case *ssa.BinOp:
						if x.Op == token.EQL && (isConstEq(x.Y, legacyPT) || isConstEq(x.X, legacyPT)) {
							good = true
						}
						// or the key's own variant == VariantLegacy
						if x.Op == token.EQL && hasVariant && (isConstEq(x.Y, legacyConst) || isConstEq(x.X, legacyConst)) {
							for _, side := range []ssa.Value{x.X, x.Y} {
								if tn := core.NamedOf(side.Type()); tn != nil && tn.Obj().Name() == "Variant" {
									good = true
								}
							}
						}
					case *ssa.Phi:
						for _, e := range x.Edges {
							if b, isC := guard.ConstBool(e); isC && !b {
								continue
							}
							walk(e, d+1)
						}
					case *ssa.Extract:
						// result of a helper of the module: every non-false return value
						if call, isCall := x.Tuple.(*ssa.Call); isCall {
							if g := call.Call.StaticCallee(); g != nil && g.Blocks != nil && core.FuncClass(g) == core.Product {
								for _, ret := range guard.Returns(g) {
									if x.Index < len(ret.Results) {
										if b, isC := guard.ConstBool(ret.Results[x.Index]); isC && !b {
											continue
										}
										walk(ret.Results[x.Index], d+1)
									}
								}
							}
						}
					case *ssa.Call:
						if g := x.Call.StaticCallee(); g != nil && g.Blocks != nil && core.FuncClass(g) == core.Product && g.Signature.Results().Len() == 1 {
							for _, ret := range guard.Returns(g) {
								if b, isC := guard.ConstBool(ret.Results[0]); isC && !b {
									continue
								}
								walk(ret.Results[0], d+1)
							}
						}
					case *ssa.UnOp:
						// heap-allocated local: follow the stores into it
						if al, isAl := x.X.(*ssa.Alloc); isAl {
							for _, ref := range *al.Referrers() {
								if st, isS := ref.(*ssa.Store); isS && st.Addr == ssa.Value(al) {
									if b, isC := guard.ConstBool(st.Val); isC && !b {
										continue
									}
									walk(st.Val, d+1)
								}
							}
						}
					}
				}
				walk(val, 0)
				r.Check(good, rule, key, p.Pos(ins.Pos()), "the adapter's legacy flag is not derived from OutputPrefixType == LEGACY", "= (prefix type == OutputPrefixType_LEGACY)")
			})
		}
		// sibling agreement: every producing/accepting method of the package reaches a suffix site, or none does
		type mref struct {
			f    *ssa.Function
			hits bool
		}
		var ms []mref
		for _, f := range pkgFuncs(p, rel) {
			if f.Signature.Recv() == nil || !methods[f.Name()] || f.Parent() != nil {
				continue
			}
			hits := reach[core.FuncID(f)]
			if !hits {
				allInstrs(f, func(ins ssa.Instruction) {
					if call, ok := ins.(ssa.CallInstruction); ok {
						if callee := call.Common().StaticCallee(); callee != nil && reach[core.FuncID(callee)] {
							hits = true
						}
					}
				})
			}
			ms = append(ms, mref{f, hits})
		}
		// group by receiver family: pair producers and accepters of the package
		anyHit := false
		for _, m := range ms {
			if m.hits {
				anyHit = true
			}
		}
		if !hasVariant && !anyHit {
			continue
		}
		for _, m := range ms {
			// wrappers that only delegate (no prefix field, no variant) are skipped
			if prefixFieldOf(m.f.Signature.Recv().Type()) == "" && !recvHasField(m.f, "variant") {
				continue
			}
			key := fmt.Sprintf("%s/%s/reaches suffix", rule, core.FuncID(m.f))
			r.Check(m.hits, rule, key, p.FuncPos(m.f), "this side never applies the LEGACY 0x00 suffix although its sibling does: LEGACY-variant outputs would not verify", "reaches a 0x00-suffix site")
		}
	}
	r.Counts["legacy_suffix_sites"] = nSites
}

func recvHasField(f *ssa.Function, name string) bool {
	n := core.NamedOf(f.Signature.Recv().Type())
	if n == nil {
		return false
	}
	st, ok := n.Underlying().(*types.Struct)
	if !ok {
		return false
	}
	for i := 0; i < st.NumFields(); i++ {
		if st.Field(i).Name() == name {
			return true
		}
	}
	return false
}

// ---------------------------------------------------------------- DER strict

func c03DERStrict(c *Ctx) {
	p, r := c.P, c.R
	f := p.PkgFunc("internal/signature/ecdsa", "ASN1Decode")
	if f == nil {
		r.AnchorMissing("C03.derstrict", "internal/signature/ecdsa.ASN1Decode")
		return
	}
	for _, ret := range guard.SuccessReturns(f) {
		good := false
		for _, fct := range guard.BlockFacts(ret.Block()) {
			if call, val, ok := guard.BoolCallFact(fct); ok && val && guard.CalleeName(&call.Call) == "bytes.Equal" {
				// one operand is the input, the other a re-encoding
				for _, pr := range [][2]ssa.Value{{call.Call.Args[0], call.Call.Args[1]}, {call.Call.Args[1], call.Call.Args[0]}} {
					if guard.Strip(pr[0]) == ssa.Value(f.Params[0]) {
						if ec, _ := guard.CallOf(pr[1]); ec != nil {
							good = true
						}
					}
				}
			}
		}
		r.Check(good, "C03.derstrict", "C03.derstrict/ASN1Decode", p.Pos(ret.Pos()), "ASN1Decode can succeed without comparing the input with its canonical re-encoding (non-canonical or trailing-data DER would be accepted)", "success dominated by bytes.Equal(input, reEncoded)")
	}
}

// ---------------------------------------------------------------- PSS salt

func c03SaltBinding(c *Ctx) {
	p, r := c.P, c.R
	for _, name := range []string{"New_RSA_SSA_PSS_Verifier", "New_RSA_SSA_PSS_Signer"} {
		f := p.PkgFunc("internal/signature", name)
		if f == nil {
			r.AnchorMissing("C03.saltbinding", "internal/signature."+name)
			continue
		}
		var salt ssa.Value
		for _, prm := range f.Params {
			if prm.Name() == "saltLength" {
				salt = prm
			}
		}
		if salt == nil {
			r.AnchorMissing("C03.saltbinding", "saltLength parameter of "+name)
			continue
		}
		key := "C03.saltbinding/internal/signature." + name
		// every success return: facts imply saltLength >= 1 (0 is crypto/rsa's PSSSaltLengthAuto)
		good := true
		for _, ret := range guard.SuccessReturns(f) {
			ok := false
			for _, fct := range guard.BlockFacts(ret.Block()) {
				op, x, y, isC := guard.Cmp(fct)
				if !isC || x != salt {
					continue
				}
				k, isK := guard.ConstInt(y)
				if !isK {
					continue
				}
				if (op == token.GTR && k >= 0) || (op == token.GEQ && k >= 1) || (op == token.NEQ && k == 0) {
					ok = true
				}
			}
			if !ok {
				good = false
			}
		}
		r.Check(good, "C03.saltbinding", key, p.FuncPos(f),
			"a salt length of 0 is accepted and later handed to crypto/rsa, where 0 means PSSSaltLengthAuto: a salt-length-0 key verifies signatures of ANY salt length and signs with the maximal salt, so it neither binds the salt length nor interoperates with a strict verifier",
			"constructor guarantees saltLength >= 1")
	}
	// the value handed to the stdlib is the configured field
	for _, tn := range []string{"RSA_SSA_PSS_Verifier", "RSA_SSA_PSS_Signer"} {
		for _, m := range methodsOf(p, "internal/signature", tn) {
			if m.Name() != "Verify" && m.Name() != "Sign" {
				continue
			}
			key := fmt.Sprintf("C03.saltbinding/%s/SaltLength", core.FuncID(m))
			good := false
			allInstrs(m, func(ins ssa.Instruction) {
				if base, fld, val, ok := guard.StoreField(ins); ok && fld == "SaltLength" && core.TypeID(base.Type()) == "crypto/rsa.PSSOptions" {
					if b, f2, isF := guard.FieldOf(val); isF && f2 == "saltLength" && guard.Strip(b) == ssa.Value(m.Params[0]) {
						good = true
					}
				}
			})
			how := "PSSOptions{SaltLength: recv.saltLength}"
			if !good {
				// by provenance: the options handed to SignPSS/VerifyPSS — built here, in the
				// constructor or in a helper, possibly kept in a field set only by
				// constructors — carry the constructor's saltLength parameter
				good, how = c03SaltProvenance(p, m)
			}
			r.Check(good, "C03.saltbinding", key, p.FuncPos(m), "PSSOptions.SaltLength is not the key's configured salt length", how)
		}
	}
}

// c03SaltProvenance: every *rsa.PSSOptions handed to rsa.SignPSS / rsa.VerifyPSS
// in m has, as its SaltLength, the saltLength parameter of a New_RSA_SSA_PSS_*
// constructor — followed through helpers, through fields that only fresh
// composite literals set, and through the options object built elsewhere.
func c03SaltProvenance(p *core.Program, m *ssa.Function) (bool, string) {
	pkgFns := func() []*ssa.Function {
		var out []*ssa.Function
		for _, g := range p.SortedFuncs(core.Product) {
			if g.Pkg == m.Pkg {
				out = append(out, g)
			}
		}
		return out
	}()
	// no SaltLength store on an options object that is not being built
	mutated := false
	for _, g := range pkgFns {
		allInstrs(g, func(ins ssa.Instruction) {
			if base, fld, _, ok := guard.StoreField(ins); ok && fld == "SaltLength" && core.TypeID(base.Type()) == "crypto/rsa.PSSOptions" {
				if _, fresh := guard.Strip(base).(*ssa.Alloc); !fresh {
					mutated = true
				}
			}
		})
	}
	if mutated {
		return false, ""
	}
	// values stored into field idx of struct type st, all in fresh literals
	fieldStores := func(st types.Type, idx int) ([]ssa.Value, bool) {
		var vals []ssa.Value
		ok := true
		for _, g := range pkgFns {
			allInstrs(g, func(ins ssa.Instruction) {
				fa, isFA := ins.(*ssa.FieldAddr)
				if !isFA || fa.Field != idx {
					return
				}
				pt, isP := fa.X.Type().Underlying().(*types.Pointer)
				if !isP || !types.Identical(pt.Elem(), st) {
					return
				}
				_, fresh := guard.Strip(fa.X).(*ssa.Alloc)
				for _, ref := range *fa.Referrers() {
					switch y := ref.(type) {
					case *ssa.Store:
						if y.Addr == ssa.Value(fa) {
							if !fresh {
								ok = false
							}
							vals = append(vals, y.Val)
						}
					case *ssa.UnOp, *ssa.DebugRef:
					default:
						ok = false
					}
				}
			})
		}
		return vals, ok && len(vals) > 0
	}
	fieldOfLoad := func(v ssa.Value) (types.Type, int, bool) {
		u, isU := guard.Strip(v).(*ssa.UnOp)
		if !isU || u.Op != token.MUL {
			return nil, 0, false
		}
		fa, isFA := u.X.(*ssa.FieldAddr)
		if !isFA {
			return nil, 0, false
		}
		pt, isP := fa.X.Type().Underlying().(*types.Pointer)
		if !isP {
			return nil, 0, false
		}
		return pt.Elem(), fa.Field, true
	}
	var configured func(v ssa.Value, depth int) bool
	configured = func(v ssa.Value, depth int) bool {
		if depth > 4 {
			return false
		}
		v = guard.Strip(v)
		if prm, isP := v.(*ssa.Parameter); isP {
			g := prm.Parent()
			if g == nil {
				return false
			}
			if strings.HasPrefix(g.Name(), "New_RSA_SSA_PSS_") {
				return prm.Name() == "saltLength"
			}
			if g.Object() == nil || g.Object().Exported() || g.Parent() != nil {
				return false
			}
			idx := -1
			for i, q := range g.Params {
				if q == prm {
					idx = i
				}
			}
			n, all := 0, true
			for _, h := range pkgFns {
				allInstrs(h, func(ins ssa.Instruction) {
					if c2, isC := ins.(ssa.CallInstruction); isC && c2.Common().StaticCallee() == g && idx >= 0 && idx < len(c2.Common().Args) {
						n++
						if !configured(c2.Common().Args[idx], depth+1) {
							all = false
						}
					}
				})
			}
			return n > 0 && all
		}
		if st, idx, isL := fieldOfLoad(v); isL {
			vals, ok := fieldStores(st, idx)
			if !ok {
				return false
			}
			for _, sv := range vals {
				if !configured(sv, depth+1) {
					return false
				}
			}
			return true
		}
		return false
	}
	var salts func(v ssa.Value, depth int) ([]ssa.Value, bool)
	salts = func(v ssa.Value, depth int) ([]ssa.Value, bool) {
		if depth > 4 {
			return nil, false
		}
		v = guard.Strip(v)
		switch x := v.(type) {
		case *ssa.Alloc:
			var out []ssa.Value
			for _, ref := range *x.Referrers() {
				if fa, isFA := ref.(*ssa.FieldAddr); isFA {
					for _, r2 := range *fa.Referrers() {
						if base, fld, val, ok := guard.StoreField(r2); ok && fld == "SaltLength" && guard.Strip(base) == ssa.Value(x) {
							out = append(out, val)
						}
					}
				}
			}
			return out, len(out) == 1
		case *ssa.Phi:
			var out []ssa.Value
			for _, e := range x.Edges {
				if guard.IsNilConst(e) {
					continue
				}
				sv, ok := salts(e, depth+1)
				if !ok {
					return nil, false
				}
				out = append(out, sv...)
			}
			return out, len(out) > 0
		}
		if hc, hi := guard.CallOf(v); hc != nil {
			g := hc.Call.StaticCallee()
			if g == nil || g.Blocks == nil || g.Pkg != m.Pkg {
				return nil, false
			}
			var out []ssa.Value
			for _, ret := range guard.SuccessReturns(g) {
				if hi >= len(ret.Results) {
					return nil, false
				}
				sv, ok := salts(ret.Results[hi], depth+1)
				if !ok {
					return nil, false
				}
				out = append(out, sv...)
			}
			if len(guard.SuccessReturns(g)) == 0 {
				for _, ret := range guard.Returns(g) {
					sv, ok := salts(ret.Results[hi], depth+1)
					if !ok {
						return nil, false
					}
					out = append(out, sv...)
				}
			}
			return out, len(out) > 0
		}
		if st, idx, isL := fieldOfLoad(v); isL {
			vals, ok := fieldStores(st, idx)
			if !ok {
				return nil, false
			}
			var out []ssa.Value
			for _, fv := range vals {
				sv, ok := salts(fv, depth+1)
				if !ok {
					return nil, false
				}
				out = append(out, sv...)
			}
			return out, len(out) > 0
		}
		return nil, false
	}
	n := 0
	good := true
	allInstrs(m, func(ins ssa.Instruction) {
		call, ok := ins.(*ssa.Call)
		if !ok {
			return
		}
		nme := guard.CalleeName(&call.Call)
		if nme != "crypto/rsa.SignPSS" && nme != "crypto/rsa.VerifyPSS" {
			return
		}
		n++
		opts := call.Call.Args[len(call.Call.Args)-1]
		sv, ok := salts(opts, 0)
		if !ok {
			good = false
			return
		}
		for _, v := range sv {
			if !configured(v, 0) {
				good = false
			}
		}
	})
	return good && n > 0, fmt.Sprintf("the options of %d SignPSS/VerifyPSS call(s) carry the constructor's saltLength parameter (followed through fields set only in constructor literals and through helpers)", n)
}

// c03BitBytes: a quantity counted in bits — the result of a method or the value
// of a field whose name says so (…Bits, BitLen, BitSize) — is divided by 8 (or
// shifted right by 3) only after 7 was added. Sizes in this library need not
// be multiples of 8 (RSA moduli >= 2048 bits of any length, P-521), so a floor
// division yields a byte length that is one short for exactly those keys.
func c03BitBytes(c *Ctx) {
	p, r := c.P, c.R
	isBitsName := func(n string) bool {
		l := strings.ToLower(n)
		return strings.HasSuffix(l, "bits") || l == "bitlen" || l == "bitsize" || strings.HasSuffix(l, "sizeinbits") || strings.HasSuffix(l, "bitlength")
	}
	// bitsValue: v is such a quantity, possibly converted; plus7 reports a dominating "+ 7"
	var bitsValue func(v ssa.Value, depth int) (isBits, plus7 bool)
	bitsValue = func(v ssa.Value, depth int) (bool, bool) {
		if depth > 4 {
			return false, false
		}
		v = guard.Strip(v)
		switch x := v.(type) {
		case *ssa.Convert:
			return bitsValue(x.X, depth+1)
		case *ssa.BinOp:
			if x.Op == token.ADD {
				for _, pr := range [][2]ssa.Value{{x.X, x.Y}, {x.Y, x.X}} {
					if k, isK := guard.ConstInt(pr[1]); isK {
						b, _ := bitsValue(pr[0], depth+1)
						return b, b && k == 7
					}
				}
			}
			return false, false
		case *ssa.Call:
			if g := x.Call.StaticCallee(); g != nil && isBitsName(g.Name()) {
				return true, false
			}
			if x.Call.IsInvoke() && isBitsName(x.Call.Method.Name()) {
				return true, false
			}
		}
		if _, fld, ok := guard.FieldOf(v); ok && isBitsName(fld) {
			return true, false
		}
		return false, false
	}
	n := 0
	for _, f := range p.SortedFuncs(core.Product) {
		rel := core.Rel(core.PkgOf(f))
		if strings.HasPrefix(rel, "internal/signature/mldsa") || strings.HasPrefix(rel, "internal/signature/slhdsa") {
			continue // bit-packing arithmetic of the PQ schemes: C10/C16
		}
		allInstrs(f, func(ins ssa.Instruction) {
			bo, ok := ins.(*ssa.BinOp)
			if !ok {
				return
			}
			k, isK := guard.ConstInt(bo.Y)
			if !isK || !((bo.Op == token.QUO && k == 8) || (bo.Op == token.SHR && k == 3)) {
				return
			}
			isBits, plus7 := bitsValue(bo.X, 0)
			if !isBits {
				return
			}
			n++
			r.Check(plus7, "C03.bitbytes", fmt.Sprintf("C03.bitbytes/%s/%s", core.FuncID(f), valName(bo.X)), p.Pos(ins.Pos()),
				"a bit count is turned into a byte count by floor division (bits/8): for sizes that are not a multiple of 8 (RSA moduli of 2049..2055 bits, P-521) the byte length is one short", "(bits+7)/8")
		})
	}
	r.Counts["bits_to_bytes_sites"] = n
	if n == 0 {
		r.Ok("C03.bitbytes", "C03.bitbytes/none", "-", "no floor division of a bit count")
	}
}

// fieldSuffixSites: append sites of f whose appended operand is a []byte field
// of the receiver that only constructors set, always to the single byte 0x00
// (or leave nil): use site -> the stores of the field.
func fieldSuffixSites(p *core.Program, f *ssa.Function) map[ssa.Instruction][]ssa.Instruction {
	out := map[ssa.Instruction][]ssa.Instruction{}
	if f.Signature.Recv() == nil {
		return out
	}
	allInstrs(f, func(ins ssa.Instruction) {
		call, ok := ins.(ssa.CallInstruction)
		if !ok {
			return
		}
		n := guard.CalleeName(call.Common())
		if !(n == "slices.Concat" || n == "append" || strings.HasSuffix(n, ").Write")) {
			return
		}
		var cands []ssa.Value
		for _, a := range call.Common().Args {
			cands = append(cands, a)
			if sl, ok := a.(*ssa.Slice); ok {
				if al, ok := sl.X.(*ssa.Alloc); ok {
					for _, ref := range *al.Referrers() {
						if ia, ok := ref.(*ssa.IndexAddr); ok {
							for _, r2 := range *ia.Referrers() {
								if st, ok := r2.(*ssa.Store); ok {
									cands = append(cands, st.Val)
								}
							}
						}
					}
				}
			}
		}
		for _, a := range cands {
			u, isU := guard.Strip(a).(*ssa.UnOp)
			if !isU || u.Op != token.MUL || !core.IsByteSlice(u.Type()) {
				continue
			}
			fa, isFA := u.X.(*ssa.FieldAddr)
			if !isFA || guard.Strip(fa.X) != ssa.Value(f.Params[0]) {
				continue
			}
			var stores []ssa.Instruction
			okAll := true
			for _, g := range p.SortedFuncs(core.Product) {
				if g.Pkg != f.Pkg {
					continue
				}
				allInstrs(g, func(i2 ssa.Instruction) {
					fa2, ok := i2.(*ssa.FieldAddr)
					if !ok || fa2.Field != fa.Field || !types.Identical(fa2.X.Type(), fa.X.Type()) {
						return
					}
					_, fresh := guard.Strip(fa2.X).(*ssa.Alloc)
					for _, ref := range *fa2.Referrers() {
						if st, isSt := ref.(*ssa.Store); isSt && st.Addr == ssa.Value(fa2) {
							if !fresh || !(zeroByteSlice(st.Val) || guard.IsNilConst(st.Val)) {
								okAll = false
							}
							if zeroByteSlice(st.Val) {
								stores = append(stores, st)
							}
						}
					}
				})
			}
			if okAll && len(stores) > 0 {
				out[ins] = stores
			}
		}
	})
	return out
}
