package rules

import (
	"fmt"
	"strings"

	"golang.org/x/tools/go/ssa"

	"tinkverif/core"
	"tinkverif/guard"
)

// c12RSABits: an RSA key parser derives the parameters' modulus size from the
// modulus it parsed. The size is the bit length of the integer — (*big.Int).BitLen()
// — not a byte count times eight: RSA moduli need not fill their top byte, and
// NewPublicKey compares the parameters' size with BitLen() exactly, so any other
// derivation makes such keys unparseable after they were written.
func c12RSABits(c *Ctx) {
	p, r := c.P, c.R
	rule := "C12.rsabits"
	pkgs := []string{"signature/rsassapkcs1", "signature/rsassapss", "jwt/jwtrsassapkcs1", "jwt/jwtrsassapss"}
	var isBitLenD func(v ssa.Value, depth int) bool
	isBitLenD = func(v ssa.Value, depth int) bool {
		call, idx := guard.CallOf(v)
		if call == nil {
			return false
		}
		if guard.CalleeName(&call.Call) == "(*math/big.Int).BitLen" {
			return true
		}
		// a helper of the package that hands the bit length back as one of its results
		h := call.Call.StaticCallee()
		if h == nil || h.Blocks == nil || depth > 2 || !strings.HasPrefix(core.PkgOf(h), core.ModPath) {
			return false
		}
		rets := guard.Returns(h)
		for _, ret := range rets {
			if idx >= len(ret.Results) || !isBitLenD(ret.Results[idx], depth+1) {
				return false
			}
		}
		return len(rets) > 0
	}
	isBitLen := func(v ssa.Value) bool { return isBitLenD(v, 0) }
	n := 0
	for _, rel := range pkgs {
		for _, f := range pkgFuncs(p, rel) {
			if f.Name() != "ParseKey" || f.Signature.Recv() == nil {
				continue
			}
			// sizeOK: v (in function g) is BitLen(), or a parameter of g that receives BitLen() at
			// every call site reached from this parser
			var visit func(g *ssa.Function, argOf func(prm *ssa.Parameter) []ssa.Value, depth int)
			visit = func(g *ssa.Function, argOf func(prm *ssa.Parameter) []ssa.Value, depth int) {
				sizeOK := func(v ssa.Value) bool {
					if isBitLen(v) {
						return true
					}
					if prm, isP := guard.Strip(v).(*ssa.Parameter); isP && argOf != nil {
						args := argOf(prm)
						if len(args) == 0 {
							return false
						}
						for _, a := range args {
							if !isBitLen(a) {
								return false
							}
						}
						return true
					}
					return false
				}
				allInstrs(g, func(ins ssa.Instruction) {
					if _, fld, val, isS := guard.StoreField(ins); isS && (fld == "ModulusSizeBits" || fld == "ModulusSizeInBits") {
						n++
						r.Check(sizeOK(val), rule, fmt.Sprintf("%s/%s/%s", rule, core.FuncID(f), fld), p.Pos(ins.Pos()),
							"the modulus size of a parsed RSA key is not the BitLen() of its modulus", "= modulus.BitLen()")
					}
					call, ok := ins.(*ssa.Call)
					if !ok {
						return
					}
					callee := call.Call.StaticCallee()
					if callee == nil || callee.Blocks == nil || core.Rel(core.PkgOf(callee)) != rel {
						return
					}
					if callee.Name() == "NewParameters" {
						for i, prm := range callee.Params {
							if strings.Contains(strings.ToLower(prm.Name()), "modulussize") && i < len(call.Call.Args) {
								n++
								r.Check(sizeOK(call.Call.Args[i]), rule, fmt.Sprintf("%s/%s/NewParameters", rule, core.FuncID(f)), p.Pos(ins.Pos()),
									"the modulus size of a parsed RSA key is not the BitLen() of its modulus (a byte count times eight differs for moduli that do not fill their top byte)", "= modulus.BitLen()")
							}
						}
						return
					}
					if depth < 2 && callee.Signature.Recv() == nil {
						args := call.Call.Args
						visit(callee, func(prm *ssa.Parameter) []ssa.Value {
							for i, q := range callee.Params {
								if q == prm && i < len(args) {
									// the argument itself may be a parameter of g
									if gp, isGP := guard.Strip(args[i]).(*ssa.Parameter); isGP && argOf != nil {
										return argOf(gp)
									}
									return []ssa.Value{args[i]}
								}
							}
							return nil
						}, depth+1)
					}
				})
			}
			visit(f, nil, 0)
		}
	}
	r.Counts["rsa_modulus_size_sites"] = n
	r.Min(rule, 6)
}
