package rules

import (
	"fmt"
	"go/constant"
	"go/token"
	"go/types"
	"sort"
	"strings"

	"golang.org/x/tools/go/ssa"

	"tinkverif/consteval"
	"tinkverif/core"
	"tinkverif/guard"
)

func init() { Registry["C13"] = c13 }

const tinkpbPath = core.ModPath + "/proto/tink_go_proto"

// enumConsts lists the constants of named type pkgPath.typeName.
func enumConsts(p *core.Program, pkgPath, typeName string) map[string]constant.Value {
	pk := p.ByPath[pkgPath]
	if pk == nil {
		return nil
	}
	out := map[string]constant.Value{}
	sc := pk.Types.Scope()
	for _, n := range sc.Names() {
		c, ok := sc.Lookup(n).(*types.Const)
		if !ok {
			continue
		}
		if named, ok := c.Type().(*types.Named); ok && named.Obj().Name() == typeName {
			out[n] = c.Val()
		}
	}
	return out
}

func c13(c *Ctx) {
	p, r := c.P, c.R
	r.Explanation = "C13 is decided through its structural clauses: " +
		"(classify) the per-key predicate of hasSecrets, folded by constant propagation for every KeyMaterialType constant, is definitely true for UNKNOWN/SYMMETRIC/ASYMMETRIC_PRIVATE and false for ASYMMETRIC_PUBLIC/REMOTE whatever the key's other fields, and is applied to every key of the keyset (ContainsFunc over the whole slice, or a complete loop that returns false only after it); " +
		"(ingress) every reference to the unguarded constructor newKeysetHandleFromProto is dominated by hasSecrets(same keyset)==false, fed by decrypt*/decryptWithContext of the same function, or is the single export to package internal, which only insecurecleartextkeyset and testkeyset read; " +
		"(egress) every result of entriesToProtoKeyset flows only into encrypt*, into Writer.Write dominated by hasSecrets(it)==false, or out of keysetMaterial; every keyset.Writer.Write call in product code is so guarded or in the two insecure packages; " +
		"(encrypted) decrypt*/encrypt* call the caller's AEAD exactly once, with the caller's associatedData parameter and the stored ciphertext / marshalled keyset, release a keyset only under err==nil of that call, EncryptedKeyset literals are built only there; every caller passes its own associatedData parameter through; " +
		"(info) KeysetInfo/KeyInfo literals are filled only from type URL, status, key ID and prefix type, String() prints only KeysetInfo(). " +
		"(label) hasSecrets trusts the KeyMaterialType label, so every registered key parser, folded with the label bound to each constant, must be able to succeed for exactly one label, and the generic ParseKey may fall back to an opaque key only when no parser is registered. " +
		"(pubtype) a key.Key component stored into a …PublicKey object was type-tested against a …PublicKey type on every path (a private key shares its public key's parameters). " +
		"(writeronly) the bytes a keyset writer hands to its io.Writer are the Marshal result of the message of that call alone (MarshalAppend only onto a provably empty slice). " +
		"secretdata's copy-in/copy-out is decided under C19. Not decided: confidentiality of the caller's AEAD."
	hs := p.PkgFunc("keyset", "hasSecrets")
	if hs == nil {
		r.AnchorMissing("C13.classify", "keyset.hasSecrets")
		return
	}
	c13Classify(c, hs)
	c13Ingress(c, hs)
	c13Egress(c, hs)
	c13Encrypted(c)
	c13Info(c)
	c13Label(c)
	c13PubType(c)
	c13Relabel(c)
	c13WriterOnly(c)
}

// ---------------------------------------------------------------- classify

func c13Classify(c *Ctx, hs *ssa.Function) {
	p, r := c.P, c.R
	enums := enumConsts(p, tinkpbPath, "KeyData_KeyMaterialType")
	if len(enums) < 5 {
		r.AnchorMissing("C13.classify", "KeyData_KeyMaterialType constants")
		return
	}
	secret := map[string]bool{"KeyData_UNKNOWN_KEYMATERIAL": true, "KeyData_SYMMETRIC": true, "KeyData_ASYMMETRIC_PRIVATE": true,
		"KeyData_ASYMMETRIC_PUBLIC": false, "KeyData_REMOTE": false}
	// locate the per-key predicate: the function (closure or hasSecrets itself) that reads GetKeyMaterialType
	var pred *ssa.Function
	var mtCall *ssa.Call
	for _, f := range withClosures(hs) {
		allInstrs(f, func(ins ssa.Instruction) {
			if call, ok := ins.(*ssa.Call); ok && strings.HasSuffix(guard.CalleeName(&call.Call), ".GetKeyMaterialType") {
				pred, mtCall = f, call
			}
		})
	}
	if pred == nil {
		r.AnchorMissing("C13.classify", "read of KeyMaterialType in hasSecrets")
		return
	}
	var names []string
	for n := range enums {
		names = append(names, n)
	}
	sort.Strings(names)
	ev := consteval.New()
	for _, n := range names {
		want, known := secret[n]
		key := "C13.classify/hasSecrets/" + n
		if !known {
			// a new material type: must be treated as secret unless explicitly reviewed
			want = true
		}
		env := consteval.Env{mtCall: consteval.Val{K: consteval.Const, C: enums[n]}}
		var outs []consteval.Outcome
		ok, fellThrough := false, false
		if pred != hs {
			outs, ok = ev.Eval(pred, nil, env)
		} else {
			// loop form: fold the loop body from the block that reads the material
			// type; reaching the loop header again means "this key was let pass"
			var header *ssa.BasicBlock
			for _, b := range hs.Blocks {
				if b.Dominates(mtCall.Block()) && b != mtCall.Block() && inCycle(b) && natLoop(b)[mtCall.Block()] {
					header = b
				}
			}
			if header == nil {
				r.Unknown("C13.classify", key, p.FuncPos(pred), "material type is read outside a loop over the keys")
				continue
			}
			outs, fellThrough, ok = ev.EvalFrom(mtCall.Block(), map[*ssa.BasicBlock]bool{header: true}, env)
		}
		if !ok || (len(outs) == 0 && !fellThrough) {
			r.Unknown("C13.classify", key, p.FuncPos(pred), "cannot fold the predicate for this material type")
			continue
		}
		allWant := true
		var got []string
		if fellThrough {
			got = append(got, "next key")
			if want {
				allWant = false
			}
		}
		for _, o := range outs {
			v := o.Results[0]
			got = append(got, v.String())
			if v.K != consteval.Const || v.C.Kind() != constant.Bool || constant.BoolVal(v.C) != want {
				allWant = false
			}
		}
		r.Check(allWant, "C13.classify", key, p.FuncPos(pred),
			fmt.Sprintf("per-key secret predicate is not definitely %v for %s (possible results %v): the decision depends on something other than the material type, or the type is misclassified", want, n, got),
			fmt.Sprintf("folds to %v for every path", want))
	}
	r.Min("C13.classify", 5)

	// applied to every key
	key := "C13.classify/hasSecrets/applied to every key"
	if pred != hs {
		// closure form: must be slices.ContainsFunc(ks.GetKey(), closure) and the result returned unmodified
		ok := false
		for _, call := range callsTo(hs, "slices.ContainsFunc") {
			cc := call.Common()
			keysCall, _ := guard.CallOf(cc.Args[0])
			isMC := cc.Args[1] == ssa.Value(pred)
			if mc, ok := cc.Args[1].(*ssa.MakeClosure); ok {
				isMC = mc.Fn == ssa.Value(pred)
			}
			if keysCall != nil && strings.HasSuffix(guard.CalleeName(&keysCall.Call), "Keyset).GetKey") && isMC &&
				len(keysCall.Call.Args) == 1 && keysCall.Call.Args[0] == ssa.Value(hs.Params[0]) {
				// every return returns that call's value
				all := true
				for _, ret := range guard.Returns(hs) {
					if guard.Strip(ret.Results[0]) != call.(ssa.Value) {
						all = false
					}
				}
				ok = all
			}
		}
		r.Check(ok, "C13.classify", key, p.FuncPos(hs), "hasSecrets does not return slices.ContainsFunc(ks.GetKey(), predicate) over the whole key list", "ContainsFunc over ks.GetKey(), result returned unmodified")
	} else {
		// loop form
		ok := true
		why := ""
		var rl *rangeLoop
		if ia := func() *ssa.IndexAddr {
			var found *ssa.IndexAddr
			allInstrs(hs, func(ins ssa.Instruction) {
				if ia, isIA := ins.(*ssa.IndexAddr); isIA && found == nil {
					if kc, _ := guard.CallOf(ia.X); kc != nil && strings.HasSuffix(guard.CalleeName(&kc.Call), "Keyset).GetKey") {
						found = ia
					}
				}
			})
			return found
		}(); ia != nil {
			rl = rangeLoopOf(ia)
		}
		if rl == nil {
			ok, why = false, "no range loop over ks.GetKey() recognised"
		} else {
			for _, ret := range guard.Returns(hs) {
				b, isC := guard.ConstBool(ret.Results[0])
				if !isC {
					ok, why = false, "non-constant return"
				} else if !rl.Header.Dominates(ret.Block()) && !b {
					ok, why = false, "`return false` before the loop over the keys"
				} else if rl.Blocks[ret.Block()] && !b {
					ok, why = false, "`return false` inside the loop: later keys are not examined"
				}
			}
			// only exits: header exit and `return true`
			for b := range rl.Blocks {
				for _, s := range b.Succs {
					if !rl.Blocks[s] && b != rl.Header {
						// leaving the loop is fine only to `return true`
						ret, isRet := s.Instrs[len(s.Instrs)-1].(*ssa.Return)
						if isRet && len(s.Instrs) == 1 {
							if v, isC := guard.ConstBool(ret.Results[0]); isC && v {
								continue
							}
						}
						ok, why = false, "loop left early (break) before all keys are examined"
					}
				}
			}
		}
		r.Check(ok, "C13.classify", key, p.FuncPos(hs), "hasSecrets does not examine every key: "+why, "complete loop over ks.GetKey(); false only after the loop")
	}
}

// ---------------------------------------------------------------- ingress

// hasSecretsFalseOn: facts contain hasSecrets(v) == false.
func hasSecretsFalseOn(facts []guard.Fact, hs *ssa.Function, v ssa.Value) bool {
	for _, f := range facts {
		call, val, ok := guard.BoolCallFact(f)
		if ok && !val && call.Call.StaticCallee() == hs && len(call.Call.Args) == 1 && guard.SameValue(call.Call.Args[0], v) {
			return true
		}
	}
	return false
}

func c13Ingress(c *Ctx, hs *ssa.Function) {
	p, r := c.P, c.R
	ctor := p.PkgFunc("keyset", "newKeysetHandleFromProto")
	if ctor == nil {
		r.AnchorMissing("C13.ingress", "keyset.newKeysetHandleFromProto")
		return
	}
	n := 0
	for _, f := range p.SortedFuncs(core.Product) {
		allInstrs(f, func(ins ssa.Instruction) {
			// any reference to ctor as an operand
			refs := false
			for _, op := range ins.Operands(nil) {
				if *op == ssa.Value(ctor) {
					refs = true
				}
			}
			if !refs {
				return
			}
			n++
			key := fmt.Sprintf("C13.ingress/%s/ref newKeysetHandleFromProto", core.FuncID(f))
			call, isCall := ins.(*ssa.Call)
			if !isCall || call.Call.StaticCallee() != ctor {
				// function value reference: only the export to internal.KeysetHandle
				if st, isStore := ins.(*ssa.Store); isStore {
					if g, isG := st.Addr.(*ssa.Global); isG && g.Name() == "KeysetHandle" && core.Rel(globalPkg(g)) == "internal" && isInitFunc(f) {
						r.Ok("C13.ingress", key, p.Pos(ins.Pos()), "the single export to internal.KeysetHandle (read only by insecurecleartextkeyset and testkeyset, checked below)")
						return
					}
				}
				if mi, isMI := ins.(*ssa.MakeInterface); isMI {
					// the MakeInterface feeding that store
					okStore := false
					for _, ref := range *mi.Referrers() {
						if st, isStore := ref.(*ssa.Store); isStore {
							if g, isG := st.Addr.(*ssa.Global); isG && g.Name() == "KeysetHandle" && core.Rel(globalPkg(g)) == "internal" {
								okStore = true
							}
						}
					}
					if okStore && isInitFunc(f) {
						r.Ok("C13.ingress", key, p.Pos(ins.Pos()), "the single export to internal.KeysetHandle")
						return
					}
				}
				r.Bad("C13.ingress", key, p.Pos(ins.Pos()), "the unguarded handle constructor escapes as a function value")
				return
			}
			ks := call.Call.Args[0]
			facts := guard.InstrFacts(ins)
			if hasSecretsFalseOn(facts, hs, ks) {
				r.Ok("C13.ingress", key, p.Pos(ins.Pos()), "dominated by hasSecrets(ks) == false")
				return
			}
			if dc, idx := guard.CallOf(ks); dc != nil && idx == 0 {
				name := guard.CalleeName(&dc.Call)
				if strings.HasSuffix(name, "keyset.decrypt") || strings.HasSuffix(name, "keyset.decryptWithContext") {
					// and its error was checked
					for _, fct := range facts {
						if ec, isNil, ok := guard.ErrNilFact(fct); ok && isNil && ec == dc {
							r.Ok("C13.ingress", key, p.Pos(ins.Pos()), "keyset is the result of "+name[strings.LastIndex(name, ".")+1:]+" whose error was checked")
							return
						}
					}
				}
			}
			r.Bad("C13.ingress", key, p.Pos(ins.Pos()), "a handle is built from a cleartext keyset proto that is neither checked with hasSecrets()==false nor the result of decrypt*()")
		})
	}
	r.Min("C13.ingress", 4)
	// internal.KeysetHandle / KeysetMaterial read only by the two insecure packages
	for _, gname := range []string{"KeysetHandle", "KeysetMaterial"} {
		sp := p.Pkg("internal")
		if sp == nil || sp.Var(gname) == nil {
			r.AnchorMissing("C13.ingress", "internal."+gname)
			continue
		}
		g := sp.Var(gname)
		readers := map[string]bool{}
		for _, acc := range globalAccesses(p, g) {
			readers[core.Rel(core.PkgOf(acc.fn))] = true
		}
		var bad []string
		for rp := range readers {
			if rp != "keyset" && rp != "insecurecleartextkeyset" && rp != "testkeyset" {
				bad = append(bad, rp)
			}
		}
		sort.Strings(bad)
		r.Check(len(bad) == 0, "C13.ingress", "C13.ingress/internal."+gname+"/readers", p.Pos(g.Pos()),
			"the cleartext hook is referenced from packages other than insecurecleartextkeyset/testkeyset: "+strings.Join(bad, ","), fmt.Sprintf("referenced only from %v", keysOf(readers)))
	}
}

func keysOf(m map[string]bool) []string {
	var out []string
	for k := range m {
		out = append(out, k)
	}
	sort.Strings(out)
	return out
}

// ---------------------------------------------------------------- egress

func isInsecurePkg(rel string) bool { return rel == "insecurecleartextkeyset" || rel == "testkeyset" }

func c13Egress(c *Ctx, hs *ssa.Function) {
	p, r := c.P, c.R
	e2p := p.PkgFunc("keyset", "entriesToProtoKeyset")
	if e2p == nil {
		r.AnchorMissing("C13.egress", "keyset.entriesToProtoKeyset")
		return
	}
	// (a) every use of a result of entriesToProtoKeyset
	for _, f := range p.SortedFuncs(core.Product) {
		for _, site := range callsTo(f, e2p.String()) {
			call := site.(*ssa.Call)
			key := fmt.Sprintf("C13.egress/%s/entriesToProtoKeyset result", core.FuncID(f))
			var ksv ssa.Value
			for _, ref := range *call.Referrers() {
				if ex, ok := ref.(*ssa.Extract); ok && ex.Index == 0 {
					ksv = ex
				}
			}
			if ksv == nil {
				r.Ok("C13.egress", key, p.Pos(call.Pos()), "result unused")
				continue
			}
			bad := ""
			for _, ref := range *ksv.Referrers() {
				switch x := ref.(type) {
				case *ssa.Call:
					name := guard.CalleeName(&x.Call)
					switch {
					case strings.HasSuffix(name, "keyset.encrypt"), strings.HasSuffix(name, "keyset.encryptWithContext"):
					case x.Call.StaticCallee() == hs:
					case strings.HasSuffix(name, "keyset.Writer).Write"):
						if !hasSecretsFalseOn(guard.InstrFacts(x), hs, ksv) {
							bad = "written in cleartext at " + p.Pos(x.Pos()) + " without a dominating hasSecrets(keyset)==false"
						}
					default:
						bad = "passed to " + name + " at " + p.Pos(x.Pos())
					}
				case *ssa.Return:
					if f.Name() != "keysetMaterial" {
						bad = "returned from " + f.Name()
					}
				case *ssa.DebugRef:
				default:
					bad = fmt.Sprintf("used by %T at %s", ref, p.Pos(ref.Pos()))
				}
			}
			r.Check(bad == "", "C13.egress", key, p.Pos(call.Pos()), "the cleartext keyset proto of a handle leaves through an unguarded path: "+bad,
				"flows only into encrypt*/hasSecrets-guarded Write/keysetMaterial")
		}
	}
	// (b) every Writer.Write call in product code
	for _, f := range p.SortedFuncs(core.Product) {
		rel := core.Rel(core.PkgOf(f))
		allInstrs(f, func(ins ssa.Instruction) {
			call, ok := ins.(ssa.CallInstruction)
			if !ok || !call.Common().IsInvoke() || call.Common().Method.FullName() != "("+core.ModPath+"/keyset.Writer).Write" {
				return
			}
			key := fmt.Sprintf("C13.egress/%s/Writer.Write", core.FuncID(f))
			switch {
			case isInsecurePkg(rel):
				r.Ok("C13.egress", key, p.Pos(ins.Pos()), "insecure package: cleartext export is its documented purpose")
			case hasSecretsFalseOn(guard.InstrFacts(ins), hs, call.Common().Args[0]):
				r.Ok("C13.egress", key, p.Pos(ins.Pos()), "dominated by hasSecrets(keyset) == false")
			default:
				r.Bad("C13.egress", key, p.Pos(ins.Pos()), "a keyset is written in cleartext without a dominating hasSecrets(keyset)==false")
			}
		})
	}
	r.Min("C13.egress", 6)
}

// ---------------------------------------------------------------- encrypted

func c13Encrypted(c *Ctx) {
	p, r := c.P, c.R
	type spec struct {
		fn, method string
		dataArg    func(call *ssa.CallCommon) ssa.Value // the data argument of the AEAD call
		adIdx      int                                  // index of associatedData among the AEAD call's args
	}
	for _, name := range []string{"decrypt", "decryptWithContext", "encrypt", "encryptWithContext"} {
		f := p.PkgFunc("keyset", name)
		if f == nil {
			r.AnchorMissing("C13.encrypted", "keyset."+name)
			continue
		}
		isDec := strings.HasPrefix(name, "decrypt")
		withCtx := strings.HasSuffix(name, "WithContext")
		method := map[bool]string{true: "Decrypt", false: "Encrypt"}[isDec]
		if withCtx {
			method += "WithContext"
		}
		// parameters by name
		var adParam, ksParam ssa.Value
		for _, prm := range f.Params {
			switch prm.Name() {
			case "associatedData":
				adParam = prm
			case "encryptedKeyset", "keyset":
				ksParam = prm
			}
		}
		key := "C13.encrypted/keyset." + name
		if adParam == nil || ksParam == nil {
			r.AnchorMissing("C13.encrypted", "parameters of keyset."+name)
			continue
		}
		var aeadCalls []*ssa.Call
		allInstrs(f, func(ins ssa.Instruction) {
			if call, ok := ins.(*ssa.Call); ok && call.Call.IsInvoke() && strings.HasPrefix(call.Call.Method.Name(), method[:7]) {
				aeadCalls = append(aeadCalls, call)
			}
		})
		if len(aeadCalls) == 0 && !isDec {
			// closure form: encrypt*(…) = helper(keyset, func(b []byte) ([]byte, error) { return aead.Encrypt(b, associatedData) })
			if c13EncryptViaClosure(c, f, key, method, withCtx, adParam, ksParam) {
				continue
			}
		}
		if len(aeadCalls) == 0 && isDec {
			// closure form: decrypt*(…) = helper(encryptedKeyset, func(ct []byte) ([]byte, error) { return aead.Decrypt(ct, associatedData) })
			if c13DecryptViaClosure(c, f, key, method, withCtx, adParam, ksParam) {
				continue
			}
		}
		if len(aeadCalls) != 1 {
			r.Bad("C13.encrypted", key+"/one AEAD call", p.FuncPos(f), fmt.Sprintf("expected exactly one call of the key-encryption AEAD's %s, found %d (a second attempt with other parameters weakens the binding)", method, len(aeadCalls)))
			continue
		}
		call := aeadCalls[0]
		args := call.Call.Args
		if withCtx {
			args = args[1:]
		}
		okAD := len(args) == 2 && args[1] == adParam
		r.Check(okAD && call.Call.Method.Name() == method, "C13.encrypted", key+"/associated data", p.Pos(call.Pos()),
			"the key-encryption AEAD is not called with the caller's associatedData parameter", method+"(…, associatedData parameter)")
		if isDec {
			// data = encryptedKeyset.GetEncryptedKeyset(); success returns dominated by err==nil; keyset unmarshalled from the plaintext
			dc, _ := guard.CallOf(args[0])
			okData := dc != nil && strings.HasSuffix(guard.CalleeName(&dc.Call), "EncryptedKeyset).GetEncryptedKeyset") && dc.Call.Args[0] == ksParam
			if !okData {
				if b, fld, isF := guard.FieldOf(args[0]); isF && fld == "EncryptedKeyset" && b == ksParam {
					okData = true
				}
			}
			r.Check(okData, "C13.encrypted", key+"/ciphertext", p.Pos(call.Pos()), "Decrypt is not applied to the stored encrypted keyset", "Decrypt(encryptedKeyset.GetEncryptedKeyset(), …)")
			for _, ret := range guard.SuccessReturns(f) {
				okErr, okFlow := false, false
				for _, fct := range guard.BlockFacts(ret.Block()) {
					if ec, isNil, ok := guard.ErrNilFact(fct); ok && isNil && ec == call {
						okErr = true
					}
				}
				// proto.Unmarshal(plaintext-of-that-call, returned keyset) with checked error
				for _, uc := range callsTo(f, "google.golang.org/protobuf/proto.Unmarshal") {
					ucc := uc.Common()
					src, si := guard.CallOf(ucc.Args[0])
					if src == call && si == 0 && guard.Strip(ucc.Args[1]) == guard.Strip(ret.Results[0]) {
						for _, fct := range guard.BlockFacts(ret.Block()) {
							if ec, isNil, ok := guard.ErrNilFact(fct); ok && isNil && ssa.Instruction(ec) == uc {
								okFlow = true
							}
						}
					}
				}
				if !okFlow {
					// the keyset is produced by a helper applied to the plaintext of that call:
					// every success return of the helper hands back a keyset it unmarshalled
					// from its parameter, with the Unmarshal error checked
					if hc, hi := guard.CallOf(ret.Results[0]); hc != nil && hi == 0 {
						if h := hc.Call.StaticCallee(); h != nil && h.Blocks != nil && h.Pkg == f.Pkg && len(hc.Call.Args) >= 1 {
							src, si := guard.CallOf(hc.Call.Args[0])
							forwardsErr := len(ret.Results) == 2 && func() bool { ec, ei := guard.CallOf(ret.Results[1]); return ec == hc && ei == 1 }()
							all, some := src == call && si == 0 && forwardsErr, false
							// the helper may also take Decrypt's error: then each of its success
							// returns is reached only where that parameter is nil
							errPrm := -1
							for ai, a := range hc.Call.Args {
								if ec, ei := guard.CallOf(a); ec == call && ei == 1 && guard.IsErrorType(a.Type()) && ai < len(h.Params) {
									errPrm = ai
								}
							}
							errChecked := errPrm >= 0
							for _, hr := range guard.SuccessReturns(h) {
								if errPrm >= 0 {
									nilHere := false
									for _, fct := range guard.BlockFacts(hr.Block()) {
										if op, x, y, isC := guard.Cmp(fct); isC && op == token.EQL &&
											((guard.IsNilConst(y) && x == ssa.Value(h.Params[errPrm])) || (guard.IsNilConst(x) && y == ssa.Value(h.Params[errPrm]))) {
											nilHere = true
										}
									}
									if !nilHere {
										errChecked = false
									}
								}
								good := false
								for _, uc := range callsTo(h, "google.golang.org/protobuf/proto.Unmarshal") {
									ucc := uc.Common()
									if guard.Strip(ucc.Args[0]) == ssa.Value(h.Params[0]) && guard.Strip(ucc.Args[1]) == guard.Strip(hr.Results[0]) {
										for _, fct := range guard.BlockFacts(hr.Block()) {
											if ec, isNil, ok := guard.ErrNilFact(fct); ok && isNil && ssa.Instruction(ec) == uc {
												good = true
											}
										}
									}
								}
								some = true
								if !good {
									all = false
								}
							}
							if all && some {
								okFlow = true
								if errChecked {
									okErr = true
								}
							}
						}
					}
				}
				r.Check(okErr && okFlow, "C13.encrypted", key+"/release", p.Pos(ret.Pos()),
					"a keyset can be returned without the AEAD's Decrypt having succeeded on the caller's associated data, or it is not the decrypted plaintext",
					"dominated by err==nil of Decrypt and of proto.Unmarshal(plaintext, keyset)")
			}
		} else {
			// data = proto.Marshal(keyset param); literal EncryptedKeyset{EncryptedKeyset: result, KeysetInfo: getKeysetInfo(keyset)}
			mc, mi := guard.CallOf(args[0])
			okData := mc != nil && mi == 0 && guard.CalleeName(&mc.Call) == "google.golang.org/protobuf/proto.Marshal" && guard.Strip(mc.Call.Args[0]) == ksParam
			r.Check(okData, "C13.encrypted", key+"/plaintext", p.Pos(call.Pos()), "Encrypt is not applied to proto.Marshal(keyset)", "Encrypt(proto.Marshal(keyset), …)")
			okLit := false
			allInstrs(f, func(ins ssa.Instruction) {
				if base, fld, val, ok := guard.StoreField(ins); ok && fld == "EncryptedKeyset" && core.TypeID(base.Type()) == "proto/tink_go_proto.EncryptedKeyset" {
					if vc, vi := guard.CallOf(val); vc == call && vi == 0 {
						okLit = true
					}
				}
			})
			if !okLit {
				// the message is built by a helper of the package that is handed the ciphertext:
				// its EncryptedKeyset field is the parameter bound to the AEAD's result here
				allInstrs(f, func(ins ssa.Instruction) {
					hc, ok := ins.(*ssa.Call)
					if !ok {
						return
					}
					h := hc.Call.StaticCallee()
					if h == nil || h.Blocks == nil || h.Pkg != f.Pkg {
						return
					}
					for i, a := range hc.Call.Args {
						if vc, vi := guard.CallOf(a); vc != call || vi != 0 || i >= len(h.Params) {
							continue
						}
						allInstrs(h, func(i2 ssa.Instruction) {
							if base, fld, val, ok := guard.StoreField(i2); ok && fld == "EncryptedKeyset" && core.TypeID(base.Type()) == "proto/tink_go_proto.EncryptedKeyset" && guard.Strip(val) == ssa.Value(h.Params[i]) {
								// and what f returns is the helper's result
								for _, ret := range guard.SuccessReturns(f) {
									if rc, ri := guard.CallOf(ret.Results[0]); rc == hc && ri == 0 {
										okLit = true
										c13EncryptHelpers[h] = true
									}
								}
							}
						})
					}
				})
			}
			r.Check(okLit, "C13.encrypted", key+"/output", p.FuncPos(f), "the EncryptedKeyset message does not carry the AEAD's ciphertext", "EncryptedKeyset.EncryptedKeyset = result of Encrypt")
		}
	}
	// EncryptedKeyset literals only in encrypt*, and callers pass their own associatedData parameter
	for _, f := range p.SortedFuncs(core.Product) {
		allInstrs(f, func(ins ssa.Instruction) {
			if al, ok := ins.(*ssa.Alloc); ok && core.TypeID(al.Type()) == "proto/tink_go_proto.EncryptedKeyset" {
				rel := core.Rel(core.PkgOf(f))
				okSite := rel == "keyset" && (f.Name() == "encrypt" || f.Name() == "encryptWithContext" || strings.HasPrefix(f.Name(), "Read") || f.Name() == "ReadEncrypted" || c13EncryptHelpers[f])
				// readers allocate an empty message to unmarshal into
				if !okSite && rel == "keyset" {
					// an empty message (reader target), or a copy of nothing but the ciphertext field of another EncryptedKeyset
					fresh := true
					for _, ref := range *al.Referrers() {
						fa, isFA := ref.(*ssa.FieldAddr)
						if !isFA {
							continue
						}
						st := al.Type().Underlying().(*types.Pointer).Elem().Underlying().(*types.Struct)
						copyOnly := st.Field(fa.Field).Name() == "EncryptedKeyset"
						for _, r2 := range *fa.Referrers() {
							if s, isS := r2.(*ssa.Store); isS {
								src, _ := guard.CallOf(s.Val)
								if src == nil || !strings.HasSuffix(guard.CalleeName(&src.Call), "EncryptedKeyset).GetEncryptedKeyset") {
									copyOnly = false
								}
							}
						}
						if !copyOnly {
							fresh = false
						}
					}
					okSite = fresh
				}
				r.Check(okSite, "C13.encrypted", fmt.Sprintf("C13.encrypted/%s/EncryptedKeyset literal", core.FuncID(f)), p.Pos(ins.Pos()),
					"an EncryptedKeyset message is populated outside encrypt*/the readers", "built in encrypt* or an empty message for a reader")
			}
			call, ok := ins.(*ssa.Call)
			if !ok {
				return
			}
			callee := call.Call.StaticCallee()
			if callee == nil || core.Rel(core.PkgOf(callee)) != "keyset" {
				return
			}
			switch callee.Name() {
			case "decrypt", "decryptWithContext", "encrypt", "encryptWithContext":
				ad := call.Call.Args[len(call.Call.Args)-1]
				_, isParam := ad.(*ssa.Parameter)
				r.Check(isParam, "C13.encrypted", fmt.Sprintf("C13.encrypted/%s/passes associatedData to %s", core.FuncID(f), callee.Name()), p.Pos(ins.Pos()),
					"the associated data handed to "+callee.Name()+" is not the caller's own parameter", "associatedData argument is the enclosing function's parameter")
			}
		})
	}
	r.Min("C13.encrypted", 12)
}

// ---------------------------------------------------------------- info

var infoAllowed = map[string]bool{"TypeUrl": true, "Status": true, "KeyId": true, "OutputPrefixType": true, "PrimaryKeyId": true, "KeyInfo": true}

func c13Info(c *Ctx) {
	p, r := c.P, c.R
	// every store into a KeysetInfo_KeyInfo / KeysetInfo field in product code: the value's backward slice must not touch key material
	n := 0
	for _, f := range p.SortedFuncs(core.Product) {
		allInstrs(f, func(ins ssa.Instruction) {
			base, fld, val, ok := guard.StoreField(ins)
			if !ok {
				return
			}
			tn := core.TypeID(base.Type())
			if tn != "proto/tink_go_proto.KeysetInfo_KeyInfo" && tn != "proto/tink_go_proto.KeysetInfo" {
				return
			}
			n++
			key := fmt.Sprintf("C13.info/%s/%s.%s", core.FuncID(f), tn[strings.LastIndex(tn, ".")+1:], fld)
			if !infoAllowed[fld] {
				r.Bad("C13.info", key, p.Pos(ins.Pos()), "unexpected field populated in keyset info")
				return
			}
			if leak := touchesKeyMaterial(val, 0, map[ssa.Value]bool{}); leak != "" {
				r.Bad("C13.info", key, p.Pos(ins.Pos()), "keyset info field is computed from key material: "+leak)
				return
			}
			r.Ok("C13.info", key, p.Pos(ins.Pos()), "value derives only from metadata ("+valName(val)+")")
		})
	}
	r.Min("C13.info", 8)
	// Handle.String prints only KeysetInfo()
	if f := p.Method("keyset", "Handle", true, "String"); f == nil {
		r.AnchorMissing("C13.info", "(*keyset.Handle).String")
	} else {
		ok := true
		var calls []string
		allInstrs(f, func(ins ssa.Instruction) {
			if call, isC := ins.(ssa.CallInstruction); isC {
				n := guard.CalleeName(call.Common())
				calls = append(calls, n[strings.LastIndex(n, "/")+1:])
				if !(strings.HasSuffix(n, "keyset.Handle).KeysetInfo") || strings.Contains(n, "prototext") || n == "len") {
					ok = false
				}
			}
		})
		r.Check(ok, "C13.info", "C13.info/(*keyset.Handle).String", p.FuncPos(f), "Handle.String() calls something other than KeysetInfo() and the text marshaller: "+strings.Join(calls, ","), "prints prototext(KeysetInfo()) only")
	}
	// monitoring key infos: built from status, key ID, type URL, prefix
	if f := p.PkgFunc("internal/monitoringutil", "MonitoringKeysetInfoFromKeysetInfo"); f != nil {
		ok := true
		allInstrs(f, func(ins ssa.Instruction) {
			if call, isC := ins.(ssa.CallInstruction); isC {
				n := guard.CalleeName(call.Common())
				if strings.HasSuffix(n, ".GetValue") || strings.HasSuffix(n, ".GetKeyData") {
					ok = false
				}
			}
		})
		r.Check(ok, "C13.info", "C13.info/monitoringutil.MonitoringKeysetInfoFromKeysetInfo", p.FuncPos(f), "monitoring keyset info reads key material", "derived from KeysetInfo only")
	}
}

// touchesKeyMaterial walks the backward slice of v and reports the first
// access to key bytes (KeyData.Value / GetValue / secretdata.Data / whole
// KeyData message).
func touchesKeyMaterial(v ssa.Value, depth int, seen map[ssa.Value]bool) string {
	if depth > 8 || seen[v] {
		return ""
	}
	seen[v] = true
	if _, fld, ok := guard.FieldOf(v); ok && (fld == "Value" || fld == "KeyValue") {
		return "reads field " + fld
	}
	switch x := v.(type) {
	case *ssa.Call:
		n := guard.CalleeName(&x.Call)
		if strings.HasSuffix(n, ".GetValue") || strings.HasSuffix(n, "secretdata.Bytes).Data") || strings.HasSuffix(n, ".GetKeyValue") {
			return "calls " + n
		}
		// getters on metadata and serialization accessors are fine; look at arguments of pure conversions only
		for _, a := range x.Call.Args {
			if _, isMsg := a.Type().Underlying().(*types.Pointer); isMsg {
				continue
			}
			if s := touchesKeyMaterial(a, depth+1, seen); s != "" {
				return s
			}
		}
		return ""
	case *ssa.Phi:
		for _, e := range x.Edges {
			if s := touchesKeyMaterial(e, depth+1, seen); s != "" {
				return s
			}
		}
	case *ssa.Extract:
		return touchesKeyMaterial(x.Tuple, depth+1, seen)
	case *ssa.UnOp:
		if x.Op == token.MUL {
			if fa, ok := x.X.(*ssa.FieldAddr); ok {
				return touchesKeyMaterial(fa.X, depth+1, seen)
			}
		}
		return touchesKeyMaterial(x.X, depth+1, seen)
	case *ssa.ChangeType:
		return touchesKeyMaterial(x.X, depth+1, seen)
	case *ssa.Convert:
		return touchesKeyMaterial(x.X, depth+1, seen)
	case *ssa.MakeInterface:
		return touchesKeyMaterial(x.X, depth+1, seen)
	case *ssa.Slice:
		return touchesKeyMaterial(x.X, depth+1, seen)
	}
	return ""
}

// c13EncryptViaClosure decides the encrypt-side obligations when the AEAD call
// sits in a closure handed to a shared helper of the package. It returns false
// when the function does not have that shape (the ordinary rule then reports).
func c13EncryptViaClosure(c *Ctx, f *ssa.Function, key, method string, withCtx bool, adParam, ksParam ssa.Value) bool {
	p, r := c.P, c.R
	if len(f.AnonFuncs) != 1 {
		return false
	}
	cl := f.AnonFuncs[0]
	var aead []*ssa.Call
	allInstrs(cl, func(ins ssa.Instruction) {
		if call, ok := ins.(*ssa.Call); ok && call.Call.IsInvoke() && strings.HasPrefix(call.Call.Method.Name(), method[:7]) {
			aead = append(aead, call)
		}
	})
	// the helper call receiving the closure
	var hcall *ssa.Call
	var mc *ssa.MakeClosure
	allInstrs(f, func(ins ssa.Instruction) {
		call, ok := ins.(*ssa.Call)
		if !ok {
			return
		}
		for _, a := range call.Call.Args {
			if m, isMC := guard.Strip(a).(*ssa.MakeClosure); isMC && m.Fn == ssa.Value(cl) {
				hcall, mc = call, m
			}
		}
	})
	if len(aead) != 1 || hcall == nil {
		return false
	}
	h := hcall.Call.StaticCallee()
	if h == nil || h.Blocks == nil || h.Pkg != f.Pkg {
		return false
	}
	call := aead[0]
	args := call.Call.Args
	if withCtx {
		args = args[1:]
	}
	// associated data: the free variable bound to the caller's associatedData parameter
	okAD := false
	if len(args) == 2 {
		v := guard.Strip(args[1])
		if u, isU := v.(*ssa.UnOp); isU {
			v = u.X
		}
		for i, fv := range cl.FreeVars {
			if v == ssa.Value(fv) && i < len(mc.Bindings) {
				b := guard.Strip(mc.Bindings[i])
				if b == adParam {
					okAD = true
				}
				// captured by reference: the binding is the cell holding the parameter
				if al, isAl := b.(*ssa.Alloc); isAl {
					for _, ref := range *al.Referrers() {
						if st, isS := ref.(*ssa.Store); isS && st.Addr == ssa.Value(al) && guard.Strip(st.Val) == adParam {
							okAD = true
						}
					}
				}
			}
		}
	}
	r.Check(okAD && call.Call.Method.Name() == method, "C13.encrypted", key+"/associated data", p.Pos(call.Pos()),
		"the key-encryption AEAD is not called with the caller's associatedData parameter", method+"(…, associatedData parameter) inside the closure handed to "+h.Name())
	// plaintext: the closure's own parameter, which the helper binds to proto.Marshal(keyset)
	okData := len(args) == 2 && len(cl.Params) >= 1 && guard.Strip(args[0]) == ssa.Value(cl.Params[0]) && closureReturnsCall(cl, call)
	cidx, kidx := -1, -1
	for i, a := range hcall.Call.Args {
		if guard.Strip(a) == ssa.Value(mc) {
			cidx = i
		}
		if guard.Strip(a) == ksParam {
			kidx = i
		}
	}
	var inner []*ssa.Call
	if cidx >= 0 && cidx < len(h.Params) {
		allInstrs(h, func(ins ssa.Instruction) {
			if c2, ok := ins.(*ssa.Call); ok && c2.Call.Value == ssa.Value(h.Params[cidx]) {
				inner = append(inner, c2)
			}
		})
	}
	if len(inner) != 1 || kidx < 0 || kidx >= len(h.Params) {
		r.Bad("C13.encrypted", key+"/one AEAD call", p.FuncPos(f), fmt.Sprintf("the helper %s does not call the encryption closure exactly once on the caller's keyset (%d calls)", h.Name(), len(inner)))
		return true
	}
	ic := inner[0]
	mcall, mi := guard.CallOf(ic.Call.Args[0])
	okData = okData && mcall != nil && mi == 0 && guard.CalleeName(&mcall.Call) == "google.golang.org/protobuf/proto.Marshal" && guard.Strip(mcall.Call.Args[0]) == ssa.Value(h.Params[kidx])
	r.Check(okData, "C13.encrypted", key+"/plaintext", p.Pos(call.Pos()), "Encrypt is not applied to proto.Marshal(keyset)", "closure(proto.Marshal(keyset)) in "+h.Name())
	okLit := false
	allInstrs(h, func(ins ssa.Instruction) {
		if base, fld, val, ok := guard.StoreField(ins); ok && fld == "EncryptedKeyset" && core.TypeID(base.Type()) == "proto/tink_go_proto.EncryptedKeyset" {
			if vc, vi := guard.CallOf(val); vc == ic && vi == 0 {
				okLit = true
			}
		}
	})
	// and the result of the helper is what the function returns
	forwards := false
	for _, ret := range guard.Returns(f) {
		if rc, ri := guard.CallOf(ret.Results[0]); rc == hcall && ri == 0 {
			forwards = true
		}
	}
	r.Check(okLit && forwards, "C13.encrypted", key+"/output", p.FuncPos(f), "the EncryptedKeyset message does not carry the AEAD's ciphertext", "EncryptedKeyset.EncryptedKeyset = result of the closure, returned unchanged")
	c13EncryptHelpers[h] = true
	return true
}

var c13EncryptHelpers = map[*ssa.Function]bool{}

// closureReturnsCall: every return of cl hands back the two results of call, unchanged.
func closureReturnsCall(cl *ssa.Function, call *ssa.Call) bool {
	rets := guard.Returns(cl)
	if len(rets) == 0 {
		return false
	}
	for _, ret := range rets {
		if len(ret.Results) != 2 {
			return false
		}
		for i, res := range ret.Results {
			if rc, ri := guard.CallOf(res); rc != call || ri != i {
				return false
			}
		}
	}
	return true
}

// closureADIsParam: value v, inside closure cl made by mc, is the free variable
// bound to the enclosing function's parameter adParam.
func closureADIsParam(cl *ssa.Function, mc *ssa.MakeClosure, v ssa.Value, adParam ssa.Value) bool {
	v = guard.Strip(v)
	if u, isU := v.(*ssa.UnOp); isU {
		v = u.X
	}
	for i, fv := range cl.FreeVars {
		if v != ssa.Value(fv) || i >= len(mc.Bindings) {
			continue
		}
		b := guard.Strip(mc.Bindings[i])
		if b == adParam {
			return true
		}
		// captured by reference: the binding is the cell holding the parameter
		if al, isAl := b.(*ssa.Alloc); isAl {
			ok, n := false, 0
			for _, ref := range *al.Referrers() {
				if st, isS := ref.(*ssa.Store); isS && st.Addr == ssa.Value(al) {
					n++
					ok = guard.Strip(st.Val) == adParam
				}
			}
			return ok && n == 1
		}
	}
	return false
}

// c13DecryptViaClosure decides the decrypt-side obligations when the AEAD call
// sits in a closure handed to a shared helper of the package. It returns false
// when the function does not have that shape (the ordinary rule then reports).
func c13DecryptViaClosure(c *Ctx, f *ssa.Function, key, method string, withCtx bool, adParam, ksParam ssa.Value) bool {
	p, r := c.P, c.R
	if len(f.AnonFuncs) != 1 {
		return false
	}
	cl := f.AnonFuncs[0]
	var aead []*ssa.Call
	allInstrs(cl, func(ins ssa.Instruction) {
		if call, ok := ins.(*ssa.Call); ok && call.Call.IsInvoke() && strings.HasPrefix(call.Call.Method.Name(), method[:7]) {
			aead = append(aead, call)
		}
	})
	var hcall *ssa.Call
	var mc *ssa.MakeClosure
	allInstrs(f, func(ins ssa.Instruction) {
		call, ok := ins.(*ssa.Call)
		if !ok {
			return
		}
		for _, a := range call.Call.Args {
			if m, isMC := guard.Strip(a).(*ssa.MakeClosure); isMC && m.Fn == ssa.Value(cl) {
				hcall, mc = call, m
			}
		}
	})
	if len(aead) != 1 || hcall == nil {
		return false
	}
	h := hcall.Call.StaticCallee()
	if h == nil || h.Blocks == nil || h.Pkg != f.Pkg {
		return false
	}
	call := aead[0]
	args := call.Call.Args
	if withCtx {
		args = args[1:]
	}
	okAD := len(args) == 2 && closureADIsParam(cl, mc, args[1], adParam)
	r.Check(okAD && call.Call.Method.Name() == method, "C13.encrypted", key+"/associated data", p.Pos(call.Pos()),
		"the key-encryption AEAD is not called with the caller's associatedData parameter", method+"(…, associatedData parameter) inside the closure handed to "+h.Name())
	// ciphertext: the closure's own parameter, which the helper binds to the stored encrypted keyset
	okData := len(args) == 2 && len(cl.Params) >= 1 && guard.Strip(args[0]) == ssa.Value(cl.Params[0]) && closureReturnsCall(cl, call)
	cidx, kidx := -1, -1
	for i, a := range hcall.Call.Args {
		if guard.Strip(a) == ssa.Value(mc) {
			cidx = i
		}
		if guard.Strip(a) == ksParam {
			kidx = i
		}
	}
	var inner []*ssa.Call
	if cidx >= 0 && cidx < len(h.Params) {
		allInstrs(h, func(ins ssa.Instruction) {
			if c2, ok := ins.(*ssa.Call); ok && c2.Call.Value == ssa.Value(h.Params[cidx]) {
				inner = append(inner, c2)
			}
		})
		// the closure parameter must not go anywhere else
		for _, ref := range *h.Params[cidx].Referrers() {
			if c2, ok := ref.(*ssa.Call); !ok || c2.Call.Value != ssa.Value(h.Params[cidx]) {
				inner = append(inner, nil)
			}
		}
	}
	if len(inner) != 1 || inner[0] == nil || kidx < 0 || kidx >= len(h.Params) || len(inner[0].Call.Args) != 1 {
		r.Bad("C13.encrypted", key+"/one AEAD call", p.FuncPos(f), fmt.Sprintf("the helper %s does not call the decryption closure exactly once on the caller's encrypted keyset (%d uses)", h.Name(), len(inner)))
		return true
	}
	ic := inner[0]
	dc, _ := guard.CallOf(ic.Call.Args[0])
	okSrc := dc != nil && strings.HasSuffix(guard.CalleeName(&dc.Call), "EncryptedKeyset).GetEncryptedKeyset") && guard.Strip(dc.Call.Args[0]) == ssa.Value(h.Params[kidx])
	if !okSrc {
		if b, fld, isF := guard.FieldOf(ic.Call.Args[0]); isF && fld == "EncryptedKeyset" && guard.Strip(b) == ssa.Value(h.Params[kidx]) {
			okSrc = true
		}
	}
	r.Check(okData && okSrc, "C13.encrypted", key+"/ciphertext", p.Pos(call.Pos()), "Decrypt is not applied to the stored encrypted keyset", "closure(encryptedKeyset.GetEncryptedKeyset()) in "+h.Name())
	// release: in the helper, success only after the closure and Unmarshal of its plaintext succeeded;
	// the function hands back the helper's results unchanged
	okRel := true
	rets := guard.SuccessReturns(h)
	for _, ret := range rets {
		okErr, okFlow := false, false
		for _, fct := range guard.BlockFacts(ret.Block()) {
			if ec, isNil, ok := guard.ErrNilFact(fct); ok && isNil && ec == ic {
				okErr = true
			}
		}
		for _, uc := range callsTo(h, "google.golang.org/protobuf/proto.Unmarshal") {
			ucc := uc.Common()
			src, si := guard.CallOf(ucc.Args[0])
			if src == ic && si == 0 && guard.Strip(ucc.Args[1]) == guard.Strip(ret.Results[0]) {
				for _, fct := range guard.BlockFacts(ret.Block()) {
					if ec, isNil, ok := guard.ErrNilFact(fct); ok && isNil && ssa.Instruction(ec) == uc {
						okFlow = true
					}
				}
			}
		}
		if !okErr || !okFlow {
			okRel = false
		}
	}
	forwards := true
	for _, ret := range guard.SuccessReturns(f) {
		if len(ret.Results) != 2 {
			forwards = false
			continue
		}
		for i, res := range ret.Results {
			if rc, ri := guard.CallOf(res); rc != hcall || ri != i {
				forwards = false
			}
		}
	}
	r.Check(okRel && len(rets) > 0 && forwards, "C13.encrypted", key+"/release", p.FuncPos(f),
		"a keyset can be returned without the AEAD's Decrypt having succeeded on the caller's associated data, or it is not the decrypted plaintext",
		"in "+h.Name()+": dominated by err==nil of the closure and of proto.Unmarshal(plaintext, keyset); results handed back unchanged")
	return true
}
