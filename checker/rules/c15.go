package rules

import (
	"fmt"
	"go/token"
	"go/types"
	"strings"

	"golang.org/x/tools/go/ssa"

	"tinkverif/bounds"
	"tinkverif/consteval"
	"tinkverif/core"
	"tinkverif/guard"
)

func init() { Registry["C15"] = c15 }

func c15(c *Ctx) {
	p, r := c.P, c.R
	r.Explanation = "C15's equality with HMAC/HKDF/CMAC values is value-level and NOT decided. Decided: " +
		"(noninterference) in every ComputePRF the outputLength parameter flows only into comparisons, slice bounds, make/read lengths and the delegated ComputePRF call, never into data fed to the keyed computation — the structural necessary condition of the prefix law; " +
		"(maxlen) every slice [:outputLength] of a computed output is proved in bounds from the dominating maximum-length guard (HMAC: <= mac.Size(), CMAC: <= 16 with Compute's constant 16-byte result), so requests beyond the maximum fail instead of panicking; HKDF reads report their error; " +
		"(hkdf) the HKDF helper's validator, folded at its boundaries, accepts tag sizes 10..255*digest for the five hashes, and an empty salt is replaced by exactly digest-size zero bytes under len(salt)==0; " +
		"(digest) every hash->size table gives the standard digest sizes; " +
		"(set) key-ID/primary pairing of prf.Set is decided under C05 (pairing, primary)."
	// implementers of prf.PRF
	it := p.LookupIface(core.ModPath+"/prf", "PRF")
	if it == nil {
		r.AnchorMissing("C15.noninterference", "prf.PRF")
		return
	}
	n := 0
	for _, t := range p.Implementers(it, core.Product) {
		f := p.MethodOf(t, "ComputePRF")
		if f == nil || f.Blocks == nil || len(f.Params) < 3 {
			continue
		}
		n++
		fid := core.FuncID(f)
		ol := f.Params[2]
		// ---- noninterference
		bad := ""
		seen := map[ssa.Value]bool{}
		var walk func(v ssa.Value, depth int)
		walk = func(v ssa.Value, depth int) {
			if seen[v] || depth > 6 || bad != "" {
				return
			}
			seen[v] = true
			for _, ref := range *v.Referrers() {
				switch x := ref.(type) {
				case *ssa.Convert:
					walk(x, depth+1)
				case *ssa.BinOp:
					switch x.Op {
					case token.EQL, token.NEQ, token.LSS, token.LEQ, token.GTR, token.GEQ:
					default:
						walk(x, depth+1)
					}
				case *ssa.Slice, *ssa.MakeSlice, *ssa.If, *ssa.DebugRef, *ssa.Phi:
				case *ssa.MakeInterface:
					// only for error messages
					for _, r2 := range *x.Referrers() {
						if _, isStore := r2.(*ssa.Store); !isStore {
							bad = "outputLength escapes through an interface value"
						}
					}
				case *ssa.Call:
					nme := guard.CalleeName(&x.Call)
					switch {
					case nme == "io.ReadAtLeast" || nme == "io.ReadFull" || nme == "make" || nme == "len" || nme == "min":
					case strings.HasSuffix(nme, ").ComputePRF"):
						// delegation: must be passed as the outputLength argument
						if x.Call.Args[len(x.Call.Args)-1] != v {
							bad = "outputLength passed to " + shortName(nme) + " in a position other than the output length"
						}
					case strings.HasPrefix(nme, "fmt."):
					default:
						// a helper of the package: the same discipline applies to its parameter
						if g := x.Call.StaticCallee(); g != nil && g.Blocks != nil && g.Pkg == f.Pkg && depth < 4 {
							for i, a := range x.Call.Args {
								if a == v && i < len(g.Params) {
									walk(g.Params[i], depth+1)
								}
							}
							break
						}
						bad = "outputLength is passed to " + shortName(nme) + ": the computed bytes may depend on the requested length"
					}
				case *ssa.Store:
					// stored into the varargs array of fmt.Errorf only
				case *ssa.Return:
				default:
					bad = fmt.Sprintf("outputLength used by %T", ref)
				}
			}
		}
		walk(ol, 0)
		r.Check(bad == "", "C15.noninterference", "C15.noninterference/"+fid, p.FuncPos(f), bad, "outputLength reaches only guards, slice bounds, make/read lengths")
		// ---- maxlen: slices bounded by outputLength are in bounds; a result buffer
		// allocated with exactly outputLength bytes (here or in a helper of the
		// package that receives outputLength) needs no cut
		{
			made := false
			scope := []*ssa.Function{f}
			vals := map[*ssa.Function]ssa.Value{f: ol}
			allInstrs(f, func(ins ssa.Instruction) {
				if call, ok := ins.(*ssa.Call); ok {
					if g := call.Call.StaticCallee(); g != nil && g.Blocks != nil && g.Pkg == f.Pkg {
						for i, a := range call.Call.Args {
							if guard.Strip(a) == ssa.Value(ol) && i < len(g.Params) {
								scope = append(scope, g)
								vals[g] = g.Params[i]
							}
						}
					}
				}
			})
			for _, g := range scope {
				allInstrs(g, func(ins ssa.Instruction) {
					if mk, ok := ins.(*ssa.MakeSlice); ok && core.IsByteSlice(mk.Type()) && guard.Strip(mk.Len) == vals[g] {
						made = true
					}
				})
			}
			if made {
				r.Ok("C15.maxlen", fmt.Sprintf("C15.maxlen/%s/make(outputLength)", fid), p.FuncPos(f), "result buffer allocated with exactly outputLength bytes")
			}
		}
		allInstrs(f, func(ins ssa.Instruction) {
			sl, ok := ins.(*ssa.Slice)
			if !ok || sl.High == nil || guard.Strip(sl.High) != ssa.Value(ol) && !derivesFrom(sl.High, ol, 0) {
				return
			}
			res := bounds.CheckSlice(sl)
			key := fmt.Sprintf("C15.maxlen/%s/[:outputLength]", fid)
			if res.OK {
				r.Ok("C15.maxlen", key, p.Pos(sl.Pos()), res.Goals...)
			} else {
				r.Bad("C15.maxlen", key, p.Pos(sl.Pos()), "the output is cut at outputLength without a dominating maximum-length guard that makes the slice provably in bounds: "+res.Failed, res.Facts...)
			}
		})
		// reads of a KDF stream: error tested
		allInstrs(f, func(ins ssa.Instruction) {
			call, ok := ins.(*ssa.Call)
			if !ok {
				return
			}
			nme := guard.CalleeName(&call.Call)
			if nme != "io.ReadAtLeast" && nme != "io.ReadFull" {
				return
			}
			used := false
			for _, ref := range *call.Referrers() {
				if ex, isE := ref.(*ssa.Extract); isE && ex.Index == 1 && len(*ex.Referrers()) > 0 {
					used = true
				}
			}
			r.Check(used, "C15.maxlen", fmt.Sprintf("C15.maxlen/%s/%s error", fid, nme), p.Pos(ins.Pos()), "the error of the KDF stream read (output length beyond the HKDF limit) is dropped", "read error tested")
		})
	}
	r.Counts["prf_implementers"] = n
	r.Min("C15.noninterference", 4)
	r.Min("C15.maxlen", 3)
	c15HKDF(c)
	hmacKeyRaw(c, "C15.keyraw", "prf/subtle", "prf/hmacprf")
	digestSizeTables(c, "C15")
}

func c15HKDF(c *Ctx) {
	p, r := c.P, c.R
	h := p.PkgFunc("subtle", "ComputeHKDF")
	if h == nil || len(h.Params) != 5 {
		r.AnchorMissing("C15.hkdf", "subtle.ComputeHKDF(hashAlg, key, salt, info, tagSize)")
		return
	}
	// the output-length limits, folded through ComputeHKDF itself (and whatever
	// validator it calls): a length outside [10, 255*HashLen] fails on every path
	ev := consteval.New()
	digest := map[string]int64{"SHA1": 20, "SHA224": 28, "SHA256": 32, "SHA384": 48, "SHA512": 64}
	ref := consteval.Val{K: consteval.Ref}
	for _, hn := range []string{"SHA1", "SHA224", "SHA256", "SHA384", "SHA512"} {
		d := digest[hn]
		for _, cs := range []struct {
			tag int64
			ok  bool
		}{{9, false}, {10, true}, {d, true}, {255 * d, true}, {255*d + 1, false}} {
			outs, ok := ev.Eval(h, []consteval.Val{consteval.S(hn), ref, ref, ref, consteval.C(cs.tag)}, nil)
			key := fmt.Sprintf("C15.hkdf/validate/%s tag=%d", hn, cs.tag)
			if !ok || len(outs) == 0 {
				r.Unknown("C15.hkdf", key, p.FuncPos(h), "cannot fold")
				continue
			}
			accepts := false
			for _, o := range outs {
				if !o.IsErr() && !guard.DefinitelyFails(o.Ret) {
					accepts = true
				}
			}
			r.Check(accepts == cs.ok, "C15.hkdf", key, p.FuncPos(h), fmt.Sprintf("ComputeHKDF(%s, …, tagSize=%d) can succeed=%v, want %v (RFC 5869: L <= 255*HashLen; minimum 10)", hn, cs.tag, accepts, cs.ok), fmt.Sprintf("accepts=%v", cs.ok))
		}
	}
	// empty salt -> digest-size zero bytes
	okSalt := false
	// hkdf.New(hash, secret, salt, info) or its two halves hkdf.Extract(hash, secret, salt) + Expand
	saltSites := callsTo(h, "golang.org/x/crypto/hkdf.New")
	saltSites = append(saltSites, callsTo(h, "golang.org/x/crypto/hkdf.Extract")...)
	for _, site := range saltSites {
		salt := site.Common().Args[2]
		phi, isPhi := guard.Strip(salt).(*ssa.Phi)
		if !isPhi || len(phi.Edges) != 2 {
			continue
		}
		orig, zero := false, false
		for i, e := range phi.Edges {
			if guard.Strip(e) == ssa.Value(h.Params[2]) {
				orig = true
				continue
			}
			// make([]byte, digestSize) on the edge where len(salt) == 0
			var ln ssa.Value
			switch x := guard.Strip(e).(type) {
			case *ssa.MakeSlice:
				ln = x.Len
			}
			if ln == nil {
				continue
			}
			// its length is the digest size of the hash, whatever computes it
			lenOK := true
			for hn, d := range digest {
				vals, ok := valuesAt(h, site, ln, consteval.Env{h.Params[0]: consteval.S(hn), h.Params[4]: consteval.C(d)})
				if !ok {
					lenOK = false
				}
				for _, lv := range vals {
					if lv.K != consteval.Const || lv.C.ExactString() != fmt.Sprint(d) {
						lenOK = false
					}
				}
			}
			if !lenOK {
				continue
			}
			for _, fct := range edgeFactsInto(phi.Block().Preds[i], phi.Block()) {
				if op, x, y, ok := guard.Cmp(fct); ok && op == token.EQL {
					if k, isK := guard.ConstInt(y); isK && k == 0 {
						if lc, _ := guard.CallOf(x); lc != nil {
							if b, isB := lc.Call.Value.(*ssa.Builtin); isB && b.Name() == "len" && guard.Strip(lc.Call.Args[0]) == ssa.Value(h.Params[2]) {
								zero = true
							}
						}
					}
				}
			}
			// the zero buffer must not be written before use
			if mk, isMk := guard.Strip(e).(*ssa.MakeSlice); isMk {
				for _, ref := range *mk.Referrers() {
					if _, isPhi := ref.(*ssa.Phi); isPhi {
						continue
					}
					if _, isDbg := ref.(*ssa.DebugRef); isDbg {
						continue
					}
					zero = false
				}
			}
		}
		okSalt = orig && zero
	}
	r.Check(okSalt, "C15.hkdf", "C15.hkdf/ComputeHKDF/default salt", p.FuncPos(h), "an empty salt is not replaced by exactly HashLen fresh zero bytes (RFC 5869 §2.2) — e.g. a buffer of another length or one that is reused", "salt = len(salt)==0 ? make([]byte, digestSize) : salt")
	_ = types.Typ
}
