package rules

import (
	"fmt"
	"strings"

	"golang.org/x/tools/go/ssa"

	"tinkverif/bounds"
	"tinkverif/consteval"
	"tinkverif/core"
	"tinkverif/guard"
)

func init() { Registry["C04"] = c04 }

var compareFuncs = map[string]bool{"crypto/hmac.Equal": true, "crypto/subtle.ConstantTimeCompare": true, "bytes.Equal": true}

func c04(c *Ctx) {
	r := c.R
	r.Explanation = "C04 is decided through structural necessary conditions over every product implementer of tink.MAC and the internal HMAC/CMAC types: " +
		"(auth/errprop/prefix/tiling/bounds) as C02, for VerifyMAC(mac, data): acceptance only under a passed comparison or the success of a verifier for which that holds, exact prefix comparison, no ignored trailing tag bytes (extensions rejected), slices proved in bounds; " +
		"(recompute) wherever VerifyMAC compares, one operand derives from the caller's tag and the other from a call to the sibling ComputeMAC (or a function ComputeMAC itself calls) on the same receiver; the comparison is a full-length constant-time one and neither operand is cut to the other's length (no truncation tolerance); " +
		"(legacy) the 0x00 suffix is applied under exactly variant==VariantLegacy / OutputPrefixType==LEGACY on both sides; " +
		"(trunc) the parameter validators, folded by constant propagation at their boundaries, accept exactly tag sizes 10..digest size (HMAC: SHA-1/224/256/384/512 = 20/28/32/48/64; CMAC: 10..16) and key sizes >= 16 (CMAC: 32), and every constructor passes through its validator. " +
		"Not decided: equality with RFC 2104 / RFC 4493 values (CMAC sub-key and padding arithmetic is value-level)."
	ac := newAcceptCtx(c)
	runAccept(c, ac, acceptSpec{Prop: "C04", Iface: [2]string{"tink", "MAC"}, Method: "VerifyMAC", MinTypes: 6})
	r.Min("C04.auth", 6)
	c04Recompute(c)
	legacySuffixRule(c, "C04", []string{"mac/hmac", "mac/aescmac", "mac"}, map[string]bool{"ComputeMAC": true, "VerifyMAC": true})
	c04Trunc(c)
	c04CBCChain(c)
	hmacKeyRaw(c, "C04.keyraw", "internal/mac/hmac", "mac/subtle", "mac/hmac")
}

func c04Recompute(c *Ctx) {
	p, r := c.P, c.R
	n := 0
	for _, f := range p.SortedFuncs(core.Product) {
		if f.Name() != "VerifyMAC" || f.Signature.Recv() == nil || f.Synthetic != "" || len(f.Params) < 2 {
			continue
		}
		rel := core.Rel(core.PkgOf(f))
		if !strings.Contains(rel, "mac") {
			continue
		}
		allInstrs(f, func(ins ssa.Instruction) {
			call, ok := ins.(*ssa.Call)
			if !ok || !compareFuncs[guard.CalleeName(&call.Call)] {
				return
			}
			a0, a1 := call.Call.Args[0], call.Call.Args[1]
			tagParam := f.Params[1]
			var fromTag, other ssa.Value
			switch {
			case derivesFrom(a0, tagParam, 0) && !derivesFrom(a1, tagParam, 0):
				fromTag, other = a0, a1
			case derivesFrom(a1, tagParam, 0) && !derivesFrom(a0, tagParam, 0):
				fromTag, other = a1, a0
			default:
				return // e.g. the prefix comparison (handled by C04.prefix)
			}
			if _, fld, isF := guard.FieldOf(other); isF && strings.Contains(strings.ToLower(fld), "prefix") {
				return
			}
			n++
			fid := core.FuncID(f)
			key := "C04.recompute/" + fid
			// the other operand comes from ComputeMAC of the same receiver, or a callee ComputeMAC uses
			sib := p.MethodOf(f.Signature.Recv().Type(), "ComputeMAC")
			if sib == nil {
				sib = p.MethodOf(f.Params[0].Type(), "ComputeMAC")
			}
			sibCallees := map[*ssa.Function]bool{}
			if sib != nil {
				sibCallees[sib] = true
				allInstrs(sib, func(i2 ssa.Instruction) {
					if c2, ok := i2.(ssa.CallInstruction); ok {
						if cal := c2.Common().StaticCallee(); cal != nil && core.FuncClass(cal) == core.Product {
							sibCallees[cal] = true
						}
					}
				})
			}
			good := false
			var src string
			var walk func(v ssa.Value, d int)
			walk = func(v ssa.Value, d int) {
				if d > 6 || good {
					return
				}
				v = guard.Strip(v)
				switch x := v.(type) {
				case *ssa.Extract:
					walk(x.Tuple, d+1)
				case *ssa.Slice:
					walk(x.X, d+1)
				case *ssa.Phi:
					for _, e := range x.Edges {
						walk(e, d+1)
					}
				case *ssa.Call:
					if cal := x.Call.StaticCallee(); cal != nil && sibCallees[cal] {
						// on the same receiver
						if len(x.Call.Args) > 0 && (guard.Strip(x.Call.Args[0]) == ssa.Value(f.Params[0]) || derivesFrom(x.Call.Args[0], f.Params[0], 0)) {
							good = true
							src = core.FuncID(cal)
						}
					}
				}
			}
			walk(other, 0)
			r.Check(good, "C04.recompute", key, p.Pos(ins.Pos()), "VerifyMAC compares the caller's tag with a value that is not computed by the sibling ComputeMAC (or a function it uses) on the same key", "expected value from "+src)
			// full length, no truncation tolerance
			fkey := "C04.fulltag/" + fid
			bad := ""
			for _, pr := range [][2]ssa.Value{{fromTag, other}, {other, fromTag}} {
				if sl, isSl := guard.Strip(pr[0]).(*ssa.Slice); isSl && sl.High != nil {
					if lc, _ := guard.CallOf(sl.High); lc != nil {
						if b, isB := lc.Call.Value.(*ssa.Builtin); isB && b.Name() == "len" && guard.SameValue(lc.Call.Args[0], pr[1]) {
							bad = "one operand is cut to the other's length: a truncated (or extended) tag would compare equal"
						}
					}
				}
			}
			// the caller's tag takes part in the comparison up to its last byte: a slice of it
			// with an upper bound is only acceptable where that bound is the tag's own length
			for v := guard.Strip(fromTag); ; {
				sl, isSl := v.(*ssa.Slice)
				if !isSl {
					break
				}
				if sl.High != nil {
					cx := bounds.NewCtx(f)
					facts := cx.FactsToLin(guard.InstrFacts(ins))
					hi, ln := cx.Lin(sl.High), cx.LenOf(sl.X)
					le, _ := cx.Entails(facts, ln.Add(hi, -1)) // hi <= len
					ge, _ := cx.Entails(facts, hi.Add(ln, -1)) // hi >= len
					if !(le && ge) {
						bad = "the caller's tag is cut to a fixed size before it is compared: bytes after that size are ignored, so an extended tag verifies"
					}
				}
				v = guard.Strip(sl.X)
			}
			if guard.CalleeName(&call.Call) == "bytes.Equal" {
				bad = "tag compared with bytes.Equal (not constant time)"
			}
			r.Check(bad == "", "C04.fulltag", fkey, p.Pos(ins.Pos()), bad, "full-length constant-time comparison ("+shortName(guard.CalleeName(&call.Call))+")")
		})
	}
	r.Min("C04.recompute", 2)
	_ = n
}

func c04Trunc(c *Ctx) {
	p, r := c.P, c.R
	ev := consteval.New()
	// HMAC
	if f := p.PkgFunc("internal/mac/hmac", "ValidateHMACParams"); f == nil {
		r.AnchorMissing("C04.trunc", "internal/mac/hmac.ValidateHMACParams")
	} else {
		digest := map[string]int64{"SHA1": 20, "SHA224": 28, "SHA256": 32, "SHA384": 48, "SHA512": 64}
		for _, h := range []string{"SHA1", "SHA224", "SHA256", "SHA384", "SHA512"} {
			d := digest[h]
			cases := []struct {
				key, tag int64
				ok       bool
			}{{16, 9, false}, {16, 10, true}, {16, d, true}, {16, d + 1, false}, {15, 10, false}, {16, 10, true}, {1 << 20, 10, true}}
			for _, cs := range cases {
				key := fmt.Sprintf("C04.trunc/ValidateHMACParams/%s key=%d tag=%d", h, cs.key, cs.tag)
				outs, ok := ev.Eval(f, []consteval.Val{consteval.S(h), consteval.C(cs.key), consteval.C(cs.tag)}, nil)
				if !ok || len(outs) != 1 {
					r.Unknown("C04.trunc", key, p.FuncPos(f), fmt.Sprintf("cannot fold validator (%d outcomes)", len(outs)))
					continue
				}
				got := outs[0].IsOK()
				if !got && !outs[0].IsErr() {
					r.Unknown("C04.trunc", key, p.FuncPos(f), "validator result not a definite nil/error")
					continue
				}
				r.Check(got == cs.ok, "C04.trunc", key, p.FuncPos(f), fmt.Sprintf("validator accepts=%v, want %v (limits: key >= 16, 10 <= tag <= %d)", got, cs.ok, d), fmt.Sprintf("accepts=%v", got))
			}
		}
		r.Check(func() bool {
			outs, ok := ev.Eval(f, []consteval.Val{consteval.S("MD5"), consteval.C(16), consteval.C(10)}, nil)
			return ok && len(outs) == 1 && outs[0].IsErr()
		}(), "C04.trunc", "C04.trunc/ValidateHMACParams/unknown hash", p.FuncPos(f), "an unknown hash name is accepted", "rejected")
		// constructor passes the validator
		if nf := p.PkgFunc("internal/mac/hmac", "New"); nf != nil {
			mustValidate(c, "C04.trunc", nf, f)
		}
	}
	// CMAC
	if f := p.PkgFunc("mac/subtle", "ValidateCMACParams"); f == nil {
		r.AnchorMissing("C04.trunc", "mac/subtle.ValidateCMACParams")
	} else {
		cases := []struct {
			key, tag int64
			ok       bool
		}{{32, 9, false}, {32, 10, true}, {32, 16, true}, {32, 17, false}, {16, 16, false}, {31, 16, false}, {33, 16, false}}
		for _, cs := range cases {
			key := fmt.Sprintf("C04.trunc/ValidateCMACParams/key=%d tag=%d", cs.key, cs.tag)
			outs, ok := ev.Eval(f, []consteval.Val{consteval.C(cs.key), consteval.C(cs.tag)}, nil)
			if !ok || len(outs) != 1 || (!outs[0].IsOK() && !outs[0].IsErr()) {
				r.Unknown("C04.trunc", key, p.FuncPos(f), fmt.Sprintf("cannot fold validator (%d outcomes)", len(outs)))
				continue
			}
			got := outs[0].IsOK()
			r.Check(got == cs.ok, "C04.trunc", key, p.FuncPos(f), fmt.Sprintf("validator accepts=%v, want %v (limits: key == 32, 10 <= tag <= 16)", got, cs.ok), fmt.Sprintf("accepts=%v", got))
		}
		// the subtle constructor has its own inline limits: 10 <= tagLength <= 16 on every success path
		if nf := p.PkgFunc("mac/subtle", "NewAESCMAC"); nf != nil && len(nf.Params) == 2 {
			// folded at the boundaries: key length 15/16/32, tag length 9/10/16/17
			good := true
			ev3 := consteval.New()
			for _, pr := range []struct {
				keyLen, tag int64
				ok          bool
			}{{32, 9, false}, {32, 10, true}, {32, 16, true}, {32, 17, false}, {15, 16, false}, {16, 16, true}} {
				env := consteval.Env{consteval.LenKey(nf.Params[0]): consteval.C(pr.keyLen), ssa.Value(nf.Params[0]): consteval.Val{K: consteval.Ref}}
				outs, okE := ev3.Eval(nf, []consteval.Val{{K: consteval.Ref}, consteval.C(pr.tag)}, env)
				if !okE || len(outs) == 0 {
					good = false
					continue
				}
				some := false
				for _, o := range outs {
					if !(o.IsErr() || guard.DefinitelyFails(o.Ret)) {
						some = true
					}
				}
				if some != pr.ok {
					good = false
				}
			}
			r.Check(good, "C04.trunc", "C04.trunc/mac/subtle.NewAESCMAC/limits", p.FuncPos(nf), "NewAESCMAC can succeed with a tag length outside 10..16 or a key shorter than 16 bytes", "success implies 10 <= tagLength <= 16 and len(key) >= 16")
		}
	}
	r.Min("C04.trunc", 30)
}

// mustValidate: every success return of ctor is dominated by err==nil of a
// call to validator.
// ensuresValidator: every success return of helper h (a function of the
// validator's module) is dominated by validator(…) == nil, directly or through
// one more helper.
func ensuresValidator(h, validator *ssa.Function, depth int) bool {
	if h == nil || h.Blocks == nil || depth > 2 || core.FuncClass(h) != core.Product {
		return false
	}
	rets := guard.SuccessReturns(h)
	if len(rets) == 0 {
		return false
	}
	for _, ret := range rets {
		ok := false
		for _, fct := range guard.BlockFacts(ret.Block()) {
			if ec, isNil, isE := guard.ErrNilFact(fct); isE && isNil {
				if ec.Call.StaticCallee() == validator || ensuresValidator(ec.Call.StaticCallee(), validator, depth+1) {
					ok = true
				}
			}
		}
		if !ok {
			return false
		}
	}
	return true
}

func mustValidate(c *Ctx, rule string, ctor, validator *ssa.Function) {
	p, r := c.P, c.R
	key := fmt.Sprintf("%s/%s/passes %s", rule, core.FuncID(ctor), validator.Name())
	good := true
	for _, ret := range guard.SuccessReturns(ctor) {
		ok := false
		for _, fct := range guard.BlockFacts(ret.Block()) {
			if ec, isNil, isE := guard.ErrNilFact(fct); isE && isNil {
				if ec.Call.StaticCallee() == validator || ensuresValidator(ec.Call.StaticCallee(), validator, 0) {
					ok = true
				}
			}
		}
		if !ok {
			good = false
		}
	}
	r.Check(good, rule, key, p.FuncPos(ctor), "a primitive can be constructed without having passed "+validator.Name(), "every success return dominated by "+validator.Name()+"(…) == nil")
}
