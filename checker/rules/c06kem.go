package rules

import (
	"bytes"
	"encoding/hex"
	"fmt"
	"strings"

	"golang.org/x/tools/go/ssa"

	"tinkverif/consteval"
	"tinkverif/core"
	"tinkverif/guard"
)

// c06KemBind: the ECIES KDF input binds the encapsulated key exactly as it is on
// the wire. Recipient: ikm = received kem bytes || DH secret (not a re-encoding of
// the decoded point, which would let distinct encodings of one point decrypt);
// sender: ikm = PointEncode(ephemeral) || DH secret, and the same encoding is the
// KEM output. Decided by value: the functions are folded with probe byte strings
// bound to the parameter and to the results of the point/secret helpers, and the
// bytes handed to ComputeHKDF are compared.
func c06KemBind(c *Ctx) {
	p, r := c.P, c.R
	rule := "C06.kembind"
	kemProbe := []byte{0x04, 0xA1, 0xA2, 0xA3, 0xA4}
	secretProbe := []byte{0x5E, 0xC1, 0xC2}
	n := 0
	for _, spec := range []struct{ typ, method string }{{"ECIESHKDFRecipientKem", "decapsulate"}, {"ECIESHKDFSenderKem", "encapsulate"}} {
		var f *ssa.Function
		for _, m := range methodsOf(p, "hybrid/subtle", spec.typ) {
			if m.Name() == spec.method {
				f = m
			}
		}
		if f == nil {
			r.AnchorMissing(rule, "hybrid/subtle."+spec.typ+"."+spec.method)
			continue
		}
		key := rule + "/" + core.FuncID(f)
		var hk *ssa.Call
		env := consteval.Env{}
		probeN := byte(0)
		var encProbe []byte
		// the leaf operations, wherever they are called (in f or in helpers of the package it
		// calls, depth 3), are bound to distinct probe results and succeed; everything in
		// between is folded
		seenFn := map[*ssa.Function]bool{}
		var collect func(g *ssa.Function, depth int)
		collect = func(g *ssa.Function, depth int) {
			if seenFn[g] || depth > 3 {
				return
			}
			seenFn[g] = true
			allInstrs(g, func(ins ssa.Instruction) {
				call, ok := ins.(*ssa.Call)
				if !ok || call.Call.IsInvoke() {
					return
				}
				name := guard.CalleeName(&call.Call)
				bind := func(pb []byte) {
					res := call.Call.Signature().Results()
					if res.Len() != 2 || !guard.IsErrorType(res.At(1).Type()) {
						return
					}
					if pb != nil {
						env[consteval.TupleKey(call, 0)] = consteval.BytesVal(pb)
					} else {
						env[consteval.TupleKey(call, 0)] = consteval.Val{K: consteval.Ref}
					}
					env[consteval.TupleKey(call, 1)] = consteval.Val{K: consteval.Nil}
				}
				switch {
				case strings.HasSuffix(name, "/subtle.ComputeHKDF"):
					hk = call
					bind([]byte{0x4B, 0x4B})
				case strings.HasSuffix(name, "hybrid/subtle.ComputeSharedSecret"):
					bind(secretProbe)
				case strings.HasSuffix(name, "hybrid/subtle.PointEncode"):
					probeN++
					encProbe = []byte{0xE0 + probeN, 0xE1, 0xE2, 0xE3}
					bind(encProbe)
				case strings.HasSuffix(name, "hybrid/subtle.PointDecode"), strings.HasSuffix(name, "hybrid/subtle.GenerateECDHKeyPair"):
					bind(nil)
				default:
					if callee := call.Call.StaticCallee(); callee != nil && callee.Blocks != nil && callee.Pkg == f.Pkg {
						collect(callee, depth+1)
					}
				}
			})
		}
		collect(f, 0)
		if hk == nil || len(hk.Call.Args) < 2 {
			r.AnchorMissing(rule, "ComputeHKDF call in "+core.FuncID(f))
			continue
		}
		n++
		var want []byte
		args := make([]consteval.Val, len(f.Params))
		desc := ""
		if spec.method == "decapsulate" {
			args[1] = consteval.BytesVal(kemProbe)
			want = cat(kemProbe, secretProbe)
			desc = "received kem bytes || shared secret"
		} else {
			if encProbe == nil {
				r.Bad(rule, key, p.FuncPos(f), "the sender does not encode its ephemeral point with PointEncode")
				continue
			}
			want = cat(encProbe, secretProbe)
			desc = "PointEncode(ephemeral public key) || shared secret"
		}
		ev := consteval.New()
		ev.Bytes = true
		ev.MaxDepth = 4
		var got [][]byte
		decided := true
		ev.Watch = hk
		ev.OnWatch = func(get func(ssa.Value) consteval.Val) {
			b, isB := get(hk.Call.Args[1]).Bytes()
			if !isB {
				decided = false
				return
			}
			got = append(got, b)
		}
		outs, ok := ev.Eval(f, args, env)
		if !ok || !decided || len(got) == 0 {
			r.Unknown(rule, key, p.FuncPos(f), fmt.Sprintf("the KDF input does not fold to constant bytes on the probe values (complete=%v, bytes=%v, reached %d times, %d forks)", ok, decided, len(got), ev.Forks))
			continue
		}
		bad := ""
		for _, g := range got {
			if !bytes.Equal(g, want) {
				bad = fmt.Sprintf("ComputeHKDF is handed %s on the probes; %s is %s", hex.EncodeToString(g), desc, hex.EncodeToString(want))
			}
		}
		if spec.method == "encapsulate" && bad == "" {
			// the KEM output is that same encoding
			for _, o := range outs {
				if !o.IsOK() {
					continue
				}
				kv, has := o.Stores["Kem"]
				kb, isB := kv.Bytes()
				if !has || !isB || !bytes.Equal(kb, encProbe) {
					bad = "the Kem field of the result is not the encoding that went into the KDF"
				}
			}
		}
		r.Check(bad == "", rule, key, p.Pos(hk.Pos()), bad+": distinct encapsulated keys could then lead to the same symmetric key, or sender and recipient derive different keys", "folded on probes: KDF input = "+desc)
	}
	r.Min(rule, 2)
}
