package rules

import (
	"fmt"
	"go/types"
	"sort"
	"strings"

	"golang.org/x/tools/go/ssa"

	"tinkverif/consteval"
	"tinkverif/core"
	"tinkverif/guard"
)

// c13Label: hasSecrets classifies a key by its KeyMaterialType label alone. A
// key whose label contradicts its type URL (an HMAC key labelled REMOTE) must
// therefore be refused when the key is parsed — otherwise
// NewHandleWithNoSecrets imports, and WriteWithNoSecrets exports, secret key
// material. Two obligations:
//
//	(parser)   every registered key parser, folded with the label bound to each
//	           KeyMaterialType constant, can succeed for exactly one label;
//	(fallback) the generic ParseKey turns a key into an opaque fallback key only
//	           when no parser is registered for its type URL.
func c13Label(c *Ctx) {
	p, r := c.P, c.R
	labels := enumConsts(p, tinkpbPath, "KeyData_KeyMaterialType")
	var names []string
	for n := range labels {
		names = append(names, n)
	}
	sort.Strings(names)
	if len(names) < 5 {
		r.AnchorMissing("C13.label", "KeyData_KeyMaterialType constants")
		return
	}
	n := 0
	for _, f := range p.SortedFuncs(core.Product) {
		if f.Name() != "ParseKey" || f.Signature.Recv() == nil || f.Synthetic != "" || len(f.Blocks) == 0 || len(f.Params) != 2 {
			continue
		}
		rel := core.Rel(core.PkgOf(f))
		if rel == "internal/protoserialization" || strings.HasPrefix(rel, "testutil") || strings.HasPrefix(rel, "internal/testing") {
			continue
		}
		if core.TypeID(f.Signature.Results().At(0).Type()) != "key.Key" {
			continue
		}
		n++
		key := "C13.label/" + core.FuncID(f)
		var accepted []string
		undecided := ""
		for _, ln := range names {
			env := bindFieldsAndGetters(f, map[string]consteval.Val{"KeyMaterialType": {K: consteval.Const, C: labels[ln]}})
			ev := consteval.New()
			ev.MaxDepth, ev.Fuel = 2, 60000
			outs, ok := ev.Eval(f, []consteval.Val{{K: consteval.Ref}, {K: consteval.Ref}}, env)
			if !ok {
				// budget spent before every path ended: the parser got past its early
				// checks with this label — counted as "can succeed" (the safe side)
				accepted = append(accepted, strings.TrimPrefix(ln, "KeyData_"))
				continue
			}
			if len(outs) == 0 {
				undecided = "the parser does not fold with the label bound to " + ln
				break
			}
			for _, o := range outs {
				if !o.IsErr() && !guard.DefinitelyFails(o.Ret) {
					accepted = append(accepted, strings.TrimPrefix(ln, "KeyData_"))
					break
				}
			}
		}
		switch {
		case undecided != "":
			r.Unknown("C13.label", key, p.FuncPos(f), undecided)
		case len(accepted) == 1 && accepted[0] != "UNKNOWN_KEYMATERIAL":
			r.Ok("C13.label", key, p.FuncPos(f), "succeeds only for key data labelled "+accepted[0])
		default:
			r.Bad("C13.label", key, p.FuncPos(f), fmt.Sprintf("the parser can succeed for key data labelled %v: hasSecrets trusts the label, so secret key material of this type relabelled PUBLIC or REMOTE passes NewHandleWithNoSecrets / WriteWithNoSecrets", accepted))
		}
	}
	r.Counts["key_parsers_label_folded"] = n
	// fallback only for unregistered type URLs
	pk := p.PkgFunc("internal/protoserialization", "ParseKey")
	if pk == nil {
		r.AnchorMissing("C13.label", "internal/protoserialization.ParseKey")
	} else {
		nFb := 0
		// a helper of the package that (transitively) builds fallback keys counts as one
		var buildsFallback func(g *ssa.Function, depth int) bool
		buildsFallback = func(g *ssa.Function, depth int) bool {
			if g == nil || g.Blocks == nil || depth > 2 || g.Pkg != pk.Pkg {
				return false
			}
			found := false
			allInstrs(g, func(ins ssa.Instruction) {
				if c2, ok := ins.(*ssa.Call); ok {
					if strings.Contains(guard.CalleeName(&c2.Call), "protoserialization.NewFallbackProto") || buildsFallback(c2.Call.StaticCallee(), depth+1) {
						found = true
					}
				}
			})
			return found
		}
		allInstrs(pk, func(ins ssa.Instruction) {
			call, ok := ins.(*ssa.Call)
			if !ok || call.Call.StaticCallee() == nil {
				return
			}
			if !strings.Contains(guard.CalleeName(&call.Call), "protoserialization.NewFallbackProto") && !buildsFallback(call.Call.StaticCallee(), 1) {
				return
			}
			nFb++
			// every path to the call has found == false of a Load on the parser registry
			good := everyPathHas(call.Block(), func(fs []guard.Fact) bool {
				for _, fct := range fs {
					ex, isE := fct.Cond.(*ssa.Extract)
					if !isE || ex.Index != 1 || fct.True {
						continue
					}
					if lc, isC := ex.Tuple.(*ssa.Call); isC && strings.HasSuffix(guard.CalleeName(&lc.Call), ".Load") {
						return true
					}
					if lk, isL := ex.Tuple.(*ssa.Lookup); isL && lk.CommaOk {
						return true
					}
				}
				return false
			})
			r.Check(good, "C13.label", fmt.Sprintf("C13.label/protoserialization.ParseKey/%s", call.Call.StaticCallee().Name()), p.Pos(ins.Pos()),
				"a key whose type URL has a registered parser can be turned into an opaque fallback key (the parser's checks, including the material-type label, are skipped; the key keeps whatever label the input carried)", "only under found == false of the parser registry")
		})
		if nFb == 0 {
			r.AnchorMissing("C13.label", "fallback key construction in protoserialization.ParseKey")
		}
	}
	r.Min("C13.label", 40)
}

// c13PubType: a key object whose type says "public key" must not be able to
// carry a private key in a component of interface type key.Key — its
// serializer labels the whole key ASYMMETRIC_PUBLIC and hasSecrets lets it
// out. Every store of a key.Key value into a field of a …PublicKey struct is
// reached only through a successful type test of that value against a
// …PublicKey type (type switch or comma-ok assertion), on every path.
func c13PubType(c *Ctx) {
	p, r := c.P, c.R
	n := 0
	for _, f := range p.SortedFuncs(core.Product) {
		allInstrs(f, func(ins ssa.Instruction) {
			base, fld, val, ok := guard.StoreField(ins)
			if !ok || core.TypeID(val.Type()) != "key.Key" {
				return
			}
			bn := core.NamedOf(base.Type())
			if pt, isP := base.Type().Underlying().(*types.Pointer); isP {
				bn = core.NamedOf(pt.Elem())
			}
			if bn == nil || !strings.Contains(bn.Obj().Name(), "PublicKey") {
				return
			}
			n++
			v := guard.Strip(val)
			good := everyPathHas(ins.Block(), func(fs []guard.Fact) bool {
				for _, fct := range fs {
					ex, isE := fct.Cond.(*ssa.Extract)
					if !isE || ex.Index != 1 || !fct.True {
						continue
					}
					ta, isTA := ex.Tuple.(*ssa.TypeAssert)
					if !isTA || guard.Strip(ta.X) != v {
						continue
					}
					if tn := core.NamedOf(ta.AssertedType); tn != nil && strings.Contains(tn.Obj().Name(), "PublicKey") {
						return true
					}
					if pt, isP := ta.AssertedType.Underlying().(*types.Pointer); isP {
						if tn := core.NamedOf(pt.Elem()); tn != nil && strings.Contains(tn.Obj().Name(), "PublicKey") {
							return true
						}
					}
				}
				return false
			})
			// a value that is statically a public key: the result of a PublicKey() accessor
			if cc, _ := guard.CallOf(v); cc != nil && (strings.HasSuffix(guard.CalleeName(&cc.Call), ").PublicKey") || (cc.Call.IsInvoke() && cc.Call.Method.Name() == "PublicKey")) {
				good = true
			}
			r.Check(good, "C13.pubtype", fmt.Sprintf("C13.pubtype/%s/%s.%s", core.FuncID(f), bn.Obj().Name(), fld), p.Pos(ins.Pos()),
				"a key of unchecked dynamic type is stored into a public key object: a private key with the same parameters is accepted, serialised under the public type URL with the ASYMMETRIC_PUBLIC label, and written in the clear by WriteWithNoSecrets", "stored only after a successful type test against a …PublicKey type")
		})
	}
	r.Counts["key_valued_fields_of_public_keys"] = n
	r.Min("C13.pubtype", 1)
}

// c13Relabel: the KeyMaterialType label of a key is set where its KeyData is
// built (a fresh literal in a serializer) and nowhere else: no product code
// rewrites the label of an existing KeyData (relabelling UNKNOWN or private
// material as public lets it through hasSecrets).
func c13Relabel(c *Ctx) {
	p, r := c.P, c.R
	n := 0
	for _, f := range p.SortedFuncs(core.Product) {
		allInstrs(f, func(ins ssa.Instruction) {
			base, fld, _, ok := guard.StoreField(ins)
			if !ok || fld != "KeyMaterialType" || core.TypeID(base.Type()) != "proto/tink_go_proto.KeyData" {
				return
			}
			n++
			_, fresh := guard.Strip(base).(*ssa.Alloc)
			r.Check(fresh, "C13.label", fmt.Sprintf("C13.label/relabel/%s", core.FuncID(f)), p.Pos(ins.Pos()),
				"the KeyMaterialType label of an existing KeyData is overwritten: hasSecrets trusts the label, so relabelled key material can leave through the no-secrets writers", "label set only in a fresh KeyData literal")
		})
	}
	r.Counts["key_material_type_stores"] = n
}
