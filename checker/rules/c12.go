package rules

import (
	"fmt"
	"go/constant"
	"go/token"
	"go/types"
	"sort"
	"strings"

	"golang.org/x/tools/go/ssa"

	"tinkverif/consteval"
	"tinkverif/core"
	"tinkverif/guard"
)

func init() { Registry["C12"] = c12 }

func c12(c *Ctx) {
	r := c.R
	r.Explanation = "C12's round-trip equality is value-level; decided are the structural conditions it rests on: " +
		"(inverse) every pair of enum table functions A->(B,error) / B->(A,error) in a product package (variant<->prefix type, hash, curve, point format, encoding, KID strategy, ML-DSA/SLH-DSA instances, key status …; found by their types), folded by constant propagation on every enum constant: parse(serialize(a)) = a for every a the serializer accepts, nothing the parser accepts is unserialisable, unknown values are errors on both sides; " +
		"(keyset) entries<->proto keyset conversions and Public() map every entry, in a complete range loop, to the same index with the same key ID, status and primary flag (RAW => ID requirement 0); " +
		"(idreq) every key parser hands keySerialization.IDRequirement() to the key constructor and every serializer hands the key's IDRequirement() to NewKeySerialization; " +
		"(typeurl) the type URL put into KeyData/KeyTemplate and the one the parser compares against are the same constant; " +
		"(fields) a serializer never writes a constant into a proto field that the same package's parser reads back into the key/parameters; " +
		"(optional) optional sub-messages written conditionally by a serializer (custom kid) are detected by the parser through a nil test of the sub-message, not through its content. " +
		"(lossless) every scalar getter of a key type's Parameters is read by its parameter and key serializers (written, or pinned by a guard) — state the serializer ignores cannot survive a round trip; " +
		"(writeerr) the cleartext writers test the keyset material for nil (serialization failure) before handing it to the writer; " +
		"Not decided: byte-identical re-serialization, big-integer leading zeros, Equal semantics, reader/writer codecs (protobuf library)."
	c12Inverse(c)
	c12Keyset(c)
	c12IDReq(c)
	c12TypeURL(c)
	c12Optional(c)
	c12ConstFields(c)
	c12Canonical(c)
	c12FieldCopy(c)
	c12Lossless(c)
	c12WriteErr(c)
	c12RSAPad(c)
	c12EnumNames(c)
	c12RSABits(c)
	idZeroRule(c, "C12.idzero", func(rel string) bool {
		return rel == "keyset" || strings.HasPrefix(rel, "insecurecleartextkeyset") || strings.HasPrefix(rel, "internal/protoserialization")
	})
}

// ---------------------------------------------------------------- inverse

func enumNamed(t types.Type) *types.Named {
	n, ok := types.Unalias(t).(*types.Named)
	if !ok {
		return nil
	}
	b, ok := n.Underlying().(*types.Basic)
	if !ok || b.Info()&types.IsInteger == 0 {
		return nil
	}
	if n.Obj().Pkg() == nil {
		return nil
	}
	return n
}

func constsOf(n *types.Named) map[string]constant.Value {
	out := map[string]constant.Value{}
	sc := n.Obj().Pkg().Scope()
	for _, name := range sc.Names() {
		if cst, ok := sc.Lookup(name).(*types.Const); ok && types.Identical(cst.Type(), n) {
			out[name] = cst.Val()
		}
	}
	return out
}

// c12InverseExceptions: documented many-to-one mappings.
var c12InverseExceptions = map[string]string{
	"hybrid/ecies/UnspecifiedPointFormat": "documented in the serializer: the point format is unspecified only for X25519 and is written as COMPRESSED; the parser restores it from the curve type (X25519 => Unspecified), not from this table",
}

type tableFn struct {
	f    *ssa.Function
	a, b *types.Named
}

func c12Inverse(c *Ctx) {
	p, r := c.P, c.R
	byPkg := map[string][]tableFn{}
	for _, f := range p.SortedFuncs(core.Product) {
		if f.Parent() != nil || f.Synthetic != "" || f.Signature.Recv() != nil {
			continue
		}
		sig := f.Signature
		if sig.Params().Len() != 1 || sig.Results().Len() != 2 || !guard.IsErrorType(sig.Results().At(1).Type()) {
			continue
		}
		a, b := enumNamed(sig.Params().At(0).Type()), enumNamed(sig.Results().At(0).Type())
		if a == nil || b == nil || types.Identical(a, b) {
			continue
		}
		rel := core.Rel(core.PkgOf(f))
		byPkg[rel] = append(byPkg[rel], tableFn{f, a, b})
	}
	var pkgs []string
	for k := range byPkg {
		pkgs = append(pkgs, k)
	}
	sort.Strings(pkgs)
	ev := consteval.New()
	nPairs := 0
	for _, rel := range pkgs {
		fns := byPkg[rel]
		for _, f := range fns {
			for _, g := range fns {
				if !types.Identical(f.a, g.b) || !types.Identical(f.b, g.a) || f.f == g.f {
					continue
				}
				// orient: f = "to proto" (its result type lives in a generated package), g = back
				if core.ClassOf(f.b.Obj().Pkg().Path()) != core.Generated {
					continue
				}
				nPairs++
				as := constsOf(f.a)
				var names []string
				for n := range as {
					names = append(names, n)
				}
				sort.Strings(names)
				for _, an := range names {
					key := fmt.Sprintf("C12.inverse/%s: %s∘%s(%s)", rel, g.f.Name(), f.f.Name(), an)
					outs, ok := ev.Eval(f.f, []consteval.Val{{K: consteval.Const, C: as[an]}}, nil)
					if !ok || len(outs) != 1 {
						r.Unknown("C12.inverse", key, p.FuncPos(f.f), fmt.Sprintf("cannot fold %s (%d outcomes)", f.f.Name(), len(outs)))
						continue
					}
					o := outs[0]
					unknownName := strings.Contains(strings.ToLower(an), "unknown")
					if why, isExc := c12InverseExceptions[rel+"/"+an]; isExc {
						r.Except("C12.inverse", key, p.FuncPos(f.f), why)
						continue
					}
					if o.IsErr() {
						if unknownName {
							r.Ok("C12.inverse", key, p.FuncPos(f.f), "unknown value rejected by the serializer side")
						} else {
							r.Outside("C12.inverse", key, p.FuncPos(f.f), "value not serialisable (rejected by "+f.f.Name()+")")
						}
						continue
					}
					if unknownName {
						r.Bad("C12.inverse", key, p.FuncPos(f.f), "an unknown/unspecified enum value is serialised instead of rejected")
						continue
					}
					if !o.IsOK() || o.Results[0].K != consteval.Const {
						r.Unknown("C12.inverse", key, p.FuncPos(f.f), "serializer table result not a constant")
						continue
					}
					back, ok2 := ev.Eval(g.f, []consteval.Val{o.Results[0]}, nil)
					if !ok2 || len(back) != 1 {
						r.Unknown("C12.inverse", key, p.FuncPos(g.f), fmt.Sprintf("cannot fold %s (%d outcomes)", g.f.Name(), len(back)))
						continue
					}
					good := back[0].IsOK() && back[0].Results[0].K == consteval.Const && constant.Compare(back[0].Results[0].C, token.EQL, as[an])
					r.Check(good, "C12.inverse", key, p.FuncPos(g.f), fmt.Sprintf("%s(%s(%s)) = %v, not %s: the value does not survive serialization", g.f.Name(), f.f.Name(), an, back[0].Results[0], an),
						fmt.Sprintf("%s -> %v -> %s", an, o.Results[0], an))
				}
				// parser side: everything g accepts must be re-serialisable, unknown proto values rejected
				bs := constsOf(f.b)
				var bnames []string
				for n := range bs {
					bnames = append(bnames, n)
				}
				sort.Strings(bnames)
				for _, bn := range bnames {
					key := fmt.Sprintf("C12.inverse/%s: %s(%s)", rel, g.f.Name(), bn)
					outs, ok := ev.Eval(g.f, []consteval.Val{{K: consteval.Const, C: bs[bn]}}, nil)
					if !ok || len(outs) != 1 {
						r.Unknown("C12.inverse", key, p.FuncPos(g.f), "cannot fold")
						continue
					}
					unknownName := strings.Contains(strings.ToLower(bn), "unknown")
					if outs[0].IsErr() {
						r.Ok("C12.inverse", key, p.FuncPos(g.f), "rejected by the parser")
						continue
					}
					if unknownName {
						r.Bad("C12.inverse", key, p.FuncPos(g.f), "the parser accepts an unknown/unspecified proto enum value")
						continue
					}
					if !outs[0].IsOK() || outs[0].Results[0].K != consteval.Const {
						r.Unknown("C12.inverse", key, p.FuncPos(g.f), "parser table result not a constant")
						continue
					}
					fw, ok3 := ev.Eval(f.f, []consteval.Val{outs[0].Results[0]}, nil)
					good := ok3 && len(fw) == 1 && fw[0].IsOK()
					r.Check(good, "C12.inverse", key, p.FuncPos(g.f), "the parser accepts a value whose parsed form cannot be serialised again", "parsed form is serialisable")
				}
			}
		}
	}
	r.Counts["enum_table_pairs"] = nPairs
	r.Min("C12.inverse", 150)
	// keyset status tables
	sf, st := p.PkgFunc("keyset", "keyStatusToProto"), p.PkgFunc("keyset", "keyStatusFromProto")
	if sf == nil || st == nil {
		r.AnchorMissing("C12.inverse", "keyset.keyStatusToProto/FromProto")
	}
}

// ---------------------------------------------------------------- keyset

func c12Keyset(c *Ctx) {
	p, r := c.P, c.R
	// entryToProtoKey: fields from the same entry
	if f := p.PkgFunc("keyset", "entryToProtoKey"); f == nil {
		r.AnchorMissing("C12.keyset", "keyset.entryToProtoKey")
	} else {
		e := f.Params[0]
		want := map[string]func(v ssa.Value) bool{
			"KeyId": func(v ssa.Value) bool {
				cc, _ := guard.CallOf(v)
				return cc != nil && isEntryMethod(&cc.Call, "KeyID") && cc.Call.Args[0] == ssa.Value(e)
			},
			"Status": func(v ssa.Value) bool {
				var statusOf func(v ssa.Value, ent ssa.Value, depth int) bool
				statusOf = func(v ssa.Value, ent ssa.Value, depth int) bool {
					cc, ci := guard.CallOf(v)
					if cc == nil || depth > 2 {
						return false
					}
					if strings.HasSuffix(guard.CalleeName(&cc.Call), "keyset.keyStatusToProto") {
						sc, _ := guard.CallOf(cc.Call.Args[0])
						return sc != nil && isEntryMethod(&sc.Call, "KeyStatus") && guard.Strip(sc.Call.Args[0]) == guard.Strip(ent)
					}
					// a helper of the package applied to the same entry: decided on its success returns
					h := cc.Call.StaticCallee()
					if h == nil || h.Blocks == nil || core.Rel(core.PkgOf(h)) != "keyset" {
						return false
					}
					for j, a := range cc.Call.Args {
						if guard.Strip(a) != guard.Strip(ent) || j >= len(h.Params) {
							continue
						}
						rets := guard.SuccessReturns(h)
						for _, ret := range rets {
							if ci >= len(ret.Results) || !statusOf(ret.Results[ci], h.Params[j], depth+1) {
								return false
							}
						}
						return len(rets) > 0
					}
					return false
				}
				return statusOf(v, e, 0)
			},
			"OutputPrefixType": func(v ssa.Value) bool {
				cc, _ := guard.CallOf(v)
				return cc != nil && strings.HasSuffix(guard.CalleeName(&cc.Call), "KeySerialization).OutputPrefixType") && derivesFrom(cc.Call.Args[0], e, 0)
			},
			"KeyData": func(v ssa.Value) bool {
				cc, _ := guard.CallOf(v)
				return cc != nil && strings.HasSuffix(guard.CalleeName(&cc.Call), "KeySerialization).KeyData") && derivesFrom(cc.Call.Args[0], e, 0)
			},
		}
		seen := map[string]bool{}
		allInstrs(f, func(ins ssa.Instruction) {
			if base, fld, val, ok := guard.StoreField(ins); ok && core.TypeID(base.Type()) == "proto/tink_go_proto.Keyset_Key" {
				if chk, has := want[fld]; has {
					seen[fld] = true
					r.Check(chk(val), "C12.keyset", "C12.keyset/entryToProtoKey/"+fld, p.Pos(ins.Pos()), "Keyset_Key."+fld+" is not taken from the entry being serialised", "from the same entry")
				}
			}
		})
		for fld := range want {
			if !seen[fld] {
				r.Bad("C12.keyset", "C12.keyset/entryToProtoKey/"+fld, p.FuncPos(f), "Keyset_Key."+fld+" is not populated")
			}
		}
	}
	// complete same-index loops
	type loopSpec struct {
		name    string
		f       *ssa.Function
		srcFld  func(v ssa.Value) bool // the ranged-over slice
		dstDesc string
	}
	e2p := p.PkgFunc("keyset", "entriesToProtoKeyset")
	k2e := p.PkgFunc("keyset", "keysetToEntries")
	pub := p.Method("keyset", "Handle", true, "Public")
	for _, ls := range []struct {
		name string
		f    *ssa.Function
	}{{"entriesToProtoKeyset", e2p}, {"keysetToEntries", k2e}, {"Handle.Public", pub}} {
		if ls.f == nil {
			r.AnchorMissing("C12.keyset", "keyset."+ls.name)
			continue
		}
		key := "C12.keyset/" + ls.name + "/same index, every entry"
		// find a store dst[i] = x inside a complete range loop where i is the loop's own index and the
		// destination was made with len(source)
		good, why := false, "no element-wise copy into a result of len(source) inside a complete range loop"
		allInstrs(ls.f, func(ins ssa.Instruction) {
			st, ok := ins.(*ssa.Store)
			if !ok {
				return
			}
			dia, ok := st.Addr.(*ssa.IndexAddr)
			if !ok {
				return
			}
			// find the source range loop whose index is dia.Index
			var rl *rangeLoop
			allInstrs(ls.f, func(i2 ssa.Instruction) {
				if sia, ok := i2.(*ssa.IndexAddr); ok && sia != dia && sia.Index == dia.Index {
					if l := rangeLoopOf(sia); l != nil {
						rl = l
					}
				}
			})
			if rl == nil {
				return
			}
			if !rl.Complete && !rl.CompleteButErrors {
				why = "the loop over the source entries can be left early (other than by returning an error)"
				return
			}
			// unguarded inside the loop except error returns: the store's block must dominate the back edge
			for _, pred := range rl.Header.Preds {
				if rl.Blocks[pred] && !(st.Block() == pred || st.Block().Dominates(pred)) {
					why = "some entries are skipped (the element store does not happen on every iteration)"
					return
				}
			}
			// destination has the source's length
			dst := guard.Strip(dia.X)
			if u, isU := dst.(*ssa.UnOp); isU && u.Op == token.MUL {
				// field of the result message: look at the store into that field
				if fa, isFA := u.X.(*ssa.FieldAddr); isFA {
					for _, ref := range *fa.X.Referrers() {
						if fa2, ok := ref.(*ssa.FieldAddr); ok && fa2.Field == fa.Field {
							for _, r2 := range *fa2.Referrers() {
								if s2, ok := r2.(*ssa.Store); ok {
									dst = guard.Strip(s2.Val)
								}
							}
						}
					}
				}
			}
			mk, isMk := dst.(*ssa.MakeSlice)
			if !isMk {
				why = "the result slice is not allocated with the source's length"
				return
			}
			lc, _ := guard.CallOf(mk.Len)
			okLen := false
			if lc != nil {
				if b, isB := lc.Call.Value.(*ssa.Builtin); isB && b.Name() == "len" && sameSliceValue(lc.Call.Args[0], rl.Slice) {
					okLen = true
				}
				if strings.HasSuffix(guard.CalleeName(&lc.Call), "keyset.Handle).Len") {
					okLen = true
				}
			}
			if !okLen {
				why = "the result slice's length is not len(source)"
				return
			}
			good = true
		})
		if !good {
			// append form: result = append(result, x) on every iteration of a complete
			// range loop, result starting empty — same order, every entry
			allInstrs(ls.f, func(ins ssa.Instruction) {
				call, ok := ins.(*ssa.Call)
				if !ok || good {
					return
				}
				b, isB := call.Call.Value.(*ssa.Builtin)
				if !isB || b.Name() != "append" || !inCycle(call.Block()) {
					return
				}
				// the accumulator: a phi of (empty slice, this append)
				acc := call.Call.Args[0]
				if u, isU := acc.(*ssa.UnOp); isU {
					// accumulator kept in a struct field (result.Key = append(result.Key, …)): accept a field load
					if _, _, isF := guard.FieldOf(u); !isF {
						return
					}
				} else {
					phi, isPhi := acc.(*ssa.Phi)
					if !isPhi {
						return
					}
					for _, e := range phi.Edges {
						if e == ssa.Value(call) || guard.IsNilConst(e) {
							continue
						}
						if mk, isMk := guard.Strip(e).(*ssa.MakeSlice); isMk {
							if k, isK := guard.ConstInt(mk.Len); isK && k == 0 {
								continue
							}
						}
						return
					}
				}
				// a complete range loop containing the append, whose every iteration reaches it
				var rl *rangeLoop
				allInstrs(ls.f, func(i2 ssa.Instruction) {
					if sia, ok := i2.(*ssa.IndexAddr); ok {
						if l := rangeLoopOf(sia); l != nil && l.Blocks[call.Block()] && (l.Complete || l.CompleteButErrors) {
							rl = l
						}
					}
				})
				if rl == nil {
					why = "the appending loop can be left early (other than by returning an error) or is not a range loop over the source"
					return
				}
				for _, pred := range rl.Header.Preds {
					if rl.Blocks[pred] && !(call.Block() == pred || call.Block().Dominates(pred)) {
						why = "some entries are skipped (the append does not happen on every iteration)"
						return
					}
				}
				good = true
			})
		}
		r.Check(good, "C12.keyset", key, p.FuncPos(ls.f), why, "result[i] set (or result appended to) on every iteration of a complete range loop over the source")
	}
	// keysetToEntries: RAW => ID requirement 0; primary by ID; ID preserved
	if k2e != nil {
		raw, _ := constOf(p, "proto/tink_go_proto", "OutputPrefixType_RAW")
		okRaw, nSites, how := true, 0, map[string]bool{}
		for _, site := range callsToDeep(k2e, core.ModPath+"/internal/protoserialization.NewKeySerialization") {
			nSites++
			// by value: under each prefix type the argument folds to 0 (RAW) or the key ID
			if c12IDRequirementFolds(p, site) {
				how["folded under each prefix type"] = true
				continue
			}
			siteOK := false
			if phi, isPhi := guard.Strip(site.Common().Args[2]).(*ssa.Phi); isPhi && len(phi.Edges) == 2 {
				z, id := false, false
				for i, e := range phi.Edges {
					if k, isC := guard.ConstInt(e); isC && k == 0 {
						for _, fct := range edgeFactsInto(phi.Block().Preds[i], phi.Block()) {
							if op, x, y, ok := guard.Cmp(fct); ok && op == token.EQL && (isConstEq(y, raw) || isConstEq(x, raw)) {
								z = true
							}
						}
					} else if cc, _ := guard.CallOf(e); cc != nil && strings.HasSuffix(guard.CalleeName(&cc.Call), "Keyset_Key).GetKeyId") {
						id = true
					}
				}
				siteOK = z && id
				how["phi[0 under RAW, GetKeyId() otherwise]"] = true
			}
			okRaw = okRaw && siteOK
		}
		okRaw = okRaw && nSites > 0
		var hows []string
		for h := range how {
			hows = append(hows, h)
		}
		sort.Strings(hows)
		r.Check(okRaw, "C12.keyset", "C12.keyset/keysetToEntries/ID requirement", p.FuncPos(k2e), "the key's ID requirement is not (0 if RAW else the proto key ID)", fmt.Sprintf("%d NewKeySerialization sites: %s", nSites, strings.Join(hows, "; ")))
		okEntry := false
		for _, site := range callsToDeep(k2e, core.ModPath+"/keyset.newUnmonitoredEntry") {
			args := site.Common().Args
			idc, _ := guard.CallOf(args[2])
			okID := idc != nil && strings.HasSuffix(guard.CalleeName(&idc.Call), "Keyset_Key).GetKeyId")
			okPrim := false
			if cmp, isCmp := guard.Strip(resolveParam(p, args[1])).(*ssa.BinOp); isCmp && cmp.Op == token.EQL {
				// either operand may be a getter call or a direct field load, possibly handed
				// into an extracted helper as a parameter
				kind := func(v ssa.Value) string {
					v = resolveParam(p, v)
					if cc, _ := guard.CallOf(v); cc != nil {
						n := guard.CalleeName(&cc.Call)
						switch {
						case strings.HasSuffix(n, ").GetKeyId"):
							return "id"
						case strings.HasSuffix(n, ").GetPrimaryKeyId"):
							return "primary"
						}
					}
					if _, fld, isF := guard.FieldOf(v); isF {
						switch fld {
						case "KeyId":
							return "id"
						case "PrimaryKeyId":
							return "primary"
						}
					}
					return ""
				}
				ka, kb := kind(cmp.X), kind(cmp.Y)
				if (ka == "id" && kb == "primary") || (ka == "primary" && kb == "id") {
					okPrim = true
				}
			}
			stc, _ := guard.CallOf(args[3])
			okSt := stc != nil && strings.HasSuffix(guard.CalleeName(&stc.Call), "keyset.keyStatusFromProto")
			// the key object is what ParseKey makes of the key's serialization, whatever its status
			var fromParse func(v ssa.Value, depth int) bool
			fromParse = func(v ssa.Value, depth int) bool {
				if depth > 3 {
					return false
				}
				v = resolveParam(p, v)
				if phi, isPhi := guard.Strip(v).(*ssa.Phi); isPhi {
					for _, e := range phi.Edges {
						if !fromParse(e, depth+1) {
							return false
						}
					}
					return len(phi.Edges) > 0
				}
				pc, pi := guard.CallOf(v)
				if pc == nil || pi != 0 {
					return false
				}
				if strings.HasSuffix(guard.CalleeName(&pc.Call), "internal/protoserialization.ParseKey") {
					return true
				}
				h := pc.Call.StaticCallee()
				if h == nil || h.Blocks == nil || core.Rel(core.PkgOf(h)) != "keyset" {
					return false
				}
				rets := guard.SuccessReturns(h)
				for _, ret := range rets {
					if !fromParse(ret.Results[0], depth+1) {
						return false
					}
				}
				return len(rets) > 0
			}
			okKey := fromParse(args[0], 0)
			okEntry = okID && okPrim && okSt && okKey
		}
		r.Check(okEntry, "C12.keyset", "C12.keyset/keysetToEntries/entry fields", p.FuncPos(k2e), "entry key/ID/primary/status are not taken from the proto key (ParseKey of its serialization on every path, ID, ID==PrimaryKeyId, status table)", "newUnmonitoredEntry(ParseKey(serialization), id==primary, id, status)")
	}
	// Public(): same entry's flags
	if pub != nil {
		ok := false
		for _, site := range callsTo(pub, core.ModPath+"/keyset.newUnmonitoredEntry") {
			args := site.Common().Args
			b1, f1, ok1 := guard.FieldOf(args[1])
			b2, f2, ok2 := guard.FieldOf(args[2])
			b3, f3, ok3 := guard.FieldOf(args[3])
			if ok1 && ok2 && ok3 && f1 == "isPrimary" && f2 == "keyID" && f3 == "status" && guard.Strip(b1) == guard.Strip(b2) && guard.Strip(b2) == guard.Strip(b3) {
				// and the public key derives from that entry's key
				if derivesFrom(args[0], guard.Strip(b1), 0) {
					ok = true
				}
			}
		}
		r.Check(ok, "C12.keyset", "C12.keyset/Handle.Public/entry fields", p.FuncPos(pub), "Public() does not copy isPrimary, keyID and status of the same entry whose public key it takes", "newUnmonitoredEntry(entry.key.PublicKey(), entry.isPrimary, entry.keyID, entry.status)")
	}
	// entriesToProtoKeyset: primary ID under IsPrimary of the same entry
	if e2p != nil {
		ok := false
		allInstrs(e2p, func(ins ssa.Instruction) {
			if _, fld, val, isS := guard.StoreField(ins); isS && fld == "PrimaryKeyId" {
				// the stored value: entry.KeyID() taken under entry.IsPrimary(), directly or
				// carried out of the loop in a local (phi of 0 / itself / such calls)
				var leaves []ssa.Value
				seenPhi := map[ssa.Value]bool{}
				var flat func(v ssa.Value, d int)
				flat = func(v ssa.Value, d int) {
					v = guard.Strip(v)
					if ph, isPhi := v.(*ssa.Phi); isPhi && d < 4 {
						if seenPhi[ph] {
							return
						}
						seenPhi[ph] = true
						for _, e := range ph.Edges {
							flat(e, d+1)
						}
						return
					}
					if k, isK := guard.ConstInt(v); isK && k == 0 {
						return
					}
					leaves = append(leaves, v)
				}
				flat(val, 0)
				all := len(leaves) > 0
				for _, lf := range leaves {
					// entry.KeyID() or, inside the package, the plain field entry.keyID
					ent, at, isID := entryRead(lf, "KeyID", "keyID")
					if !isID {
						all = false
						continue
					}
					under := false
					for _, blk := range []*ssa.BasicBlock{at, ins.Block()} {
						for _, fct := range guard.BlockFacts(blk) {
							if !fct.True {
								continue
							}
							if e2, _, isP := entryRead(fct.Cond, "IsPrimary", "isPrimary"); isP && sameEntry(e2, ent) {
								under = true
							}
						}
					}
					if !under {
						all = false
					}
				}
				if all {
					ok = true
				}
			}
		})
		r.Check(ok, "C12.keyset", "C12.keyset/entriesToProtoKeyset/primary", p.FuncPos(e2p), "PrimaryKeyId is not the ID of the entry for which IsPrimary() holds", "PrimaryKeyId = entry.KeyID() under entry.IsPrimary()")
	}
}

// ---------------------------------------------------------------- idreq

func c12IDReq(c *Ctx) {
	p, r := c.P, c.R
	nP, nS := 0, 0
	for _, f := range p.SortedFuncs(core.Product) {
		if f.Signature.Recv() == nil || f.Synthetic != "" {
			continue
		}
		switch f.Name() {
		case "ParseKey":
			// a call of (*KeySerialization).IDRequirement whose first result reaches a constructor argument
			var idVals []ssa.Value
			allInstrs(f, func(ins ssa.Instruction) {
				if call, ok := ins.(*ssa.Call); ok && strings.HasSuffix(guard.CalleeName(&call.Call), "protoserialization.KeySerialization).IDRequirement") {
					for _, ref := range *call.Referrers() {
						if ex, isE := ref.(*ssa.Extract); isE && ex.Index == 0 {
							idVals = append(idVals, ex)
						}
					}
				}
			})
			if core.Rel(core.PkgOf(f)) == "internal/protoserialization" {
				return0 := true
				_ = return0
				continue
			}
			nP++
			key := "C12.idreq/" + core.FuncID(f)
			good := false
			how := ""
			allInstrs(f, func(ins ssa.Instruction) {
				// (a) argument of a module constructor
				if call, ok := ins.(*ssa.Call); ok {
					callee := call.Call.StaticCallee()
					if callee != nil && core.FuncClass(callee) == core.Product {
						for _, a := range call.Call.Args {
							for _, iv := range idVals {
								if guard.Strip(a) == iv {
									good, how = true, callee.Name()+"(…, keySerialization.IDRequirement(), …)"
								}
							}
						}
					}
				}
				// (b) IDRequirement field of an options struct
				if _, fld, val, ok := guard.StoreField(ins); ok && strings.Contains(fld, "IDRequirement") {
					for _, iv := range idVals {
						if guard.Strip(val) == iv {
							good, how = true, "opts."+fld+" = IDRequirement()"
						}
					}
				}
			})
			if !good && len(idVals) == 0 {
				// key types without ID requirement: the parser must insist on the RAW prefix type
				raw, _ := constOf(p, "proto/tink_go_proto", "OutputPrefixType_RAW")
				for _, ret := range guard.Returns(f) {
					if !guard.DefinitelyFails(ret) {
						continue
					}
					for _, fct := range guard.BlockFacts(ret.Block()) {
						if op, x, y, ok := guard.Cmp(fct); ok && op == token.NEQ && (isConstEq(x, raw) || isConstEq(y, raw)) {
							good, how = true, "key type without ID requirement: non-RAW prefix types are rejected"
						}
					}
				}
			}
			r.Check(good, "C12.idreq", key, p.FuncPos(f), "the parser neither passes keySerialization.IDRequirement() to the key constructor nor (for prefix-less key types) rejects non-RAW prefix types", how)
		case "SerializeKey":
			if core.Rel(core.PkgOf(f)) == "internal/protoserialization" {
				continue
			}
			nS++
			key := "C12.idreq/" + core.FuncID(f)
			good := false
			for _, site := range callsTo(f, core.ModPath+"/internal/protoserialization.NewKeySerialization") {
				idc, idx := guard.CallOf(site.Common().Args[2])
				if idc != nil && idx == 0 && idc.Call.IsInvoke() && idc.Call.Method.Name() == "IDRequirement" {
					good = true
				}
				if idc != nil && idx == 0 && !idc.Call.IsInvoke() && strings.HasSuffix(guard.CalleeName(&idc.Call), ").IDRequirement") {
					good = true
				}
				// prefix-less key types: constant 0 together with the RAW prefix type
				if k, isC := guard.ConstInt(site.Common().Args[2]); isC && k == 0 {
					raw, _ := constOf(p, "proto/tink_go_proto", "OutputPrefixType_RAW")
					if isConstEq(site.Common().Args[1], raw) {
						good = true
					}
				}
			}
			r.Check(good, "C12.idreq", key, p.FuncPos(f), "the serializer does not pass the key's IDRequirement() to NewKeySerialization", "NewKeySerialization(keyData, prefix, key.IDRequirement())")
		}
	}
	// key creators: func(key.Parameters, idRequirement uint32) (key.Key, error) — the key they
	// return is built by a constructor; if that constructor takes a key ID / ID requirement,
	// it is given the creator's own idRequirement parameter
	nC := 0
	for _, f := range p.SortedFuncs(core.Product) {
		sig := f.Signature
		if sig.Recv() != nil || f.Parent() != nil || f.Synthetic != "" || len(f.Blocks) == 0 || sig.Params().Len() != 2 || sig.Results().Len() != 2 {
			continue
		}
		if core.TypeID(sig.Params().At(0).Type()) != "key.Parameters" || core.TypeID(sig.Results().At(0).Type()) != "key.Key" || core.Rel(core.PkgOf(f)) == "internal/keygenregistry" {
			continue
		}
		if bt, ok := sig.Params().At(1).Type().Underlying().(*types.Basic); !ok || bt.Kind() != types.Uint32 {
			continue
		}
		nC++
		key := "C12.idreq/" + core.FuncID(f)
		bad, how := "", ""
		rets := guard.SuccessReturns(f)
		var visit func(v ssa.Value, depth int)
		visit = func(v ssa.Value, depth int) {
			v = guard.Strip(v)
			if mi, isMI := v.(*ssa.MakeInterface); isMI {
				v = guard.Strip(mi.X)
			}
			if phi, isPhi := v.(*ssa.Phi); isPhi && depth < 3 {
				for _, e := range phi.Edges {
					if !guard.IsNilConst(e) {
						visit(e, depth+1)
					}
				}
				return
			}
			cc, _ := guard.CallOf(v)
			if cc == nil || cc.Call.StaticCallee() == nil || core.FuncClass(cc.Call.StaticCallee()) != core.Product {
				bad = "the returned key is not the result of a constructor of the module (" + valName(v) + ")"
				return
			}
			g := cc.Call.StaticCallee()
			idParams := 0
			for i, prm := range g.Params {
				bt, isB := prm.Type().Underlying().(*types.Basic)
				if !isB || bt.Kind() != types.Uint32 || !strings.Contains(strings.ToLower(prm.Name()), "id") || i >= len(cc.Call.Args) {
					continue
				}
				idParams++
				if guard.Strip(cc.Call.Args[i]) != ssa.Value(f.Params[1]) {
					bad = fmt.Sprintf("%s is given %s as %s instead of the creator's idRequirement parameter: generated keys would not carry the ID the keyset assigns", g.Name(), valName(cc.Call.Args[i]), prm.Name())
				}
			}
			if idParams == 0 {
				how = g.Name() + " takes no ID requirement (prefix-less key type)"
			} else if how == "" {
				how = g.Name() + "(…, idRequirement parameter, …)"
			}
		}
		for _, ret := range rets {
			visit(ret.Results[0], 0)
		}
		if len(rets) == 0 {
			bad = "no success return"
		}
		r.Check(bad == "", "C12.idreq", key, p.FuncPos(f), bad, how)
	}
	r.Counts["key_parsers"], r.Counts["key_serializers"], r.Counts["key_creators"] = nP, nS, nC
	r.Min("C12.idreq", 80)
}

// ---------------------------------------------------------------- typeurl

func c12TypeURL(c *Ctx) {
	p, r := c.P, c.R
	n := 0
	for _, path := range sortedPkgPaths(p) {
		if core.ClassOf(path) != core.Product {
			continue
		}
		rel := core.Rel(path)
		// constants holding type URLs in this package
		urls := map[string]bool{}
		sc := p.ByPath[path].Types.Scope()
		for _, name := range sc.Names() {
			if cst, ok := sc.Lookup(name).(*types.Const); ok && cst.Val().Kind() == constant.String && strings.HasPrefix(constant.StringVal(cst.Val()), "type.googleapis.com/") {
				urls[constant.StringVal(cst.Val())] = true
			}
		}
		if len(urls) == 0 {
			continue
		}
		// every TypeUrl store of a KeyData/KeyTemplate literal in a Serialize* method uses one of them; every parser compares with one
		for _, f := range pkgFuncs(p, rel) {
			if f.Signature.Recv() == nil {
				continue
			}
			if !strings.HasPrefix(f.Name(), "Serialize") && !strings.HasPrefix(f.Name(), "Parse") {
				continue
			}
			allInstrs(f, func(ins ssa.Instruction) {
				if base, fld, val, ok := guard.StoreField(ins); ok && fld == "TypeUrl" {
					tn := core.TypeID(base.Type())
					if tn != "proto/tink_go_proto.KeyData" && tn != "proto/tink_go_proto.KeyTemplate" {
						return
					}
					n++
					k, isC := guard.Strip(val).(*ssa.Const)
					if !isC {
						r.Outside("C12.typeurl", fmt.Sprintf("C12.typeurl/%s/%s.TypeUrl", core.FuncID(f), tn[strings.LastIndex(tn, ".")+1:]), p.Pos(ins.Pos()), "type URL computed per instance (not a single constant)")
						return
					}
					good := isC && k.Value != nil && urls[constant.StringVal(k.Value)]
					r.Check(good, "C12.typeurl", fmt.Sprintf("C12.typeurl/%s/%s.TypeUrl", core.FuncID(f), tn[strings.LastIndex(tn, ".")+1:]), p.Pos(ins.Pos()), "serialised type URL is not this package's type URL constant", "package type URL constant")
				}
				if cmp, ok := ins.(*ssa.BinOp); ok && (cmp.Op == token.NEQ || cmp.Op == token.EQL) && strings.HasPrefix(f.Name(), "Parse") {
					for _, pr := range [][2]ssa.Value{{cmp.X, cmp.Y}, {cmp.Y, cmp.X}} {
						gc, _ := guard.CallOf(pr[0])
						if gc == nil || !strings.HasSuffix(guard.CalleeName(&gc.Call), ").GetTypeUrl") {
							continue
						}
						n++
						k, isC := guard.Strip(pr[1]).(*ssa.Const)
						good := isC && k.Value != nil && urls[constant.StringVal(k.Value)]
						r.Check(good, "C12.typeurl", fmt.Sprintf("C12.typeurl/%s/compares TypeUrl", core.FuncID(f)), p.Pos(ins.Pos()), "the parser compares the type URL with something other than this package's constant", "package type URL constant")
					}
				}
			})
		}
	}
	r.Min("C12.typeurl", 80)
	_ = n
}

// ---------------------------------------------------------------- optional sub-messages

func c12Optional(c *Ctx) {
	p, r := c.P, c.R
	n := 0
	for _, f := range p.SortedFuncs(core.Product) {
		if !isJWTPkg(core.Rel(core.PkgOf(f))) || f.Synthetic != "" {
			continue
		}
		// every use of GetCustomKid() as a presence decision must be a nil comparison
		allInstrs(f, func(ins ssa.Instruction) {
			call, ok := ins.(*ssa.Call)
			if !ok || !strings.HasSuffix(guard.CalleeName(&call.Call), ").GetCustomKid") {
				return
			}
			for _, ref := range *call.Referrers() {
				switch x := ref.(type) {
				case *ssa.BinOp:
					n++
					good := guard.IsNilConst(x.X) || guard.IsNilConst(x.Y)
					r.Check(good, "C12.optional", fmt.Sprintf("C12.optional/%s/custom kid presence", core.FuncID(f)), p.Pos(x.Pos()), "presence of the optional custom_kid sub-message is not decided by a nil test", "GetCustomKid() != nil")
				case *ssa.Call:
					// GetCustomKid().GetValue(): its result must not feed a presence decision (comparison with "")
					for _, r2 := range *x.Referrers() {
						// len(GetCustomKid().GetValue()) compared with 0: the same decision by content
						if lc, isL := r2.(*ssa.Call); isL {
							if b, isB := lc.Call.Value.(*ssa.Builtin); isB && b.Name() == "len" {
								for _, r3 := range *lc.Referrers() {
									if cmp, isCmp := r3.(*ssa.BinOp); isCmp {
										for _, side := range []ssa.Value{cmp.X, cmp.Y} {
											if k, isK := guard.ConstInt(side); isK && (k == 0 || k == 1) && side != ssa.Value(lc) {
												n++
												r.Bad("C12.optional", fmt.Sprintf("C12.optional/%s/custom kid presence by content", core.FuncID(f)), p.Pos(cmp.Pos()), "presence of the custom kid is decided by the length of its value: a key with an empty custom kid parses back as a key without one")
											}
										}
									}
								}
							}
						}
						if cmp, isCmp := r2.(*ssa.BinOp); isCmp && (cmp.Op == token.EQL || cmp.Op == token.NEQ) {
							for _, side := range []ssa.Value{cmp.X, cmp.Y} {
								if k, isC := side.(*ssa.Const); isC && k.Value != nil && k.Value.Kind() == constant.String && constant.StringVal(k.Value) == "" {
									n++
									r.Bad("C12.optional", fmt.Sprintf("C12.optional/%s/custom kid presence by content", core.FuncID(f)), p.Pos(cmp.Pos()), "presence of the custom kid is decided by comparing its value with \"\": a key with an empty custom kid parses back as a key without one")
								}
							}
						}
					}
				}
			}
		})
	}
	r.Min("C12.optional", 8)
	_ = n
}

// ---------------------------------------------------------------- constant fields

// constBytesLiteral: v is a []byte{…} literal of constants.
func constBytesLiteral(v ssa.Value) bool {
	sl, ok := guard.Strip(v).(*ssa.Slice)
	if !ok {
		return false
	}
	al, ok := sl.X.(*ssa.Alloc)
	if !ok {
		return false
	}
	n := 0
	for _, ref := range *al.Referrers() {
		if ia, ok := ref.(*ssa.IndexAddr); ok {
			for _, r2 := range *ia.Referrers() {
				if st, ok := r2.(*ssa.Store); ok {
					if _, isC := st.Val.(*ssa.Const); !isC {
						return false
					}
					n++
				}
			}
		}
	}
	return n > 0
}

// c12ConstFields: a parameters/key serializer must not write a constant into
// a proto field that the matching parser reads back into the parameters.
func c12ConstFields(c *Ctx) {
	p, r := c.P, c.R
	n := 0
	for _, path := range sortedPkgPaths(p) {
		if core.ClassOf(path) != core.Product {
			continue
		}
		rel := core.Rel(path)
		// getters used by the parsers of this package
		read := map[string]bool{}
		for _, f := range pkgFuncs(p, rel) {
			if !strings.Contains(strings.ToLower(f.Name()), "parse") && !strings.Contains(f.Name(), "FromProto") {
				continue
			}
			for _, g := range withClosures(f) {
				allInstrs(g, func(ins ssa.Instruction) {
					if call, ok := ins.(ssa.CallInstruction); ok {
						nme := guard.CalleeName(call.Common())
						if i := strings.LastIndex(nme, ").Get"); i >= 0 {
							read[nme[i+5:]] = true
						}
					}
				})
			}
		}
		if len(read) == 0 {
			continue
		}
		for _, f := range pkgFuncs(p, rel) {
			if f.Signature.Recv() == nil || !(f.Name() == "Serialize" || f.Name() == "SerializeKey" || f.Name() == "SerializeParameters") {
				continue
			}
			allInstrs(f, func(ins ssa.Instruction) {
				base, fld, val, ok := guard.StoreField(ins)
				if !ok || core.ClassOf(pkgOfType(base.Type())) != core.Generated {
					return
				}
				if fld == "Version" || fld == "TypeUrl" || fld == "KeyMaterialType" || fld == "OutputPrefixType" {
					return
				}
				_, isConst := guard.Strip(val).(*ssa.Const)
				if !isConst && !constBytesLiteral(val) {
					return
				}
				if guard.IsNilConst(val) {
					return
				}
				n++
				key := fmt.Sprintf("C12.fields/%s/%s.%s constant", core.FuncID(f), core.TypeID(base.Type()), fld)
				r.Check(!read[fld], "C12.fields", key, p.Pos(ins.Pos()), "the serializer writes a constant into "+fld+" although the parser reads that field back into the key/parameters: objects whose value differs from the constant do not survive serialization",
					"constant field not read back by this package's parsers")
			})
		}
	}
	r.Counts["constant_proto_fields"] = n
}

// c12IDRequirementFolds: the ID requirement handed to NewKeySerialization at
// site folds to 0 when the key's prefix type is RAW and to the key's own ID
// under each other prefix type, however it is computed (local, helper, switch).
func c12IDRequirementFolds(p *core.Program, site ssa.CallInstruction) bool {
	g := site.Parent()
	if len(site.Common().Args) < 3 {
		return false
	}
	n := 0
	for _, name := range []string{"RAW", "TINK", "LEGACY", "CRUNCHY"} {
		pt, ok := constOf(p, "proto/tink_go_proto", "OutputPrefixType_"+name)
		if !ok {
			return false
		}
		env := bindFieldsAndGetters(g, map[string]consteval.Val{
			"OutputPrefixType": {K: consteval.Const, C: pt},
			"KeyId":            consteval.C(0x4d4d4d4d),
		})
		vals, ok := valuesAt(g, site, site.Common().Args[2], env)
		if !ok {
			return false
		}
		want := int64(0x4d4d4d4d)
		if name == "RAW" {
			want = 0
		}
		for _, v := range vals {
			k, isK := int64(0), false
			if v.K == consteval.Const && v.C.Kind() == constant.Int {
				k, isK = constant.Int64Val(v.C)
			}
			if !isK || k != want {
				return false
			}
			n++
		}
	}
	return n >= 4
}

// entryRead: v is entry.<method>() or a load of the plain field entry.<field> of a
// *keyset.Entry; returns the entry and the block of the read.
func entryRead(v ssa.Value, method, field string) (ssa.Value, *ssa.BasicBlock, bool) {
	if kc, _ := guard.CallOf(v); kc != nil && isEntryMethod(&kc.Call, method) && len(kc.Call.Args) > 0 {
		return kc.Call.Args[0], kc.Block(), true
	}
	if b, fld, ok := guard.FieldOf(v); ok && fld == field && core.TypeID(b.Type()) == "keyset.Entry" {
		if ins, isI := guard.Strip(v).(ssa.Instruction); isI {
			return b, ins.Block(), true
		}
	}
	return nil, nil, false
}
