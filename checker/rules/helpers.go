package rules

import (
	"fmt"
	"go/constant"
	"go/token"
	"go/types"
	"sort"
	"strings"

	"golang.org/x/tools/go/ssa"

	"tinkverif/bounds"
	"tinkverif/core"
	"tinkverif/guard"
)

// methodsOf returns every method (exported or not) declared on named type
// rel.name, pointer and value receivers, sorted by name.
func methodsOf(p *core.Program, rel, name string) []*ssa.Function {
	sp := p.Pkg(rel)
	if sp == nil || sp.Type(name) == nil {
		return nil
	}
	named, _ := sp.Type(name).Type().(*types.Named)
	if named == nil {
		return nil
	}
	var out []*ssa.Function
	for i := 0; i < named.NumMethods(); i++ {
		if f := p.SSA.FuncValue(named.Method(i)); f != nil && f.Blocks != nil {
			out = append(out, f)
		}
	}
	sort.Slice(out, func(i, j int) bool { return out[i].Name() < out[j].Name() })
	return out
}

// withClosures returns fn and all functions nested in it.
func withClosures(fn *ssa.Function) []*ssa.Function {
	out := []*ssa.Function{fn}
	for _, a := range fn.AnonFuncs {
		out = append(out, withClosures(a)...)
	}
	return out
}

// pkgFuncs lists the source functions (with closures) of a module-relative
// package, sorted.
func pkgFuncs(p *core.Program, rel string) []*ssa.Function {
	var out []*ssa.Function
	for _, f := range p.SortedFuncs(core.Product, core.Generated, core.TestSupport) {
		if core.Rel(core.PkgOf(f)) == rel && f.Synthetic == "" {
			out = append(out, f)
		}
	}
	return out
}

// constOf returns the constant.Value of package-level constant rel.name.
func constOf(p *core.Program, rel, name string) (constant.Value, bool) {
	pk := p.ByPath[core.ModPath+"/"+rel]
	if pk == nil {
		return nil, false
	}
	c, ok := pk.Types.Scope().Lookup(name).(*types.Const)
	if !ok {
		return nil, false
	}
	return c.Val(), true
}

// isConstEq reports whether v is a constant equal to c.
func isConstEq(v ssa.Value, c constant.Value) bool {
	k, ok := guard.Strip(v).(*ssa.Const)
	return ok && k.Value != nil && c != nil && constant.Compare(k.Value, token.EQL, c)
}

// inCycle reports whether block b lies on a CFG cycle.
func inCycle(b *ssa.BasicBlock) bool {
	seen := map[*ssa.BasicBlock]bool{}
	stack := append([]*ssa.BasicBlock{}, b.Succs...)
	for len(stack) > 0 {
		x := stack[len(stack)-1]
		stack = stack[:len(stack)-1]
		if x == b {
			return true
		}
		if seen[x] {
			continue
		}
		seen[x] = true
		stack = append(stack, x.Succs...)
	}
	return false
}

// natLoop returns the blocks of the natural loop with the given header (all
// blocks dominated by header that can reach it).
func natLoop(header *ssa.BasicBlock) map[*ssa.BasicBlock]bool {
	loop := map[*ssa.BasicBlock]bool{header: true}
	var stack []*ssa.BasicBlock
	for _, p := range header.Preds {
		if header.Dominates(p) {
			stack = append(stack, p)
		}
	}
	for len(stack) > 0 {
		x := stack[len(stack)-1]
		stack = stack[:len(stack)-1]
		if loop[x] {
			continue
		}
		loop[x] = true
		stack = append(stack, x.Preds...)
	}
	return loop
}

// rangeLoop describes `for i, e := range S` as lowered by go/ssa.
type rangeLoop struct {
	Header *ssa.BasicBlock
	Slice  ssa.Value // the ranged-over slice value
	Index  ssa.Value // the per-iteration index value (phi+1)
	Blocks map[*ssa.BasicBlock]bool
	// Complete: index runs from 0 to len(Slice)-1 and the only exit is the
	// header's loop condition (no break / return inside).
	Complete bool
	// CompleteButErrors: as Complete, except that the body may leave the loop by
	// returning a definitely non-nil error.
	CompleteButErrors bool
}

// countedLoop is a loop whose index value takes 0, 1, …, Bound-1 in order,
// in any of the three shapes go/ssa produces:
//
//	for i := 0; i < B; i++      header: i = phi(0, i+1); if i < B         (index = phi)
//	for i, e := range S         header: p = phi(-1, p+1); if p+1 < len(S) (index = p+1)
//	for i := range B            rotated: if 0 < B { body: i = phi(0, i+1); …; if i+1 < B goto body }
type countedLoop struct {
	Header *ssa.BasicBlock
	Index  ssa.Value
	Bound  ssa.Value
	Blocks map[*ssa.BasicBlock]bool
	// Complete: the only way out of the loop is the exhausted condition.
	Complete bool
	// CompleteButErrors: additionally the body may leave by returning a
	// definitely non-nil error (or panicking).
	CompleteButErrors bool
}

func lastIf(b *ssa.BasicBlock) *ssa.If {
	if len(b.Instrs) == 0 {
		return nil
	}
	iff, _ := b.Instrs[len(b.Instrs)-1].(*ssa.If)
	return iff
}

// countedLoopOf recognises the counted loop whose per-iteration index value is idx.
func countedLoopOf(idx ssa.Value) *countedLoop {
	idx = guard.Strip(idx)
	isInc := func(v ssa.Value, phi *ssa.Phi) bool {
		bo, ok := v.(*ssa.BinOp)
		if !ok || bo.Op != token.ADD || bo.X != ssa.Value(phi) {
			return false
		}
		one, isC := guard.ConstInt(bo.Y)
		return isC && one == 1
	}
	lssBound := func(iff *ssa.If, x ssa.Value) ssa.Value {
		if iff == nil {
			return nil
		}
		if cmp, ok := iff.Cond.(*ssa.BinOp); ok {
			if cmp.Op == token.LSS && cmp.X == x {
				return cmp.Y
			}
			if cmp.Op == token.GTR && cmp.Y == x {
				return cmp.X
			}
		}
		return nil
	}
	var cl *countedLoop
	var exitFrom *ssa.BasicBlock // the block whose condition is the regular exit
	// range-over-slice: idx = phi(-1, idx) + 1
	if add, ok := idx.(*ssa.BinOp); ok && add.Op == token.ADD {
		phi, isPhi := add.X.(*ssa.Phi)
		if !isPhi || !isInc(add, phi) {
			return nil
		}
		init := false
		for _, e := range phi.Edges {
			if c, isC := guard.ConstInt(e); isC && c == -1 {
				init = true
			} else if e != ssa.Value(add) {
				return nil
			}
		}
		h := phi.Block()
		bound := lssBound(lastIf(h), add)
		if !init || bound == nil {
			return nil
		}
		cl = &countedLoop{Header: h, Index: add, Bound: bound, Blocks: natLoop(h)}
		exitFrom = h
	} else if phi, ok := idx.(*ssa.Phi); ok {
		var inc ssa.Value
		init := false
		for _, e := range phi.Edges {
			if c, isC := guard.ConstInt(e); isC && c == 0 {
				init = true
			} else if isInc(e, phi) && (inc == nil || inc == e) {
				inc = e
			} else {
				return nil
			}
		}
		if !init || inc == nil {
			return nil
		}
		h := phi.Block()
		if bound := lssBound(lastIf(h), phi); bound != nil {
			// classic three-clause loop
			cl = &countedLoop{Header: h, Index: phi, Bound: bound, Blocks: natLoop(h)}
			exitFrom = h
		} else {
			// rotated range-over-int: the latch tests inc < B, the entry tests 0 < B
			latch := inc.(*ssa.BinOp).Block()
			bound := lssBound(lastIf(latch), inc)
			if bound == nil {
				return nil
			}
			entryOK := false
			for _, pr := range h.Preds {
				if h.Dominates(pr) {
					continue
				}
				if iff := lastIf(pr); iff != nil {
					if cmp, isB := iff.Cond.(*ssa.BinOp); isB && cmp.Op == token.LSS && cmp.Y == bound {
						if z, isC := guard.ConstInt(cmp.X); isC && z == 0 && pr.Succs[0] == h {
							entryOK = true
						}
					}
				}
			}
			if !entryOK {
				return nil
			}
			cl = &countedLoop{Header: h, Index: phi, Bound: bound, Blocks: natLoop(h)}
			exitFrom = latch
		}
	} else {
		return nil
	}
	exits, errExits, otherExits := 0, 0, 0
	for b := range cl.Blocks {
		for _, sc := range b.Succs {
			if cl.Blocks[sc] {
				continue
			}
			if b == exitFrom {
				exits++
				continue
			}
			if ret, ok := sc.Instrs[len(sc.Instrs)-1].(*ssa.Return); ok && guard.DefinitelyFails(ret) {
				errExits++
			} else if _, isPanic := sc.Instrs[len(sc.Instrs)-1].(*ssa.Panic); isPanic {
				errExits++
			} else {
				otherExits++
			}
		}
		if len(b.Instrs) > 0 {
			switch x := b.Instrs[len(b.Instrs)-1].(type) {
			case *ssa.Return:
				if guard.DefinitelyFails(x) {
					errExits++
				} else {
					otherExits++
				}
			case *ssa.Panic:
				errExits++
			}
		}
	}
	cl.Complete = exits == 1 && errExits == 0 && otherExits == 0
	cl.CompleteButErrors = exits == 1 && otherExits == 0
	return cl
}

// rangeLoopOf recognises the loop over all indices of a slice that an element
// access IndexAddr(S, idx) belongs to (range loop, classic index loop or
// range-over-int with bound len(S)).
func rangeLoopOf(ia *ssa.IndexAddr) *rangeLoop {
	cl := countedLoopOf(ia.Index)
	if cl == nil {
		return nil
	}
	condOK := false
	if call, ok := guard.Strip(cl.Bound).(*ssa.Call); ok {
		if b, ok := call.Call.Value.(*ssa.Builtin); ok && b.Name() == "len" && len(call.Call.Args) == 1 && sameSliceValue(call.Call.Args[0], ia.X) {
			condOK = true
		}
	}
	return &rangeLoop{Header: cl.Header, Slice: ia.X, Index: cl.Index, Blocks: cl.Blocks,
		Complete: condOK && cl.Complete, CompleteButErrors: condOK && cl.CompleteButErrors}
}

// sameSliceValue: a and b are the same SSA value or loads of the same field
// of the same base with no way to tell them apart syntactically.
func sameSliceValue(a, b ssa.Value) bool {
	if a == b {
		return true
	}
	ba, fa, oka := guard.FieldOf(a)
	bb, fb, okb := guard.FieldOf(b)
	if oka && okb && fa == fb && ba == bb {
		return true
	}
	// two calls of the same proto getter on the same receiver
	ca, ia := guard.CallOf(a)
	cb, ib := guard.CallOf(b)
	if ca != nil && cb != nil && ia == ib && guard.CalleeName(&ca.Call) == guard.CalleeName(&cb.Call) && strings.Contains(guard.CalleeName(&ca.Call), ").Get") &&
		len(ca.Call.Args) == 1 && len(cb.Call.Args) == 1 && guard.Strip(ca.Call.Args[0]) == guard.Strip(cb.Call.Args[0]) {
		return true
	}
	return false
}

// elemOfRange: v is the element loaded in a range loop: *(&S[idx]); returns
// the IndexAddr.
func elemOfRange(v ssa.Value) *ssa.IndexAddr {
	u, ok := v.(*ssa.UnOp)
	if !ok || u.Op != token.MUL {
		return nil
	}
	ia, _ := u.X.(*ssa.IndexAddr)
	return ia
}

// allInstrs iterates over all instructions of fn.
func allInstrs(fn *ssa.Function, f func(ssa.Instruction)) {
	for _, b := range fn.Blocks {
		for _, ins := range b.Instrs {
			f(ins)
		}
	}
}

// callsTo lists call instructions in fn whose callee name (guard.CalleeName)
// equals name.
func callsTo(fn *ssa.Function, name string) []ssa.CallInstruction {
	var out []ssa.CallInstruction
	allInstrs(fn, func(ins ssa.Instruction) {
		if c, ok := ins.(ssa.CallInstruction); ok && guard.CalleeName(c.Common()) == name {
			out = append(out, c)
		}
	})
	return out
}

// factsString renders facts for evidence.
func factString(f guard.Fact) string {
	s := f.Cond.String()
	if b, ok := f.Cond.(*ssa.BinOp); ok {
		s = valName(b.X) + " " + b.Op.String() + " " + valName(b.Y)
	}
	if !f.True {
		return "!(" + s + ")"
	}
	return s
}

func valName(v ssa.Value) string {
	if b, f, ok := guard.FieldOf(v); ok {
		return valName(b) + "." + f
	}
	switch x := v.(type) {
	case *ssa.Const:
		return x.String()
	case *ssa.Parameter:
		return x.Name()
	case *ssa.Extract:
		if c, ok := x.Tuple.(*ssa.Call); ok {
			return guard.CalleeName(&c.Call) + "()#" + string(rune('0'+x.Index))
		}
	case *ssa.Call:
		return guard.CalleeName(&x.Call) + "()"
	}
	return v.Name()
}

// literalElements: v is loaded from an element of a local array/slice literal
// (`for _, x := range [][]byte{a, b}`); returns the values stored into the
// literal. Elements never stored are the zero value (reported as zero=true).
func literalElements(v ssa.Value) (elems []ssa.Value, zero bool, ok bool) {
	u, isU := guard.Strip(v).(*ssa.UnOp)
	if !isU || u.Op != token.MUL {
		return nil, false, false
	}
	ia, isIA := u.X.(*ssa.IndexAddr)
	if !isIA {
		return nil, false, false
	}
	base := ia.X
	if sl, isSl := base.(*ssa.Slice); isSl {
		base = sl.X
	}
	al, isAl := base.(*ssa.Alloc)
	if !isAl {
		return nil, false, false
	}
	at, isArr := al.Type().Underlying().(*types.Pointer).Elem().Underlying().(*types.Array)
	if !isArr {
		return nil, false, false
	}
	stored := map[int64]bool{}
	for _, ref := range *al.Referrers() {
		switch x := ref.(type) {
		case *ssa.IndexAddr:
			k, isK := guard.ConstInt(x.Index)
			for _, r2 := range *x.Referrers() {
				if st, isS := r2.(*ssa.Store); isS && st.Addr == ssa.Value(x) {
					if !isK {
						return nil, false, false
					}
					stored[k] = true
					elems = append(elems, st.Val)
				}
			}
		case *ssa.Slice:
		default:
			return nil, false, false
		}
	}
	return elems, int64(len(stored)) < at.Len(), true
}

// callsToDeep: call sites of the named function in fn and in the functions of
// fn's own package that fn calls statically (one level: an extracted loop body
// or helper).
func callsToDeep(fn *ssa.Function, name string) []ssa.CallInstruction {
	out := callsTo(fn, name)
	seen := map[*ssa.Function]bool{fn: true}
	allInstrs(fn, func(ins ssa.Instruction) {
		if call, ok := ins.(ssa.CallInstruction); ok {
			if g := call.Common().StaticCallee(); g != nil && g.Blocks != nil && g.Pkg == fn.Pkg && !seen[g] {
				seen[g] = true
				out = append(out, callsTo(g, name)...)
			}
		}
	})
	return out
}

// resolveParam: v is a parameter of a function of the module that has exactly
// one static call site; returns the argument passed there (else v itself).
func resolveParam(p *core.Program, v ssa.Value) ssa.Value {
	prm, ok := guard.Strip(v).(*ssa.Parameter)
	if !ok || prm.Parent() == nil {
		return v
	}
	g := prm.Parent()
	idx := -1
	for i, q := range g.Params {
		if q == prm {
			idx = i
		}
	}
	var actual ssa.Value
	n := 0
	for _, f := range p.SortedFuncs(core.Product) {
		if f.Pkg != g.Pkg {
			continue
		}
		allInstrs(f, func(ins ssa.Instruction) {
			if call, ok := ins.(ssa.CallInstruction); ok && call.Common().StaticCallee() == g && idx >= 0 && idx < len(call.Common().Args) {
				n++
				actual = call.Common().Args[idx]
			}
		})
	}
	if n == 1 && actual != nil {
		return actual
	}
	return v
}

// foldInt evaluates an integer-valued SSA expression with every field load of
// the given names bound to a constant: constants, + - * / << >>, conversions,
// phis whose incoming values agree, and calls of single-result helpers of the
// module (evaluated on their own body, field loads bound by name likewise).
func foldInt(v ssa.Value, fields map[string]int64, depth int) (int64, bool) {
	if depth > 8 {
		return 0, false
	}
	if k, ok := guard.ConstInt(v); ok {
		return k, true
	}
	switch x := v.(type) {
	case *ssa.Convert:
		return foldInt(x.X, fields, depth+1)
	case *ssa.ChangeType:
		return foldInt(x.X, fields, depth+1)
	case *ssa.UnOp:
		if x.Op == token.MUL {
			if _, fld, ok := guard.FieldOf(x); ok {
				k, has := fields[fld]
				return k, has
			}
		}
		if x.Op == token.SUB {
			k, ok := foldInt(x.X, fields, depth+1)
			return -k, ok
		}
	case *ssa.BinOp:
		a, ok1 := foldInt(x.X, fields, depth+1)
		b, ok2 := foldInt(x.Y, fields, depth+1)
		if !ok1 || !ok2 {
			return 0, false
		}
		switch x.Op {
		case token.ADD:
			return a + b, true
		case token.SUB:
			return a - b, true
		case token.MUL:
			return a * b, true
		case token.QUO:
			if b != 0 {
				return a / b, true
			}
		case token.SHL:
			if b >= 0 && b < 62 {
				return a << uint(b), true
			}
		case token.SHR:
			if b >= 0 && b < 62 {
				return a >> uint(b), true
			}
		}
	case *ssa.Phi:
		var val int64
		for i, e := range x.Edges {
			k, ok := foldInt(e, fields, depth+1)
			if !ok || (i > 0 && k != val) {
				return 0, false
			}
			val = k
		}
		return val, len(x.Edges) > 0
	case *ssa.Call:
		g := x.Call.StaticCallee()
		if g == nil || g.Blocks == nil || core.FuncClass(g) != core.Product || g.Signature.Results().Len() != 1 {
			return 0, false
		}
		var val int64
		n := 0
		for _, ret := range guard.Returns(g) {
			k, ok := foldInt(ret.Results[0], fields, depth+1)
			if !ok || (n > 0 && k != val) {
				return 0, false
			}
			val = k
			n++
		}
		return val, n > 0
	}
	return 0, false
}

// absSliceStart follows a chain of re-slicings to its base buffer and returns
// the base and the absolute offset of v's first element in it, as a linear term.
func absSliceStart(cx *bounds.Ctx, v ssa.Value) (ssa.Value, bounds.Lin) {
	off := bounds.Konst(0)
	v = guard.Strip(v)
	for depth := 0; depth < 6; depth++ {
		sl, ok := v.(*ssa.Slice)
		if !ok {
			break
		}
		if _, isAlloc := sl.X.(*ssa.Alloc); isAlloc && sl.Low == nil {
			// slice of a fresh array (`new [N]T` + `[:N]`): this is the buffer itself
			break
		}
		if sl.Low != nil {
			off = off.Add(cx.Lin(sl.Low), 1)
		}
		v = guard.Strip(sl.X)
	}
	return v, off
}

// ---------------------------------------------------------------- field invariants

// fieldInv: for a struct type, integer field F always equals len(field G) + K,
// because both are set only in fresh composite literals (constructors), with
// that relation, and never afterwards.
type fieldInv struct {
	G int
	K int64
}

var fieldInvCache = map[*core.Program]map[string]*fieldInv{}

// fieldLenInvariant looks for the invariant of field fIdx of named struct type nt.
func fieldLenInvariant(p *core.Program, nt *types.Named, fIdx int) *fieldInv {
	if fieldInvCache[p] == nil {
		fieldInvCache[p] = map[string]*fieldInv{}
	}
	ck := fmt.Sprintf("%s.%d", nt.String(), fIdx)
	if inv, done := fieldInvCache[p][ck]; done {
		return inv
	}
	fieldInvCache[p][ck] = nil
	st, ok := nt.Underlying().(*types.Struct)
	if !ok || nt.Obj().Pkg() == nil {
		return nil
	}
	isS := func(t types.Type) bool {
		if ptr, isP := t.Underlying().(*types.Pointer); isP {
			t = ptr.Elem()
		}
		return types.Identical(t, nt)
	}
	var found *fieldInv
	bad := false
	nAlloc := 0
	for _, g := range p.SortedFuncs(core.Product) {
		if g.Pkg == nil || g.Pkg.Pkg != nt.Obj().Pkg() {
			continue
		}
		cx := bounds.NewCtx(g)
		allInstrs(g, func(ins ssa.Instruction) {
			switch x := ins.(type) {
			case *ssa.Store:
				// whole-struct overwrite
				if isS(x.Addr.Type()) && types.Identical(x.Val.Type(), nt) {
					bad = true
				}
			case *ssa.FieldAddr:
				if !isS(x.X.Type()) {
					return
				}
				_, fresh := guard.Strip(x.X).(*ssa.Alloc)
				for _, ref := range *x.Referrers() {
					switch y := ref.(type) {
					case *ssa.Store:
						if y.Addr == ssa.Value(x) && !fresh && (x.Field == fIdx || isSliceType(st.Field(x.Field).Type())) {
							// set outside a composite literal: only relevant for F and for
							// the field it is tied to; decided below once G is known
							if x.Field == fIdx {
								bad = true
							}
						}
					case *ssa.UnOp, *ssa.DebugRef:
					default:
						if x.Field == fIdx {
							bad = true // address of F escapes
						}
					}
				}
			case *ssa.Alloc:
				if !isS(x.Type()) || !types.Identical(x.Type().Underlying().(*types.Pointer).Elem(), nt) {
					return
				}
				nAlloc++
				stores := map[int]ssa.Value{}
				for _, ref := range *x.Referrers() {
					if fa, isFA := ref.(*ssa.FieldAddr); isFA {
						for _, r2 := range *fa.Referrers() {
							if s, isSt := r2.(*ssa.Store); isSt && s.Addr == ssa.Value(fa) {
								if _, dup := stores[fa.Field]; dup {
									bad = true
								}
								stores[fa.Field] = s.Val
							}
						}
					}
				}
				vF, hasF := stores[fIdx]
				if !hasF {
					bad = true // a literal leaving F zero: no relation to rely on
					return
				}
				okHere := false
				for gi, vG := range stores {
					if gi == fIdx || !isSliceType(st.Field(gi).Type()) {
						continue
					}
					d := cx.Lin(vF).Add(cx.LenOf(vG), -1)
					if k, isK := d.Const(); isK {
						if found == nil {
							found = &fieldInv{G: gi, K: k}
						}
						if found.G == gi && found.K == k {
							okHere = true
						}
					}
				}
				if !okHere {
					bad = true
				}
			}
		})
	}
	if bad || found == nil || nAlloc == 0 {
		return nil
	}
	// G itself is never set outside the literals
	for _, g := range p.SortedFuncs(core.Product) {
		if g.Pkg == nil || g.Pkg.Pkg != nt.Obj().Pkg() {
			continue
		}
		allInstrs(g, func(ins ssa.Instruction) {
			fa, isFA := ins.(*ssa.FieldAddr)
			if !isFA || !isS(fa.X.Type()) || fa.Field != found.G {
				return
			}
			_, fresh := guard.Strip(fa.X).(*ssa.Alloc)
			for _, ref := range *fa.Referrers() {
				switch y := ref.(type) {
				case *ssa.Store:
					if y.Addr == ssa.Value(fa) && !fresh {
						bad = true
					}
				case *ssa.UnOp, *ssa.DebugRef:
				default:
					bad = true
				}
			}
		})
	}
	if bad {
		return nil
	}
	fieldInvCache[p][ck] = found
	return found
}

func isSliceType(t types.Type) bool {
	_, ok := t.Underlying().(*types.Slice)
	return ok
}

// fieldLenFacts: equalities (as pairs of terms >= 0) that the field invariants
// of the structs read in f contribute: x.F - len(x.G) - K == 0.
func fieldLenFacts(p *core.Program, cx *bounds.Ctx, f *ssa.Function) []bounds.Lin {
	var out []bounds.Lin
	type ld struct {
		base ssa.Value
		fa   *ssa.FieldAddr
		v    ssa.Value
	}
	var loads []ld
	allInstrs(f, func(ins ssa.Instruction) {
		u, ok := ins.(*ssa.UnOp)
		if !ok || u.Op != token.MUL {
			return
		}
		if fa, isFA := u.X.(*ssa.FieldAddr); isFA {
			loads = append(loads, ld{guard.Strip(fa.X), fa, u})
		}
	})
	for _, lf := range loads {
		bt, isB := lf.v.Type().Underlying().(*types.Basic)
		if !isB || bt.Info()&types.IsInteger == 0 {
			continue
		}
		pt, isP := lf.fa.X.Type().Underlying().(*types.Pointer)
		if !isP {
			continue
		}
		nt, isN := pt.Elem().(*types.Named)
		if !isN {
			continue
		}
		inv := fieldLenInvariant(p, nt, lf.fa.Field)
		if inv == nil {
			continue
		}
		for _, lg := range loads {
			if lg.fa.Field == inv.G && lg.base == lf.base {
				d := cx.Lin(lf.v).Add(cx.LenOf(lg.v), -1).Add(bounds.Konst(inv.K), -1)
				out = append(out, d, bounds.Konst(0).Add(d, -1))
				break
			}
		}
	}
	return out
}
