package rules

import (
	"go/constant"
	"go/token"
	"go/types"
	"sort"
	"strings"

	"golang.org/x/tools/go/ssa"

	"tinkverif/core"
	"tinkverif/guard"
)

// methodsOf returns every method (exported or not) declared on named type
// rel.name, pointer and value receivers, sorted by name.
func methodsOf(p *core.Program, rel, name string) []*ssa.Function {
	sp := p.Pkg(rel)
	if sp == nil || sp.Type(name) == nil {
		return nil
	}
	named, _ := sp.Type(name).Type().(*types.Named)
	if named == nil {
		return nil
	}
	var out []*ssa.Function
	for i := 0; i < named.NumMethods(); i++ {
		if f := p.SSA.FuncValue(named.Method(i)); f != nil && f.Blocks != nil {
			out = append(out, f)
		}
	}
	sort.Slice(out, func(i, j int) bool { return out[i].Name() < out[j].Name() })
	return out
}

// withClosures returns fn and all functions nested in it.
func withClosures(fn *ssa.Function) []*ssa.Function {
	out := []*ssa.Function{fn}
	for _, a := range fn.AnonFuncs {
		out = append(out, withClosures(a)...)
	}
	return out
}

// pkgFuncs lists the source functions (with closures) of a module-relative
// package, sorted.
func pkgFuncs(p *core.Program, rel string) []*ssa.Function {
	var out []*ssa.Function
	for _, f := range p.SortedFuncs(core.Product, core.Generated, core.TestSupport) {
		if core.Rel(core.PkgOf(f)) == rel && f.Synthetic == "" {
			out = append(out, f)
		}
	}
	return out
}

// constOf returns the constant.Value of package-level constant rel.name.
func constOf(p *core.Program, rel, name string) (constant.Value, bool) {
	pk := p.ByPath[core.ModPath+"/"+rel]
	if pk == nil {
		return nil, false
	}
	c, ok := pk.Types.Scope().Lookup(name).(*types.Const)
	if !ok {
		return nil, false
	}
	return c.Val(), true
}

// isConstEq reports whether v is a constant equal to c.
func isConstEq(v ssa.Value, c constant.Value) bool {
	k, ok := guard.Strip(v).(*ssa.Const)
	return ok && k.Value != nil && c != nil && constant.Compare(k.Value, token.EQL, c)
}

// inCycle reports whether block b lies on a CFG cycle.
func inCycle(b *ssa.BasicBlock) bool {
	seen := map[*ssa.BasicBlock]bool{}
	stack := append([]*ssa.BasicBlock{}, b.Succs...)
	for len(stack) > 0 {
		x := stack[len(stack)-1]
		stack = stack[:len(stack)-1]
		if x == b {
			return true
		}
		if seen[x] {
			continue
		}
		seen[x] = true
		stack = append(stack, x.Succs...)
	}
	return false
}

// natLoop returns the blocks of the natural loop with the given header (all
// blocks dominated by header that can reach it).
func natLoop(header *ssa.BasicBlock) map[*ssa.BasicBlock]bool {
	loop := map[*ssa.BasicBlock]bool{header: true}
	var stack []*ssa.BasicBlock
	for _, p := range header.Preds {
		if header.Dominates(p) {
			stack = append(stack, p)
		}
	}
	for len(stack) > 0 {
		x := stack[len(stack)-1]
		stack = stack[:len(stack)-1]
		if loop[x] {
			continue
		}
		loop[x] = true
		stack = append(stack, x.Preds...)
	}
	return loop
}

// rangeLoop describes `for i, e := range S` as lowered by go/ssa.
type rangeLoop struct {
	Header *ssa.BasicBlock
	Slice  ssa.Value // the ranged-over slice value
	Index  ssa.Value // the per-iteration index value (phi+1)
	Blocks map[*ssa.BasicBlock]bool
	// Complete: index runs from 0 to len(Slice)-1 and the only exit is the
	// header's loop condition (no break / return inside).
	Complete bool
	// CompleteButErrors: as Complete, except that the body may leave the loop by
	// returning a definitely non-nil error.
	CompleteButErrors bool
}

// rangeLoopOf recognises the rangeindex loop that an element access
// IndexAddr(S, idx) belongs to.
func rangeLoopOf(ia *ssa.IndexAddr) *rangeLoop {
	add, ok := ia.Index.(*ssa.BinOp)
	if !ok || add.Op != token.ADD {
		return nil
	}
	phi, ok := add.X.(*ssa.Phi)
	if !ok {
		return nil
	}
	if one, ok := guard.ConstInt(add.Y); !ok || one != 1 {
		return nil
	}
	startsAtMinus1 := false
	for _, e := range phi.Edges {
		if c, ok := guard.ConstInt(e); ok && c == -1 {
			startsAtMinus1 = true
		} else if e != ssa.Value(add) {
			return nil
		}
	}
	h := phi.Block()
	rl := &rangeLoop{Header: h, Slice: ia.X, Index: add, Blocks: natLoop(h)}
	// header condition: add < len(S)
	condOK := false
	if iff, ok := h.Instrs[len(h.Instrs)-1].(*ssa.If); ok {
		if cmp, ok := iff.Cond.(*ssa.BinOp); ok && cmp.Op == token.LSS && cmp.X == ssa.Value(add) {
			if call, ok := cmp.Y.(*ssa.Call); ok {
				if b, ok := call.Call.Value.(*ssa.Builtin); ok && b.Name() == "len" && len(call.Call.Args) == 1 && sameSliceValue(call.Call.Args[0], ia.X) {
					condOK = true
				}
			}
		}
	}
	exits := 0
	errExits, otherExits := 0, 0
	for b := range rl.Blocks {
		for _, s := range b.Succs {
			if !rl.Blocks[s] {
				exits++
				if b != h {
					exits += 100
					if ret, ok := s.Instrs[len(s.Instrs)-1].(*ssa.Return); ok && guard.DefinitelyFails(ret) {
						errExits++
					} else {
						otherExits++
					}
				}
			}
		}
		if len(b.Instrs) > 0 {
			switch b.Instrs[len(b.Instrs)-1].(type) {
			case *ssa.Return, *ssa.Panic:
				exits += 100
			}
		}
	}
	rl.Complete = startsAtMinus1 && condOK && exits == 1
	rl.CompleteButErrors = startsAtMinus1 && condOK && otherExits == 0 && exits == 1+101*errExits
	return rl
}

// sameSliceValue: a and b are the same SSA value or loads of the same field
// of the same base with no way to tell them apart syntactically.
func sameSliceValue(a, b ssa.Value) bool {
	if a == b {
		return true
	}
	ba, fa, oka := guard.FieldOf(a)
	bb, fb, okb := guard.FieldOf(b)
	if oka && okb && fa == fb && ba == bb {
		return true
	}
	// two calls of the same proto getter on the same receiver
	ca, ia := guard.CallOf(a)
	cb, ib := guard.CallOf(b)
	if ca != nil && cb != nil && ia == ib && guard.CalleeName(&ca.Call) == guard.CalleeName(&cb.Call) && strings.Contains(guard.CalleeName(&ca.Call), ").Get") &&
		len(ca.Call.Args) == 1 && len(cb.Call.Args) == 1 && guard.Strip(ca.Call.Args[0]) == guard.Strip(cb.Call.Args[0]) {
		return true
	}
	return false
}

// elemOfRange: v is the element loaded in a range loop: *(&S[idx]); returns
// the IndexAddr.
func elemOfRange(v ssa.Value) *ssa.IndexAddr {
	u, ok := v.(*ssa.UnOp)
	if !ok || u.Op != token.MUL {
		return nil
	}
	ia, _ := u.X.(*ssa.IndexAddr)
	return ia
}

// allInstrs iterates over all instructions of fn.
func allInstrs(fn *ssa.Function, f func(ssa.Instruction)) {
	for _, b := range fn.Blocks {
		for _, ins := range b.Instrs {
			f(ins)
		}
	}
}

// callsTo lists call instructions in fn whose callee name (guard.CalleeName)
// equals name.
func callsTo(fn *ssa.Function, name string) []ssa.CallInstruction {
	var out []ssa.CallInstruction
	allInstrs(fn, func(ins ssa.Instruction) {
		if c, ok := ins.(ssa.CallInstruction); ok && guard.CalleeName(c.Common()) == name {
			out = append(out, c)
		}
	})
	return out
}

// factsString renders facts for evidence.
func factString(f guard.Fact) string {
	s := f.Cond.String()
	if b, ok := f.Cond.(*ssa.BinOp); ok {
		s = valName(b.X) + " " + b.Op.String() + " " + valName(b.Y)
	}
	if !f.True {
		return "!(" + s + ")"
	}
	return s
}

func valName(v ssa.Value) string {
	if b, f, ok := guard.FieldOf(v); ok {
		return valName(b) + "." + f
	}
	switch x := v.(type) {
	case *ssa.Const:
		return x.String()
	case *ssa.Parameter:
		return x.Name()
	case *ssa.Extract:
		if c, ok := x.Tuple.(*ssa.Call); ok {
			return guard.CalleeName(&c.Call) + "()#" + string(rune('0'+x.Index))
		}
	case *ssa.Call:
		return guard.CalleeName(&x.Call) + "()"
	}
	return v.Name()
}
