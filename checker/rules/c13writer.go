package rules

import (
	"strings"

	"golang.org/x/tools/go/ssa"

	"tinkverif/core"
	"tinkverif/guard"
)

// c13WriterOnly: what a keyset writer hands to its io.Writer is the serialization
// of the message of this very call and nothing else — the result of a Marshal
// call, or of MarshalAppend onto a provably empty slice. Bytes kept from an
// earlier call (a reused buffer that is appended to) would put the previous —
// possibly cleartext — keyset in front of an encrypted one.
func c13WriterOnly(c *Ctx) {
	p, r := c.P, c.R
	rule := "C13.writeronly"
	n := 0
	empty := func(v ssa.Value) bool {
		v = guard.Strip(v)
		if guard.IsNilConst(v) {
			return true
		}
		switch x := v.(type) {
		case *ssa.Slice:
			if k, ok := guard.ConstInt(x.High); x.High != nil && ok && k == 0 {
				return true
			}
		case *ssa.MakeSlice:
			if k, ok := guard.ConstInt(x.Len); ok && k == 0 {
				return true
			}
		}
		return false
	}
	for _, f := range pkgFuncs(p, "keyset") {
		allInstrs(f, func(ins ssa.Instruction) {
			call, ok := ins.(ssa.CallInstruction)
			if !ok {
				return
			}
			cc := call.Common()
			if !cc.IsInvoke() || cc.Method.FullName() != "(io.Writer).Write" || len(cc.Args) != 1 {
				return
			}
			n++
			key := rule + "/" + core.FuncID(f)
			mc, mi := guard.CallOf(cc.Args[0])
			good, why := false, "the bytes written are not the direct result of a Marshal call"
			if mc != nil && mi == 0 {
				name := guard.CalleeName(&mc.Call)
				switch {
				case strings.HasSuffix(name, ".MarshalAppend"):
					// (MarshalOptions).MarshalAppend(b, m): receiver first when static
					args := mc.Call.Args
					if len(args) >= 2 && empty(args[len(args)-2]) {
						good = true
					} else {
						why = "MarshalAppend extends a buffer that is not provably empty: whatever it still holds from an earlier call is written in front of this message"
					}
				case strings.HasSuffix(name, ".Marshal") && (strings.Contains(name, "protobuf/proto") || strings.Contains(name, "protojson")):
					good = true
				}
			}
			r.Check(good, rule, key, p.Pos(ins.Pos()), why, "io.Writer.Write(Marshal(message of this call))")
		})
	}
	r.Counts["writer_sites"] = n
	r.Min(rule, 2)
}
