package rules

import (
	"fmt"
	"go/constant"
	"go/token"
	"go/types"
	"sort"
	"strings"

	"golang.org/x/tools/go/ssa"

	"tinkverif/consteval"
	"tinkverif/guard"
)

func init() {
	Registry["C16"] = func(c *Ctx) { c16(c); c16Instances(c) }
}

// globalStructLiteral reads `var g = T{f: c, …}` from the package initialiser.
func globalStructLiteral(g *ssa.Global) map[string]int64 {
	out := map[string]int64{}
	init := g.Pkg.Func("init")
	st, _ := g.Type().(*types.Pointer).Elem().Underlying().(*types.Struct)
	if init == nil || st == nil {
		return out
	}
	allInstrs(init, func(ins ssa.Instruction) {
		s, ok := ins.(*ssa.Store)
		if !ok {
			return
		}
		fa, ok := s.Addr.(*ssa.FieldAddr)
		if !ok || fa.X != ssa.Value(g) {
			return
		}
		if v, isC := guard.ConstInt(s.Val); isC {
			out[st.Field(fa.Field).Name()] = v
		}
	})
	return out
}

// bindFieldLoadsByName binds every load of a field with the given name,
// whatever the base.
func bindFieldLoadsByName(f *ssa.Function, vals map[string]consteval.Val) consteval.Env {
	env := consteval.Env{}
	// f, its closures, and the helpers of its package it calls (two levels)
	scope := withClosures(f)
	seen := map[*ssa.Function]bool{}
	for _, g := range scope {
		seen[g] = true
	}
	for i := 0; i < len(scope) && len(scope) < 24; i++ {
		allInstrs(scope[i], func(ins ssa.Instruction) {
			if call, ok := ins.(*ssa.Call); ok {
				if g := call.Call.StaticCallee(); g != nil && g.Blocks != nil && g.Pkg == f.Pkg && !seen[g] {
					seen[g] = true
					scope = append(scope, g)
				}
			}
		})
	}
	for _, g := range scope {
		allInstrs(g, func(ins ssa.Instruction) {
			v, ok := ins.(ssa.Value)
			if !ok {
				return
			}
			if _, fld, isF := guard.FieldOf(v); isF {
				if val, has := vals[fld]; has {
					env[v] = val
				}
			}
		})
	}
	return env
}

// bindFieldsAndGetters binds, in f and the helpers of its package it calls,
// every load of a field named X and every call of a method named GetX.
func bindFieldsAndGetters(f *ssa.Function, vals map[string]consteval.Val) consteval.Env {
	env := bindFieldLoadsByName(f, vals)
	scope := withClosures(f)
	seen := map[*ssa.Function]bool{}
	for _, g := range scope {
		seen[g] = true
	}
	for i := 0; i < len(scope) && len(scope) < 24; i++ {
		allInstrs(scope[i], func(ins ssa.Instruction) {
			call, ok := ins.(*ssa.Call)
			if !ok {
				return
			}
			if g := call.Call.StaticCallee(); g != nil {
				if g.Blocks != nil && g.Pkg == f.Pkg && !seen[g] {
					seen[g] = true
					scope = append(scope, g)
				}
				if call.Call.Signature().Recv() != nil && strings.HasPrefix(g.Name(), "Get") {
					if v, has := vals[strings.TrimPrefix(g.Name(), "Get")]; has {
						env[call] = v
					}
				}
			}
		})
	}
	return env
}

// valuesAt folds fn under env and returns the values v takes on the paths
// that arrive at instruction at (ok false: never reached, or budget spent).
func valuesAt(fn *ssa.Function, at ssa.Instruction, v ssa.Value, env consteval.Env) ([]consteval.Val, bool) {
	ev := consteval.New()
	var out []consteval.Val
	ev.Watch = at
	ev.OnWatch = func(get func(ssa.Value) consteval.Val) { out = append(out, get(v)) }
	_, ok := ev.Eval(fn, nil, env)
	return out, ok && len(out) > 0
}

func c16(c *Ctx) {
	p, r := c.P, c.R
	r.Explanation = "C16's WOTS+/FORS/XMSS/hypertree computation is value-level and NOT decided. Decided are the constants, derived parameters and guards: " +
		"(params) the six numeric parameter literals equal FIPS 205 Table 2 and satisfy h = d*h' and m = ceil((h-h')/8)+ceil(h'/8)+ceil(k*a/8); each of the twelve instances pairs the literal and the hash family its name says; " +
		"(derived) newParams, folded by constant propagation on each literal, yields w=16, len1=2n, len2=3, len=35/51/67; " +
		"(siglen) verifyInternal lets exactly the FIPS 205 signature length (7856/17088/16224/35664/29792/49856) through its length guard, folded at the length and its neighbours for all six sets, before any slicing; " +
		"(adrs) the address type constants are 0..6 in the order of FIPS 205 §4.2; " +
		"(ctx) Sign, SignDeterministic and Verify reject contexts longer than 255 bytes; h-h' <= 64 is guarded. Hedged randomness: C20."
	rel := "internal/signature/slhdsa"
	sp := p.Pkg(rel)
	if sp == nil {
		r.AnchorMissing("C16.params", rel)
		return
	}
	type pset struct{ n, h, d, hp, a, k, lgw, m, length, sig int64 }
	want := map[string]pset{
		"param128s": {16, 63, 7, 9, 12, 14, 4, 30, 35, 7856},
		"param128f": {16, 66, 22, 3, 6, 33, 4, 34, 35, 17088},
		"param192s": {24, 63, 7, 9, 14, 17, 4, 39, 51, 16224},
		"param192f": {24, 66, 22, 3, 8, 33, 4, 42, 51, 35664},
		"param256s": {32, 64, 8, 8, 14, 22, 4, 47, 67, 29792},
		"param256f": {32, 68, 17, 4, 9, 35, 4, 49, 67, 49856},
	}
	var names []string
	for n := range want {
		names = append(names, n)
	}
	sort.Strings(names)
	np := sp.Func("newParams")
	var vi *ssa.Function
	for _, m := range methodsOf(p, rel, "PublicKey") {
		if m.Name() == "verifyInternal" {
			vi = m
		}
	}
	if np == nil || vi == nil {
		r.AnchorMissing("C16.derived", "newParams / verifyInternal")
		return
	}
	ev := consteval.New()
	C := consteval.C
	for _, n := range names {
		w := want[n]
		g := sp.Var(n)
		if g == nil {
			r.AnchorMissing("C16.params", "parameter literal "+n)
			continue
		}
		l := globalStructLiteral(g)
		good := l["n"] == w.n && l["h"] == w.h && l["d"] == w.d && l["hp"] == w.hp && l["a"] == w.a && l["k"] == w.k && l["lgw"] == w.lgw && l["m"] == w.m
		r.Check(good, "C16.params", "C16.params/"+n, p.Pos(g.Pos()), fmt.Sprintf("parameter literal %v differs from FIPS 205 Table 2 %+v", l, w), "n,h,d,h',a,k,lg w,m as in Table 2")
		ceil8 := func(x int64) int64 { return (x + 7) / 8 }
		eq := l["h"] == l["d"]*l["hp"] && l["m"] == ceil8(l["h"]-l["hp"])+ceil8(l["hp"])+ceil8(l["k"]*l["a"])
		r.Check(eq, "C16.params", "C16.params/"+n+"/equations", p.Pos(g.Pos()), "h != d*h' or m != ceil((h-h')/8)+ceil(h'/8)+ceil(k*a/8)", "h = d*h', m as in §11")
		// derived parameters
		fv := map[string]consteval.Val{"n": C(w.n), "h": C(w.h), "d": C(w.d), "hp": C(w.hp), "a": C(w.a), "k": C(w.k), "lgw": C(w.lgw), "m": C(w.m)}
		env := bindFieldLoadsByName(np, fv)
		outs, ok := ev.Eval(np, []consteval.Val{{K: consteval.Ref}, {K: consteval.Ref}}, env)
		key := "C16.derived/" + n
		if !ok || len(outs) != 1 {
			r.Unknown("C16.derived", key, p.FuncPos(np), fmt.Sprintf("cannot fold newParams (%d outcomes)", len(outs)))
		} else {
			st := outs[0].Stores
			get := func(f string) int64 {
				if v, has := st[f]; has && v.K == consteval.Const {
					i, _ := constant.Int64Val(v.C)
					return i
				}
				return -1
			}
			good := get("w") == 16 && get("len1") == 2*w.n && get("len2") == 3 && get("len") == w.length
			r.Check(good, "C16.derived", key, p.FuncPos(np), fmt.Sprintf("derived parameters w=%d len1=%d len2=%d len=%d, FIPS 205 says 16, %d, 3, %d", get("w"), get("len1"), get("len2"), get("len"), 2*w.n, w.length), fmt.Sprintf("w=16 len1=%d len2=3 len=%d", 2*w.n, w.length))
		}
		// signature length guard
		fv["len"] = C(w.length)
		var lenCalls []*ssa.Call
		var firstSlice ssa.Instruction
		allInstrs(vi, func(ins ssa.Instruction) {
			if call, ok := ins.(*ssa.Call); ok {
				if b, isB := call.Call.Value.(*ssa.Builtin); isB && b.Name() == "len" && guard.Strip(call.Call.Args[0]) == ssa.Value(vi.Params[2]) {
					lenCalls = append(lenCalls, call)
				}
			}
			if sl, ok := ins.(*ssa.Slice); ok && guard.Strip(sl.X) == ssa.Value(vi.Params[2]) && firstSlice == nil {
				firstSlice = ins
			}
		})
		if firstSlice == nil || len(lenCalls) == 0 {
			r.AnchorMissing("C16.siglen", "length guard / slice of sig in verifyInternal")
			continue
		}
		for _, L := range []int64{w.sig - 1, w.sig, w.sig + 1, 0, w.sig - w.n} {
			env := bindFieldLoadsByName(vi, fv)
			for _, lc := range lenCalls {
				env[lc] = C(L)
			}
			for _, prm := range vi.Params {
				env[prm] = consteval.Val{K: consteval.Ref}
			}
			outs, reached, ok := ev.EvalFrom(vi.Blocks[0], map[*ssa.BasicBlock]bool{firstSlice.Block(): true}, env)
			k2 := fmt.Sprintf("C16.siglen/%s/len=%d", n, L)
			if !ok || (len(outs) == 0 && !reached) {
				r.Unknown("C16.siglen", k2, p.FuncPos(vi), "cannot fold the length guard")
				continue
			}
			r.Check(reached == (L == w.sig), "C16.siglen", k2, p.FuncPos(vi), fmt.Sprintf("a %d-byte signature passes the length guard: %v (FIPS 205 length for %s: %d)", L, reached, n, w.sig), fmt.Sprintf("passes=%v", L == w.sig))
		}
	}
	r.Min("C16.params", 12)
	r.Min("C16.derived", 6)
	r.Min("C16.siglen", 30)

	// instance pairing
	init := sp.Func("init")
	nInst := 0
	if init != nil {
		allInstrs(init, func(ins ssa.Instruction) {
			call, ok := ins.(*ssa.Call)
			if !ok || call.Call.StaticCallee() != np {
				return
			}
			var lit, hash, dst string
			for i, a := range call.Call.Args {
				if ld, isL := a.(*ssa.UnOp); isL {
					if gg, isG := ld.X.(*ssa.Global); isG {
						if i == 0 {
							lit = gg.Name()
						} else {
							hash = gg.Name()
						}
					}
				}
			}
			for _, ref := range *call.Referrers() {
				if s, isS := ref.(*ssa.Store); isS {
					if gg, isG := s.Addr.(*ssa.Global); isG {
						dst = gg.Name()
					}
				}
			}
			if dst == "" {
				return
			}
			nInst++
			// SLH_DSA_<FAMILY>_<bits><s|f>
			parts := strings.Split(dst, "_")
			suffix := parts[len(parts)-1] // e.g. 128s
			family := parts[len(parts)-2]
			okLit := lit == "param"+suffix
			okHash := (family == "SHAKE" && hash == "hashParamShake") ||
				(family == "SHA2" && strings.HasPrefix(suffix, "128") && hash == "hashParamSha2C1") ||
				(family == "SHA2" && !strings.HasPrefix(suffix, "128") && hash == "hashParamSha2C35")
			r.Check(okLit && okHash, "C16.params", "C16.params/instance "+dst, p.Pos(ins.Pos()), fmt.Sprintf("%s is built from %s and %s", dst, lit, hash), lit+" + "+hash)
		})
	}
	if nInst < 12 {
		r.AnchorMissing("C16.params", fmt.Sprintf("twelve SLH-DSA instances (found %d)", nInst))
	}

	// address types
	adr := []string{"addressWOTSHash", "addressWOTSPk", "addressTree", "addressFORSTree", "addressFORSRoots", "addressWOTSPrf", "addressFORSPrf"}
	for i, n := range adr {
		v, ok := constOf(p, rel, n)
		r.Check(ok && constant.Compare(v, token.EQL, constant.MakeInt64(int64(i))), "C16.adrs", "C16.adrs/"+n, "-", fmt.Sprintf("address type %s is not %d (FIPS 205 §4.2)", n, i), fmt.Sprintf("= %d", i))
	}

	// context length and h-h' guard
	for _, tm := range [][2]string{{"SecretKey", "Sign"}, {"SecretKey", "SignDeterministic"}, {"PublicKey", "Verify"}} {
		var f *ssa.Function
		for _, m := range methodsOf(p, rel, tm[0]) {
			if m.Name() == tm[1] {
				f = m
			}
		}
		key := fmt.Sprintf("C16.ctx/%s.%s", tm[0], tm[1])
		if f == nil {
			r.AnchorMissing("C16.ctx", key)
			continue
		}
		ok := false
		for _, ret := range guard.Returns(f) {
			if !guard.DefinitelyFails(ret) {
				continue
			}
			for _, fct := range guard.BlockFacts(ret.Block()) {
				if op, x, y, isC := guard.Cmp(fct); isC && op == token.GTR {
					if k, isK := guard.ConstInt(y); isK && k == 255 {
						if lc, _ := guard.CallOf(x); lc != nil {
							if b, isB := lc.Call.Value.(*ssa.Builtin); isB && b.Name() == "len" {
								ok = true
							}
						}
					}
				}
			}
		}
		r.Check(ok, "C16.ctx", key, p.FuncPos(f), "contexts longer than 255 bytes are not rejected (the one-byte length field would wrap, making distinct (context, message) pairs collide)", "len(ctx) > 255 -> error")
	}
}
