package rules

import (
	"fmt"
	"go/constant"
	"go/token"
	"go/types"
	"strings"

	"golang.org/x/tools/go/ssa"

	"tinkverif/consteval"
	"tinkverif/core"
	"tinkverif/effects"
	"tinkverif/guard"
)

func init() { Registry["C11"] = c11 }

const (
	entryT   = core.ModPath + "/keyset.entry"
	managerT = core.ModPath + "/keyset.Manager"
)

func c11(c *Ctx) {
	p, r := c.P, c.R
	r.Explanation = "C11's invariant (IDs pairwise distinct, at most one primary, primary ENABLED, failing operations change nothing, handles isolated) is argued inductively over the Manager's operations; the checker discharges, on every run, the side conditions of that argument over ALL writers of the manager state found by census (engine B write sets per instruction): " +
		"(atomic) no write to entries/entry state can be followed by a return with a definitely non-nil error; " +
		"(ids) unavailableKeyIDs only grows, newRandomKeyID returns only an ID it found absent and then recorded, every ID put into an appended entry is such an ID or a fixed ID found absent and recorded on that path, NewManagerFromHandle records every existing ID, WithFixedID cannot override an ID requirement, Add passes the ID as ID requirement unless RAW; " +
		"(primary) an entry becomes primary only under status==Enabled of the same entry, a status other than Enabled is stored / an entry removed only under isPrimary==false of the same entry, Enable/Disable act only on Enabled/Disabled entries; " +
		"(single) whenever an entry becomes primary, a complete range loop over the entries clears the flag of every other entry before success; " +
		"(isolation) Handle() and NewManagerFromHandle() share no entry objects / entry slices with their source, and newFromEntries rejects a missing primary and Unknown status. " +
		"Not decided: that this list of side conditions is complete for every history (it is a structural proof-obligation list, not an exploration of histories)."
	a := c.Eff()
	methods := methodsOf(p, "keyset", "Manager")
	if len(methods) < 10 {
		r.AnchorMissing("C11", fmt.Sprintf("methods of keyset.Manager (found %d)", len(methods)))
		return
	}
	enabled, ok1 := constOf(p, "keyset", "Enabled")
	disabled, ok2 := constOf(p, "keyset", "Disabled")
	unknown, ok3 := constOf(p, "keyset", "Unknown")
	if !ok1 || !ok2 || !ok3 {
		r.AnchorMissing("C11", "keyset.Enabled/Disabled/Unknown constants")
		return
	}
	r.Counts["manager_methods"] = len(methods)

	// ---------------------------------------------------------------- state writes (census)
	type sw struct {
		fn   *ssa.Function
		ins  ssa.Instruction
		desc string
	}
	var stateWrites []sw
	for _, m := range methods {
		for _, fn := range withClosures(m) {
			allInstrs(fn, func(ins ssa.Instruction) {
				for _, w := range a.WritesAt(ins) {
					if w.Root.Kind != effects.RParam || w.Root.Idx != 0 {
						continue
					}
					if d, ok := c11StateWrite(ins, w); ok {
						stateWrites = append(stateWrites, sw{fn, ins, d})
						return
					}
				}
			})
		}
	}
	r.Counts["state_write_sites"] = len(stateWrites)
	// writers outside Manager methods of entry state (package keyset): none allowed except constructors
	for _, f := range pkgFuncs(p, "keyset") {
		isMgr := false
		for g := f; g != nil; g = g.Parent() {
			if g.Signature.Recv() != nil && core.TypeID(g.Signature.Recv().Type()) == "keyset.Manager" {
				isMgr = true
			}
		}
		if isMgr {
			continue
		}
		allInstrs(f, func(ins ssa.Instruction) {
			base, field, _, ok := guard.StoreField(ins)
			if !ok {
				return
			}
			tn := core.TypeID(base.Type())
			if tn != "keyset.entry" && !(tn == "keyset.Manager" && (field == "entries" || field == "unavailableKeyIDs")) {
				return
			}
			key := fmt.Sprintf("C11.writers/%s/store %s.%s", core.FuncID(f), tn, field)
			fresh := true
			for _, pt := range a.PointsTo(f, base) {
				if pt.Root.Kind != effects.RFresh {
					fresh = false
				}
			}
			// option closures (WithStatus/WithFixedID/AsPrimary) write the entry under construction
			isOpt := f.Parent() != nil && strings.HasPrefix(f.Parent().Name(), "With") || f.Parent() != nil && f.Parent().Name() == "AsPrimary"
			switch {
			case fresh:
				r.Ok("C11.writers", key, p.Pos(ins.Pos()), "store into an object allocated in this function (constructor)")
			case isOpt:
				r.Ok("C11.writers", key, p.Pos(ins.Pos()), "key option closure: writes the entry under construction passed by AddKeyWithOpts")
			default:
				r.Bad("C11.writers", key, p.Pos(ins.Pos()), "manager/entry state written outside the Manager's methods and constructors")
			}
		})
	}

	// ---------------------------------------------------------------- C11.atomic
	for _, w := range stateWrites {
		key := fmt.Sprintf("C11.atomic/%s/%s", core.FuncID(w.fn), w.desc)
		var bad *ssa.Return
		for _, ret := range guard.Returns(w.fn) {
			if guard.DefinitelyFails(ret) && guard.Reaches(w.ins, ret) {
				bad = ret
				break
			}
		}
		if bad != nil {
			r.Bad("C11.atomic", key, p.Pos(w.ins.Pos()),
				fmt.Sprintf("a failing operation can change the keyset: this write is followed on some path by the error return at %s", p.Pos(bad.Pos())),
				"state write: "+w.desc, "failing return: "+p.Pos(bad.Pos()))
		} else {
			r.Ok("C11.atomic", key, p.Pos(w.ins.Pos()), "no definitely-failing return is reachable from this write")
		}
	}
	r.Min("C11.atomic", 8)

	// ---------------------------------------------------------------- C11.ids
	c11IDs(c, methods)

	// ---------------------------------------------------------------- C11.primary / C11.single
	for _, w := range stateWrites {
		base, field, val, ok := guard.StoreField(w.ins)
		if ok && core.TypeID(base.Type()) == "keyset.Manager" && field == "entries" {
			// census of updates of the entries slice: only the forms the add / remove rules below decide
			form := ""
			if call, _ := guard.CallOf(val); call != nil {
				switch guard.CalleeName(&call.Call) {
				case "append":
					if isLoadOfField(call.Call.Args[0], "entries") {
						form = "append(km.entries, e)"
					} else if removalByAppend(call) != nil {
						form = "append(km.entries[:i], km.entries[i+1:]...)"
					}
				case "slices.Delete", "slices.DeleteFunc":
					if isLoadOfField(call.Call.Args[0], "entries") {
						form = "slices.Delete(km.entries, i, i+1)"
					}
				}
			}
			key := fmt.Sprintf("C11.primary/%s/%s form", core.FuncID(w.fn), w.desc)
			if form == "" {
				r.Unknown("C11.primary", key, p.Pos(w.ins.Pos()), "the entries slice is replaced by a value that is neither an append of one entry nor the removal of one index: the add/remove rules cannot decide this update")
			} else {
				r.Ok("C11.primary", key, p.Pos(w.ins.Pos()), "recognised update: "+form)
			}
			continue
		}
		if !ok || core.TypeID(base.Type()) != "keyset.entry" {
			continue
		}
		fid := core.FuncID(w.fn)
		switch field {
		case "isPrimary":
			if b, isC := guard.ConstBool(val); isC && !b {
				continue // clearing: always allowed
			}
			key := fmt.Sprintf("C11.primary/%s/isPrimary=true", fid)
			// e.isPrimary = (e == X) inside a complete loop over km.entries: X becomes
			// the one primary, every other entry is cleared by the same store
			if bo, isB := guard.Strip(val).(*ssa.BinOp); isB && bo.Op == token.EQL {
				var target ssa.Value
				switch {
				case sameObj(bo.X, base):
					target = bo.Y
				case sameObj(bo.Y, base):
					target = bo.X
				}
				if ia := elemOfRangeAny(guard.Strip(base)); target != nil && ia != nil && isLoadOfField(ia.X, "entries") {
					if statusSubset(p, guard.InstrFacts(w.ins), target, enabled) {
						r.Ok("C11.primary", key, p.Pos(w.ins.Pos()), "isPrimary = (entry == target) with target.status == Enabled dominating")
					} else {
						r.Bad("C11.primary", key, p.Pos(w.ins.Pos()), "an entry is made primary without a dominating check that its status is Enabled")
					}
					skey := "C11.single/" + fid + "/after isPrimary=true"
					rl := rangeLoopOf(ia)
					unguarded := rl != nil
					if rl != nil {
						for _, f := range guard.BlockFacts(w.ins.Block()) {
							if blk := f.Cond.(ssa.Instruction).Block(); blk != rl.Header && rl.Blocks[blk] {
								unguarded = false
							}
						}
					}
					r.Check(rl != nil && rl.Complete && unguarded, "C11.single", skey, p.Pos(w.ins.Pos()), "the loop assigning isPrimary = (entry == target) does not cover every entry unconditionally", "one complete unguarded loop assigns every entry's flag")
					continue
				}
			}
			if statusSubset(p, guard.InstrFacts(w.ins), base, enabled) {
				r.Ok("C11.primary", key, p.Pos(w.ins.Pos()), "dominated by status == Enabled of the same entry")
			} else {
				r.Bad("C11.primary", key, p.Pos(w.ins.Pos()), "an entry is made primary without a dominating check that its status is Enabled")
			}
			c11Single(c, w.fn, w.ins, base, "C11.single/"+fid+"/after isPrimary=true")
		case "status":
			key := fmt.Sprintf("C11.primary/%s/status=%s", fid, valName(val))
			facts := guard.InstrFacts(w.ins)
			if isConstEq(val, enabled) {
				// Enable: only Disabled/Enabled entries
				ok := everyPathHas(w.ins.Block(), func(fs []guard.Fact) bool {
					return statusSubset(p, fs, base, enabled, disabled)
				})
				r.Check(ok, "C11.primary", key, p.Pos(w.ins.Pos()), "status set to Enabled for an entry not known to be Disabled or Enabled (a Destroyed/Unknown key could be revived)", "every path has status==Disabled or status==Enabled")
				continue
			}
			okP := hasFieldFactBool(facts, base, "isPrimary", false)
			okS := everyPathHas(w.ins.Block(), func(fs []guard.Fact) bool {
				return statusSubset(p, fs, base, enabled, disabled)
			})
			switch {
			case !okP:
				r.Bad("C11.primary", key, p.Pos(w.ins.Pos()), "a non-Enabled status is stored without a dominating check that the entry is not primary")
			case !okS:
				r.Bad("C11.primary", key, p.Pos(w.ins.Pos()), "status changed for an entry not known to be Enabled or Disabled")
			default:
				r.Ok("C11.primary", key, p.Pos(w.ins.Pos()), "dominated by isPrimary == false of the same entry", "every path has status==Enabled or status==Disabled")
			}
		}
	}
	// removals and appends on km.entries
	for _, m := range methods {
		allInstrs(m, func(ins ssa.Instruction) {
			call, ok := ins.(*ssa.Call)
			if !ok {
				return
			}
			name := guard.CalleeName(&call.Call)
			fid := core.FuncID(m)
			var removedIdx ssa.Value
			switch name {
			case "slices.Delete", "slices.DeleteFunc":
				if !isLoadOfField(call.Call.Args[0], "entries") {
					return
				}
				removedIdx = call.Call.Args[1]
			case "append":
				if hi := removalByAppend(call); hi != nil {
					removedIdx = hi
					name = "removal-by-append"
				}
			}
			switch name {
			case "slices.Delete", "slices.DeleteFunc", "removal-by-append":
				key := fmt.Sprintf("C11.primary/%s/remove entry", fid)
				// the removed index must be findEntry's index for the entry proven non-primary
				okFact := false
				for _, f := range guard.InstrFacts(ins) {
					b, fld, isF := fieldBoolFact(f)
					if !isF || fld != "isPrimary" || f2bool(f) {
						continue
					}
					ec, ei := guard.CallOf(b)
					ic, ii := guard.CallOf(removedIdx)
					if ec != nil && ec == ic && ei == 0 && ii == 1 && guard.CalleeName(&ec.Call) == core.ModPath+"/keyset.findEntry" {
						okFact = true
					}
				}
				r.Check(okFact, "C11.primary", key, p.Pos(ins.Pos()), "an entry is removed without a dominating check that this very entry (same findEntry result) is not primary", "isPrimary == false of findEntry's entry; removed index is findEntry's index")
			case "append":
				if !isLoadOfField(call.Call.Args[0], "entries") {
					return
				}
				c11Append(c, m, call, enabled, unknown)
			}
		})
	}
	r.Min("C11.primary", 6)
	r.Min("C11.single", 2)

	// ---------------------------------------------------------------- findEntry
	if fe := p.PkgFunc("keyset", "findEntry"); fe == nil {
		r.AnchorMissing("C11.find", "keyset.findEntry")
	} else {
		// success return must be entries[i] with i the result of the search, and i == -1 must fail
		ok := false
		for _, ret := range guard.SuccessReturns(fe) {
			if len(ret.Results) == 3 {
				if ia := elemOfRangeAny(ret.Results[0]); ia != nil && ia.Index == ret.Results[1] {
					for _, f := range guard.BlockFacts(ret.Block()) {
						if op, x, y, isC := guard.Cmp(f); isC && op == token.NEQ && x == ret.Results[1] {
							if v, isI := guard.ConstInt(y); isI && v == -1 {
								ok = true
							}
						}
					}
				}
			}
		}
		// the predicate compares fixedID with the requested id
		predOK := false
		for _, an := range fe.AnonFuncs {
			for _, ret := range guard.Returns(an) {
				if b, isB := ret.Results[0].(*ssa.BinOp); isB && b.Op == token.EQL {
					_, f1, ok1 := guard.FieldOf(b.X)
					_, isFV := b.Y.(*ssa.FreeVar)
					if u, isU := b.Y.(*ssa.UnOp); isU && u.Op == token.MUL {
						_, isFV = u.X.(*ssa.FreeVar)
					}
					if ok1 && f1 == "fixedID" && isFV {
						predOK = true
					}
				}
			}
		}
		// alternative form: a range loop returning (e, i, nil) under e.fixedID == keyID
		if !(ok && predOK) {
			altOK := true
			nSucc := 0
			for _, ret := range guard.SuccessReturns(fe) {
				nSucc++
				good := false
				if len(ret.Results) == 3 {
					if ia := elemOfRangeAny(ret.Results[0]); ia != nil && guard.Strip(ia.X) == ssa.Value(fe.Params[0]) && guard.Strip(ia.Index) == guard.Strip(ret.Results[1]) {
						for _, f := range guard.BlockFacts(ret.Block()) {
							if op, x, y, isC := guard.Cmp(f); isC && op == token.EQL {
								for _, pr := range [][2]ssa.Value{{x, y}, {y, x}} {
									if b, fld, isF := guard.FieldOf(pr[0]); isF && fld == "fixedID" && sameObj(b, ret.Results[0]) && guard.Strip(pr[1]) == ssa.Value(fe.Params[1]) {
										good = true
									}
								}
							}
						}
					}
				}
				if !good {
					altOK = false
				}
			}
			if altOK && nSucc > 0 {
				ok, predOK = true, true
			}
		}
		r.Check(ok && predOK, "C11.find", "C11.find/keyset.findEntry", p.FuncPos(fe), "findEntry no longer returns entries[i] for the index whose fixedID equals the requested ID (with -1 rejected)", "returns entries[i], i != -1, predicate e.fixedID == keyID")
	}

	// ---------------------------------------------------------------- C11.isolation
	c11Isolation(c)
	idZeroRule(c, "C11.idzero", func(rel string) bool { return rel == "keyset" })
}

func f2bool(f guard.Fact) bool {
	// value of the boolean field asserted by a bare-field fact
	if _, _, _, ok := guard.Cmp(f); ok {
		return false
	}
	return f.True
}

// fieldBoolFact: the fact's condition is a bare boolean field load x.f.
func fieldBoolFact(f guard.Fact) (base ssa.Value, field string, ok bool) {
	return guard.FieldOf(f.Cond)
}

func hasFieldFactBool(facts []guard.Fact, base ssa.Value, field string, want bool) bool {
	for _, f := range facts {
		b, fld, ok := fieldBoolFact(f)
		if ok && fld == field && sameObj(b, base) && f.True == want {
			return true
		}
	}
	return false
}

// sameObj: the two pointer values are the same SSA value.
func sameObj(a, b ssa.Value) bool { return guard.Strip(a) == guard.Strip(b) || guard.SameValue(a, b) }

// hasFieldFact: facts contain base.field <op> constant.
func hasFieldFact(facts []guard.Fact, base ssa.Value, field string, op token.Token, c constant.Value) bool {
	for _, f := range facts {
		o, x, y, ok := guard.Cmp(f)
		if !ok || o != op {
			continue
		}
		if b, fld, isF := guard.FieldOf(x); isF && fld == field && sameObj(b, base) && isConstEq(y, c) {
			return true
		}
		if b, fld, isF := guard.FieldOf(y); isF && fld == field && sameObj(b, base) && isConstEq(x, c) {
			return true
		}
	}
	return false
}

// statusSubset: the facts restrict base.status to a subset of allowed. The
// facts understood: status ==/!= constant, and the verdict of a boolean helper
// of the package applied to base.status (folded over every KeyStatus constant).
func statusSubset(p *core.Program, facts []guard.Fact, base ssa.Value, allowed ...constant.Value) bool {
	// domain: the declared KeyStatus constants
	pk := p.ByPath[core.ModPath+"/keyset"]
	if pk == nil {
		return false
	}
	var dom []constant.Value
	for _, n := range pk.Types.Scope().Names() {
		if cst, ok := pk.Types.Scope().Lookup(n).(*types.Const); ok {
			if nt := core.NamedOf(cst.Type()); nt != nil && nt.Obj().Name() == "KeyStatus" {
				dom = append(dom, cst.Val())
			}
		}
	}
	if len(dom) == 0 {
		return false
	}
	possible := map[string]bool{}
	for _, k := range dom {
		possible[k.ExactString()] = true
	}
	isStatusOf := func(v ssa.Value) bool {
		b, fld, ok := guard.FieldOf(v)
		return ok && fld == "status" && sameObj(b, base)
	}
	ev := consteval.New()
	for _, f := range facts {
		if op, x, y, ok := guard.Cmp(f); ok && (op == token.EQL || op == token.NEQ) {
			var kv ssa.Value
			switch {
			case isStatusOf(x):
				kv = y
			case isStatusOf(y):
				kv = x
			default:
				continue
			}
			k, isK := guard.Strip(kv).(*ssa.Const)
			if !isK || k.Value == nil {
				continue
			}
			for _, d := range dom {
				eq := constant.Compare(d, token.EQL, k.Value)
				if (op == token.EQL) != eq {
					delete(possible, d.ExactString())
				}
			}
			continue
		}
		if call, val, ok := guard.BoolCallFact(f); ok && len(call.Call.Args) == 1 && isStatusOf(call.Call.Args[0]) {
			g := call.Call.StaticCallee()
			if g == nil || g.Blocks == nil {
				continue
			}
			for _, d := range dom {
				outs, okE := ev.Eval(g, []consteval.Val{{K: consteval.Const, C: d}}, nil)
				if !okE || len(outs) != 1 || len(outs[0].Results) != 1 || outs[0].Results[0].K != consteval.Const {
					continue // cannot fold: no information
				}
				if constant.BoolVal(outs[0].Results[0].C) != val {
					delete(possible, d.ExactString())
				}
			}
		}
	}
	for k := range possible {
		in := false
		for _, a := range allowed {
			if a.ExactString() == k {
				in = true
			}
		}
		if !in {
			return false
		}
	}
	return true
}

// everyPathHas: every acyclic path from entry to block b satisfies pred on
// its facts.
func everyPathHas(b *ssa.BasicBlock, pred func([]guard.Fact) bool) bool {
	paths, ok := guard.PathsTo(b, 20000)
	if !ok || len(paths) == 0 {
		return false
	}
	for _, pa := range paths {
		if !pred(pa.Facts) {
			return false
		}
	}
	return true
}

// removalByAppend recognises append(km.entries[:i] or [:i:i], km.entries[i+1:]...)
// and returns i.
func removalByAppend(call *ssa.Call) ssa.Value {
	if len(call.Call.Args) != 2 {
		return nil
	}
	a, ok1 := guard.Strip(call.Call.Args[0]).(*ssa.Slice)
	b, ok2 := guard.Strip(call.Call.Args[1]).(*ssa.Slice)
	if !ok1 || !ok2 || !isLoadOfField(a.X, "entries") || !isLoadOfField(b.X, "entries") || a.Low != nil || a.High == nil || b.Low == nil || b.High != nil {
		return nil
	}
	bo, isB := b.Low.(*ssa.BinOp)
	if !isB || bo.Op != token.ADD {
		return nil
	}
	if k, isK := guard.ConstInt(bo.Y); !isK || k != 1 || !guard.SameValue(bo.X, a.High) {
		return nil
	}
	return a.High
}

func isLoadOfField(v ssa.Value, field string) bool {
	_, f, ok := guard.FieldOf(v)
	return ok && f == field
}

func elemOfRangeAny(v ssa.Value) *ssa.IndexAddr {
	u, ok := v.(*ssa.UnOp)
	if !ok || u.Op != token.MUL {
		return nil
	}
	ia, _ := u.X.(*ssa.IndexAddr)
	return ia
}

// c11StateWrite classifies a write to receiver memory as a keyset-state write.
func c11StateWrite(ins ssa.Instruction, w effects.WriteAt) (string, bool) {
	if base, field, val, ok := guard.StoreField(ins); ok {
		switch core.TypeID(base.Type()) {
		case "keyset.entry":
			return "store entry." + field + "=" + valName(val), true
		case "keyset.Manager":
			if field == "entries" {
				if c, _ := guard.CallOf(val); c != nil {
					return "store km.entries=" + guard.CalleeName(&c.Call) + "(…)", true
				}
				return "store km.entries", true
			}
			return "", false
		}
	}
	switch w.T {
	case entryT, "*" + entryT, "[]*" + entryT:
		if c, ok := ins.(ssa.CallInstruction); ok {
			return "call " + shortCallee(c) + " writes entries", true
		}
		return "write of " + w.T, true
	case managerT:
		if c, ok := ins.(ssa.CallInstruction); ok {
			n := guard.CalleeName(c.Common())
			if strings.HasSuffix(n, ".newRandomKeyID") {
				return "", false
			}
			return "call " + shortCallee(c) + " writes manager", true
		}
	}
	return "", false
}

func shortCallee(c ssa.CallInstruction) string {
	n := guard.CalleeName(c.Common())
	return strings.ReplaceAll(n, core.ModPath+"/", "")
}

// c11Single: after making `primary` the primary entry at instruction set, every
// path to a success return runs a complete range loop over km.entries that
// clears isPrimary of every other entry.
func c11Single(c *Ctx, fn *ssa.Function, set ssa.Instruction, primary ssa.Value, key string) {
	p, r := c.P, c.R
	loop, why := clearingLoop(fn, primary)
	if loop == nil {
		r.Bad("C11.single", key, p.Pos(set.Pos()), "no complete loop clearing isPrimary of the other entries found: "+why)
		return
	}
	// every success return reachable from set must be reached only through the loop header,
	// i.e. the header dominates it and set's block dominates the header.
	for _, ret := range guard.SuccessReturns(fn) {
		if !guard.Reaches(set, ret) {
			continue
		}
		if !loop.Header.Dominates(ret.Block()) {
			r.Bad("C11.single", key, p.Pos(ret.Pos()), "a success return after the primary is set is reachable without running the loop that clears the other entries' primary flag")
			return
		}
	}
	r.Ok("C11.single", key, p.Pos(set.Pos()), "complete range loop over km.entries clears isPrimary; only skip: same fixedID as the new primary", "loop header dominates every success return after the set")
}

// clearingLoop finds a complete range loop over km.entries whose body stores
// isPrimary=false to the element, guarded at most by "element.fixedID ==
// primary.fixedID -> skip" (primary may be nil: no guard allowed).
func clearingLoop(fn *ssa.Function, primary ssa.Value) (*rangeLoop, string) {
	why := "no store isPrimary=false inside a range loop over km.entries"
	var found *rangeLoop
	allInstrs(fn, func(ins ssa.Instruction) {
		if found != nil {
			return
		}
		base, field, val, ok := guard.StoreField(ins)
		if !ok || field != "isPrimary" {
			return
		}
		if b, isC := guard.ConstBool(val); !isC || b {
			return
		}
		ia := elemOfRange(base)
		if ia == nil || !isLoadOfField(ia.X, "entries") {
			return
		}
		rl := rangeLoopOf(ia)
		if rl == nil {
			why = "clearing store is not in a recognised range loop"
			return
		}
		if !rl.Complete {
			why = "the clearing loop does not cover all entries (early exit or partial index range)"
			return
		}
		// guards inside the loop body
		okGuard := false
		for _, f := range guard.BlockFacts(ins.Block()) {
			if rl.Header.Dominates(f.Cond.(ssa.Instruction).Block()) && f.Cond.(ssa.Instruction).Block() != rl.Header {
				// a guard inside the loop: must be elem.fixedID != primary.fixedID
				op, x, y, isC := guard.Cmp(f)
				bx, fx, okx := guard.FieldOf(x)
				by, fy, oky := guard.FieldOf(y)
				if isC && op == token.NEQ && okx && oky && fx == "fixedID" && fy == "fixedID" && primary != nil &&
					((sameObj(bx, base) && sameObj(by, primary)) || (sameObj(by, base) && sameObj(bx, primary))) {
					continue
				}
				// elem.fixedID != keyID, keyID being the ID the new primary was found by
				if isC && op == token.NEQ && primary != nil {
					for _, pr := range [][2]ssa.Value{{x, y}, {y, x}} {
						bb, ff, okf := guard.FieldOf(pr[0])
						if !okf || ff != "fixedID" || !sameObj(bb, base) {
							continue
						}
						if pc, pi := guard.CallOf(primary); pc != nil && pi == 0 && strings.HasSuffix(guard.CalleeName(&pc.Call), "keyset.findEntry") && len(pc.Call.Args) == 2 && guard.Strip(pc.Call.Args[1]) == guard.Strip(pr[1]) {
							okGuard = true
						}
					}
					if okGuard {
						okGuard = false
						continue
					}
				}
				// the element itself is not the new primary (pointer inequality)
				if isC && op == token.NEQ && primary != nil && ((sameObj(x, base) && sameObj(y, primary)) || (sameObj(y, base) && sameObj(x, primary))) {
					continue
				}
				// the index is not the new primary's index
				if isC && op == token.NEQ && primary != nil && (isIndexOf(x, rl, y, primary) || isIndexOf(y, rl, x, primary)) {
					continue
				}
				why = "the clearing store is guarded by an extra condition (" + factString(f) + "), so some other entry may stay primary"
				return
			}
		}
		found = rl
	})
	return found, why
}

// isIndexOf: li is the loop's index value and pi the index at which primary
// sits in the same slice: primary = entries[pi], or (primary, pi) are the two
// results of one findEntry call.
func isIndexOf(li ssa.Value, rl *rangeLoop, pi ssa.Value, primary ssa.Value) bool {
	if guard.Strip(li) != guard.Strip(rl.Index) {
		return false
	}
	if ia := elemOfRangeAny(guard.Strip(primary)); ia != nil && isLoadOfField(ia.X, "entries") && guard.SameValue(ia.Index, pi) {
		return true
	}
	pc, pidx := guard.CallOf(primary)
	ic, iidx := guard.CallOf(pi)
	return pc != nil && pc == ic && pidx == 0 && iidx == 1 && strings.HasSuffix(guard.CalleeName(&pc.Call), "keyset.findEntry")
}

// c11Append checks an append of a new entry onto km.entries.
func c11Append(c *Ctx, m *ssa.Function, call *ssa.Call, enabled, unknown constant.Value) {
	p, r := c.P, c.R
	a := c.Eff()
	fid := core.FuncID(m)
	// the appended element: variadic slice of one *entry
	var elem ssa.Value
	if len(call.Call.Args) == 2 {
		if sl, ok := call.Call.Args[1].(*ssa.Slice); ok {
			if al, ok := sl.X.(*ssa.Alloc); ok {
				for _, ref := range *al.Referrers() {
					if ia, ok := ref.(*ssa.IndexAddr); ok {
						for _, r2 := range *ia.Referrers() {
							if st, ok := r2.(*ssa.Store); ok {
								elem = st.Val
							}
						}
					}
				}
			}
		}
	}
	key := fmt.Sprintf("C11.primary/%s/append entry", fid)
	if elem == nil {
		r.Unknown("C11.primary", key, p.Pos(call.Pos()), "cannot identify the appended entry")
		return
	}
	alloc, _ := guard.Strip(elem).(*ssa.Alloc)
	if alloc == nil {
		r.Unknown("C11.primary", key, p.Pos(call.Pos()), "appended entry is not allocated in this function")
		return
	}
	// field knowledge: constant stores and escape
	escapes := false
	consts := map[string][]ssa.Value{}
	for _, ref := range *alloc.Referrers() {
		switch x := ref.(type) {
		case *ssa.FieldAddr:
			st := alloc.Type().Underlying().(*types.Pointer).Elem().Underlying().(*types.Struct)
			name := st.Field(x.Field).Name()
			for _, r2 := range *x.Referrers() {
				if s, ok := r2.(*ssa.Store); ok && s.Addr == ssa.Value(x) {
					consts[name] = append(consts[name], s.Val)
				}
			}
		case *ssa.Call:
			escapes = true
		case *ssa.Store:
			if x.Val == ssa.Value(alloc) && ref != ssa.Instruction(nil) {
				// stored into the variadic array for append: fine
			}
		}
	}
	_ = a
	fieldConst := func(name string, want constant.Value) bool {
		if escapes {
			return false
		}
		vs := consts[name]
		if len(vs) == 0 {
			// zero value
			return want != nil && constant.Compare(want, token.EQL, constant.MakeInt64(0))
		}
		for _, v := range vs {
			if !isConstEq(v, want) {
				return false
			}
		}
		return true
	}
	fieldFalse := func(name string) bool {
		if escapes {
			return false
		}
		for _, v := range consts[name] {
			if b, ok := guard.ConstBool(v); !ok || b {
				return false
			}
		}
		return true
	}
	// (1) primary => Enabled ; status != Unknown
	primOK := fieldFalse("isPrimary") || fieldConst("status", enabled) ||
		everyPathHas(call.Block(), func(fs []guard.Fact) bool {
			return hasFieldFactBool(fs, alloc, "isPrimary", false) || hasFieldFact(fs, alloc, "status", token.EQL, enabled)
		})
	statOK := fieldConst("status", enabled) ||
		everyPathHas(call.Block(), func(fs []guard.Fact) bool {
			return hasFieldFact(fs, alloc, "status", token.NEQ, unknown) || hasFieldFact(fs, alloc, "status", token.EQL, enabled)
		})
	switch {
	case !primOK:
		r.Bad("C11.primary", key, p.Pos(call.Pos()), "a new entry can be appended as primary without its status being checked to be Enabled on every path")
	case !statOK:
		r.Bad("C11.primary", key, p.Pos(call.Pos()), "a new entry can be appended with status Unknown")
	default:
		r.Ok("C11.primary", key, p.Pos(call.Pos()), "on every path: isPrimary==false or status==Enabled; status != Unknown")
	}
	// (2) if it can be primary: clearing loop on every path where isPrimary holds
	if !fieldFalse("isPrimary") {
		skey := fmt.Sprintf("C11.single/%s/append possibly-primary entry", fid)
		loop, why := clearingLoop(m, nil)
		if loop == nil {
			r.Bad("C11.single", skey, p.Pos(call.Pos()), "entry may be appended as primary but no complete unguarded loop clears the other entries: "+why)
		} else {
			ok := everyPathHasP(call.Block(), func(pa guard.Path) bool {
				if hasFieldFactBool(pa.Facts, alloc, "isPrimary", false) {
					return true
				}
				return pa.Has(loop.Header)
			})
			r.Check(ok, "C11.single", skey, p.Pos(call.Pos()), "a path appends a possibly-primary entry without running the loop that clears the other entries", "every path with isPrimary possibly true passes the clearing loop")
		}
	}
	// (3) the ID
	c11AppendID(c, m, call, alloc, consts["fixedID"])
}

func everyPathHasP(b *ssa.BasicBlock, pred func(guard.Path) bool) bool {
	paths, ok := guard.PathsTo(b, 20000)
	if !ok || len(paths) == 0 {
		return false
	}
	for _, pa := range paths {
		if !pred(pa) {
			return false
		}
	}
	return true
}

// ---------------------------------------------------------------- IDs

func isUnavailMap(v ssa.Value) bool { return isLoadOfField(v, "unavailableKeyIDs") }

// idRecorded: value id, as used in block at, is an ID that was found absent
// from unavailableKeyIDs and is recorded there before the use.
func idRecorded(id ssa.Value, at *ssa.BasicBlock, depth int) (bool, string) {
	if ok, why := idAbsent(id, guard.BlockFacts(at), 0); !ok {
		return false, why
	}
	if ok, why := idNoted(id, at, 0); !ok {
		return false, why
	}
	return true, "found absent from unavailableKeyIDs (or drawn by newRandomKeyID) and recorded before the entry is appended"
}

func isNewRandomKeyID(id ssa.Value) bool {
	call, _ := guard.CallOf(guard.Strip(id))
	return call != nil && strings.HasSuffix(guard.CalleeName(&call.Call), "keyset.Manager).newRandomKeyID")
}

// idAbsent: under the given facts, id was looked up in unavailableKeyIDs and
// not found (newRandomKeyID guarantees that for its result).
func idAbsent(id ssa.Value, facts []guard.Fact, depth int) (bool, string) {
	id = guard.Strip(id)
	if isNewRandomKeyID(id) && c11NewRandomAbsent {
		return true, ""
	}
	for _, f := range facts {
		if lookupFoundFact(f, id) == -1 {
			return true, ""
		}
	}
	// the ID handed back by a helper of the package: absent on each of its success returns
	if hc, hi := guard.CallOf(id); hc != nil && depth < 3 && !isNewRandomKeyID(id) {
		if g := hc.Call.StaticCallee(); g != nil && g.Blocks != nil && core.Rel(core.PkgOf(g)) == "keyset" {
			all, some := true, false
			for _, ret := range guard.SuccessReturns(g) {
				if hi >= len(ret.Results) {
					all = false
					continue
				}
				some = true
				if ok, _ := idAbsent(ret.Results[hi], guard.BlockFacts(ret.Block()), depth+1); !ok {
					all = false
				}
			}
			if all && some {
				return true, ""
			}
		}
	}
	if phi, ok := id.(*ssa.Phi); ok && depth < 4 {
		for i, e := range phi.Edges {
			if ok, why := idAbsent(e, edgeFactsInto(phi.Block().Preds[i], phi.Block()), depth+1); !ok {
				return false, why
			}
		}
		return true, ""
	}
	return false, fmt.Sprintf("ID value %s is used without having been found absent from unavailableKeyIDs on this path", valName(id))
}

// idNoted: id is recorded in unavailableKeyIDs by an update that dominates
// block at (newRandomKeyID records its own result).
func idNoted(id ssa.Value, at *ssa.BasicBlock, depth int) (bool, string) {
	id = guard.Strip(id)
	if isNewRandomKeyID(id) && c11NewRandomRecords {
		return true, ""
	}
	found := false
	allInstrs(at.Parent(), func(ins ssa.Instruction) {
		mu, ok := ins.(*ssa.MapUpdate)
		if !ok || !isUnavailMap(mu.Map) || !guard.SameValue(mu.Key, id) {
			return
		}
		if b, isC := guard.ConstBool(mu.Value); !isC || !b {
			return
		}
		if mu.Block() == at || mu.Block().Dominates(at) {
			found = true
		}
	})
	// recorded by a reservation helper: a call that always leaves the ID recorded
	// dominates, or its true verdict holds here
	allInstrs(at.Parent(), func(ins ssa.Instruction) {
		call, ok := ins.(*ssa.Call)
		if !ok {
			return
		}
		g := call.Call.StaticCallee()
		sum, has := c11Reserve[g]
		if g == nil || !has || len(call.Call.Args) <= sum.idArg || !guard.SameValue(call.Call.Args[sum.idArg], id) {
			return
		}
		if sum.alwaysNoted && (call.Block() == at || call.Block().Dominates(at)) {
			found = true
		}
		if sum.trueNoted {
			for _, f := range guard.BlockFacts(at) {
				if c2, val, isB := guard.BoolCallFact(f); isB && val && c2 == call {
					found = true
				}
			}
		}
	})
	if found {
		return true, ""
	}
	// the ID handed back by a helper of the package: recorded on each of its success returns
	if hc, hi := guard.CallOf(id); hc != nil && depth < 3 && !isNewRandomKeyID(id) {
		if g := hc.Call.StaticCallee(); g != nil && g.Blocks != nil && core.Rel(core.PkgOf(g)) == "keyset" {
			all, some := true, false
			for _, ret := range guard.SuccessReturns(g) {
				if hi >= len(ret.Results) {
					all = false
					continue
				}
				some = true
				if ok, _ := idNoted(ret.Results[hi], ret.Block(), depth+1); !ok {
					all = false
				}
			}
			if all && some {
				return true, ""
			}
		}
	}
	if phi, ok := id.(*ssa.Phi); ok && depth < 4 {
		for i, e := range phi.Edges {
			if ok, why := idNoted(e, phi.Block().Preds[i], depth+1); !ok {
				return false, why
			}
		}
		return true, ""
	}
	return false, fmt.Sprintf("ID value %s is not recorded in unavailableKeyIDs before the entry is appended", valName(id))
}

// lookupFoundFact: fact about `_, found := unavailableKeyIDs[id]`: returns +1
// (found), -1 (not found), 0 (unrelated).
func lookupFoundFact(f guard.Fact, id ssa.Value) int {
	// value form: `if unavailableKeyIDs[id]` (only true is ever stored — census (a))
	if lk, ok := f.Cond.(*ssa.Lookup); ok && !lk.CommaOk && isUnavailMap(lk.X) && guard.SameValue(lk.Index, id) {
		if f.True {
			return 1
		}
		return -1
	}
	// verdict of a reservation helper: true means "was absent, is now recorded"
	if call, val, ok := guard.BoolCallFact(f); ok {
		if g := call.Call.StaticCallee(); g != nil {
			if sum, has := c11Reserve[g]; has && len(call.Call.Args) > sum.idArg && guard.SameValue(call.Call.Args[sum.idArg], id) {
				if val && sum.trueAbsent {
					return -1
				}
				if !val && sum.falseFound {
					return 1
				}
			}
		}
	}
	ex, ok := f.Cond.(*ssa.Extract)
	if !ok || ex.Index != 1 {
		return 0
	}
	lk, ok := ex.Tuple.(*ssa.Lookup)
	if !ok || !lk.CommaOk || !isUnavailMap(lk.X) || !guard.SameValue(lk.Index, id) {
		return 0
	}
	if f.True {
		return 1
	}
	return -1
}

func c11AppendID(c *Ctx, m *ssa.Function, call *ssa.Call, alloc *ssa.Alloc, idStores []ssa.Value) {
	p, r := c.P, c.R
	key := fmt.Sprintf("C11.ids/%s/appended entry ID", core.FuncID(m))
	if len(idStores) == 0 {
		r.Bad("C11.ids", key, p.Pos(call.Pos()), "appended entry has no fixedID store")
		return
	}
	// the last store to fixedID that dominates the append decides
	var last ssa.Value
	for _, ref := range *alloc.Referrers() {
		fa, ok := ref.(*ssa.FieldAddr)
		if !ok {
			continue
		}
		st := alloc.Type().Underlying().(*types.Pointer).Elem().Underlying().(*types.Struct)
		if st.Field(fa.Field).Name() != "fixedID" {
			continue
		}
		for _, r2 := range *fa.Referrers() {
			if s, ok := r2.(*ssa.Store); ok && s.Addr == ssa.Value(fa) && (s.Block() == call.Block() || s.Block().Dominates(call.Block())) {
				if last == nil || guard.Reaches(lastStoreIns, s) {
					last = s.Val
					lastStoreIns = s
				}
			}
		}
	}
	why := "no fixedID store dominates the append"
	if last != nil {
		var ok bool
		if ok, why = idRecordedV(c, last, call.Block(), 0); ok {
			r.Ok("C11.ids", key, p.Pos(call.Pos()), why)
			return
		}
	}
	// path form: on each path to the append, the last fixedID store on that path
	// (or, without one, the value the field already holds) decides
	if ok, why2 := c11AppendIDPaths(c, call, alloc); ok {
		r.Ok("C11.ids", key, p.Pos(call.Pos()), why2)
		return
	} else if last == nil {
		why = why2
	}
	r.Bad("C11.ids", key, p.Pos(call.Pos()), "an entry is appended with an ID that is not guaranteed unused and recorded: "+why)
}

// idRecordedV is idRecorded, with an ID that is a parameter of an unexported
// helper of the package decided at each call site of the helper.
func idRecordedV(c *Ctx, id ssa.Value, at *ssa.BasicBlock, depth int) (bool, string) {
	prm, isP := guard.Strip(id).(*ssa.Parameter)
	if !isP || depth > 2 {
		return idRecorded(id, at, 0)
	}
	g := prm.Parent()
	if g == nil || g.Parent() != nil || g.Object() == nil || g.Object().Exported() {
		return idRecorded(id, at, 0)
	}
	idx := -1
	for i, q := range g.Params {
		if q == prm {
			idx = i
		}
	}
	n := 0
	okAll, whyBad := true, ""
	for _, f := range c.P.SortedFuncs(core.Product) {
		if f.Pkg != g.Pkg {
			continue
		}
		allInstrs(f, func(ins ssa.Instruction) {
			switch x := ins.(type) {
			case ssa.CallInstruction:
				if x.Common().StaticCallee() == g && idx < len(x.Common().Args) {
					n++
					if _, isCall := x.(*ssa.Call); !isCall {
						okAll, whyBad = false, "helper "+g.Name()+" is started with go/defer"
						return
					}
					if ok, why := idRecordedV(c, x.Common().Args[idx], x.Block(), depth+1); !ok {
						okAll, whyBad = false, fmt.Sprintf("at the call of %s in %s: %s", g.Name(), f.Name(), why)
					}
				}
			}
			// the helper used as a value: its callers are not all known
			for _, op := range ins.Operands(nil) {
				if *op == ssa.Value(g) {
					if ci, isC := ins.(ssa.CallInstruction); !isC || ci.Common().Value != ssa.Value(g) {
						okAll, whyBad = false, "helper "+g.Name()+" is used as a value"
					}
				}
			}
		})
	}
	if n == 0 {
		return false, "helper " + g.Name() + " taking the ID has no call site"
	}
	if !okAll {
		return false, whyBad
	}
	return true, fmt.Sprintf("the ID is parameter %s of %s; at each of its %d call sites it was found absent from unavailableKeyIDs (or drawn by newRandomKeyID) and recorded", prm.Name(), g.Name(), n)
}

func c11AppendIDPaths(c *Ctx, call *ssa.Call, alloc *ssa.Alloc) (bool, string) {
	st := alloc.Type().Underlying().(*types.Pointer).Elem().Underlying().(*types.Struct)
	isIDAddr := func(v ssa.Value) bool {
		fa, ok := v.(*ssa.FieldAddr)
		return ok && fa.X == ssa.Value(alloc) && st.Field(fa.Field).Name() == "fixedID"
	}
	// anything that may change alloc.fixedID between ins and the append
	noModAfter := func(ins ssa.Instruction) (bool, string) {
		ok, why := true, ""
		allInstrs(alloc.Parent(), func(x ssa.Instruction) {
			if x == ins || x == ssa.Instruction(call) {
				return
			}
			mod := false
			switch y := x.(type) {
			case *ssa.Store:
				mod = isIDAddr(y.Addr)
			case ssa.CallInstruction:
				for _, a := range y.Common().Args {
					if guard.Strip(a) == ssa.Value(alloc) {
						mod = true
					}
				}
			case *ssa.MakeClosure:
				for _, b := range y.Bindings {
					if guard.Strip(b) == ssa.Value(alloc) {
						ok, why = false, "the entry is captured by a closure"
					}
				}
			}
			if mod && guard.Reaches(ins, x) && guard.Reaches(x, call) {
				ok, why = false, "the entry's fixedID may change after the ID was checked ("+c.P.Pos(x.Pos())+")"
			}
		})
		return ok, why
	}
	paths, ok := guard.PathsTo(call.Block(), 20000)
	if !ok || len(paths) == 0 {
		return false, "paths to the append could not be enumerated"
	}
	notedOn := func(id ssa.Value, pa guard.Path) bool {
		if ok, _ := idNoted(id, call.Block(), 0); ok {
			return true
		}
		for _, b := range pa.Blocks {
			for _, ins := range b.Instrs {
				if ins == ssa.Instruction(call) {
					break
				}
				switch x := ins.(type) {
				case *ssa.MapUpdate:
					if bv, isC := guard.ConstBool(x.Value); isC && bv && isUnavailMap(x.Map) && guard.SameValue(x.Key, id) {
						return true
					}
				case *ssa.Call:
					if sum, has := c11Reserve[x.Call.StaticCallee()]; has && sum.alwaysNoted && len(x.Call.Args) > sum.idArg && guard.SameValue(x.Call.Args[sum.idArg], id) {
						return true
					}
				}
			}
		}
		for _, f := range pa.Facts {
			if c2, val, isB := guard.BoolCallFact(f); isB && val {
				if sum, has := c11Reserve[c2.Call.StaticCallee()]; has && sum.trueNoted && len(c2.Call.Args) > sum.idArg && guard.SameValue(c2.Call.Args[sum.idArg], id) {
					return true
				}
			}
		}
		return false
	}
	nStore, nHeld := 0, 0
	for _, pa := range paths {
		var lastSt *ssa.Store
		var loads []*ssa.UnOp
	walk:
		for _, b := range pa.Blocks {
			for _, ins := range b.Instrs {
				if ins == ssa.Instruction(call) {
					break walk
				}
				switch x := ins.(type) {
				case *ssa.Store:
					if isIDAddr(x.Addr) {
						lastSt, loads = x, nil // loads: those after the last store
					}
				case *ssa.UnOp:
					if x.Op == token.MUL && isIDAddr(x.X) {
						loads = append(loads, x)
					}
				}
			}
		}
		why := "a path appends the entry with the fixedID it already holds, which was not found absent from unavailableKeyIDs and recorded"
		if lastSt != nil {
			okSt, w := noModAfter(lastSt)
			if okSt {
				if _, isP := guard.Strip(lastSt.Val).(*ssa.Parameter); isP {
					okSt, w = idRecordedV(c, lastSt.Val, call.Block(), 0)
				} else if okSt, w = idAbsent(lastSt.Val, pa.Facts, 0); okSt && !notedOn(lastSt.Val, pa) {
					okSt, w = false, fmt.Sprintf("ID value %s is not recorded in unavailableKeyIDs before the entry is appended", valName(lastSt.Val))
				}
			}
			if okSt {
				nStore++
				continue
			}
			why = w
			// otherwise a later load of the field may have been checked
		}
		// no store on this path: the field keeps the value it has; some load of it
		// must have been found absent and recorded, with nothing changing it later
		held := false
		for _, l := range loads {
			if ok, _ := idAbsent(l, pa.Facts, 0); !ok {
				continue
			}
			if !notedOn(l, pa) {
				continue
			}
			if ok, w := noModAfter(l); !ok {
				why = w
				continue
			}
			held = true
			break
		}
		if !held {
			return false, why
		}
		nHeld++
	}
	return true, fmt.Sprintf("on each of the %d paths to the append the entry's ID (%d: last fixedID store on the path; %d: the value the field holds) was found absent from unavailableKeyIDs (or drawn by newRandomKeyID) and recorded, and nothing can change it afterwards", len(paths), nStore, nHeld)
}

var lastStoreIns ssa.Instruction

// what newRandomKeyID guarantees about its result (established by c11IDs
// before the append sites are examined)
var c11NewRandomAbsent, c11NewRandomRecords bool

// reserveSum summarises a helper `func (km *Manager) reserve(id uint32) bool`
// of package keyset that tests and records an ID in unavailableKeyIDs.
type reserveSum struct {
	idArg       int  // index of the id among the call arguments
	trueAbsent  bool // a true verdict implies the ID was absent before the call
	trueNoted   bool // a true verdict implies the ID is recorded now
	falseFound  bool // a false verdict implies the ID was already recorded
	alwaysNoted bool // after the call the ID is recorded whatever the verdict
}

var c11Reserve map[*ssa.Function]reserveSum

func c11ReserveSummaries(p *core.Program) {
	c11Reserve = map[*ssa.Function]reserveSum{}
	for _, g := range pkgFuncs(p, "keyset") {
		res := g.Signature.Results()
		if g.Parent() != nil || res.Len() != 1 {
			continue
		}
		if bt, ok := res.At(0).Type().Underlying().(*types.Basic); !ok || bt.Kind() != types.Bool {
			continue
		}
		idArg := -1
		for i, prm := range g.Params {
			if bt, ok := prm.Type().Underlying().(*types.Basic); ok && bt.Kind() == types.Uint32 {
				idArg = i
			}
		}
		touches := false
		allInstrs(g, func(ins ssa.Instruction) {
			switch x := ins.(type) {
			case *ssa.MapUpdate:
				touches = touches || isUnavailMap(x.Map)
			case *ssa.Lookup:
				touches = touches || isUnavailMap(x.X)
			}
		})
		if idArg < 0 || !touches {
			continue
		}
		id := ssa.Value(g.Params[idArg])
		sum := reserveSum{idArg: idArg, trueAbsent: true, trueNoted: true, falseFound: true, alwaysNoted: true}
		for _, ret := range guard.Returns(g) {
			absent, found, noted := false, false, false
			for _, f := range guard.BlockFacts(ret.Block()) {
				switch lookupFoundFact(f, id) {
				case -1:
					absent = true
				case 1:
					found = true
				}
			}
			allInstrs(g, func(ins ssa.Instruction) {
				if mu, ok := ins.(*ssa.MapUpdate); ok && isUnavailMap(mu.Map) && guard.Strip(mu.Key) == id && (mu.Block() == ret.Block() || mu.Block().Dominates(ret.Block())) {
					if b, isC := guard.ConstBool(mu.Value); isC && b {
						noted = true
					}
				}
			})
			verdict, isC := guard.ConstBool(ret.Results[0])
			if !isC || verdict {
				sum.trueAbsent = sum.trueAbsent && absent
				sum.trueNoted = sum.trueNoted && noted
			}
			if !isC || !verdict {
				sum.falseFound = sum.falseFound && found
			}
			sum.alwaysNoted = sum.alwaysNoted && (noted || found)
		}
		c11Reserve[g] = sum
	}
}

func c11IDs(c *Ctx, methods []*ssa.Function) {
	p, r := c.P, c.R
	c11ReserveSummaries(p)
	// (a) census of unavailableKeyIDs: only grows
	n := 0
	for _, f := range pkgFuncs(p, "keyset") {
		allInstrs(f, func(ins ssa.Instruction) {
			switch x := ins.(type) {
			case *ssa.MapUpdate:
				if isUnavailMap(x.Map) {
					n++
					b, isC := guard.ConstBool(x.Value)
					r.Check(isC && b, "C11.ids", fmt.Sprintf("C11.ids/%s/unavailableKeyIDs[…]=true", core.FuncID(f)), p.Pos(ins.Pos()),
						"unavailableKeyIDs entry set to something other than true (an ID could become available again)", "records an ID as used")
				}
			case *ssa.Call:
				if b, ok := x.Call.Value.(*ssa.Builtin); ok && (b.Name() == "delete" || b.Name() == "clear") && len(x.Call.Args) > 0 && isUnavailMap(x.Call.Args[0]) {
					r.Bad("C11.ids", fmt.Sprintf("C11.ids/%s/%s(unavailableKeyIDs)", core.FuncID(f), b.Name()), p.Pos(ins.Pos()),
						"an ID is removed from unavailableKeyIDs: IDs ever used by this manager may be handed out again")
				}
			case *ssa.Store:
				if base, field, val, ok := guard.StoreField(ins); ok && field == "unavailableKeyIDs" && core.TypeID(base.Type()) == "keyset.Manager" {
					_, isMake := guard.Strip(val).(*ssa.MakeMap)
					_, isAlloc := guard.Strip(base).(*ssa.Alloc)
					r.Check(isMake && isAlloc, "C11.ids", fmt.Sprintf("C11.ids/%s/store unavailableKeyIDs", core.FuncID(f)), p.Pos(ins.Pos()),
						"unavailableKeyIDs is replaced outside a constructor", "fresh map in a constructor")
				}
			}
		})
	}
	// (b) newRandomKeyID
	var nr *ssa.Function
	for _, m := range methods {
		if m.Name() == "newRandomKeyID" {
			nr = m
		}
	}
	if nr == nil {
		r.AnchorMissing("C11.ids", "(*keyset.Manager).newRandomKeyID")
	} else {
		for _, ret := range guard.Returns(nr) {
			id := guard.Strip(ret.Results[0])
			notFound, recorded := false, false
			for _, f := range guard.BlockFacts(ret.Block()) {
				if lookupFoundFact(f, id) == -1 {
					notFound = true
				}
			}
			allInstrs(nr, func(ins ssa.Instruction) {
				if mu, ok := ins.(*ssa.MapUpdate); ok && isUnavailMap(mu.Map) && guard.Strip(mu.Key) == id && (mu.Block() == ret.Block() || mu.Block().Dominates(ret.Block())) {
					if b, isC := guard.ConstBool(mu.Value); isC && b {
						recorded = true
					}
				}
			})
			if !recorded {
				if okN, _ := idNoted(id, ret.Block(), 0); okN {
					recorded = true
				}
			}
			call, _ := guard.CallOf(id)
			fromRand := call != nil && strings.HasSuffix(guard.CalleeName(&call.Call), "random.GetRandomUint32")
			key := "C11.ids/(*keyset.Manager).newRandomKeyID/return"
			c11NewRandomAbsent, c11NewRandomRecords = notFound, recorded
			switch {
			case !fromRand:
				r.Bad("C11.ids", key, p.Pos(ret.Pos()), "newRandomKeyID returns a value that is not the unmodified result of random.GetRandomUint32()")
			case !notFound:
				r.Bad("C11.ids", key, p.Pos(ret.Pos()), "newRandomKeyID can return an ID without having found it absent from unavailableKeyIDs")
			case !recorded:
				r.Ok("C11.ids", key, p.Pos(ret.Pos()), "random ID, found absent; NOT recorded here: every caller must record it before appending (checked at each append site)")
			default:
				r.Ok("C11.ids", key, p.Pos(ret.Pos()), "random ID, found absent, recorded before return")
			}
		}
	}
	// (d) NewManagerFromHandle seeds every existing ID
	if f := p.PkgFunc("keyset", "NewManagerFromHandle"); f == nil {
		r.AnchorMissing("C11.ids", "keyset.NewManagerFromHandle")
	} else {
		ok := false
		why := "no unavailableKeyIDs[e.fixedID]=true inside a complete range loop over the new manager's entries"
		allInstrs(f, func(ins ssa.Instruction) {
			mu, isMU := ins.(*ssa.MapUpdate)
			if !isMU || !isUnavailMap(mu.Map) {
				return
			}
			b, fld, isF := guard.FieldOf(mu.Key)
			if !isF || fld != "fixedID" {
				return
			}
			ia := elemOfRange(b)
			if ia == nil {
				return
			}
			rl := rangeLoopOf(ia)
			if rl == nil || !rl.Complete || !isLoadOfField(ia.X, "entries") {
				return
			}
			// unguarded inside the loop
			for _, fct := range guard.BlockFacts(ins.Block()) {
				if blk := fct.Cond.(ssa.Instruction).Block(); blk != rl.Header && rl.Blocks[blk] {
					why = "seeding of unavailableKeyIDs is conditional inside the loop"
					return
				}
			}
			ok = true
		})
		if !ok {
			// seeding through a reservation helper that always leaves the ID recorded
			allInstrs(f, func(ins ssa.Instruction) {
				call, isCall := ins.(*ssa.Call)
				if !isCall {
					return
				}
				sum, has := c11Reserve[call.Call.StaticCallee()]
				if !has || !sum.alwaysNoted || len(call.Call.Args) <= sum.idArg {
					return
				}
				b, fld, isF := guard.FieldOf(call.Call.Args[sum.idArg])
				if !isF || fld != "fixedID" {
					return
				}
				ia := elemOfRange(b)
				if ia == nil {
					return
				}
				rl := rangeLoopOf(ia)
				if rl == nil || !rl.Complete || !isLoadOfField(ia.X, "entries") {
					return
				}
				for _, fct := range guard.BlockFacts(ins.Block()) {
					if blk := fct.Cond.(ssa.Instruction).Block(); blk != rl.Header && rl.Blocks[blk] {
						why = "seeding of unavailableKeyIDs is conditional inside the loop"
						return
					}
				}
				ok = true
			})
		}
		r.Check(ok, "C11.ids", "C11.ids/keyset.NewManagerFromHandle/seed", p.FuncPos(f), why, "complete range loop records every entry's fixedID")
		// fromKeysetEntries copies keyID -> fixedID
		if g := p.PkgFunc("keyset", "fromKeysetEntries"); g != nil {
			okc := false
			scan := func(fn *ssa.Function) {
				allInstrs(fn, func(ins ssa.Instruction) {
					if _, field, val, isS := guard.StoreField(ins); isS && field == "fixedID" {
						if _, f2, isF := guard.FieldOf(val); isF && f2 == "keyID" {
							okc = true
						}
					}
				})
			}
			scan(g)
			allInstrs(g, func(ins ssa.Instruction) {
				if call, isCall := ins.(*ssa.Call); isCall {
					if h := call.Call.StaticCallee(); h != nil && h.Blocks != nil && h.Pkg == g.Pkg {
						scan(h)
					}
				}
			})
			r.Check(okc, "C11.ids", "C11.ids/keyset.fromKeysetEntries/fixedID=keyID", p.FuncPos(g), "manager entries are not built with the handle entry's key ID", "fixedID := e.keyID")
		}
	}
	// (e) WithFixedID cannot override an ID requirement
	if f := p.PkgFunc("keyset", "WithFixedID"); f == nil || len(f.AnonFuncs) != 1 {
		r.AnchorMissing("C11.ids", "keyset.WithFixedID closure")
	} else {
		cl := f.AnonFuncs[0]
		done := false
		allInstrs(cl, func(ins ssa.Instruction) {
			_, field, val, ok := guard.StoreField(ins)
			if !ok || field != "fixedID" {
				return
			}
			done = true
			// every path: !isRequired or idReq == id
			good := everyPathHas(ins.Block(), func(fs []guard.Fact) bool {
				for _, fct := range fs {
					if ex, isE := fct.Cond.(*ssa.Extract); isE && ex.Index == 1 && !fct.True {
						if call, _ := guard.CallOf(ex); call != nil && call.Call.IsInvoke() && call.Call.Method.Name() == "IDRequirement" {
							return true
						}
					}
					if op, x, y, isC := guard.Cmp(fct); isC && op == token.EQL {
						cx, ix := guard.CallOf(x)
						cy, iy := guard.CallOf(y)
						if (cx != nil && ix == 0 && cx.Call.IsInvoke() && cx.Call.Method.Name() == "IDRequirement" && guard.SameValue(y, val)) ||
							(cy != nil && iy == 0 && cy.Call.IsInvoke() && cy.Call.Method.Name() == "IDRequirement" && guard.SameValue(x, val)) {
							return true
						}
					}
				}
				return false
			})
			r.Check(good, "C11.ids", "C11.ids/keyset.WithFixedID/fixedID=id", p.Pos(ins.Pos()), "WithFixedID can give a key with an ID requirement a different ID", "every path: key has no ID requirement or the requirement equals id")
		})
		if !done {
			r.AnchorMissing("C11.ids", "store to fixedID in WithFixedID")
		}
		// the option takes effect whenever it succeeds: every success return is
		// dominated by the stores fixedID = id and hasFixedID = true (no ID value,
		// 0 included, is treated as "none given")
		allSet := true
		nRet := 0
		for _, ret := range guard.SuccessReturns(cl) {
			nRet++
			idSet, flagSet := false, false
			allInstrs(cl, func(ins ssa.Instruction) {
				_, field, val, ok := guard.StoreField(ins)
				if !ok || !(ins.Block() == ret.Block() || ins.Block().Dominates(ret.Block())) {
					return
				}
				if field == "fixedID" {
					idSet = true
				}
				if field == "hasFixedID" {
					if b, isC := guard.ConstBool(val); isC && b {
						flagSet = true
					}
				}
			})
			if !idSet || !flagSet {
				allSet = false
			}
		}
		r.Check(allSet && nRet > 0, "C11.ids", "C11.ids/keyset.WithFixedID/takes effect", p.FuncPos(cl), "WithFixedID can succeed without fixing the ID (some ID value is treated as 'none given'): the key then gets a random ID instead of the requested one", "every success return dominated by fixedID = id and hasFixedID = true")
	}
	// (f) Add passes the ID as ID requirement unless RAW
	for _, m := range methods {
		if m.Name() != "Add" {
			continue
		}
		raw, okRaw := constOf(p, "proto/tink_go_proto", "OutputPrefixType_RAW")
		nsites := 0
		// key creation sites: in Add itself or in a helper of the package it calls
		// (then the helper's parameter stands for Add's argument)
		type csite struct {
			ins  *ssa.Call
			name string
			arg  ssa.Value
		}
		var csites []csite
		collect := func(fn *ssa.Function, subst map[ssa.Value]ssa.Value) {
			allInstrs(fn, func(ins ssa.Instruction) {
				call, ok := ins.(*ssa.Call)
				if !ok {
					return
				}
				name := guard.CalleeName(&call.Call)
				var arg ssa.Value
				switch {
				case strings.HasSuffix(name, "keygenregistry.CreateKey"):
					arg = call.Call.Args[1]
				case strings.HasSuffix(name, "protoserialization.NewKeySerialization"):
					arg = call.Call.Args[2]
				default:
					return
				}
				if a, has := subst[guard.Strip(arg)]; has {
					arg = a
				}
				csites = append(csites, csite{call, name, arg})
			})
		}
		collect(m, nil)
		allInstrs(m, func(ins ssa.Instruction) {
			if call, ok := ins.(*ssa.Call); ok {
				if g := call.Call.StaticCallee(); g != nil && g.Blocks != nil && g.Pkg == m.Pkg && g != m {
					subst := map[ssa.Value]ssa.Value{}
					for i, prm := range g.Params {
						if i < len(call.Call.Args) {
							subst[prm] = call.Call.Args[i]
						}
					}
					collect(g, subst)
				}
			}
		})
		for _, cs := range csites {
			ins, name, arg := cs.ins, cs.name, cs.arg
			nsites++
			key := fmt.Sprintf("C11.ids/(*keyset.Manager).Add/idRequirement->%s", name[strings.LastIndex(name, ".")+1:])
			phi, isPhi := guard.Strip(arg).(*ssa.Phi)
			good := false
			if isPhi && okRaw && len(phi.Edges) == 2 {
				var zeroPred, idPred *ssa.BasicBlock
				for i, e := range phi.Edges {
					if v, isC := guard.ConstInt(e); isC && v == 0 {
						zeroPred = phi.Block().Preds[i]
					} else if isNewRandomKeyID(e) {
						idPred = phi.Block().Preds[i]
					}
				}
				if zeroPred != nil && idPred != nil {
					// the ID edge is taken exactly when prefix type != RAW
					for _, f := range edgeFactsInto(idPred, phi.Block()) {
						if op, x, y, isC := guard.Cmp(f); isC && op == token.NEQ && (isConstEq(y, raw) || isConstEq(x, raw)) {
							good = true
						}
					}
				}
			}
			r.Check(good, "C11.ids", key, p.Pos(ins.Pos()), "Add does not pass exactly (keyID unless RAW, else 0) as the new key's ID requirement", "idRequirement = phi[0 if RAW, newRandomKeyID() otherwise]")
		}
		if nsites < 2 {
			r.AnchorMissing("C11.ids", "key creation sites in Manager.Add")
		}
	}
	r.Min("C11.ids", 8)
	_ = n
}

// edgeFactsInto: facts known when control enters `to` from `from` (from's
// own block facts plus the branch taken).
func edgeFactsInto(from, to *ssa.BasicBlock) []guard.Fact {
	fs := guard.BlockFacts(from)
	if len(from.Succs) == 2 {
		if iff, ok := from.Instrs[len(from.Instrs)-1].(*ssa.If); ok {
			cond := iff.Cond
			t := from.Succs[0] == to
			for {
				u, ok := cond.(*ssa.UnOp)
				if !ok || u.Op != token.NOT {
					break
				}
				cond, t = u.X, !t
			}
			fs = append(fs, guard.Fact{Cond: cond, True: t})
		}
	}
	return fs
}

// ---------------------------------------------------------------- isolation

func c11Isolation(c *Ctx) {
	p, r := c.P, c.R
	a := c.Eff()
	check := func(f *ssa.Function, label string) {
		if f == nil {
			r.AnchorMissing("C11.isolation", label)
			return
		}
		s := a.Sum[f]
		bad := ""
		for j := range s.RA {
			for _, m := range []map[effects.SRoot]effects.Why{s.RA[j], s.RC[j]} {
				for sr, w := range m {
					if sr.Kind == effects.RParam && sr.Idx == 0 && (sr.Depth == 1 || sr.Depth == 2) {
						// depth 1: the entries array / maps held by the source; depth 2: the entry objects
						if strings.Contains(w.Desc+w.OriginDesc, "annotations") {
							continue // annotations map: replaced (maps.Clone), never updated in place — obligation annotations-never-updated below
						}
						bad = fmt.Sprintf("result shares %s with the source (%s at %s)", sr, firstNonEmpty(w.OriginDesc, w.Desc), p.Pos(w.Pos))
					}
				}
			}
		}
		r.Check(bad == "", "C11.isolation", "C11.isolation/"+core.FuncID(f), p.FuncPos(f), bad, "result shares neither the entries slice (depth 1) nor entry objects (depth 2) with its source; keys (immutable) may be shared")
	}
	// the one shared object the isolation rule tolerates: the annotations map. No
	// function of package keyset updates, deletes from or clears a map loaded from
	// an `annotations` field.
	nAnn, badAnn := 0, ""
	for _, f := range pkgFuncs(p, "keyset") {
		allInstrs(f, func(ins ssa.Instruction) {
			isAnn := func(v ssa.Value) bool {
				_, fld, ok := guard.FieldOf(v)
				return ok && fld == "annotations"
			}
			switch x := ins.(type) {
			case *ssa.UnOp:
				if isAnn(x) {
					nAnn++
				}
			case *ssa.MapUpdate:
				if isAnn(x.Map) {
					badAnn = p.Pos(x.Pos())
				}
			case *ssa.Call:
				if b, ok := x.Call.Value.(*ssa.Builtin); ok && (b.Name() == "delete" || b.Name() == "clear") && len(x.Call.Args) > 0 && isAnn(x.Call.Args[0]) {
					badAnn = p.Pos(x.Pos())
				}
			}
		})
	}
	if nAnn == 0 {
		r.AnchorMissing("C11.isolation", "loads of an annotations field in package keyset")
	}
	r.Check(badAnn == "", "C11.isolation", "C11.isolation/annotations-never-updated", badAnn, "the annotations map shared between a Manager and its Handles is updated in place", fmt.Sprintf("%d loads of an annotations field, none updated/deleted/cleared in place", nAnn))
	var handle *ssa.Function
	for _, m := range methodsOf(p, "keyset", "Manager") {
		if m.Name() == "Handle" {
			handle = m
		}
	}
	check(handle, "(*keyset.Manager).Handle")
	check(p.PkgFunc("keyset", "NewManagerFromHandle"), "keyset.NewManagerFromHandle")
	// newFromEntries rejects missing primary and Unknown status
	nf := p.PkgFunc("keyset", "newFromEntries")
	if nf == nil {
		r.AnchorMissing("C11.isolation", "keyset.newFromEntries")
		return
	}
	unknown, _ := constOf(p, "keyset", "Unknown")
	noPrimary, unk := false, false
	for _, ret := range guard.SuccessReturns(nf) {
		noPrimary, unk = false, false
		for _, f := range guard.BlockFacts(ret.Block()) {
			if op, x, y, ok := guard.Cmp(f); ok && op == token.NEQ && (guard.IsNilConst(y) || guard.IsNilConst(x)) {
				if guard.IsNilConst(x) {
					x = y
				}
				if _, isPhi := guard.Strip(x).(*ssa.Phi); isPhi {
					noPrimary = true
				}
				// a search helper: every non-nil value it returns is an entry found primary
				if call, _ := guard.CallOf(x); call != nil {
					if g := call.Call.StaticCallee(); g != nil && g.Blocks != nil && g.Pkg == nf.Pkg {
						all, some := true, false
						for _, gr := range guard.Returns(g) {
							if len(gr.Results) != 1 || guard.IsNilConst(gr.Results[0]) {
								continue
							}
							some = true
							prim := false
							for _, gf := range guard.BlockFacts(gr.Block()) {
								if b, fld, isF := guard.FieldOf(gf.Cond); isF && fld == "isPrimary" && gf.True && guard.SameValue(b, gr.Results[0]) {
									prim = true
								}
								if pc, val, isB := guard.BoolCallFact(gf); isB && val && isEntryMethod(&pc.Call, "IsPrimary") && guard.SameValue(pc.Call.Args[0], gr.Results[0]) {
									prim = true
								}
							}
							if !prim {
								all = false
							}
						}
						if all && some {
							noPrimary = true
						}
					}
				}
			}
		}
		// Unknown status rejected inside the loop: a failing return guarded by KeyStatus()==Unknown
		for _, fr := range guard.Returns(nf) {
			if !guard.DefinitelyFails(fr) {
				continue
			}
			for _, f := range guard.BlockFacts(fr.Block()) {
				if op, x, y, ok := guard.Cmp(f); ok && op == token.EQL && (isConstEq(y, unknown) || isConstEq(x, unknown)) {
					unk = true
				}
				// slices.IndexFunc(entries, func(e) bool { return e.status == Unknown }) found something
				if op, x, y, ok := guard.Cmp(f); ok {
					ic, _ := guard.CallOf(x)
					k, isK := guard.ConstInt(y)
					foundSome := (op == token.GEQ && isK && k == 0) || (op == token.NEQ && isK && k == -1) || (op == token.GTR && isK && k == -1)
					if ic != nil && foundSome && strings.HasPrefix(guard.CalleeName(&ic.Call), "slices.IndexFunc") && len(ic.Call.Args) == 2 {
						var pred *ssa.Function
						switch pv := guard.Strip(ic.Call.Args[1]).(type) {
						case *ssa.Function:
							pred = pv
						case *ssa.MakeClosure:
							pred, _ = pv.Fn.(*ssa.Function)
						}
						if pred != nil {
							for _, pr := range guard.Returns(pred) {
								if bo, isB := pr.Results[0].(*ssa.BinOp); isB && bo.Op == token.EQL && (isConstEq(bo.X, unknown) || isConstEq(bo.Y, unknown)) {
									unk = true
								}
							}
						}
					}
				}
			}
		}
		r.Check(noPrimary && unk, "C11.isolation", "C11.isolation/keyset.newFromEntries/requires primary and known status", p.Pos(ret.Pos()),
			"newFromEntries can succeed without a primary entry or with an Unknown status", "success dominated by primary != nil; Unknown status returns an error")
	}
}
