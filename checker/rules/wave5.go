package rules

import (
	"fmt"
	"go/constant"
	"go/token"
	"go/types"
	"regexp"
	"sort"
	"strings"

	"golang.org/x/tools/go/ssa"

	"tinkverif/bounds"
	"tinkverif/consteval"
	"tinkverif/core"
	"tinkverif/guard"
)

// ---------------------------------------------------------------- C09.algtable
//
// The JWT algorithm tables (func(alg X.Algorithm) (…, error) in package jwt)
// map RFC 7518 algorithm names to curves, hashes and salt lengths. Folded on
// every algorithm constant named ES/RS/PS/HSnnn: an integer result (the PSS
// salt length) is nnn/8, and every enum result carries the same number in its
// name (ES512: P-521 with SHA-512).
var jwtAlgName = regexp.MustCompile(`^(ES|RS|PS|HS)(256|384|512)$`)

func c09AlgTables(c *Ctx) {
	p, r := c.P, c.R
	ev := consteval.New()
	n := 0
	for _, f := range pkgFuncs(p, "jwt") {
		if f.Parent() != nil || f.Synthetic != "" || len(f.Params) != 1 || f.Signature.Recv() != nil {
			continue
		}
		en := enumNamed(f.Params[0].Type())
		res := f.Signature.Results()
		if en == nil || res.Len() < 2 || !guard.IsErrorType(res.At(res.Len()-1).Type()) {
			continue
		}
		cs := constsOf(en)
		var names []string
		for nme := range cs {
			if jwtAlgName.MatchString(nme) {
				names = append(names, nme)
			}
		}
		sort.Strings(names)
		for _, nme := range names {
			num := jwtAlgName.FindStringSubmatch(nme)[2]
			key := fmt.Sprintf("C09.algtable/%s/%s", core.FuncID(f), nme)
			outs, ok := ev.Eval(f, []consteval.Val{{K: consteval.Const, C: cs[nme]}}, nil)
			if !ok || len(outs) != 1 {
				r.Unknown("C09.algtable", key, p.FuncPos(f), fmt.Sprintf("the table does not fold for %s (%d outcomes)", nme, len(outs)))
				continue
			}
			o := outs[0]
			if o.IsErr() {
				r.Outside("C09.algtable", key, p.FuncPos(f), "algorithm not supported by this table")
				continue
			}
			n++
			bad := ""
			for i := 0; i < res.Len()-1; i++ {
				v := o.Results[i]
				if v.K != consteval.Const || v.C.Kind() != constant.Int {
					bad = fmt.Sprintf("result %d does not fold to a constant", i)
					continue
				}
				if ren := enumNamed(res.At(i).Type()); ren != nil {
					// the constant(s) of the result type with this value
					okName := false
					var got []string
					for rn, rv := range constsOf(ren) {
						if constant.Compare(rv, token.EQL, v.C) {
							got = append(got, rn)
							if strings.Contains(rn, num) || (num == "512" && strings.Contains(rn, "521")) {
								okName = true
							}
						}
					}
					sort.Strings(got)
					if !okName {
						bad = fmt.Sprintf("%s maps to %v, which does not belong to the %s-bit family", nme, got, num)
					}
					continue
				}
				want := map[string]int64{"256": 32, "384": 48, "512": 64}[num]
				if k, exact := constant.Int64Val(v.C); !exact || k != want {
					bad = fmt.Sprintf("%s gives the length %s; RFC 7518 §3.5 sets the salt length to the hash output size, %d bytes", nme, v.C.ExactString(), want)
				}
			}
			r.Check(bad == "", "C09.algtable", key, p.FuncPos(f), bad, "curve / hash / salt length of the "+num+"-bit family")
		}
	}
	r.Counts["jwt_algorithm_table_rows"] = n
	r.Min("C09.algtable", 8)
}

// ---------------------------------------------------------------- HMAC key reaches crypto/hmac unchanged
//
// RFC 2104 shortens a key only when it is longer than the hash's block size —
// which crypto/hmac does itself, per hash. Library code must hand it the key
// as given: the key argument of every crypto/hmac.New call in the given
// packages is the constructor's key parameter or a plain copy of it (through
// fields set only that way), never a value computed from it (a digest).
func hmacKeyRaw(c *Ctx, rule string, rels ...string) {
	p, r := c.P, c.R
	inRel := map[string]bool{}
	for _, x := range rels {
		inRel[x] = true
	}
	var plain func(f *ssa.Function, v ssa.Value, depth int) (bool, string)
	plain = func(f *ssa.Function, v ssa.Value, depth int) (bool, string) {
		if depth > 5 {
			return false, "too deep"
		}
		v = guard.Strip(v)
		switch x := v.(type) {
		case *ssa.Parameter:
			return true, ""
		case *ssa.Phi:
			for _, e := range x.Edges {
				if ok, why := plain(f, e, depth+1); !ok {
					return false, why
				}
			}
			return true, ""
		case *ssa.Slice:
			if x.Low == nil && x.High == nil {
				return plain(f, x.X, depth+1)
			}
			return false, "a part of the key (" + valName(v) + ")"
		}
		// make + copy(buf, key): a copy
		if mk, isMk := v.(*ssa.MakeSlice); isMk {
			var src ssa.Value
			nCopies, other := 0, false
			for _, ref := range *mk.Referrers() {
				switch x := ref.(type) {
				case *ssa.Call:
					if b, isB := x.Call.Value.(*ssa.Builtin); isB && b.Name() == "copy" && guard.Strip(x.Call.Args[0]) == v {
						src = x.Call.Args[1]
						nCopies++
					}
				case *ssa.Store:
					if _, isIA := x.Addr.(*ssa.IndexAddr); isIA {
						other = true
					}
				case *ssa.IndexAddr:
					for _, r2 := range *x.Referrers() {
						if _, isSt := r2.(*ssa.Store); isSt {
							other = true
						}
					}
				}
			}
			if nCopies == 1 && !other {
				return plain(f, src, depth+1)
			}
			return false, "a buffer not filled by one copy of the key"
		}
		if call, _ := guard.CallOf(v); call != nil {
			if b, isB := call.Call.Value.(*ssa.Builtin); isB && b.Name() == "append" && len(call.Call.Args) == 2 {
				// append(empty, key...)
				base := guard.Strip(call.Call.Args[0])
				empty := guard.IsNilConst(base)
				if mk, isMk := base.(*ssa.MakeSlice); isMk {
					if k, isK := guard.ConstInt(mk.Len); isK && k == 0 {
						empty = true
					}
				}
				if empty {
					return plain(f, call.Call.Args[1], depth+1)
				}
				return false, "key material appended to other bytes"
			}
			n := guard.CalleeName(&call.Call)
			switch {
			case n == "bytes.Clone" || n == "slices.Clone":
				return plain(f, call.Call.Args[0], depth+1)
			case strings.HasSuffix(n, "secretdata.Bytes).Data"):
				return true, ""
			}
			return false, "the result of " + shortName(n)
		}
		if u, isU := v.(*ssa.UnOp); isU && u.Op == token.MUL {
			if fa, isFA := u.X.(*ssa.FieldAddr); isFA {
				pt, _ := fa.X.Type().Underlying().(*types.Pointer)
				if pt == nil {
					return false, "field of a non-pointer"
				}
				nStores := 0
				for _, g := range p.SortedFuncs(core.Product) {
					if g.Pkg != f.Pkg {
						continue
					}
					bad := ""
					allInstrs(g, func(ins ssa.Instruction) {
						fa2, ok := ins.(*ssa.FieldAddr)
						if !ok || fa2.Field != fa.Field || !types.Identical(fa2.X.Type(), fa.X.Type()) {
							return
						}
						for _, ref := range *fa2.Referrers() {
							if st, isSt := ref.(*ssa.Store); isSt && st.Addr == ssa.Value(fa2) {
								nStores++
								if ok2, why := plain(g, st.Val, depth+1); !ok2 {
									bad = why + " (stored in " + g.Name() + ")"
								}
							}
						}
					})
					if bad != "" {
						return false, bad
					}
				}
				return nStores > 0, "the field is never set"
			}
		}
		return false, valName(v)
	}
	n := 0
	for _, f := range p.SortedFuncs(core.Product) {
		if !inRel[core.Rel(core.PkgOf(f))] {
			continue
		}
		for _, site := range callsTo(f, "crypto/hmac.New") {
			n++
			ok, why := plain(f, site.Common().Args[1], 0)
			r.Check(ok, rule, fmt.Sprintf("%s/%s", rule, core.FuncID(f)), p.Pos(site.Pos()),
				"the key handed to crypto/hmac.New is not the key as given to the constructor but "+why+": RFC 2104 shortens a key only beyond the hash's own block size (128 bytes for SHA-384/512), which crypto/hmac does itself", "the constructor's key parameter or a plain copy of it")
		}
	}
	r.Counts["hmac_new_sites"] = n
	r.Min(rule, 1)
}

// ---------------------------------------------------------------- C07.mainkey
//
// The streaming primitives derive every segment key from the whole main key
// (HKDF ikm). Their constructors keep a copy; the copy must have the length of
// the parameter (bytes.Clone, or make(len(mainKey)) + copy), not a shorter one.
func c07MainKey(c *Ctx) {
	p, r := c.P, c.R
	n := 0
	for _, f := range pkgFuncs(p, "streamingaead/subtle") {
		if !strings.HasPrefix(f.Name(), "NewAES") || len(f.Params) == 0 || !core.IsByteSlice(f.Params[0].Type()) {
			continue
		}
		mk := f.Params[0]
		cx := bounds.NewCtx(f)
		allInstrs(f, func(ins ssa.Instruction) {
			_, fld, val, ok := guard.StoreField(ins)
			if !ok || !strings.Contains(strings.ToLower(fld), "mainkey") {
				return
			}
			n++
			key := fmt.Sprintf("C07.mainkey/%s/%s", core.FuncID(f), fld)
			good, why := false, "the stored main key is "+valName(val)
			v := guard.Strip(val)
			if call, _ := guard.CallOf(v); call != nil {
				if nme := guard.CalleeName(&call.Call); (nme == "bytes.Clone" || nme == "slices.Clone") && guard.Strip(call.Call.Args[0]) == ssa.Value(mk) {
					good = true
				}
			}
			if ms, isMk := v.(*ssa.MakeSlice); isMk {
				d := cx.Lin(ms.Len).Add(cx.LenOf(mk), -1)
				if k, isK := d.Const(); isK && k == 0 {
					// and the parameter is copied into it
					allInstrs(f, func(i2 ssa.Instruction) {
						if cc, isC := i2.(*ssa.Call); isC {
							if b, isB := cc.Call.Value.(*ssa.Builtin); isB && b.Name() == "copy" && guard.Strip(cc.Call.Args[0]) == v && guard.Strip(cc.Call.Args[1]) == ssa.Value(mk) {
								good = true
							}
						}
					})
				} else {
					why = "the copy of the main key has length " + cx.Lin(ms.Len).String() + ", not len(mainKey): key material beyond it is dropped from the HKDF input"
				}
			}
			r.Check(good, "C07.mainkey", key, p.Pos(ins.Pos()), why, "a full-length copy of the mainKey parameter")
		})
	}
	r.Counts["main_key_copies"] = n
	r.Min("C07.mainkey", 2)
}

// ---------------------------------------------------------------- C17.prefixmatch
//
// The key-derivation parameters parser must refuse a template whose output
// prefix type differs from that of the embedded derived-key template: the
// manager derives the ID requirement from the outer one, the derived key's
// prefix from the inner one. Folded with the two GetOutputPrefixType() results
// bound to every pair of distinct constants: no success.
func c17PrefixMatch(c *Ctx) {
	p, r := c.P, c.R
	var f *ssa.Function
	for _, m := range methodsOf(p, "keyderivation/prfbasedkeyderivation", "parametersParser") {
		if m.Name() == "Parse" {
			f = m
		}
	}
	if f == nil || len(f.Params) != 2 {
		r.AnchorMissing("C17.prefixmatch", "(*prfbasedkeyderivation.parametersParser).Parse")
		return
	}
	var outer, inner []*ssa.Call
	allInstrs(f, func(ins ssa.Instruction) {
		call, ok := ins.(*ssa.Call)
		if !ok || !strings.HasSuffix(guard.CalleeName(&call.Call), ").GetOutputPrefixType") {
			return
		}
		if guard.Strip(call.Call.Args[0]) == ssa.Value(f.Params[1]) {
			outer = append(outer, call)
		} else {
			inner = append(inner, call)
		}
	})
	if len(outer) == 0 || len(inner) == 0 {
		r.AnchorMissing("C17.prefixmatch", "the two GetOutputPrefixType() calls of the parameters parser")
		return
	}
	pts := enumConsts(p, tinkpbPath, "OutputPrefixType")
	var names []string
	for nme := range pts {
		names = append(names, nme)
	}
	sort.Strings(names)
	bad := ""
	nPairs := 0
	for _, a := range names {
		for _, b := range names {
			if a == b {
				continue
			}
			env := consteval.Env{}
			for _, cl := range outer {
				env[cl] = consteval.Val{K: consteval.Const, C: pts[a]}
			}
			for _, cl := range inner {
				env[cl] = consteval.Val{K: consteval.Const, C: pts[b]}
			}
			ev := consteval.New()
			ev.MaxDepth, ev.Fuel = 2, 60000
			outs, ok := ev.Eval(f, []consteval.Val{{K: consteval.Ref}, {K: consteval.Ref}}, env)
			nPairs++
			can := !ok
			for _, o := range outs {
				if !o.IsErr() && !guard.DefinitelyFails(o.Ret) {
					can = true
				}
			}
			if can && bad == "" {
				bad = fmt.Sprintf("a key-derivation template with output prefix type %s whose derived-key template has %s can be parsed: the ID requirement follows the outer type, the derived key's prefix the inner one", strings.TrimPrefix(a, "OutputPrefixType_"), strings.TrimPrefix(b, "OutputPrefixType_"))
			}
		}
	}
	r.Check(bad == "", "C17.prefixmatch", "C17.prefixmatch/(*prfbasedkeyderivation.parametersParser).Parse", p.FuncPos(f), bad, fmt.Sprintf("all %d pairs of distinct prefix types are refused", nPairs))
}

// ---------------------------------------------------------------- C12.lossless
//
// A key type's Parameters object is what Equal compares. Every scalar the
// Parameters expose through a getter must be looked at by the serializers —
// written into the proto, or pinned by a guard that refuses other values —
// otherwise two different parameters serialise to the same bytes and
// parse(serialize(p)) is not Equal to p. For each key package: every exported
// niladic method of *Parameters with an integer/enum/bool result is called in
// (or in a helper of the package reached from) parametersSerializer.Serialize
// and keySerializer.SerializeKey.
func c12Lossless(c *Ctx) {
	p, r := c.P, c.R
	n := 0
	for _, path := range sortedPkgPaths(p) {
		pk := p.ByPath[path]
		if pk == nil || core.ClassOf(path) != core.Product {
			continue
		}
		rel := core.Rel(path)
		obj, _ := pk.Types.Scope().Lookup("Parameters").(*types.TypeName)
		if obj == nil {
			continue
		}
		named, _ := obj.Type().(*types.Named)
		if named == nil {
			continue
		}
		var sers []*ssa.Function
		// only the parameters serializer: a key serializer may leave to the key material
		// what the parser re-derives from it (key size from the key bytes, modulus size
		// from the modulus)
		for _, m := range methodsOf(p, rel, "parametersSerializer") {
			if m.Name() == "Serialize" {
				sers = append(sers, m)
			}
		}
		if len(sers) == 0 {
			continue
		}
		// getters of scalar state
		ms := p.SSA.MethodSets.MethodSet(types.NewPointer(named))
		for i := 0; i < ms.Len(); i++ {
			m := ms.At(i).Obj().(*types.Func)
			sig := m.Type().(*types.Signature)
			if !m.Exported() || sig.Params().Len() != 0 || sig.Results().Len() != 1 || m.Name() == "HasIDRequirement" {
				continue
			}
			bt, isB := sig.Results().At(0).Type().Underlying().(*types.Basic)
			if !isB || bt.Info()&(types.IsInteger|types.IsBoolean) == 0 {
				continue
			}
			getter := p.SSA.MethodValue(ms.At(i))
			if getter == nil {
				continue
			}
			// only plain getters `return p.field`: a getter that recombines other state is not state
			fieldIdx := -1
			if len(getter.Blocks) == 1 {
				for _, ins := range getter.Blocks[0].Instrs {
					if ret, isR := ins.(*ssa.Return); isR && len(ret.Results) == 1 {
						if u, isU := guard.Strip(ret.Results[0]).(*ssa.UnOp); isU && u.Op == token.MUL {
							if fa, isFA := u.X.(*ssa.FieldAddr); isFA && guard.Strip(fa.X) == ssa.Value(getter.Params[0]) {
								fieldIdx = fa.Field
							}
						}
					}
				}
			}
			if fieldIdx < 0 {
				continue
			}
			for _, ser := range sers {
				n++
				used := false
				seen := map[*ssa.Function]bool{}
				var visit func(g *ssa.Function, depth int)
				visit = func(g *ssa.Function, depth int) {
					if g == nil || seen[g] || depth > 3 || g.Blocks == nil {
						return
					}
					seen[g] = true
					allInstrs(g, func(ins ssa.Instruction) {
						// the field read directly
						if fa, isFA := ins.(*ssa.FieldAddr); isFA && fa.Field == fieldIdx {
							if pt, isP := fa.X.Type().Underlying().(*types.Pointer); isP && types.Identical(pt.Elem(), named) {
								used = true
							}
						}
						call, ok := ins.(*ssa.Call)
						if !ok {
							return
						}
						callee := call.Call.StaticCallee()
						if callee == getter {
							used = true
						}
						// another method of Parameters that reads the field (HasIDRequirement from variant, …)
						if callee != nil && callee.Signature.Recv() != nil && core.NamedOf(callee.Signature.Recv().Type()) == named {
							visit(callee, depth+1)
						}
						if callee != nil && callee.Pkg == ser.Pkg {
							visit(callee, depth+1)
						}
					})
				}
				visit(ser, 0)
				r.Check(used, "C12.lossless", fmt.Sprintf("C12.lossless/%s/%s", core.FuncID(ser), m.Name()), p.FuncPos(ser),
					fmt.Sprintf("the serializer never looks at Parameters.%s(): parameters that differ only there serialise to the same bytes, so the parsed object is not Equal to the original (the parser can only guess the value)", m.Name()), "read by the serializer")
			}
		}
	}
	r.Counts["parameter_getters_x_serializers"] = n
	r.Min("C12.lossless", 40)
}

// ---------------------------------------------------------------- C12.writeerr
//
// keyset.keysetMaterial returns nil when a key of the handle cannot be
// serialised (it swallows the error). A cleartext writer that hands that value
// to keyset.Writer.Write unchecked writes an empty keyset and reports success.
// Every Writer.Write call in insecurecleartextkeyset / testkeyset whose
// argument comes from KeysetMaterial is dominated by a non-nil test of it.
func c12WriteErr(c *Ctx) {
	p, r := c.P, c.R
	n := 0
	for _, rel := range []string{"insecurecleartextkeyset", "testkeyset"} {
		for _, f := range pkgFuncs(p, rel) {
			allInstrs(f, func(ins ssa.Instruction) {
				call, ok := ins.(*ssa.Call)
				if !ok || !call.Call.IsInvoke() || call.Call.Method.Name() != "Write" || len(call.Call.Args) != 1 {
					return
				}
				if core.TypeID(call.Call.Value.Type()) != "keyset.Writer" {
					return
				}
				arg := guard.Strip(call.Call.Args[0])
				src, _ := guard.CallOf(arg)
				if src == nil || !strings.Contains(strings.ToLower(guard.CalleeName(&src.Call)), "keysetmaterial") {
					// the internal hook is called through a package-level function variable
					if src == nil || src.Call.StaticCallee() != nil {
						return
					}
				}
				n++
				good := false
				for _, fct := range guard.InstrFacts(call) {
					if bo, isB := fct.Cond.(*ssa.BinOp); isB {
						for _, pr := range [][2]ssa.Value{{bo.X, bo.Y}, {bo.Y, bo.X}} {
							if guard.Strip(pr[0]) == arg && guard.IsNilConst(pr[1]) {
								if (bo.Op == token.NEQ && fct.True) || (bo.Op == token.EQL && !fct.True) {
									good = true
								}
							}
						}
					}
				}
				r.Check(good, "C12.writeerr", fmt.Sprintf("C12.writeerr/%s", core.FuncID(f)), p.Pos(ins.Pos()),
					"the keyset material (nil when a key cannot be serialised) is handed to the writer unchecked: an empty keyset is written and success reported", "dominated by a non-nil test of the keyset material")
			})
		}
	}
	r.Counts["cleartext_writer_calls"] = n
	r.Min("C12.writeerr", 2)
}

// ---------------------------------------------------------------- C12.rsapad
//
// RSA private key components are serialised at fixed widths: d as long as n,
// dP and qInv (crt) as long as p, dQ as long as q (RFC 8017: dP < p, dQ < q,
// qInv < p). Padding a component to the width of the other prime refuses (or
// truncates) valid keys whose primes differ in length. Confirmed table over
// the Pad calls of internal/signature.AdjustEncodingLengths, by parameter name.
func c12RSAPad(c *Ctx) {
	p, r := c.P, c.R
	f := p.PkgFunc("internal/signature", "AdjustEncodingLengths")
	if f == nil {
		r.AnchorMissing("C12.rsapad", "internal/signature.AdjustEncodingLengths")
		return
	}
	want := map[string]string{"d": "n", "dp": "p", "dq": "q", "crt": "p"}
	seen := map[string]bool{}
	paramName := func(v ssa.Value) string {
		if prm, ok := guard.Strip(v).(*ssa.Parameter); ok {
			return prm.Name()
		}
		return ""
	}
	allInstrs(f, func(ins ssa.Instruction) {
		call, ok := ins.(*ssa.Call)
		if !ok || !strings.HasSuffix(guard.CalleeName(&call.Call), "internal/signature.Pad") || len(call.Call.Args) != 2 {
			return
		}
		comp := paramName(call.Call.Args[0])
		w, has := want[comp]
		if !has {
			return
		}
		seen[comp] = true
		got := ""
		if lc, _ := guard.CallOf(call.Call.Args[1]); lc != nil {
			if b, isB := lc.Call.Value.(*ssa.Builtin); isB && b.Name() == "len" {
				got = paramName(lc.Call.Args[0])
			}
		}
		r.Check(got == w, "C12.rsapad", "C12.rsapad/AdjustEncodingLengths/"+comp, p.Pos(ins.Pos()),
			fmt.Sprintf("%s is padded to len(%s); its width is that of %s (RFC 8017 §3.2): keys whose primes differ in byte length are refused or their component truncated", comp, got, w), "Pad("+comp+", len("+w+"))")
	})
	for comp := range want {
		if !seen[comp] {
			r.Bad("C12.rsapad", "C12.rsapad/AdjustEncodingLengths/"+comp, p.FuncPos(f), "component "+comp+" is not padded to a fixed width")
		}
	}
}

// ---------------------------------------------------------------- C12.enumnames
//
// Enum -> string tables (String() methods and helpers) carry hash, curve and
// algorithm names from the key parameters to the subtle constructors, which
// select the algorithm by that name. Folded on every constant of the enum:
// (injective) two constants with different values do not map to the same
// non-empty name; (agreement) a constant does not map to the canonical name of
// another constant of the same type (SHA384 -> "SHA512", or SHA224 and SHA384
// swapped) unless it is also its own.
func c12EnumNames(c *Ctx) {
	p, r := c.P, c.R
	norm := func(s string) string {
		var b strings.Builder
		for _, ch := range strings.ToUpper(s) {
			if (ch >= 'A' && ch <= 'Z') || (ch >= '0' && ch <= '9') {
				b.WriteRune(ch)
			}
		}
		return b.String()
	}
	ev := consteval.New()
	n := 0
	for _, f := range p.SortedFuncs(core.Product) {
		if f.Parent() != nil || f.Synthetic != "" || len(f.Params) != 1 || len(f.Blocks) == 0 {
			continue
		}
		en := enumNamed(f.Params[0].Type())
		res := f.Signature.Results()
		if en == nil || res.Len() == 0 || res.Len() > 2 {
			continue
		}
		if b, ok := res.At(0).Type().Underlying().(*types.Basic); !ok || b.Info()&types.IsString == 0 {
			continue
		}
		if res.Len() == 2 && !guard.IsErrorType(res.At(1).Type()) {
			continue
		}
		if core.ClassOf(en.Obj().Pkg().Path()) != core.Product {
			continue // proto enums have generated String methods
		}
		consts := constsOf(en)
		var names []string
		for nme := range consts {
			names = append(names, nme)
		}
		sort.Strings(names)
		got := map[string]string{} // constant -> string
		for _, nme := range names {
			outs, ok := ev.Eval(f, []consteval.Val{{K: consteval.Const, C: consts[nme]}}, nil)
			if !ok || len(outs) != 1 || outs[0].IsErr() || outs[0].Results[0].K != consteval.Const || outs[0].Results[0].C.Kind() != constant.String {
				continue
			}
			got[nme] = constant.StringVal(outs[0].Results[0].C)
		}
		if len(got) < 2 {
			continue
		}
		n++
		bad := ""
		for _, a := range names {
			sa, okA := got[a]
			if !okA || sa == "" || strings.HasPrefix(strings.ToLower(sa), "unknown") || strings.HasPrefix(strings.ToLower(sa), "unspecified") {
				continue
			}
			for _, b := range names {
				if a == b || constant.Compare(consts[a], token.EQL, consts[b]) {
					continue
				}
				if sb, okB := got[b]; okB && sb == sa {
					bad = fmt.Sprintf("%s and %s both map to %q", a, b, sa)
				}
				// a's string is b's canonical name, and not a's own
				if norm(sa) == norm(b) && norm(sa) != norm(a) && !strings.Contains(norm(a), norm(sa)) {
					bad = fmt.Sprintf("%s maps to %q, the name of %s", a, sa, b)
				}
			}
		}
		r.Check(bad == "", "C12.enumnames", "C12.enumnames/"+core.FuncID(f), p.FuncPos(f),
			"an enum-to-name table hands out the wrong name: "+bad+" — the subtle layer selects the algorithm by this name, so keys of that parameter value compute with another algorithm than their parameters (and their serialization) say", fmt.Sprintf("%d constants map to distinct names, none to another constant's name", len(got)))
	}
	r.Counts["enum_name_tables"] = n
	r.Min("C12.enumnames", 20)
}

// c09AudKind: validateAudienceClaim lets a present 'aud' value through only when
// it is a string or a list — every path to a success return passes val == nil,
// or a successful type test for *Value_StringValue or *Value_ListValue. The
// validator's audience loop relies on it: Audiences() of any other kind (null,
// number, bool, struct) is an empty list, for which the loop finds no mismatch.
func c09AudKind(c *Ctx) {
	p, r := c.P, c.R
	rule := "C09.audkind"
	f := p.PkgFunc("jwt", "validateAudienceClaim")
	if f == nil || len(f.Params) != 1 {
		r.AnchorMissing(rule, "jwt.validateAudienceClaim")
		return
	}
	kindOK := func(fs []guard.Fact) bool {
		for _, fct := range fs {
			if op, x, y, isC := guard.Cmp(fct); isC && op == token.EQL {
				if (guard.IsNilConst(y) && guard.Strip(x) == ssa.Value(f.Params[0])) || (guard.IsNilConst(x) && guard.Strip(y) == ssa.Value(f.Params[0])) {
					return true
				}
			}
			ex, isEx := fct.Cond.(*ssa.Extract)
			if !isEx || !fct.True || ex.Index != 1 {
				continue
			}
			ta, isTA := ex.Tuple.(*ssa.TypeAssert)
			if !isTA {
				continue
			}
			tn := ta.AssertedType.String()
			if strings.HasSuffix(tn, "structpb.Value_StringValue") || strings.HasSuffix(tn, "structpb.Value_ListValue") {
				return true
			}
		}
		return false
	}
	bad := ""
	n := 0
	for _, ret := range guard.SuccessReturns(f) {
		n++
		if !everyPathHas(ret.Block(), kindOK) {
			bad = p.Pos(ret.Pos())
		}
	}
	r.Check(bad == "" && n > 0, rule, rule+"/validateAudienceClaim", p.FuncPos(f),
		"an 'aud' claim that is neither a string nor a list can pass validation (success return at "+bad+"): Audiences() is then empty and the validator's audience loop accepts any expected audience",
		"every path to success: val == nil, or kind is string, or kind is list")
	r.Min(rule, 1)
}

// c14RSACarry: the JWT layer builds the RSA signature key it delegates to from the
// JWT key's own parameters. The RSA strength checks (modulus size, exponent) run
// on the delegated key, so they judge the JWT key only if its modulus size and
// public exponent are carried over — each such field/argument is the result of the
// JWT parameters' getter of that name, never a constant.
func c14RSACarry(c *Ctx) {
	p, r := c.P, c.R
	rule := "C14.rsacarry"
	getterOf := func(v ssa.Value, names ...string) bool {
		call, _ := guard.CallOf(v)
		if call == nil {
			return false
		}
		var m string
		if call.Call.IsInvoke() {
			m = call.Call.Method.Name()
		} else if cal := call.Call.StaticCallee(); cal != nil && cal.Signature.Recv() != nil {
			m = cal.Name()
		}
		for _, n := range names {
			if m == n {
				return true
			}
		}
		return false
	}
	n := 0
	for _, f := range pkgFuncs(p, "jwt") {
		allInstrs(f, func(ins ssa.Instruction) {
			if base, fld, val, isS := guard.StoreField(ins); isS && strings.HasSuffix(core.TypeID(base.Type()), ".ParametersValues") {
				switch fld {
				case "PublicExponent":
					n++
					r.Check(getterOf(val, "PublicExponent"), rule, fmt.Sprintf("%s/%s/PublicExponent", rule, core.FuncID(f)), p.Pos(ins.Pos()),
						"the delegated RSA key's public exponent is not the JWT key's PublicExponent(): the exponent check then judges another value", "= jwtParams.PublicExponent()")
				case "ModulusSizeBits":
					n++
					r.Check(getterOf(val, "ModulusSizeInBits", "ModulusSizeBits"), rule, fmt.Sprintf("%s/%s/ModulusSizeBits", rule, core.FuncID(f)), p.Pos(ins.Pos()),
						"the delegated RSA key's modulus size is not the JWT key's ModulusSizeInBits()", "= jwtParams.ModulusSizeInBits()")
				}
			}
			call, ok := ins.(*ssa.Call)
			if !ok {
				return
			}
			callee := call.Call.StaticCallee()
			if callee == nil || callee.Name() != "NewParameters" || core.Rel(core.PkgOf(callee)) != "signature/rsassapkcs1" {
				return
			}
			for i, prm := range callee.Params {
				if i >= len(call.Call.Args) {
					continue
				}
				low := strings.ToLower(prm.Name())
				switch {
				case strings.Contains(low, "exponent"):
					n++
					r.Check(getterOf(call.Call.Args[i], "PublicExponent"), rule, fmt.Sprintf("%s/%s/NewParameters exponent", rule, core.FuncID(f)), p.Pos(ins.Pos()),
						"the delegated RSA key's public exponent is not the JWT key's PublicExponent(): the exponent check then judges another value", "= jwtParams.PublicExponent()")
				case strings.Contains(low, "modulus"):
					n++
					r.Check(getterOf(call.Call.Args[i], "ModulusSizeInBits", "ModulusSizeBits"), rule, fmt.Sprintf("%s/%s/NewParameters modulus", rule, core.FuncID(f)), p.Pos(ins.Pos()),
						"the delegated RSA key's modulus size is not the JWT key's ModulusSizeInBits()", "= jwtParams.ModulusSizeInBits()")
				}
			}
		})
	}
	r.Counts["rsa_carry_sites"] = n
	r.Min(rule, 4)
}

// c17ReadSize: a key deriver reads from the PRF stream exactly the number of bytes
// the key constructor it feeds will insist on — the size expression of the buffer
// handed to io.ReadFull (a constant, or a getter of the parameters) is the one the
// constructor compares the key length with. Reading by another getter of the same
// parameters (derived-key size instead of key size) makes derivation fail, or
// succeed with the wrong amount of key material, for parameter sets where the two
// differ.
func c17ReadSize(c *Ctx) {
	p, r := c.P, c.R
	rule := "C17.readsize"
	// size descriptor of an integer value: "const:N" or "getter:Name"
	var desc func(v ssa.Value, depth int) string
	desc = func(v ssa.Value, depth int) string {
		if depth > 4 {
			return ""
		}
		if k, ok := guard.ConstInt(v); ok {
			return fmt.Sprintf("const:%d", k)
		}
		switch x := v.(type) {
		case *ssa.Convert:
			return desc(x.X, depth+1)
		case *ssa.ChangeType:
			return desc(x.X, depth+1)
		case *ssa.Call:
			if cal := x.Call.StaticCallee(); cal != nil && cal.Signature.Recv() != nil && len(x.Call.Args) == 1 && strings.HasSuffix(core.TypeID(cal.Signature.Recv().Type()), ".Parameters") {
				return "getter:" + cal.Name()
			}
		}
		return ""
	}
	n := 0
	for _, f := range pkgFuncs(p, "keyderivation/internal/keyderivers") {
		for _, cl := range withClosures(f) {
			if cl == f || cl.Blocks == nil {
				continue
			}
			// readSizeOf: the size descriptor of the buffer an io.ReadFull in g fills; for a
			// helper of the package the descriptor of its size parameter is taken at the call
			bufDesc := func(bufV ssa.Value, d func(ssa.Value) string) string {
				switch b := guard.Strip(bufV).(type) {
				case *ssa.MakeSlice:
					return d(b.Len)
				case *ssa.Slice:
					if al, isAl := b.X.(*ssa.Alloc); isAl && b.Low == nil && b.High == nil {
						if at, isArr := al.Type().Underlying().(*types.Pointer).Elem().Underlying().(*types.Array); isArr {
							return fmt.Sprintf("const:%d", at.Len())
						}
					}
				}
				return ""
			}
			allInstrs(cl, func(ins ssa.Instruction) {
				call, ok := ins.(*ssa.Call)
				if !ok {
					return
				}
				var buf ssa.Value
				read := ""
				if n := guard.CalleeName(&call.Call); (n == "io.ReadFull" && len(call.Call.Args) == 2) || (n == "io.ReadAtLeast" && len(call.Call.Args) == 3) {
					buf = guard.Strip(call.Call.Args[1])
					read = bufDesc(buf, func(v ssa.Value) string { return desc(v, 0) })
				} else if h := call.Call.StaticCallee(); h != nil && h.Blocks != nil && h.Pkg == cl.Pkg && h != cl {
					// readKeyMaterial(reader, size, token): the helper reads make([]byte, size)
					allInstrs(h, func(hi ssa.Instruction) {
						hc, isHC := hi.(*ssa.Call)
						if !isHC || !(guard.CalleeName(&hc.Call) == "io.ReadFull" || guard.CalleeName(&hc.Call) == "io.ReadAtLeast") || len(hc.Call.Args) < 2 {
							return
						}
						d := bufDesc(hc.Call.Args[1], func(v ssa.Value) string {
							for v2 := v; ; {
								if cv, isCv := v2.(*ssa.Convert); isCv {
									v2 = cv.X
									continue
								}
								if prm, isP := v2.(*ssa.Parameter); isP {
									for i, q := range h.Params {
										if q == prm && i < len(call.Call.Args) {
											return desc(call.Call.Args[i], 0)
										}
									}
								}
								break
							}
							return desc(v, 0)
						})
						if d != "" {
							read = d
							buf = call
						}
					})
				}
				if read == "" {
					return
				}
				// the constructor the buffer (wrapped as secretdata.Bytes) is handed to
				var ctor *ssa.Function
				allInstrs(cl, func(i2 ssa.Instruction) {
					c2, isC := i2.(*ssa.Call)
					if !isC {
						return
					}
					cal := c2.Call.StaticCallee()
					if cal == nil || cal.Blocks == nil || !strings.HasPrefix(cal.Name(), "New") || core.Rel(core.PkgOf(cal)) == "secretdata" || !strings.HasPrefix(core.PkgOf(cal), core.ModPath) {
						return
					}
					for _, a := range c2.Call.Args {
						if derivesFrom(a, buf, 0) {
							ctor = cal
						}
					}
				})
				if ctor == nil {
					return
				}
				// what the constructor compares the key length with
				want := ""
				allInstrs(ctor, func(i3 ssa.Instruction) {
					bo, isB := i3.(*ssa.BinOp)
					if !isB || (bo.Op != token.EQL && bo.Op != token.NEQ) {
						return
					}
					for _, pr := range [][2]ssa.Value{{bo.X, bo.Y}, {bo.Y, bo.X}} {
						lc, _ := guard.CallOf(pr[0])
						if lc == nil {
							continue
						}
						isLen := false
						if b, isBI := lc.Call.Value.(*ssa.Builtin); isBI && b.Name() == "len" {
							isLen = true
						} else if guard.CalleeName(&lc.Call) == "("+core.ModPath+"/secretdata.Bytes).Len" {
							isLen = true
						}
						if !isLen {
							continue
						}
						if d := desc(pr[1], 0); d != "" && want == "" {
							want = d
						}
					}
				})
				if want == "" {
					return
				}
				n++
				key := fmt.Sprintf("%s/%s -> %s.%s", rule, core.FuncID(cl), core.Rel(core.PkgOf(ctor)), ctor.Name())
				r.Check(read == want, rule, key, p.Pos(ins.Pos()),
					fmt.Sprintf("the deriver reads %s bytes from the PRF stream but %s requires a key of %s bytes", read, ctor.Name(), want),
					"read size = "+want+" = the length the key constructor requires")
			})
		}
	}
	r.Counts["deriver_read_sizes"] = n
	r.Min(rule, 4)
}
