package rules

func init() { Registry["C02"] = c02 }

func c02(c *Ctx) {
	r := c.R
	r.Explanation = "C02 is decided through structural necessary conditions over every product implementer of tink.AEAD (Decrypt) and the module functions its ciphertext reaches: " +
		"(auth) every success return is dominated by a passed authentication check — stdlib cipher.AEAD.Open, a constant-time comparison of a recomputed tag (hmac.Equal, ConstantTimeCompare==1), or the success of a module function for which the same holds (computed by fixpoint) — or forwards such a call's result; " +
		"(errprop) the verdict of every authenticating call is tested or returned, never discarded; " +
		"(prefix) when the key has an output prefix field, every success return is dominated by an exact comparison of the input's leading bytes with the whole prefix; " +
		"(tiling) the pieces sliced from the input tile it — no trailing bytes are silently ignored, so extensions cannot be accepted; " +
		"(bounds) every loop-invariant slice/index expression on ciphertext-derived data, also in callees (depth 3), is proved in bounds from the dominating length guards by a linear-arithmetic prover — no input can cause an out-of-range panic there. " +
		"(noleak) no return hands back a non-nil plaintext together with an error that may be non-nil (pairs forwarded from callees judged recursively); " +
		"(errstate) methods of a primitive that can be built in an error state (error field, nil collaborators) call through their interface-typed fields only where that error is nil — the object fails with its error instead of panicking; " +
		"(lenwidth) no message- or associated-data-length-derived value is narrowed to 32 bits or fewer without a dominating bound (the AD-length field of encrypt-then-MAC must not wrap); " +
		"Not decided: that MAC/GHASH values themselves are right; block-loop indexing (listed as outside-rule); the stdlib's Open."
	ac := newAcceptCtx(c)
	runAccept(c, ac, acceptSpec{Prop: "C02", Iface: [2]string{"tink", "AEAD"}, Method: "Decrypt", MinTypes: 12})
	r.Min("C02.auth", 12)
	r.Min("C02.bounds", 20)
	r.Min("C02.prefix", 7)
	r.Assume("receiver fields and size methods named …Size/…Len/…Length/…Offset hold non-negative values (validated at construction; see C14.strength)")
	r.Assume("cipher.AEAD.Open returns a nil error only for authentic input (stdlib contract)")
}

func init() {
	prev := Registry["C02"]
	Registry["C02"] = func(c *Ctx) {
		prev(c)
		narrowingRule(c, "C02.lenwidth", map[string]bool{"aead/aesctrhmac": true, "aead/subtle": true, "aead": true, "internal/aead": true, "aead/aesgcm": true, "aead/aesgcmsiv": true, "aead/xaesgcm": true, "aead/chacha20poly1305": true, "aead/xchacha20poly1305": true}, 0)
		errState(c, "C02.errstate", map[string]bool{"aead": true}, 2)
		if c.R.Counts["length_narrowings"] < 2 {
			c.R.AnchorMissing("C02.lenwidth", "positive control: the two known key-length narrowings in the AEAD constructors were not seen")
		}
	}
}
