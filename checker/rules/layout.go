package rules

import (
	"bytes"
	"encoding/hex"
	"fmt"
	"go/constant"

	"golang.org/x/tools/go/ssa"

	"tinkverif/consteval"
)

// foldBytes partially evaluates a pure byte-layout function on constant
// arguments (engine E with its byte-buffer domain) and returns the byte string
// it builds (result index res). why is non-empty when the function does not
// fold to a single constant outcome.
func foldBytes(f *ssa.Function, res int, args ...consteval.Val) (out []byte, isErr bool, why string) {
	ev := consteval.New()
	ev.Bytes = true
	ev.MaxDepth, ev.Fuel = 4, 200000
	outs, ok := ev.Eval(f, args, nil)
	if !ok || len(outs) != 1 {
		return nil, false, fmt.Sprintf("does not fold on constant arguments (%d outcomes, complete=%v)", len(outs), ok)
	}
	o := outs[0]
	if o.IsErr() {
		return nil, true, ""
	}
	if res >= len(o.Results) {
		return nil, false, "result index out of range"
	}
	b, isB := o.Results[res].Bytes()
	if !isB {
		return nil, false, "the result is not a constant byte string (" + o.Results[res].String() + ")"
	}
	return b, false, ""
}

// layoutCheck folds f on args and compares result res with want. decided is
// false when the function does not fold (the caller then uses its structural
// rule).
func layoutCheck(c *Ctx, rule, key string, f *ssa.Function, res int, want []byte, desc string, args ...consteval.Val) (decided bool) {
	got, isErr, why := foldBytes(f, res, args...)
	if why != "" {
		return false
	}
	p, r := c.P, c.R
	switch {
	case isErr:
		r.Bad(rule, key, p.FuncPos(f), "folded on the probe arguments the function fails; expected "+desc+" = "+hex.EncodeToString(want))
	case !bytes.Equal(got, want):
		r.Bad(rule, key, p.FuncPos(f), fmt.Sprintf("folded on the probe arguments the function builds %s; %s is %s", hex.EncodeToString(got), desc, hex.EncodeToString(want)))
	default:
		r.Ok(rule, key, p.FuncPos(f), fmt.Sprintf("folded on the probe arguments: %s = %s", desc, hex.EncodeToString(want)))
	}
	return true
}

func cat(parts ...[]byte) []byte {
	var out []byte
	for _, p := range parts {
		out = append(out, p...)
	}
	return out
}

// foldString: as foldBytes for a function whose result res is a string or a
// pointer to a string cell.
func foldString(f *ssa.Function, res int, args ...consteval.Val) (string, string) {
	return foldStringEnv(f, res, nil, args...)
}

// foldStringEnv: foldString with additional bindings (field loads / getters).
func foldStringEnv(f *ssa.Function, res int, env consteval.Env, args ...consteval.Val) (string, string) {
	ev := consteval.New()
	ev.Bytes = true
	ev.MaxDepth, ev.Fuel = 4, 200000
	outs, ok := ev.Eval(f, args, env)
	if !ok || len(outs) != 1 || res >= len(outs[0].Results) {
		return "", fmt.Sprintf("does not fold on constant arguments (%d outcomes, complete=%v)", len(outs), ok)
	}
	v := outs[0].Results[res]
	if d, isP := v.Deref(); isP {
		v = d
	}
	if v.K != consteval.Const || v.C.Kind() != constant.String {
		return "", "the result is not a constant string (" + v.String() + ")"
	}
	return constant.StringVal(v.C), ""
}
