package rules

import (
	"fmt"
	"go/token"
	"strings"

	"golang.org/x/tools/go/ssa"

	"tinkverif/core"
	"tinkverif/guard"
)

func init() { Registry["C17"] = c17 }

func c17(c *Ctx) {
	p, r := c.P, c.R
	r.Explanation = "C17's equality with RFC 5869 output and the per-type key mapping are value-level and NOT decided. Decided: " +
		"(pairing) DeriveKeyset visits every deriver in a complete loop, adds the key derived by an element with WithFixedID(that element's key ID), with the caller's salt, and calls SetPrimary(that ID) exactly under keyID == primaryKeyID; the factory side (key ID / primary from the same enabled entry) is decided under C05; the legacy wrapper keeps the entry's prefix type and uses ID requirement 0 exactly for RAW; " +
		"(deterministic) nothing in the derivation packages draws randomness: no reference to crypto/rand, the random wrappers or NewBytesFromRand, and every stdlib key generator there is fed the PRF stream reader parameter; every AddKeyWithOpts call passes WithFixedID, so the manager's random key IDs are unreachable; " +
		"(percall) registered key-deriver closures capture no mutable state (decided under C18: closures' captured memory is in their write sets)."
	c17PrefixMatch(c)
	c17ReadSize(c)
	var f *ssa.Function
	for _, m := range methodsOf(p, "keyderivation", "wrappedKeysetDeriver") {
		if m.Name() == "DeriveKeyset" {
			f = m
		}
	}
	if f == nil {
		r.AnchorMissing("C17.pairing", "(*keyderivation.wrappedKeysetDeriver).DeriveKeyset")
		return
	}
	// the loop over w.fullKeyDerivers
	var rl *rangeLoop
	var elemAddr *ssa.IndexAddr
	allInstrs(f, func(ins ssa.Instruction) {
		if ia, ok := ins.(*ssa.IndexAddr); ok && rl == nil {
			if _, fld, isF := guard.FieldOf(ia.X); isF && fld == "fullKeyDerivers" {
				rl = rangeLoopOf(ia)
				elemAddr = ia
			}
		}
	})
	if rl == nil {
		r.AnchorMissing("C17.pairing", "range loop over fullKeyDerivers")
		return
	}
	r.Check(rl.Complete || rl.CompleteButErrors, "C17.pairing", "C17.pairing/DeriveKeyset/every deriver", p.FuncPos(f), "the loop over the key derivers can be left early: some enabled keys would not be derived", "complete range loop")
	// element identity: values derived from the loop element (its address, a local copy, loads)
	fromElem := func(v ssa.Value) bool { return derivesFrom(v, elemAddr, 0) }
	// DeriveKey on the element with the salt parameter
	var derive *ssa.Call
	allInstrs(f, func(ins ssa.Instruction) {
		if call, ok := ins.(*ssa.Call); ok && strings.HasSuffix(guard.CalleeName(&call.Call), ").DeriveKey") {
			derive = call
		}
	})
	okDerive := derive != nil && len(derive.Call.Args) >= 1 && guard.Strip(derive.Call.Args[len(derive.Call.Args)-1]) == ssa.Value(f.Params[1])
	if okDerive {
		recv := derive.Call.Args[0]
		if derive.Call.IsInvoke() {
			recv = derive.Call.Value
		}
		okDerive = fromElem(recv)
	}
	r.Check(okDerive, "C17.pairing", "C17.pairing/DeriveKeyset/DeriveKey(salt)", p.FuncPos(f), "the key is not derived by the loop's own deriver from the caller's salt", "e.DeriveKey(salt)")
	// AddKeyWithOpts(derivedKey, token, WithFixedID(e.keyID))
	okAdd, okID := false, false
	var addCall *ssa.Call
	allInstrs(f, func(ins ssa.Instruction) {
		call, ok := ins.(*ssa.Call)
		if !ok || !strings.HasSuffix(guard.CalleeName(&call.Call), "keyset.Manager).AddKeyWithOpts") {
			return
		}
		addCall = call
		if dc, di := guard.CallOf(call.Call.Args[1]); dc == derive && di == 0 {
			okAdd = true
		}
	})
	allInstrs(f, func(ins ssa.Instruction) {
		call, ok := ins.(*ssa.Call)
		if !ok || !strings.HasSuffix(guard.CalleeName(&call.Call), "keyset.WithFixedID") {
			return
		}
		if _, fld, isF := guard.FieldOf(call.Call.Args[0]); isF && fld == "keyID" && fromElem(call.Call.Args[0]) {
			okID = true
		}
	})
	r.Check(addCall != nil && okAdd && okID, "C17.pairing", "C17.pairing/DeriveKeyset/AddKeyWithOpts", p.FuncPos(f), "the derived key is not added with WithFixedID(key ID of the element that derived it)", "AddKeyWithOpts(e.DeriveKey(salt), WithFixedID(e.keyID))")
	// SetPrimary(e.keyID) exactly under e.keyID == w.primaryKeyID
	okPrim := false
	nSet := 0
	allInstrs(f, func(ins ssa.Instruction) {
		call, ok := ins.(*ssa.Call)
		if !ok || !strings.HasSuffix(guard.CalleeName(&call.Call), "keyset.Manager).SetPrimary") {
			return
		}
		nSet++
		arg := call.Call.Args[1]
		_, fld, isF := guard.FieldOf(arg)
		if !isF || fld != "keyID" || !fromElem(arg) {
			return
		}
		for _, fct := range guard.InstrFacts(ins) {
			op, x, y, isC := guard.Cmp(fct)
			if !isC || op != token.EQL {
				continue
			}
			_, fx, okx := guard.FieldOf(x)
			_, fy, oky := guard.FieldOf(y)
			if okx && oky && ((fx == "keyID" && fy == "primaryKeyID" && fromElem(x)) || (fy == "keyID" && fx == "primaryKeyID" && fromElem(y))) {
				okPrim = true
			}
		}
	})
	if nSet == 0 {
		// option form: keyset.AsPrimary() is appended to the options of the add call
		// exactly under e.keyID == w.primaryKeyID
		nAs := 0
		allInstrs(f, func(ins ssa.Instruction) {
			call, ok := ins.(*ssa.Call)
			if !ok || !strings.HasSuffix(guard.CalleeName(&call.Call), "keyset.AsPrimary") {
				return
			}
			nAs++
			for _, fct := range guard.InstrFacts(ins) {
				op, x, y, isC := guard.Cmp(fct)
				if !isC || op != token.EQL {
					continue
				}
				_, fx, okx := guard.FieldOf(x)
				_, fy, oky := guard.FieldOf(y)
				if okx && oky && ((fx == "keyID" && fy == "primaryKeyID" && fromElem(x)) || (fy == "keyID" && fx == "primaryKeyID" && fromElem(y))) {
					okPrim = true
				}
			}
		})
		if nAs == 1 {
			nSet = 1
		}
	}
	r.Check(okPrim && nSet == 1, "C17.pairing", "C17.pairing/DeriveKeyset/SetPrimary", p.FuncPos(f), "SetPrimary is not called exactly for the element whose key ID equals the deriver keyset's primary key ID (e.g. primary tracked by position)", "SetPrimary(e.keyID) under e.keyID == w.primaryKeyID")
	// result is km.Handle()
	okRet := false
	for _, ret := range guard.SuccessReturns(f) {
		if hc, _ := guard.CallOf(ret.Results[0]); hc != nil && strings.HasSuffix(guard.CalleeName(&hc.Call), "keyset.Manager).Handle") {
			okRet = true
		}
	}
	r.Check(okRet, "C17.pairing", "C17.pairing/DeriveKeyset/result", p.FuncPos(f), "DeriveKeyset does not return the manager's Handle()", "returns km.Handle()")

	// legacy wrapper idRequirement: 0 exactly for RAW
	if nw := p.PkgFunc("keyderivation", "NewWithConfig"); nw != nil {
		raw, _ := constOf(p, "proto/tink_go_proto", "OutputPrefixType_RAW")
		ok := false
		for _, g := range withClosures(nw) {
			allInstrs(g, func(ins ssa.Instruction) {
				_, fld, val, isS := guard.StoreField(ins)
				if !isS || fld != "idRequirement" {
					return
				}
				phi, isPhi := guard.Strip(val).(*ssa.Phi)
				if !isPhi || len(phi.Edges) != 2 {
					return
				}
				z, id := false, false
				for i, e := range phi.Edges {
					if k, isC := guard.ConstInt(e); isC && k == 0 {
						for _, fct := range edgeFactsInto(phi.Block().Preds[i], phi.Block()) {
							if op, x, y, okc := guard.Cmp(fct); okc && op == token.EQL && (isConstEq(x, raw) || isConstEq(y, raw)) {
								z = true
							}
						}
					} else if cc, _ := guard.CallOf(e); cc != nil && isEntryMethod(&cc.Call, "KeyID") {
						id = true
					}
				}
				ok = z && id
			})
		}
		if !ok {
			// default-zero form: the wrapper is allocated with idRequirement 0 and the
			// only store sets entry.KeyID() under prefix type != RAW (here or in a helper)
			scope := withClosures(nw)
			seenFn := map[*ssa.Function]bool{}
			for _, g := range scope {
				seenFn[g] = true
			}
			for _, g := range append([]*ssa.Function{}, scope...) {
				allInstrs(g, func(ins ssa.Instruction) {
					if call, isC := ins.(*ssa.Call); isC {
						if h := call.Call.StaticCallee(); h != nil && h.Blocks != nil && h.Pkg == nw.Pkg && !seenFn[h] {
							seenFn[h] = true
							scope = append(scope, h)
						}
					}
				})
			}
			nStores, good := 0, false
			for _, g := range scope {
				allInstrs(g, func(ins ssa.Instruction) {
					_, fld, val, isS := guard.StoreField(ins)
					if !isS || fld != "idRequirement" {
						return
					}
					nStores++
					cc, _ := guard.CallOf(val)
					if cc == nil || !isEntryMethod(&cc.Call, "KeyID") {
						return
					}
					for _, fct := range guard.InstrFacts(ins) {
						if op, x, y, okc := guard.Cmp(fct); okc && op == token.NEQ && (isConstEq(x, raw) || isConstEq(y, raw)) {
							good = true
						}
					}
				})
			}
			ok = good && nStores == 1
		}
		r.Check(ok, "C17.pairing", "C17.pairing/NewWithConfig/legacy idRequirement", p.FuncPos(nw), "the legacy deriver wrapper's ID requirement is not (0 if RAW else entry.KeyID())", "phi[0 under RAW, entry.KeyID()]")
	}

	// ---- deterministic
	detPkgs := map[string]bool{"keyderivation": true, "keyderivation/internal/keyderivers": true, "keyderivation/internal/streamingprf": true, "keyderivation/prfbasedkeyderivation": true, "keyderivation/internal/keyderiver": true}
	nFns := 0
	for _, fn := range p.SortedFuncs(core.Product) {
		rel := core.Rel(core.PkgOf(fn))
		if !detPkgs[rel] {
			continue
		}
		nFns++
		bad := ""
		allInstrs(fn, func(ins ssa.Instruction) {
			for _, op := range ins.Operands(nil) {
				switch x := (*op).(type) {
				case *ssa.Global:
					if x.Pkg != nil && x.Pkg.Pkg.Path() == "crypto/rand" {
						bad = "references crypto/rand." + x.Name()
					}
				case *ssa.Function:
					n := x.String()
					if strings.HasPrefix(n, "crypto/rand.") || strings.Contains(n, "internal/random.") || strings.Contains(n, "subtle/random.") || strings.HasSuffix(n, "secretdata.NewBytesFromRand") {
						bad = "calls " + shortName(n)
					}
				}
			}
			// stdlib generators must be fed a reader parameter
			if call, ok := ins.(ssa.CallInstruction); ok {
				n := guard.CalleeName(call.Common())
				if strings.HasSuffix(n, ".GenerateKey") && (strings.HasPrefix(n, "crypto/") || strings.HasPrefix(n, "(crypto/")) {
					for _, a := range call.Common().Args {
						if isRandReader(a) {
							bad = "feeds crypto/rand.Reader to " + n
						}
					}
				}
			}
		})
		if bad != "" {
			r.Bad("C17.deterministic", "C17.deterministic/"+core.FuncID(fn), p.FuncPos(fn), "a derivation function draws randomness: "+bad)
		}
	}
	r.Ok("C17.deterministic", "C17.deterministic/no randomness in derivation packages", "-", fmt.Sprintf("%d functions scanned", nFns))
	r.Counts["derivation_functions"] = nFns
	// AddKeyWithOpts always with WithFixedID
	if addCall != nil {
		hasFixed := false
		allInstrs(f, func(ins ssa.Instruction) {
			if call, ok := ins.(*ssa.Call); ok && strings.HasSuffix(guard.CalleeName(&call.Call), "keyset.WithFixedID") {
				hasFixed = true
			}
		})
		r.Check(hasFixed, "C17.deterministic", "C17.deterministic/DeriveKeyset/fixed IDs", p.FuncPos(f), "derived keys are added without WithFixedID: the manager would draw random key IDs", "every AddKeyWithOpts carries WithFixedID")
	}
	r.Min("C17.pairing", 6)
}
