package rules

import (
	"fmt"
	"go/constant"
	"go/token"
	"go/types"
	"math/bits"
	"sort"
	"strings"
	"tinkverif/bounds"

	"golang.org/x/tools/go/ssa"

	"tinkverif/consteval"
	"tinkverif/core"
	"tinkverif/guard"
)

func init() { Registry["C10"] = c10 }

// arrayLiteral reads `var g = [N]T{c0, c1, …}` from the package initialiser.
func arrayLiteral(g *ssa.Global) map[int64]int64 {
	out := map[int64]int64{}
	init := g.Pkg.Func("init")
	if init == nil {
		return out
	}
	allInstrs(init, func(ins ssa.Instruction) {
		st, ok := ins.(*ssa.Store)
		if !ok {
			return
		}
		ia, ok := st.Addr.(*ssa.IndexAddr)
		if !ok || ia.X != ssa.Value(g) {
			return
		}
		i, ok1 := guard.ConstInt(ia.Index)
		v, ok2 := guard.ConstInt(st.Val)
		if ok1 && ok2 {
			out[i] = v
		}
	})
	return out
}

// structArgLiterals finds calls callee(T{f: c, …}) in the package initialiser
// and returns, per global the result is stored into, the constant fields.
func structArgLiterals(sp *ssa.Package, calleeName string) map[string]map[string]int64 {
	out := map[string]map[string]int64{}
	init := sp.Func("init")
	if init == nil {
		return out
	}
	allInstrs(init, func(ins ssa.Instruction) {
		call, ok := ins.(*ssa.Call)
		if !ok || call.Call.StaticCallee() == nil || call.Call.StaticCallee().Name() != calleeName || len(call.Call.Args) != 1 {
			return
		}
		fields := map[string]int64{}
		arg := call.Call.Args[0]
		var al *ssa.Alloc
		if ld, isL := arg.(*ssa.UnOp); isL {
			al, _ = ld.X.(*ssa.Alloc)
		}
		if al != nil {
			st, _ := al.Type().Underlying().(*types.Pointer).Elem().Underlying().(*types.Struct)
			for _, ref := range *al.Referrers() {
				if fa, isFA := ref.(*ssa.FieldAddr); isFA && st != nil {
					for _, r2 := range *fa.Referrers() {
						if s, isS := r2.(*ssa.Store); isS {
							if v, isC := guard.ConstInt(s.Val); isC {
								fields[st.Field(fa.Field).Name()] = v
							}
						}
					}
				}
			}
		}
		name := ""
		for _, ref := range *call.Referrers() {
			if s, isS := ref.(*ssa.Store); isS {
				if g, isG := s.Addr.(*ssa.Global); isG {
					name = g.Name()
				}
			}
		}
		if name != "" {
			out[name] = fields
		}
	})
	return out
}

func bitrev8(k int) int { return int(bits.Reverse8(uint8(k))) }

func c10(c *Ctx) {
	p, r := c.P, c.R
	r.Explanation = "C10's lattice arithmetic (NTT, Barrett reduction, Decompose, hints, packing, sampling) is value-level and NOT decided. Decided are the constants, tables, comparators and guards that KATs cannot pin for every input: " +
		"(counter) both counter bytes of ExpandMask's SHAKE input are bytes of the same sum mu + index (little-endian IntegerToBytes(mu+r, 2)); " +
		"(consts/zetas) q, d, degree, zeta, inv256 = 256^-1 mod q, and all 256 zetas = 1753^bitrev8(k) mod q recomputed by the checker; " +
		"(params) the three parameter literals equal FIPS 204 Table 1 and the public-key / secret-key / signature length formulas, folded per parameter set, give 1312/2560/2420, 1952/4032/3309, 2592/4896/4627; " +
		"(siglen) sigDecode and the key decoders accept exactly that length (folded at the length and its neighbours) before any slicing; " +
		"(hint) HintBitUnpack processes a polynomial only under cumulative-count >= running index and <= omega, rejects non-increasing indices inside a polynomial and non-zero padding; " +
		"(norms) verification succeeds only under ||z||inf < gamma1 - beta and equality of the challenge; signing emits only under the four FIPS 204 rejection bounds with exactly these operators; context length <= 255 on Sign/Verify; " +
		"(signprefix) every ML-DSA signer built from a key, including the external-mu (prehash) signer, returns outputPrefix || signature so that it verifies under the key's ordinary verifier. " +
		"Hedged randomness: C20."
	rel := "internal/signature/mldsa"
	sp := p.Pkg(rel)
	if sp == nil {
		r.AnchorMissing("C10.consts", rel)
		return
	}
	// ---- consts
	const q = 8380417
	wantC := map[string]int64{"q": q, "qBits": 23, "zeta": 1753, "degree": 256, "d": 13}
	for _, n := range []string{"q", "qBits", "zeta", "degree", "d"} {
		v, ok := constOf(p, rel, n)
		r.Check(ok && constant.Compare(v, token.EQL, constant.MakeInt64(wantC[n])), "C10.consts", "C10.consts/"+n, "-", fmt.Sprintf("constant %s is not %d (FIPS 204)", n, wantC[n]), fmt.Sprintf("= %d", wantC[n]))
	}
	if v, ok := constOf(p, rel, "inv256"); ok {
		iv, _ := constant.Int64Val(v)
		r.Check((iv*256)%q == 1, "C10.consts", "C10.consts/inv256", "-", fmt.Sprintf("inv256 = %d is not the inverse of 256 modulo q", iv), "inv256*256 mod q == 1")
	} else {
		r.AnchorMissing("C10.consts", "inv256")
	}
	// ---- zetas
	if g := sp.Var("zetas"); g == nil {
		r.AnchorMissing("C10.zetas", "zetas table")
	} else {
		lit := arrayLiteral(g)
		bad := ""
		pw := func(e int) int64 {
			res, b := int64(1), int64(1753)
			for ; e > 0; e >>= 1 {
				if e&1 == 1 {
					res = res * b % q
				}
				b = b * b % q
			}
			return res
		}
		for k := 0; k < 256; k++ {
			want := pw(bitrev8(k))
			if k == 0 {
				want = 0
			}
			got, has := lit[int64(k)]
			if !has && want == 0 {
				continue // zero elements need no store
			}
			if !has || got != want {
				bad = fmt.Sprintf("zetas[%d] = %d, FIPS 204 value 1753^bitrev8(%d) mod q = %d", k, got, k, want)
				break
			}
		}
		r.Check(bad == "" && len(lit) >= 255, "C10.zetas", "C10.zetas/table", p.Pos(g.Pos()), bad, fmt.Sprintf("%d entries equal 1753^bitrev8(k) mod q", len(lit)))
	}
	// ---- params
	type pset struct{ tau, lambda, lg1, inv2, k, l, eta, omega, pk, sk, sig int64 }
	want := map[string]pset{
		"MLDSA44": {39, 128, 17, 88, 4, 4, 2, 80, 1312, 2560, 2420},
		"MLDSA65": {49, 192, 19, 32, 6, 5, 4, 55, 1952, 4032, 3309},
		"MLDSA87": {60, 256, 19, 32, 8, 7, 2, 75, 2592, 4896, 4627},
	}
	lits := structArgLiterals(sp, "newParams")
	var names []string
	for n := range want {
		names = append(names, n)
	}
	sort.Strings(names)
	ev := consteval.New()
	for _, n := range names {
		w := want[n]
		l, ok := lits[n]
		key := "C10.params/" + n
		if !ok {
			r.AnchorMissing("C10.params", "parameter literal "+n)
			continue
		}
		good := l["tau"] == w.tau && l["lambda"] == w.lambda && l["log2Gamma1"] == w.lg1 && l["invGamma2"] == w.inv2 && l["k"] == w.k && l["l"] == w.l && l["eta"] == w.eta && l["omega"] == w.omega
		r.Check(good, "C10.params", key, p.Pos(sp.Var(n).Pos()), fmt.Sprintf("parameter literal %v differs from FIPS 204 Table 1 %+v", l, w), "tau,lambda,log2(gamma1),(q-1)/gamma2,k,l,eta,omega as in Table 1")
		// derived: etaBits = bitlen(2*eta), gamma2, w1Bits
		gamma2 := (q - 1) / w.inv2
		etaBits := int64(bits.Len(uint(2 * w.eta)))
		w1Bits := int64(bits.Len(uint((q-1)/(2*gamma2) - 1)))
		fieldVals := map[string]consteval.Val{
			"tau": consteval.C(w.tau), "lambda": consteval.C(w.lambda), "log2Gamma1": consteval.C(w.lg1), "gamma2": consteval.C(gamma2),
			"k": consteval.C(w.k), "l": consteval.C(w.l), "eta": consteval.C(w.eta), "omega": consteval.C(w.omega), "etaBits": consteval.C(etaBits), "w1Bits": consteval.C(w1Bits),
		}
		// length formulas
		for _, lf := range []struct {
			method string
			want   int64
		}{{"PublicKeyLength", w.pk}, {"SecretKeyLength", w.sk}} {
			var f *ssa.Function
			for _, m := range methodsOf(p, rel, "params") {
				if m.Name() == lf.method {
					f = m
				}
			}
			k2 := fmt.Sprintf("C10.params/%s/%s", n, lf.method)
			if f == nil {
				r.AnchorMissing("C10.params", k2)
				continue
			}
			env := bindFieldLoads(f, f.Params[0], fieldVals)
			outs, ok := ev.Eval(f, []consteval.Val{{K: consteval.Ref}}, env)
			good := ok && len(outs) == 1 && outs[0].Results[0].K == consteval.Const && constant.Compare(outs[0].Results[0].C, token.EQL, constant.MakeInt64(lf.want))
			got := "?"
			if len(outs) == 1 {
				got = outs[0].Results[0].String()
			}
			r.Check(good, "C10.params", k2, p.FuncPos(f), fmt.Sprintf("%s for %s folds to %s, FIPS 204 says %d", lf.method, n, got, lf.want), fmt.Sprintf("= %d", lf.want))
		}
		// sigDecode accepts exactly the signature length
		var sd *ssa.Function
		for _, m := range methodsOf(p, rel, "params") {
			if m.Name() == "sigDecode" {
				sd = m
			}
		}
		if sd == nil {
			r.AnchorMissing("C10.siglen", "sigDecode")
			continue
		}
		var lenCalls []*ssa.Call
		var firstSlice ssa.Instruction
		allInstrs(sd, func(ins ssa.Instruction) {
			if call, ok := ins.(*ssa.Call); ok {
				if b, isB := call.Call.Value.(*ssa.Builtin); isB && b.Name() == "len" && guard.Strip(call.Call.Args[0]) == ssa.Value(sd.Params[1]) {
					lenCalls = append(lenCalls, call)
				}
			}
			if sl, ok := ins.(*ssa.Slice); ok && guard.Strip(sl.X) == ssa.Value(sd.Params[1]) && firstSlice == nil {
				firstSlice = ins
			}
		})
		if firstSlice == nil {
			r.AnchorMissing("C10.siglen", "slice of sigma in sigDecode")
			continue
		}
		for _, L := range []int64{w.sig - 1, w.sig, w.sig + 1, 0} {
			env := bindFieldLoads(sd, sd.Params[0], fieldVals)
			for _, lc := range lenCalls {
				env[lc] = consteval.C(L)
			}
			env[sd.Params[0]] = consteval.Val{K: consteval.Ref}
			env[sd.Params[1]] = consteval.Val{K: consteval.Ref}
			outs, reached, ok := ev.EvalFrom(sd.Blocks[0], map[*ssa.BasicBlock]bool{firstSlice.Block(): true}, env)
			k2 := fmt.Sprintf("C10.siglen/%s/sigDecode len=%d", n, L)
			if !ok || (len(outs) == 0 && !reached) {
				r.Unknown("C10.siglen", k2, p.FuncPos(sd), "cannot fold the length guard")
				continue
			}
			r.Check(reached == (L == w.sig), "C10.siglen", k2, p.FuncPos(sd), fmt.Sprintf("a %d-byte signature passes the length guard: %v (the %s signature length is %d)", L, reached, n, w.sig), fmt.Sprintf("passes=%v", L == w.sig))
		}
	}
	r.Min("C10.params", 9)
	r.Min("C10.siglen", 12)
	c10Hint(c)
	c10Norms(c)
	signPrefixRule(c, "C10", []string{"signature/mldsa", "signprehash/mldsa", "signature/compositemldsa"})
	c10Counter(c)
}

func c10Hint(c *Ctx) {
	p, r := c.P, c.R
	var f *ssa.Function
	for _, m := range methodsOf(p, "internal/signature/mldsa", "params") {
		if m.Name() == "hintBitUnpackVector" {
			f = m
		}
	}
	if f == nil {
		r.AnchorMissing("C10.hint", "hintBitUnpackVector")
		return
	}
	// the store that sets a hint bit
	var set ssa.Instruction
	allInstrs(f, func(ins ssa.Instruction) {
		if st, ok := ins.(*ssa.Store); ok {
			if k, isC := guard.ConstInt(st.Val); isC && k == 1 {
				if _, isIA := st.Addr.(*ssa.IndexAddr); isIA {
					set = ins
				}
			}
		}
	})
	if set == nil {
		r.AnchorMissing("C10.hint", "hint bit store in hintBitUnpackVector")
		return
	}
	facts := guard.InstrFacts(set)
	isOmega := func(v ssa.Value) bool { _, fld, ok := guard.FieldOf(v); return ok && fld == "omega" }
	cxh := bounds.NewCtx(f)
	omegaCoef := func(l bounds.Lin) (int64, bool) {
		var k int64
		n := 0
		for a, c := range l.Coef {
			if strings.HasSuffix(a, ".omega") && c != 0 {
				k = c
				n++
			}
		}
		return k, n == 1
	}
	isCounter := func(v ssa.Value) bool {
		// int(encoded[omega+i]), also read through a re-slicing of encoded (ends := encoded[omega:omega+k]; ends[i])
		u, ok := guard.Strip(v).(*ssa.UnOp)
		if !ok {
			return false
		}
		ia, ok := u.X.(*ssa.IndexAddr)
		if !ok {
			return false
		}
		base, off := absSliceStart(cxh, ia.X)
		if base != ssa.Value(f.Params[1]) {
			return false
		}
		k, one := omegaCoef(off.Add(cxh.Lin(ia.Index), 1))
		return one && k == 1
	}
	geIndex, leOmega := false, false
	for _, fct := range facts {
		op, x, y, ok := guard.Cmp(fct)
		if !ok {
			continue
		}
		_, yPhi := guard.Strip(y).(*ssa.Phi)
		_, xPhi := guard.Strip(x).(*ssa.Phi)
		if (op == token.GEQ && isCounter(x) && yPhi) || (op == token.LEQ && isCounter(y) && xPhi) {
			geIndex = true
		}
		if (op == token.LEQ && isCounter(x) && isOmega(y)) || (op == token.GEQ && isCounter(y) && isOmega(x)) {
			leOmega = true
		}
	}
	r.Check(geIndex && leOmega, "C10.hint", "C10.hint/cumulative counter", p.Pos(set.Pos()),
		fmt.Sprintf("hint bits of a polynomial are unpacked without both guards on its cumulative counter (counter >= running index: %v, counter <= omega: %v): a decreasing counter would be accepted", geIndex, leOmega),
		"dominated by index <= counter <= omega")
	// strictly increasing indices within a polynomial: every path to the store has !(index > first) or encoded[index-1] < encoded[index]
	incOK := everyPathHas(set.Block(), func(fs []guard.Fact) bool {
		for _, fct := range fs {
			op, x, y, ok := guard.Cmp(fct)
			if !ok {
				continue
			}
			// !(index > first)
			_, xp := guard.Strip(x).(*ssa.Phi)
			_, yp := guard.Strip(y).(*ssa.Phi)
			if op == token.LEQ && xp && yp {
				return true
			}
			// !(n > 0): the first position of the ranged-over sub-slice
			if k, isK := guard.ConstInt(y); op == token.LEQ && xp && isK && k == 0 {
				return true
			}
			// n == 0 / add-form index (range-over-slice index is phi+1)
			if bo, isBO := guard.Strip(x).(*ssa.BinOp); isBO && op == token.LEQ && bo.Op == token.ADD {
				if k, isK := guard.ConstInt(y); isK && k == 0 {
					return true
				}
			}
			// encoded[index-1] < encoded[index]
			if op == token.LSS {
				ux, okx := guard.Strip(x).(*ssa.UnOp)
				uy, oky := guard.Strip(y).(*ssa.UnOp)
				if okx && oky {
					if _, a := ux.X.(*ssa.IndexAddr); a {
						if _, b := uy.X.(*ssa.IndexAddr); b {
							return true
						}
					}
				}
			}
		}
		return false
	})
	if !incOK {
		// two-pass form: a validation loop over the positions of the polynomial returns an
		// error whenever positions[j-1] >= positions[j]; the loop that sets the bits is
		// reached only when that loop has run to its end
		for _, fr := range guard.Returns(f) {
			if !guard.DefinitelyFails(fr) {
				continue
			}
			for _, fct := range guard.BlockFacts(fr.Block()) {
				op, x, y, ok := guard.Cmp(fct)
				if !ok || op != token.GEQ {
					continue
				}
				ux, okx := guard.Strip(x).(*ssa.UnOp)
				uy, oky := guard.Strip(y).(*ssa.UnOp)
				if !okx || !oky {
					continue
				}
				ia, a := ux.X.(*ssa.IndexAddr)
				ib, b := uy.X.(*ssa.IndexAddr)
				if !a || !b || guard.Strip(ia.X) != guard.Strip(ib.X) || !inCycle(ia.Block()) {
					continue
				}
				// previous = current - 1
				prevOK := false
				if sub, isSub := guard.Strip(ia.Index).(*ssa.BinOp); isSub && sub.Op == token.SUB && guard.Strip(sub.X) == guard.Strip(ib.Index) {
					if k, isK := guard.ConstInt(sub.Y); isK && k == 1 {
						prevOK = true
					}
				}
				if !prevOK {
					continue
				}
				// the checked slice is the one whose elements are the set positions, and the
				// validation loop's header dominates the set
				for _, blk := range f.Blocks {
					if inCycle(blk) && natLoop(blk)[ia.Block()] && !natLoop(blk)[set.Block()] && blk.Dominates(set.Block()) {
						incOK = true
					}
				}
			}
		}
	}
	r.Check(incOK, "C10.hint", "C10.hint/increasing indices", p.Pos(set.Pos()), "a hint index that is not greater than its predecessor inside the same polynomial can be accepted", "every path: first index of the polynomial, or previous < current")
	// padding
	padOK := false
	for _, fr := range guard.Returns(f) {
		if !guard.DefinitelyFails(fr) {
			continue
		}
		for _, fct := range guard.BlockFacts(fr.Block()) {
			if op, x, y, ok := guard.Cmp(fct); ok && op == token.NEQ {
				if k, isK := guard.ConstInt(y); isK && k == 0 {
					if u, isU := guard.Strip(x).(*ssa.UnOp); isU {
						if ia, isIA := u.X.(*ssa.IndexAddr); isIA && inCycle(ia.Block()) {
							for _, sr := range guard.SuccessReturns(f) {
								for _, b := range f.Blocks {
									if inCycle(b) && natLoop(b)[ia.Block()] && b.Dominates(sr.Block()) {
										padOK = true
									}
								}
							}
						}
					}
				}
			}
		}
	}
	if !padOK {
		// slices.ContainsFunc(encoded[start:omega], func(b byte) bool { return b != 0 }) leads to the error
		for _, sr := range guard.SuccessReturns(f) {
			for _, fct := range guard.BlockFacts(sr.Block()) {
				pc, val, isB := guard.BoolCallFact(fct)
				if !isB || val || !strings.HasPrefix(guard.CalleeName(&pc.Call), "slices.ContainsFunc") || len(pc.Call.Args) != 2 {
					continue
				}
				var pred *ssa.Function
				switch pv := guard.Strip(pc.Call.Args[1]).(type) {
				case *ssa.Function:
					pred = pv
				case *ssa.MakeClosure:
					pred, _ = pv.Fn.(*ssa.Function)
				}
				if pred == nil || len(pred.Params) != 1 {
					continue
				}
				nonZero := true
				for _, pr := range guard.Returns(pred) {
					bo, isBO := pr.Results[0].(*ssa.BinOp)
					if !isBO || bo.Op != token.NEQ || guard.Strip(bo.X) != ssa.Value(pred.Params[0]) {
						nonZero = false
						continue
					}
					if k, isK := guard.ConstInt(bo.Y); !isK || k != 0 {
						nonZero = false
					}
				}
				if _, isSl := guard.Strip(pc.Call.Args[0]).(*ssa.Slice); isSl && nonZero {
					// the scanned region ends at encoded[omega] (also through positions := encoded[:omega])
					base, lo := absSliceStart(cxh, pc.Call.Args[0])
					hi := lo.Add(cxh.LenOf(pc.Call.Args[0]), 1)
					k, one := omegaCoef(hi)
					if base == ssa.Value(f.Params[1]) && one && k == 1 && nonZeroCoefs(hi) == 1 && hi.C == 0 {
						padOK = true
					}
				}
			}
		}
	}
	r.Check(padOK, "C10.hint", "C10.hint/zero padding", p.FuncPos(f), "non-zero bytes after the last hint index are not rejected before success", "padding loop rejects non-zero bytes and dominates success")
}

func c10Norms(c *Ctx) {
	p, r := c.P, c.R
	rel := "internal/signature/mldsa"
	normCmp := func(fct guard.Fact, method string) (token.Token, ssa.Value, bool) {
		op, x, y, ok := guard.Cmp(fct)
		if !ok {
			return 0, nil, false
		}
		if cc, _ := guard.CallOf(x); cc != nil && strings.HasSuffix(guard.CalleeName(&cc.Call), ")."+method) {
			return op, y, true
		}
		return 0, nil, false
	}
	isField := func(v ssa.Value, name string) bool { _, fld, ok := guard.FieldOf(v); return ok && fld == name }
	// beta = tau*eta
	isBeta := func(v ssa.Value) bool {
		m, ok := guard.Strip(v).(*ssa.BinOp)
		return ok && m.Op == token.MUL && ((isField(m.X, "tau") && isField(m.Y, "eta")) || (isField(m.X, "eta") && isField(m.Y, "tau")))
	}
	minusBeta := func(v ssa.Value, base func(ssa.Value) bool) bool {
		s, ok := guard.Strip(v).(*ssa.BinOp)
		return ok && s.Op == token.SUB && base(s.X) && isBeta(s.Y)
	}
	isGamma1 := func(v ssa.Value) bool {
		sh, ok := guard.Strip(v).(*ssa.BinOp)
		if !ok || sh.Op != token.SHL {
			return false
		}
		k, isK := guard.ConstInt(sh.X)
		return isK && k == 1 && isField(sh.Y, "log2Gamma1")
	}
	isGamma2 := func(v ssa.Value) bool { return isField(v, "gamma2") }
	// value-based recognition of a bound: folded for the three parameter sets, the
	// bound equals the named quantity in each of them — whatever locals, helpers or
	// hoisting the code uses
	const q = 8380417
	type ps struct{ tau, lg1, inv2, eta, omega int64 }
	sets := []ps{{39, 17, 88, 2, 80}, {49, 19, 32, 4, 55}, {60, 19, 32, 2, 75}}
	boundIs := func(v ssa.Value, want func(s ps) int64) bool {
		for _, s := range sets {
			got, ok := foldInt(v, map[string]int64{"tau": s.tau, "log2Gamma1": s.lg1, "gamma2": (q - 1) / s.inv2, "eta": s.eta, "omega": s.omega}, 0)
			if !ok || got != want(s) {
				return false
			}
		}
		return true
	}
	gamma1MinusBeta := func(s ps) int64 { return int64(1)<<uint(s.lg1) - s.tau*s.eta }
	gamma2MinusBeta := func(s ps) int64 { return (q-1)/s.inv2 - s.tau*s.eta }
	gamma2Only := func(s ps) int64 { return (q - 1) / s.inv2 }
	omegaOnly := func(s ps) int64 { return s.omega }
	_ = minusBeta
	_ = isGamma1
	_ = isGamma2
	// verify
	var vf, sf *ssa.Function
	for _, m := range methodsOf(p, rel, "PublicKey") {
		if m.Name() == "verifyInternalWithMu" {
			vf = m
		}
	}
	for _, m := range methodsOf(p, rel, "SecretKey") {
		if m.Name() == "signInternalWithMu" {
			sf = m
		}
	}
	if vf == nil || sf == nil {
		r.AnchorMissing("C10.norms", "verifyInternalWithMu / signInternalWithMu")
		return
	}
	for _, ret := range guard.SuccessReturns(vf) {
		zOK, cOK := false, false
		for _, fct := range guard.BlockFacts(ret.Block()) {
			if op, bound, ok := normCmp(fct, "infinityNorm"); ok && op == token.LSS && boundIs(bound, gamma1MinusBeta) {
				zOK = true
			}
			if w, ok := newAcceptCtx(c).authFact(fct); ok && (strings.Contains(w, "Compare") || strings.Contains(w, "Equal")) {
				cOK = true
			}
		}
		r.Check(zOK && cOK, "C10.norms", "C10.norms/verify", p.Pos(ret.Pos()), fmt.Sprintf("verification can succeed without ||z||inf < gamma1 - beta (%v) and the challenge comparison (%v)", zOK, cOK), "||z||inf < (1<<log2Gamma1) - tau*eta && c~ == c~'")
	}
	// sign: the return of sigEncode is dominated by the four bounds
	for _, ret := range guard.Returns(sf) {
		z, r0, ct0, h := false, false, false, false
		for _, fct := range guard.BlockFacts(ret.Block()) {
			if op, bound, ok := normCmp(fct, "infinityNorm"); ok && op == token.LSS {
				switch {
				case boundIs(bound, gamma1MinusBeta):
					z = true
				case boundIs(bound, gamma2MinusBeta):
					r0 = true
				case boundIs(bound, gamma2Only):
					ct0 = true
				}
			}
			if op, bound, ok := normCmp(fct, "numOnes"); ok && op == token.LEQ && boundIs(bound, omegaOnly) {
				h = true
			}
		}
		r.Check(z && r0 && ct0 && h, "C10.norms", "C10.norms/sign", p.Pos(ret.Pos()), fmt.Sprintf("a signature can be emitted without all four FIPS 204 rejection bounds (z:%v r0:%v ct0:%v hints:%v)", z, r0, ct0, h),
			"||z||inf < gamma1-beta, ||r0||inf < gamma2-beta, ||ct0||inf < gamma2, ones(h) <= omega")
	}
	// context length
	for _, tm := range [][2]string{{"SecretKey", "Sign"}, {"SecretKey", "SignDeterministic"}, {"PublicKey", "Verify"}} {
		var f *ssa.Function
		for _, m := range methodsOf(p, rel, tm[0]) {
			if m.Name() == tm[1] {
				f = m
			}
		}
		key := fmt.Sprintf("C10.norms/context length/%s.%s", tm[0], tm[1])
		if f == nil {
			r.AnchorMissing("C10.norms", key)
			continue
		}
		ok := false
		for _, ret := range guard.Returns(f) {
			if !guard.DefinitelyFails(ret) {
				continue
			}
			for _, fct := range guard.BlockFacts(ret.Block()) {
				if op, x, y, isC := guard.Cmp(fct); isC && op == token.GTR {
					if k, isK := guard.ConstInt(y); isK && k == 255 {
						if lc, _ := guard.CallOf(x); lc != nil {
							if b, isB := lc.Call.Value.(*ssa.Builtin); isB && b.Name() == "len" {
								ok = true
							}
						}
					}
				}
			}
		}
		r.Check(ok, "C10.norms", key, p.FuncPos(f), "contexts longer than 255 bytes are not rejected (the one-byte length field would wrap)", "len(ctx) > 255 -> error")
	}
}

// signPrefixRule: every signer built from a key returns prefix || signature.
func signPrefixRule(c *Ctx, prop string, pkgs []string) {
	p, r := c.P, c.R
	rule := prop + ".signprefix"
	in := map[string]bool{}
	for _, k := range pkgs {
		in[k] = true
	}
	n := 0
	for _, f := range p.SortedFuncs(core.Product) {
		if f.Signature.Recv() == nil || f.Synthetic != "" || !in[core.Rel(core.PkgOf(f))] {
			continue
		}
		if f.Name() != "Sign" && f.Name() != "SignPrehash" {
			continue
		}
		n++
		key := rule + "/" + core.FuncID(f)
		good := len(guard.SuccessReturns(f)) > 0
		for _, ret := range guard.SuccessReturns(f) {
			ok := false
			cc, _ := guard.CallOf(ret.Results[0])
			if cc != nil {
				nme := guard.CalleeName(&cc.Call)
				if nme == "slices.Concat" || nme == "append" {
					// first piece is a receiver field named …prefix…
					var first ssa.Value
					if nme == "append" {
						first = cc.Call.Args[0]
					} else if sl, isSl := cc.Call.Args[0].(*ssa.Slice); isSl {
						if al, isAl := sl.X.(*ssa.Alloc); isAl {
							for _, ref := range *al.Referrers() {
								if ia, isIA := ref.(*ssa.IndexAddr); isIA {
									if k, isK := guard.ConstInt(ia.Index); isK && k == 0 {
										for _, r2 := range *ia.Referrers() {
											if st, isS := r2.(*ssa.Store); isS {
												first = st.Val
											}
										}
									}
								}
							}
						}
					}
					if first != nil {
						if _, fld, isF := guard.FieldOf(first); isF && strings.Contains(strings.ToLower(fld), "prefix") {
							ok = true
						}
					}
				}
			}
			if !ok {
				good = false
			}
		}
		r.Check(good, rule, key, p.FuncPos(f), "the signer does not return outputPrefix || signature: for key variants with an output prefix its signatures do not verify under the key's ordinary verifier", "returns Concat(recv.prefix, signature)")
	}
	r.Min(rule, 3)
	_ = n
}

func nonZeroCoefs(l bounds.Lin) int {
	n := 0
	for _, c := range l.Coef {
		if c != 0 {
			n++
		}
	}
	return n
}
