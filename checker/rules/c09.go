package rules

import (
	"fmt"
	"go/constant"
	"go/token"
	"go/types"
	"os"
	"strings"

	"golang.org/x/tools/go/ssa"

	"tinkverif/consteval"
	"tinkverif/core"
	"tinkverif/guard"
)

func init() { Registry["C09"] = c09 }

func isJWTPkg(rel string) bool {
	return rel == "jwt" || strings.HasPrefix(rel, "jwt/") || rel == "internal/jwk"
}

func c09(c *Ctx) {
	r := c.R
	r.Explanation = "C09 is decided through structural clauses of the JWT accept decision: " +
		"(order) a VerifiedJWT is built only in the two …WithKID verify methods, and only after, in this order on the same values, the signature/MAC check on the signed content, decodeUnsignedTokenAndValidateHeader on that content, and Validator.Validate on that RawJWT succeeded; " +
		"(header) validateHeader, folded over the 64 combinations of (alg equal, crit present, key-ID kid set, custom kid set, header has kid, kid equal), accepts exactly when alg matches, crit is absent, not both kids are set, a key-ID kid is present and equal, and a custom kid is equal when present; " +
		"(presence) validateFieldPresence's 8 rows; each caller passes Ignore…, Has…(), Expected…!=nil of the same field family and compares for equality afterwards; " +
		"(time) validateTimestamps rejects exactly exp <= now-skew, nbf > now+skew, iat > now+skew (only with ExpectIssuedInThePast) and a missing exp unless allowed; 'now' is time.Now() taken inside the call unless FixedNow is set; NewValidator rejects skew > 10 minutes and does not sample the clock; " +
		"(base64url/kid) JWT packages never use the standard base64 alphabet, and every key-ID-derived kid, on the signing, verifying and JWK-export side alike, is base64url(4-byte big-endian key ID); " +
		"(jwkpublic) JWK export handles only public key types, rejects everything else and skips non-ENABLED entries. " +
		"(strictdecode) Go's base64 decoders silently skip CR and LF; every direct base64 decode in the JWT packages is therefore preceded by a complete scan of the same string that fails on any character its predicate refuses, and the predicate (folded) refuses CR, LF, '=', '+', '/', space — token segments are decoded only through such a wrapper. " +
		"Not decided: JSON/base64 decoding, claim round-trip, JWK field encoding values."
	c09Order(c)
	c09Header(c)
	c09Presence(c)
	c09Time(c)
	c09Has(c)
	c09Base64(c)
	c09JWKPublic(c)
}

// ---------------------------------------------------------------- order

func c09Order(c *Ctx) {
	p, r := c.P, c.R
	nv := p.PkgFunc("jwt", "newVerifiedJWT")
	dec := p.PkgFunc("jwt", "decodeUnsignedTokenAndValidateHeader")
	if nv == nil || dec == nil {
		r.AnchorMissing("C09.order", "jwt.newVerifiedJWT / decodeUnsignedTokenAndValidateHeader")
		return
	}
	n := 0
	for _, f := range p.SortedFuncs(core.Product) {
		for _, site := range callsTo(f, nv.String()) {
			n++
			call := site.(*ssa.Call)
			fid := core.FuncID(f)
			key := "C09.order/" + fid
			if core.Rel(core.PkgOf(f)) != "jwt" {
				r.Bad("C09.order", key, p.Pos(call.Pos()), "a VerifiedJWT is constructed outside package jwt")
				continue
			}
			raw := call.Call.Args[0]
			facts := guard.InstrFacts(call)
			var verifyCall, decodeCall, validateCall, helperCall *ssa.Call
			for _, fct := range facts {
				ec, isNil, ok := guard.ErrNilFact(fct)
				if !ok || !isNil {
					continue
				}
				nme := guard.CalleeName(&ec.Call)
				switch {
				case isVerifyName(nme) || isVerifyParam(p, f, ec):
					verifyCall = ec
				case ec.Call.StaticCallee() == dec:
					decodeCall = ec
				case strings.HasSuffix(nme, "jwt.Validator).Validate"):
					validateCall = ec
				default:
					// a helper of the package that verifies the witness and only then decodes:
					// its success stands for both facts, and its result is the decoded RawJWT
					if h := ec.Call.StaticCallee(); h != nil && h.Blocks != nil && h.Pkg == f.Pkg && c09VerifiesThenDecodes(p, h, dec) {
						helperCall = ec
					}
				}
			}
			if helperCall != nil && verifyCall == nil && decodeCall == nil {
				why := ""
				if validateCall == nil {
					why = "not dominated by a successful Validator.Validate"
				} else {
					if rc, ri := guard.CallOf(raw); rc != helperCall || ri != 0 {
						why = "the VerifiedJWT does not wrap the RawJWT returned by the verify-then-decode helper"
					}
					if vc, vi := guard.CallOf(validateCall.Call.Args[1]); vc != helperCall || vi != 0 {
						why = "Validator.Validate is applied to another RawJWT than the one returned"
					}
				}
				r.Check(why == "", "C09.order", key, p.Pos(call.Pos()), why, "verify-then-decode helper ok -> Validate(raw) ok -> newVerifiedJWT(raw)")
				continue
			}
			why := ""
			switch {
			case verifyCall == nil:
				why = "not dominated by a successful signature/MAC verification"
			case decodeCall == nil:
				why = "not dominated by a successful header validation"
			case validateCall == nil:
				why = "not dominated by a successful Validator.Validate"
			}
			if why == "" {
				// same content: verify's data argument is []byte(content) of the content string given to decode
				content := decodeCall.Call.Args[0]
				data := verifyCall.Call.Args[len(verifyCall.Call.Args)-1]
				conv, isConv := guard.Strip(data).(*ssa.Convert)
				if !isConv || guard.Strip(conv.X) != guard.Strip(content) {
					why = "the bytes whose signature is verified are not the content that is decoded"
				}
				// same RawJWT: validate's argument and newVerifiedJWT's argument are decode's result
				if rc, ri := guard.CallOf(raw); rc != decodeCall || ri != 0 {
					why = "the VerifiedJWT does not wrap the RawJWT returned by the header validation"
				}
				if vc, vi := guard.CallOf(validateCall.Call.Args[1]); vc != decodeCall || vi != 0 {
					why = "Validator.Validate is applied to another RawJWT than the one returned"
				}
				// order: verification before decoding (no parsing of unauthenticated content)
				if !guard.Reaches(verifyCall, decodeCall) || guard.Reaches(decodeCall, verifyCall) {
					why = "the token is parsed before its signature/MAC is verified"
				}
			}
			r.Check(why == "", "C09.order", key, p.Pos(call.Pos()), why, "verify(sig, []byte(content)) ok -> decodeUnsignedTokenAndValidateHeader(content) ok -> Validate(raw) ok -> newVerifiedJWT(raw)")
		}
	}
	if n < 1 {
		r.AnchorMissing("C09.order", "calls of newVerifiedJWT")
	}
	// splitSignedCompact: exactly one more dot, non-empty signature
	if f := p.PkgFunc("jwt", "splitSignedCompact"); f != nil {
		hasCount := false
		allInstrs(f, func(ins ssa.Instruction) {
			if call, ok := ins.(*ssa.Call); ok && guard.CalleeName(&call.Call) == "strings.Count" {
				hasCount = true
			}
		})
		okCount := false
		for _, ret := range guard.SuccessReturns(f) {
			for _, fct := range guard.BlockFacts(ret.Block()) {
				if op, x, y, isC := guard.Cmp(fct); isC && op == token.EQL {
					if cc, _ := guard.CallOf(x); cc != nil && guard.CalleeName(&cc.Call) == "strings.Count" {
						if k, isK := guard.ConstInt(y); isK && k == 1 {
							okCount = true
						}
					}
				}
			}
		}
		if hasCount {
			r.Check(okCount, "C09.order", "C09.order/jwt.splitSignedCompact", p.FuncPos(f), "the unsigned part is not required to contain exactly one dot", "strings.Count(unsigned, \".\") == 1")
		}
	}
}

// c09VerifiesThenDecodes: every success return of h hands back the result of
// decodeUnsignedTokenAndValidateHeader(content, …) and is dominated by a
// successful verification of []byte(content) made before that decoding.
func c09VerifiesThenDecodes(p *core.Program, h, dec *ssa.Function) bool {
	rets := guard.SuccessReturns(h)
	if len(rets) == 0 {
		return false
	}
	for _, ret := range rets {
		dc, di := guard.CallOf(ret.Results[0])
		if dc == nil || di != 0 || dc.Call.StaticCallee() != dec {
			return false
		}
		var vcall *ssa.Call
		for _, fct := range guard.BlockFacts(dc.Block()) {
			if ec, isNil, ok := guard.ErrNilFact(fct); ok && isNil && (isVerifyName(guard.CalleeName(&ec.Call)) || isVerifyParam(p, h, ec)) {
				vcall = ec
			}
		}
		if vcall == nil {
			return false
		}
		content := dc.Call.Args[0]
		data := vcall.Call.Args[len(vcall.Call.Args)-1]
		conv, isConv := guard.Strip(data).(*ssa.Convert)
		if !isConv || guard.Strip(conv.X) != guard.Strip(content) {
			return false
		}
		// the error of the decoding is what the helper returns (or it is checked)
		if len(ret.Results) == 2 {
			if ec, ei := guard.CallOf(ret.Results[1]); !(ec == dc && ei == 1) {
				okNil := false
				for _, fct := range guard.BlockFacts(ret.Block()) {
					if e2, isNil, ok := guard.ErrNilFact(fct); ok && isNil && e2 == dc {
						okNil = true
					}
				}
				if !okNil {
					return false
				}
			}
		}
	}
	return true
}

func isVerifyName(nme string) bool {
	nme = strings.TrimSuffix(nme, "$bound")
	return nme == "("+core.ModPath+"/tink.Verifier).Verify" || nme == "("+core.ModPath+"/tink.MAC).VerifyMAC"
}

// isVerifyParam: ec calls a function-typed parameter of f, and at every call
// site of f in the module that parameter is the bound method value
// tink.Verifier.Verify / tink.MAC.VerifyMAC of some primitive.
func isVerifyParam(p *core.Program, f *ssa.Function, ec *ssa.Call) bool {
	prm, ok := ec.Call.Value.(*ssa.Parameter)
	if !ok {
		return false
	}
	idx := -1
	for i, q := range f.Params {
		if q == prm {
			idx = i
		}
	}
	if idx < 0 {
		return false
	}
	sites := 0
	for _, g := range p.SortedFuncs(core.Product) {
		bad := false
		allInstrs(g, func(ins ssa.Instruction) {
			call, isCall := ins.(ssa.CallInstruction)
			if !isCall || call.Common().StaticCallee() != f {
				return
			}
			sites++
			if idx >= len(call.Common().Args) {
				bad = true
				return
			}
			arg := guard.Strip(call.Common().Args[idx])
			if prm2, isP := arg.(*ssa.Parameter); isP {
				// handed through from an enclosing helper: the same must hold there
				if !isVerifyParamOf(p, g, prm2, 0) {
					bad = true
				}
				return
			}
			mc, isMC := arg.(*ssa.MakeClosure)
			if !isMC || !strings.HasSuffix(mc.Fn.String(), "$bound") || !isVerifyName(mc.Fn.String()) {
				bad = true
			}
		})
		if bad {
			return false
		}
	}
	return sites > 0
}

// isVerifyParamOf: parameter prm of f receives, at every call site of f, the
// bound method value tink.Verifier.Verify / tink.MAC.VerifyMAC (possibly handed
// through one more helper).
func isVerifyParamOf(p *core.Program, f *ssa.Function, prm *ssa.Parameter, depth int) bool {
	if depth > 2 {
		return false
	}
	idx := -1
	for i, q := range f.Params {
		if q == prm {
			idx = i
		}
	}
	if idx < 0 {
		return false
	}
	sites, good := 0, true
	for _, g := range p.SortedFuncs(core.Product) {
		allInstrs(g, func(ins ssa.Instruction) {
			call, isCall := ins.(ssa.CallInstruction)
			if !isCall || call.Common().StaticCallee() != f || idx >= len(call.Common().Args) {
				return
			}
			sites++
			arg := guard.Strip(call.Common().Args[idx])
			if p2, isP := arg.(*ssa.Parameter); isP {
				if !isVerifyParamOf(p, g, p2, depth+1) {
					good = false
				}
				return
			}
			mc, isMC := arg.(*ssa.MakeClosure)
			if !isMC || !strings.HasSuffix(mc.Fn.String(), "$bound") || !isVerifyName(mc.Fn.String()) {
				good = false
			}
		})
	}
	return good && sites > 0
}

// ---------------------------------------------------------------- header

func c09Header(c *Ctx) {
	p, r := c.P, c.R
	f := p.PkgFunc("jwt", "validateHeader")
	kidF := p.PkgFunc("jwt", "validateKIDInHeader")
	hsf := p.PkgFunc("jwt", "headerStringField")
	if f == nil || kidF == nil || hsf == nil {
		r.AnchorMissing("C09.header", "jwt.validateHeader / validateKIDInHeader / headerStringField")
		return
	}
	// locate the instructions to bind
	var getFields, algCall *ssa.Call
	var kidCalls []*ssa.Call
	var critLookup, kidLookup *ssa.Lookup
	allInstrs(f, func(ins ssa.Instruction) {
		switch x := ins.(type) {
		case *ssa.Call:
			nme := guard.CalleeName(&x.Call)
			switch {
			case strings.HasSuffix(nme, "structpb.Struct).GetFields"):
				getFields = x
			case x.Call.StaticCallee() == hsf:
				if k, ok := x.Call.Args[1].(*ssa.Const); ok && k.Value != nil && constant.StringVal(k.Value) == "alg" {
					algCall = x
				}
			case x.Call.StaticCallee() == kidF:
				kidCalls = append(kidCalls, x)
			}
		case *ssa.Lookup:
			if k, ok := x.Index.(*ssa.Const); ok && k.Value != nil && k.Value.Kind() == constant.String {
				switch constant.StringVal(k.Value) {
				case "crit":
					critLookup = x
				case "kid":
					kidLookup = x
				}
			}
		}
	})
	if getFields == nil || algCall == nil || critLookup == nil || kidLookup == nil || len(kidCalls) == 0 {
		r.AnchorMissing("C09.header", "header reads in validateHeader (GetFields, alg, crit, kid, validateKIDInHeader)")
		return
	}
	ev := consteval.New()
	ref, nilv := consteval.Val{K: consteval.Ref}, consteval.Val{K: consteval.Nil}
	errv := consteval.Val{K: consteval.Err}
	ptr := func(set bool) consteval.Val {
		if set {
			return ref
		}
		return nilv
	}
	n := 0
	for mask := 0; mask < 64; mask++ {
		algEq, crit, tink, custom, hasKid, kidEq := mask&1 != 0, mask&2 != 0, mask&4 != 0, mask&8 != 0, mask&16 != 0, mask&32 != 0
		if !hasKid && kidEq {
			continue
		}
		n++
		env := consteval.Env{}
		env[getFields] = ref
		alg := "ES256"
		if !algEq {
			alg = "none"
		}
		env[consteval.TupleKey(algCall, 0)] = consteval.S(alg)
		env[consteval.TupleKey(algCall, 1)] = nilv
		env[consteval.TupleKey(critLookup, 0)] = ptr(crit)
		env[consteval.TupleKey(critLookup, 1)] = consteval.B(crit)
		env[consteval.TupleKey(kidLookup, 0)] = ptr(hasKid)
		env[consteval.TupleKey(kidLookup, 1)] = consteval.B(hasKid)
		for _, kc := range kidCalls {
			if hasKid && kidEq {
				env[kc] = nilv
			} else {
				env[kc] = errv
			}
		}
		outs, ok := ev.Eval(f, []consteval.Val{ref, consteval.S("ES256"), ptr(tink), ptr(custom)}, env)
		key := fmt.Sprintf("C09.header/validateHeader/algEq=%v crit=%v tinkKID=%v customKID=%v hasKid=%v kidEq=%v", algEq, crit, tink, custom, hasKid, kidEq)
		if !ok || len(outs) != 1 || (!outs[0].IsOK() && !outs[0].IsErr()) {
			r.Unknown("C09.header", key, p.FuncPos(f), fmt.Sprintf("cannot fold validateHeader (%d outcomes)", len(outs)))
			continue
		}
		want := algEq && !crit && !(tink && custom) && (!tink || (hasKid && kidEq)) && (!(!tink && custom && hasKid) || kidEq)
		r.Check(outs[0].IsOK() == want, "C09.header", key, p.FuncPos(f), fmt.Sprintf("validateHeader accepts=%v, the rule says %v", outs[0].IsOK(), want), fmt.Sprintf("accepts=%v", want))
	}
	r.Min("C09.header", 40)
	// validateKIDInHeader compares the header's kid with the expected one
	good := false
	for _, ret := range guard.SuccessReturns(kidF) {
		for _, fct := range guard.BlockFacts(ret.Block()) {
			if op, x, y, ok := guard.Cmp(fct); ok && op == token.EQL {
				cx, _ := guard.CallOf(x)
				cy, _ := guard.CallOf(y)
				if (cx != nil && cx.Call.StaticCallee() == hsf && derivesFrom(y, kidF.Params[1], 0)) || (cy != nil && cy.Call.StaticCallee() == hsf && derivesFrom(x, kidF.Params[1], 0)) {
					good = true
				}
			}
		}
	}
	r.Check(good, "C09.header", "C09.header/validateKIDInHeader", p.FuncPos(kidF), "validateKIDInHeader does not require the header's kid to equal the expected kid", "success dominated by header kid == *kid")
}

// ---------------------------------------------------------------- presence

func c09Presence(c *Ctx) {
	p, r := c.P, c.R
	f := p.PkgFunc("jwt", "validateFieldPresence")
	if f == nil {
		r.AnchorMissing("C09.presence", "jwt.validateFieldPresence")
		return
	}
	ev := consteval.New()
	for mask := 0; mask < 8; mask++ {
		ignore, present, expected := mask&1 != 0, mask&2 != 0, mask&4 != 0
		outs, ok := ev.Eval(f, []consteval.Val{consteval.B(ignore), consteval.B(present), consteval.B(expected)}, nil)
		key := fmt.Sprintf("C09.presence/validateFieldPresence/ignore=%v present=%v expected=%v", ignore, present, expected)
		if !ok || len(outs) != 1 {
			r.Unknown("C09.presence", key, p.FuncPos(f), "cannot fold")
			continue
		}
		o := outs[0]
		// spec: ignore -> skip; !expected&&!present -> skip; expected xor present -> error; both -> compare (skip=false, nil)
		var wantSkip, wantErr bool
		switch {
		case ignore:
			wantSkip = true
		case !expected && !present:
			wantSkip = true
		case expected != present:
			wantErr = true
		}
		good := o.IsErr() == wantErr
		if !wantErr {
			good = good && o.IsOK() && o.Results[0].K == consteval.Const && constant.BoolVal(o.Results[0].C) == wantSkip
		}
		r.Check(good, "C09.presence", key, p.FuncPos(f), fmt.Sprintf("got (skip=%v, err=%v), want (skip=%v, err=%v)", o.Results[0], o.IsErr(), wantSkip, wantErr), fmt.Sprintf("skip=%v err=%v", wantSkip, wantErr))
	}
	// callers: same field family, equality afterwards
	for _, fam := range []struct{ fn, ignore, has, expected string }{
		{"validateTypeHeader", "IgnoreTypeHeader", "HasTypeHeader", "ExpectedTypeHeader"},
		{"validateIssuer", "IgnoreIssuer", "HasIssuer", "ExpectedIssuer"},
		{"validateAudiences", "IgnoreAudiences", "HasAudiences", "ExpectedAudience"},
	} {
		var m *ssa.Function
		for _, mm := range methodsOf(p, "jwt", "Validator") {
			if mm.Name() == fam.fn {
				m = mm
			}
		}
		key := "C09.presence/(*jwt.Validator)." + fam.fn
		if m == nil {
			r.AnchorMissing("C09.presence", key)
			continue
		}
		good := false
		for _, site := range callsTo(m, f.String()) {
			args := site.Common().Args
			_, f0, ok0 := guard.FieldOf(args[0])
			hc, _ := guard.CallOf(args[1])
			okHas := hc != nil && strings.HasSuffix(guard.CalleeName(&hc.Call), "RawJWT)."+fam.has)
			okExp := false
			if cmp, isCmp := guard.Strip(args[2]).(*ssa.BinOp); isCmp && cmp.Op == token.NEQ {
				for _, side := range []ssa.Value{cmp.X, cmp.Y} {
					if _, fe, ok := guard.FieldOf(side); ok && fe == fam.expected {
						okExp = true
					}
				}
			}
			if ok0 && f0 == fam.ignore && okHas && okExp {
				good = true
			}
		}
		// a comparison with *Expected… guards the final success (for audiences: membership loop)
		cmpOK := false
		allInstrs(m, func(ins ssa.Instruction) {
			if cmp, ok := ins.(*ssa.BinOp); ok && (cmp.Op == token.NEQ || cmp.Op == token.EQL) {
				for _, side := range []ssa.Value{cmp.X, cmp.Y} {
					if u, isU := guard.Strip(side).(*ssa.UnOp); isU && u.Op == token.MUL {
						if _, fe, ok := guard.FieldOf(u.X); ok && fe == fam.expected {
							cmpOK = true
						}
					}
				}
			}
		})
		// membership through the standard library: slices.Contains(values, *Expected…) / slices.Index
		allInstrs(m, func(ins ssa.Instruction) {
			call, ok := ins.(*ssa.Call)
			if !ok {
				return
			}
			n := guard.CalleeName(&call.Call)
			if !strings.HasPrefix(n, "slices.Contains") && !strings.HasPrefix(n, "slices.Index") {
				return
			}
			for _, a := range call.Call.Args {
				if u, isU := guard.Strip(a).(*ssa.UnOp); isU && u.Op == token.MUL {
					if _, fe, ok := guard.FieldOf(u.X); ok && fe == fam.expected {
						// its verdict must decide a failing return
						for _, ret := range guard.Returns(m) {
							if !guard.DefinitelyFails(ret) {
								continue
							}
							for _, fct := range guard.BlockFacts(ret.Block()) {
								if c2, _, isB := guard.BoolCallFact(fct); isB && c2 == call {
									cmpOK = true
								}
								if _, x, _, isC := guard.Cmp(fct); isC {
									if c2, _ := guard.CallOf(x); c2 == call {
										cmpOK = true
									}
								}
							}
						}
					}
				}
			}
		})
		r.Check(good && cmpOK, "C09.presence", key, p.FuncPos(m), "the claim check does not pass (Ignore…, Has…(), Expected…!=nil) of its own field family to validateFieldPresence and compare with *Expected… afterwards", "validateFieldPresence("+fam.ignore+", "+fam.has+"(), "+fam.expected+"!=nil); compared with *"+fam.expected)
	}
}

// ---------------------------------------------------------------- time

func c09Time(c *Ctx) {
	p, r := c.P, c.R
	var vt *ssa.Function
	for _, m := range methodsOf(p, "jwt", "Validator") {
		if m.Name() == "validateTimestamps" {
			vt = m
		}
	}
	if vt == nil {
		r.AnchorMissing("C09.time", "(*jwt.Validator).validateTimestamps")
		return
	}
	// The decision of validateTimestamps is folded per claim and per ordering of
	// the claim time T relative to its bound B (T < B, T == B, T > B): every
	// time comparison between T and B (After/Before/Equal/Compare, either
	// operand order, in vt or in helpers it calls) is bound to its truth value
	// under that ordering, the claim's presence test to true, everything else
	// is left unknown, and the constant propagator explores the function. The
	// shape of the code (negations, ||-chains, helper functions, hoisted bounds)
	// does not matter; only the decision does.
	scope := []*ssa.Function{vt}
	seenFn := map[*ssa.Function]bool{vt: true}
	for i := 0; i < len(scope) && i < 16; i++ {
		allInstrs(scope[i], func(ins ssa.Instruction) {
			if call, ok := ins.(*ssa.Call); ok {
				if g := call.Call.StaticCallee(); g != nil && g.Blocks != nil && isJWTPkg(core.Rel(core.PkgOf(g))) && !seenFn[g] && g.Pkg == vt.Pkg {
					seenFn[g] = true
					scope = append(scope, g)
				}
			}
		})
	}
	// classify a time operand
	var classify func(v ssa.Value, depth int) string
	classify = func(v ssa.Value, depth int) string {
		v = guard.Strip(v)
		// a bound handed back by a helper of the package (earliest, latest := v.window()):
		// the class of the corresponding result of every return
		if ex, ok := v.(*ssa.Extract); ok && depth < 3 {
			if hc, isCall := ex.Tuple.(*ssa.Call); isCall {
				hn := guard.CalleeName(&hc.Call)
				isClaimGetter := strings.HasSuffix(hn, "RawJWT).ExpiresAt") || strings.HasSuffix(hn, "RawJWT).NotBefore") || strings.HasSuffix(hn, "RawJWT).IssuedAt")
				if h := hc.Call.StaticCallee(); !isClaimGetter && h != nil && h.Blocks != nil && h.Pkg == vt.Pkg && h.Signature.Results().Len() > 1 {
					cls := ""
					for _, ret := range guard.Returns(h) {
						if ex.Index >= len(ret.Results) {
							cls = "?"
							continue
						}
						k := classify(ret.Results[ex.Index], depth+1)
						if cls == "" {
							cls = k
						} else if cls != k {
							cls = "?"
						}
					}
					if cls != "" && cls != "?" {
						return cls
					}
				}
			}
		}
		if ex, ok := v.(*ssa.Extract); ok && ex.Index == 0 {
			v = ex.Tuple
		}
		if call, ok := v.(*ssa.Call); ok {
			n := guard.CalleeName(&call.Call)
			// single-result helper returning a bound
			if h := call.Call.StaticCallee(); h != nil && h.Blocks != nil && h.Pkg == vt.Pkg && h.Signature.Results().Len() == 1 && depth < 3 && n != "(time.Time).Add" {
				cls := ""
				for _, ret := range guard.Returns(h) {
					k := classify(ret.Results[0], depth+1)
					if cls == "" {
						cls = k
					} else if cls != k {
						cls = "?"
					}
				}
				if cls == "now-skew" || cls == "now+skew" || cls == "now" {
					return cls
				}
			}
			switch {
			case strings.HasSuffix(n, "RawJWT).ExpiresAt"):
				return "exp"
			case strings.HasSuffix(n, "RawJWT).NotBefore"):
				return "nbf"
			case strings.HasSuffix(n, "RawJWT).IssuedAt"):
				return "iat"
			case n == "(time.Time).Add":
				if !isNowValue(call.Call.Args[0], call.Parent()) {
					return "?"
				}
				d := guard.Strip(call.Call.Args[1])
				neg := false
				if u, isU := d.(*ssa.UnOp); isU && u.Op == token.SUB {
					neg, d = true, guard.Strip(u.X)
				} else if bo, isB := d.(*ssa.BinOp); isB && bo.Op == token.SUB {
					if k, isK := guard.ConstInt(bo.X); isK && k == 0 {
						neg, d = true, guard.Strip(bo.Y)
					}
				}
				if _, fld, isF := guard.FieldOf(d); !isF || fld != "ClockSkew" {
					return "?"
				}
				if neg {
					return "now-skew"
				}
				return "now+skew"
			}
		}
		if isNowValue(v, vt) {
			return "now"
		}
		// parameter of a helper: the same class at every call site
		if prm, ok := v.(*ssa.Parameter); ok && depth < 2 {
			idx := -1
			for i, q := range prm.Parent().Params {
				if q == prm {
					idx = i
				}
			}
			cls := ""
			for _, f := range scope {
				allInstrs(f, func(ins ssa.Instruction) {
					if call, ok := ins.(*ssa.Call); ok && call.Call.StaticCallee() == prm.Parent() && idx >= 0 && idx < len(call.Call.Args) {
						k := classify(call.Call.Args[idx], depth+1)
						if cls == "" {
							cls = k
						} else if cls != k {
							cls = "?"
						}
					}
				})
			}
			if cls != "" {
				return cls
			}
		}
		return "?"
	}
	type tcmp struct {
		call     *ssa.Call
		method   string
		claimRcv bool // the claim is the receiver (first operand)
		bound    string
	}
	cmps := map[string][]tcmp{}
	undecided := ""
	for _, f := range scope {
		allInstrs(f, func(ins ssa.Instruction) {
			call, ok := ins.(*ssa.Call)
			if !ok {
				return
			}
			n := guard.CalleeName(&call.Call)
			switch n {
			case "(time.Time).After", "(time.Time).Before", "(time.Time).Equal", "(time.Time).Compare":
			default:
				return
			}
			x, y := classify(call.Call.Args[0], 0), classify(call.Call.Args[1], 0)
			isClaim := func(k string) bool { return k == "exp" || k == "nbf" || k == "iat" }
			m := n[strings.LastIndex(n, ".")+1:]
			switch {
			case isClaim(x) && !isClaim(y):
				cmps[x] = append(cmps[x], tcmp{call, m, true, y})
			case isClaim(y) && !isClaim(x):
				cmps[y] = append(cmps[y], tcmp{call, m, false, x})
			case isClaim(x) && isClaim(y):
				undecided = "two claims compared with each other at " + p.Pos(call.Pos())
			}
		})
	}
	ev := consteval.New()
	presence := map[string]string{"exp": "RawJWT).HasExpiration", "nbf": "RawJWT).HasNotBefore", "iat": "RawJWT).HasIssuedAt"}
	// run folds vt with the given bindings; reports (every outcome fails, some outcome succeeds)
	run := func(env consteval.Env) (allFail, someOK, ok bool) {
		for _, prm := range vt.Params {
			env[prm] = consteval.Val{K: consteval.Ref}
		}
		outs, ok := ev.Eval(vt, nil, env)
		if !ok || len(outs) == 0 {
			return false, false, false
		}
		allFail = true
		for _, o := range outs {
			fails := o.IsErr() || guard.DefinitelyFails(o.Ret)
			if !fails {
				allFail = false
				someOK = true
			}
		}
		return allFail, someOK, true
	}
	bindPresence := func(env consteval.Env, claim string, present bool) {
		suffix := presence[claim]
		for _, f := range scope {
			allInstrs(f, func(ins ssa.Instruction) {
				if call, ok := ins.(*ssa.Call); ok && suffix != "" && strings.HasSuffix(guard.CalleeName(&call.Call), suffix) {
					env[call] = consteval.B(present)
				}
			})
		}
	}
	bindField := func(env consteval.Env, field string, val bool) {
		for _, f := range scope {
			for k, v := range bindFieldLoadsByName(f, map[string]consteval.Val{field: consteval.B(val)}) {
				env[k] = v
			}
		}
	}
	want := map[string]struct {
		bound  string
		reject map[string]bool // orderings of T relative to B that must be rejected
		desc   string
	}{
		"exp": {"now-skew", map[string]bool{"<": true, "=": true}, "rejected iff exp <= now - skew"},
		"nbf": {"now+skew", map[string]bool{">": true}, "rejected iff nbf > now + skew"},
		"iat": {"now+skew", map[string]bool{">": true}, "rejected iff ExpectIssuedInThePast and iat > now + skew"},
	}
	for _, claim := range []string{"exp", "nbf", "iat"} {
		w := want[claim]
		key := "C09.time/validateTimestamps/" + claim
		if undecided != "" {
			r.Unknown("C09.time", key, p.FuncPos(vt), undecided)
			continue
		}
		cs := cmps[claim]
		if len(cs) == 0 {
			r.Bad("C09.time", key, p.FuncPos(vt), "the "+claim+" claim is never compared with the clock: "+w.desc)
			continue
		}
		badBound := ""
		for _, cm := range cs {
			if cm.bound != w.bound {
				badBound = fmt.Sprintf("%s is compared with %q at %s; the bound must be %s", claim, cm.bound, p.Pos(cm.call.Pos()), w.bound)
			}
		}
		if badBound != "" {
			if strings.Contains(badBound, `"?"`) {
				r.Unknown("C09.time", key, p.FuncPos(vt), badBound+" (operand not recognised as now ± ClockSkew)")
			} else {
				r.Bad("C09.time", key, p.FuncPos(vt), badBound)
			}
			continue
		}
		detail := ""
		for _, sign := range []string{"<", "=", ">"} {
			env := consteval.Env{}
			for _, cm := range cs {
				s := sign
				if !cm.claimRcv { // B.method(T): ordering of B relative to T
					s = map[string]string{"<": ">", "=": "=", ">": "<"}[sign]
				}
				switch cm.method {
				case "After":
					env[cm.call] = consteval.B(s == ">")
				case "Before":
					env[cm.call] = consteval.B(s == "<")
				case "Equal":
					env[cm.call] = consteval.B(s == "=")
				case "Compare":
					env[cm.call] = consteval.C(map[string]int64{"<": -1, "=": 0, ">": 1}[s])
				}
			}
			bindPresence(env, claim, true)
			if claim == "iat" {
				bindField(env, "ExpectIssuedInThePast", true)
			}
			allFail, someOK, ok := run(env)
			if !ok {
				detail = "cannot fold validateTimestamps"
				break
			}
			if w.reject[sign] && !allFail {
				detail = fmt.Sprintf("a token with %s %s %s can pass validateTimestamps", claim, sign, w.bound)
			}
			if !w.reject[sign] && !someOK {
				detail = fmt.Sprintf("a token with %s %s %s is always rejected", claim, sign, w.bound)
			}
		}
		if claim == "iat" && detail == "" {
			// without ExpectIssuedInThePast a future iat is not a reason to reject
			env := consteval.Env{}
			for _, cm := range cs {
				switch cm.method {
				case "After":
					env[cm.call] = consteval.B(cm.claimRcv)
				case "Before":
					env[cm.call] = consteval.B(!cm.claimRcv)
				case "Equal":
					env[cm.call] = consteval.B(false)
				case "Compare":
					env[cm.call] = consteval.C(map[bool]int64{true: 1, false: -1}[cm.claimRcv])
				}
			}
			bindField(env, "ExpectIssuedInThePast", false)
			bindPresence(env, "iat", true)
			if _, someOK, ok := run(env); ok && !someOK {
				detail = "a future iat is rejected although ExpectIssuedInThePast is not set"
			}
		}
		r.Check(detail == "", "C09.time", key, p.FuncPos(vt), detail, w.desc+" (folded for T<B, T==B, T>B over "+fmt.Sprint(len(cs))+" comparison(s))")
	}
	// missing expiration
	{
		detail := ""
		for _, allow := range []bool{false, true} {
			env := consteval.Env{}
			bindPresence(env, "exp", false)
			bindField(env, "AllowMissingExpiration", allow)
			allFail, someOK, ok := run(env)
			switch {
			case !ok:
				detail = "cannot fold validateTimestamps"
			case !allow && !allFail:
				detail = "a token without exp can pass although AllowMissingExpiration is not set"
			case allow && !someOK:
				detail = "a token without exp is rejected although AllowMissingExpiration is set"
			}
		}
		r.Check(detail == "", "C09.time", "C09.time/validateTimestamps/missing-exp", p.FuncPos(vt), detail, "rejected iff !HasExpiration() && !AllowMissingExpiration")
	}
	// the clock is sampled per validation: every time.Now() of the JWT packages
	// sits in a function reached from validateTimestamps and its result is not
	// stored into an object
	var badNow []string
	nNow := 0
	for _, f := range p.SortedFuncs(core.Product) {
		if !isJWTPkg(core.Rel(core.PkgOf(f))) {
			continue
		}
		for _, cs := range callsTo(f, "time.Now") {
			nNow++
			if !seenFn[f] {
				badNow = append(badNow, core.FuncID(f)+" (not reached from validateTimestamps)")
				continue
			}
			if v, isV := cs.(ssa.Value); isV && v.Referrers() != nil {
				for _, ref := range *v.Referrers() {
					if st, isS := ref.(*ssa.Store); isS {
						if _, isFA := st.Addr.(*ssa.FieldAddr); isFA {
							badNow = append(badNow, core.FuncID(f)+" (stored into an object)")
						}
						if _, isG := st.Addr.(*ssa.Global); isG {
							badNow = append(badNow, core.FuncID(f)+" (stored into a global)")
						}
					}
				}
			}
		}
	}
	r.Check(len(badNow) == 0 && nNow > 0, "C09.time", "C09.time/clock sampled per validation", p.FuncPos(vt), "the clock is not sampled inside each validation: "+strings.Join(badNow, ", ")+fmt.Sprintf(" (%d time.Now sites)", nNow), "every time.Now() is evaluated inside validateTimestamps (or a helper it calls) and not stored")
	// NewValidator: skew limit, no write of FixedNow
	if nvf := p.PkgFunc("jwt", "NewValidator"); nvf == nil {
		r.AnchorMissing("C09.time", "jwt.NewValidator")
	} else {
		// folded: a skew of exactly 10 minutes is accepted, 10 minutes + 1 ns is rejected
		ev2 := consteval.New()
		runNV := func(skew int64) (allFail, someOK, ok bool) {
			env := bindFieldLoadsByName(nvf, map[string]consteval.Val{"ClockSkew": consteval.C(skew)})
			for _, prm := range nvf.Params {
				env[prm] = consteval.Val{K: consteval.Ref}
			}
			outs, ok := ev2.Eval(nvf, nil, env)
			if !ok || len(outs) == 0 {
				return false, false, false
			}
			allFail = true
			for _, o := range outs {
				if !(o.IsErr() || guard.DefinitelyFails(o.Ret)) {
					allFail, someOK = false, true
				}
			}
			return allFail, someOK, true
		}
		const tenMin = int64(10 * 60 * 1e9)
		_, okAt, ok1 := runNV(tenMin)
		failAbove, _, ok2 := runNV(tenMin + 1)
		failHuge, _, ok3 := runNV(1 << 62)
		limit := ok1 && ok2 && ok3 && okAt && failAbove && failHuge
		r.Check(limit, "C09.time", "C09.time/NewValidator/skew limit", p.FuncPos(nvf), fmt.Sprintf("NewValidator does not reject exactly the clock skews above 10 minutes (10min accepted=%v, 10min+1ns rejected=%v, 2^62ns rejected=%v)", okAt, failAbove, failHuge), "folded: ClockSkew = 10min accepted; 10min+1ns and 2^62ns rejected")
		writesNow := false
		allInstrs(nvf, func(ins ssa.Instruction) {
			if _, fld, _, ok := guard.StoreField(ins); ok && fld == "FixedNow" {
				writesNow = true
			}
		})
		r.Check(!writesNow, "C09.time", "C09.time/NewValidator/FixedNow untouched", p.FuncPos(nvf), "NewValidator assigns FixedNow: the validator would judge tokens against its construction time", "FixedNow is only read")
	}
}

// isNowValue: v is time.Now() taken in fn, the validator's FixedNow, or a phi of the two.
func isNowValue(v ssa.Value, fn *ssa.Function) bool {
	v = guard.Strip(v)
	switch x := v.(type) {
	case *ssa.Call:
		if guard.CalleeName(&x.Call) == "time.Now" {
			return true
		}
		// helper returning the clock: every return is a now-value and one is time.Now()
		if g := x.Call.StaticCallee(); g != nil && g.Blocks != nil && g != fn && isJWTPkg(core.Rel(core.PkgOf(g))) {
			rets := guard.Returns(g)
			sawNow := false
			for _, ret := range rets {
				if len(ret.Results) != 1 || !isNowValue(ret.Results[0], g) {
					return false
				}
				if c, _ := guard.CallOf(ret.Results[0]); c != nil && guard.CalleeName(&c.Call) == "time.Now" {
					sawNow = true
				}
			}
			return len(rets) > 0 && sawNow
		}
		return false
	case *ssa.Phi:
		sawNow := false
		for _, e := range x.Edges {
			if !isNowValue(e, fn) {
				return false
			}
			if c, _ := guard.CallOf(e); c != nil && guard.CalleeName(&c.Call) == "time.Now" {
				sawNow = true
			}
		}
		return sawNow
	case *ssa.UnOp:
		if x.Op == token.MUL {
			// heap-spilled local `now`
			if al, ok := x.X.(*ssa.Alloc); ok {
				n, sawNow := 0, false
				for _, ref := range *al.Referrers() {
					if st, isS := ref.(*ssa.Store); isS && st.Addr == ssa.Value(al) {
						n++
						if !isNowValue(st.Val, fn) {
							return false
						}
						if c, _ := guard.CallOf(st.Val); c != nil && guard.CalleeName(&c.Call) == "time.Now" {
							sawNow = true
						}
					}
				}
				return n > 0 && sawNow
			}
			_, fld, ok := guard.FieldOf(v)
			return ok && fld == "FixedNow"
		}
	}
	_, fld, ok := guard.FieldOf(v)
	return ok && fld == "FixedNow"
}

// ---------------------------------------------------------------- base64 / kid

func c09Base64(c *Ctx) {
	p, r := c.P, c.R
	nEnc := 0
	for _, f := range p.SortedFuncs(core.Product) {
		rel := core.Rel(core.PkgOf(f))
		if !isJWTPkg(rel) {
			continue
		}
		allInstrs(f, func(ins ssa.Instruction) {
			for _, op := range ins.Operands(nil) {
				if g, ok := (*op).(*ssa.Global); ok && g.Pkg != nil && g.Pkg.Pkg.Path() == "encoding/base64" {
					nEnc++
					key := fmt.Sprintf("C09.base64url/%s/%s", core.FuncID(f), g.Name())
					good := g.Name() == "URLEncoding" || g.Name() == "RawURLEncoding"
					r.Check(good, "C09.base64url", key, p.Pos(ins.Pos()), "a JWT package uses base64."+g.Name()+": RFC 7515 requires the URL-safe alphabet everywhere (kids and segments with '+' or '/' would not interoperate)", "URL-safe alphabet")
				}
			}
		})
	}
	r.Min("C09.base64url", 5)
	c09StrictDecode(c)
	c09AlgTables(c)
	c09AudKind(c)
	// key-ID derived kids
	nKid := 0
	for _, f := range p.SortedFuncs(core.Product) {
		rel := core.Rel(core.PkgOf(f))
		if !isJWTPkg(rel) || f.Synthetic != "" {
			continue
		}
		var idParam ssa.Value
		for _, prm := range f.Params {
			if isUint32(prm.Type()) {
				idParam = prm
			}
		}
		if idParam == nil {
			continue
		}
		// does the function base64-encode something derived from the id?
		allInstrs(f, func(ins ssa.Instruction) {
			call, ok := ins.(*ssa.Call)
			if !ok {
				return
			}
			nme := guard.CalleeName(&call.Call)
			var data ssa.Value
			switch {
			case nme == "(*encoding/base64.Encoding).EncodeToString":
				data = call.Call.Args[1]
			case strings.HasSuffix(nme, ".base64Encode"):
				data = call.Call.Args[0]
			default:
				return
			}
			if !bufferFromID(data, idParam) {
				return
			}
			nKid++
			key := "C09.kid/" + core.FuncID(f)
			good := false
			size, refs := fixedBuffer(data)
			if size == 4 {
				for _, ref := range refs {
					if pc, isC := ref.(*ssa.Call); isC && strings.HasSuffix(guard.CalleeName(&pc.Call), "bigEndian).PutUint32") && guard.Strip(pc.Call.Args[len(pc.Call.Args)-1]) == idParam {
						good = true
					}
				}
			}
			if !good {
				// binary.BigEndian.AppendUint32(empty, id): exactly the four big-endian bytes
				if ac, ai := guard.CallOf(data); ac != nil && ai == 0 && strings.HasSuffix(guard.CalleeName(&ac.Call), "bigEndian).AppendUint32") {
					args := ac.Call.Args
					base, idv := args[len(args)-2], args[len(args)-1]
					empty := guard.IsNilConst(base)
					if mk, isMk := guard.Strip(base).(*ssa.MakeSlice); isMk {
						if k, isK := guard.ConstInt(mk.Len); isK && k == 0 {
							empty = true
						}
					}
					if empty && guard.Strip(idv) == idParam {
						good = true
					}
				}
			}
			r.Check(good, "C09.kid", key, p.Pos(ins.Pos()), "a key-ID derived kid is not base64url of the fixed 4-byte big-endian key ID (the signing, verifying and JWK-export sides must agree, also for IDs with leading zero bytes)", "base64url(PutUint32(make([]byte,4), id))")
		})
	}
	// by value: the small kid helpers (uint32 [, OutputPrefixType]) -> string / *string folded
	// on key ID 0x00000102 (leading zero bytes) must give base64url-nopad(00 00 01 02) = "AAABAg"
	nVal := 0
	tinkPT, _ := constOf(p, "proto/tink_go_proto", "OutputPrefixType_TINK")
	for _, f := range p.SortedFuncs(core.Product) {
		if !isJWTPkg(core.Rel(core.PkgOf(f))) || f.Synthetic != "" || f.Parent() != nil || f.Signature.Recv() != nil {
			continue
		}
		sig := f.Signature
		if sig.Params().Len() < 1 || sig.Params().Len() > 2 || sig.Results().Len() != 1 || !isUint32(sig.Params().At(0).Type()) {
			continue
		}
		rt := sig.Results().At(0).Type()
		if pt, isP := rt.Underlying().(*types.Pointer); isP {
			rt = pt.Elem()
		}
		if bt, isB := rt.Underlying().(*types.Basic); !isB || bt.Info()&types.IsString == 0 {
			continue
		}
		if sig.Params().Len() == 2 && (core.TypeID(sig.Params().At(1).Type()) != "proto/tink_go_proto.OutputPrefixType" || tinkPT == nil) {
			continue
		}
		bad, folded := "", true
		for _, pr := range kidProbes {
			args := []consteval.Val{consteval.C(pr.id)}
			if sig.Params().Len() == 2 {
				args = append(args, consteval.Val{K: consteval.Const, C: tinkPT})
			}
			got, why := foldString(f, 0, args...)
			if why != "" {
				folded = false
				break
			}
			if got != pr.kid {
				bad = fmt.Sprintf("folded on key ID %#08x the kid is %q; base64url without padding of the four big-endian bytes is %q", pr.id, got, pr.kid)
			}
		}
		if !folded {
			continue
		}
		nVal++
		r.Check(bad == "", "C09.kid", "C09.kid/value/"+core.FuncID(f), p.FuncPos(f), bad, "kid(0x00000102) = \"AAABAg\", kid(0xfffffffe) = \"_____g\"")
	}
	// by value: the key types' computeKID under the Base64EncodedKeyIDAsKID strategy
	for _, f := range p.SortedFuncs(core.Product) {
		rel := core.Rel(core.PkgOf(f))
		if !isJWTPkg(rel) || f.Name() != "computeKID" || f.Parent() != nil || f.Signature.Results().Len() < 1 {
			continue
		}
		strat, okS := constOf(p, rel, "Base64EncodedKeyIDAsKID")
		if !okS {
			continue
		}
		sv := consteval.Val{K: consteval.Const, C: strat}
		var args []consteval.Val
		okArgs := true
		for _, prm := range f.Params {
			switch t := prm.Type().Underlying().(type) {
			case *types.Basic:
				switch {
				case t.Info()&types.IsString != 0:
					args = append(args, consteval.S(""))
				case t.Kind() == types.Bool:
					args = append(args, consteval.B(false))
				case t.Kind() == types.Uint32:
					args = append(args, consteval.Val{K: consteval.Unknown}) // placeholder: the probe
				case t.Info()&types.IsInteger != 0:
					args = append(args, sv) // the strategy itself
				default:
					okArgs = false
				}
			case *types.Pointer:
				if bt, isB := t.Elem().Underlying().(*types.Basic); isB && bt.Info()&types.IsString != 0 {
					args = append(args, consteval.Val{K: consteval.Nil}) // no custom kid
				} else {
					args = append(args, consteval.Val{K: consteval.Ref})
				}
			default:
				okArgs = false
			}
		}
		if !okArgs {
			continue
		}
		env := bindFieldLoadsByName(f, map[string]consteval.Val{"kidStrategy": sv})
		allInstrs(f, func(ins ssa.Instruction) {
			if call, ok := ins.(*ssa.Call); ok && strings.HasSuffix(guard.CalleeName(&call.Call), ").KIDStrategy") {
				env[call] = sv
			}
		})
		bad, folded := "", true
		for _, pr := range kidProbes {
			a2 := append([]consteval.Val{}, args...)
			for i, prm := range f.Params {
				if isUint32(prm.Type()) {
					a2[i] = consteval.C(pr.id)
				}
			}
			got, why := foldStringEnv(f, 0, env, a2...)
			if why != "" {
				folded = false
				break
			}
			if got != pr.kid {
				bad = fmt.Sprintf("folded on key ID %#08x under Base64EncodedKeyIDAsKID the kid is %q; base64url without padding of the four big-endian bytes is %q", pr.id, got, pr.kid)
			}
		}
		if !folded {
			continue
		}
		nVal++
		r.Check(bad == "", "C09.kid", "C09.kid/value/"+core.FuncID(f), p.FuncPos(f), bad, "kid(0x00000102) = \"AAABAg\", kid(0xfffffffe) = \"_____g\"")
	}
	r.Counts["kid_encoders"], r.Counts["kid_helpers_folded"] = nKid, nVal
	r.Min("C09.kid", 6)
}

// bufferFromID: the encoded data derives from the id parameter (a buffer the
// id was written into, or bytes computed from it).
func bufferFromID(data, id ssa.Value) bool {
	data = guard.Strip(data)
	if derivesFrom(data, id, 0) {
		return true
	}
	if _, refs := fixedBuffer(data); refs != nil {
		for _, ref := range refs {
			if pc, isC := ref.(*ssa.Call); isC {
				for _, a := range pc.Call.Args {
					if guard.Strip(a) == id {
						return true
					}
				}
			}
		}
	}
	return false
}

// fixedBuffer: v is make([]byte, N) with constant N (lowered by go/ssa to a
// slice of a new [N]byte, or a MakeSlice); returns N and the instructions
// that use the buffer.
func fixedBuffer(v ssa.Value) (int64, []ssa.Instruction) {
	v = guard.Strip(v)
	switch x := v.(type) {
	case *ssa.MakeSlice:
		if k, ok := guard.ConstInt(x.Len); ok {
			return k, *x.Referrers()
		}
	case *ssa.Slice:
		if al, ok := x.X.(*ssa.Alloc); ok && x.Low == nil {
			if arr, ok := al.Type().Underlying().(*types.Pointer).Elem().Underlying().(*types.Array); ok {
				if x.High == nil {
					return arr.Len(), *x.Referrers()
				}
				if k, isC := guard.ConstInt(x.High); isC && k == arr.Len() {
					return arr.Len(), *x.Referrers()
				}
			}
		}
	}
	return 0, nil
}

// ---------------------------------------------------------------- JWK export

func c09JWKPublic(c *Ctx) {
	p, r := c.P, c.R
	f := p.PkgFunc("internal/jwk", "FromPublicKeysetHandle")
	if f == nil {
		r.AnchorMissing("C09.jwkpublic", "internal/jwk.FromPublicKeysetHandle")
		return
	}
	enabled, _ := constOf(p, "keyset", "Enabled")
	// type switch arms: every asserted type must be a public key type (no PublicKey() method, no secretdata field)
	nArms := 0
	allInstrs(f, func(ins ssa.Instruction) {
		ta, ok := ins.(*ssa.TypeAssert)
		if !ok {
			return
		}
		nt := core.NamedOf(ta.AssertedType)
		if nt == nil || nt.Obj().Pkg() == nil || core.ClassOf(nt.Obj().Pkg().Path()) != core.Product {
			return
		}
		nArms++
		key := "C09.jwkpublic/arm " + core.TypeID(ta.AssertedType)
		hasPub := false
		ms := p.SSA.MethodSets.MethodSet(ta.AssertedType)
		for i := 0; i < ms.Len(); i++ {
			if ms.At(i).Obj().Name() == "PublicKey" || ms.At(i).Obj().Name() == "PrivateKeyValue" || ms.At(i).Obj().Name() == "PrivateKeyBytes" {
				hasPub = true
			}
		}
		r.Check(!hasPub, "C09.jwkpublic", key, p.Pos(ins.Pos()), "JWK export handles a private key type", "public key type (no PublicKey()/private accessors)")
	})
	if nArms < 4 {
		r.AnchorMissing("C09.jwkpublic", fmt.Sprintf("type switch arms in FromPublicKeysetHandle (%d)", nArms))
	}
	// non-Enabled entries skipped: a KeyStatus() comparison with Enabled guards the conversion
	skip := false
	allInstrs(f, func(ins ssa.Instruction) {
		if cmp, ok := ins.(*ssa.BinOp); ok && (cmp.Op == token.NEQ || cmp.Op == token.EQL) {
			for _, pr := range [][2]ssa.Value{{cmp.X, cmp.Y}, {cmp.Y, cmp.X}} {
				if sc, _ := guard.CallOf(pr[0]); sc != nil && isEntryMethod(&sc.Call, "KeyStatus") && isConstEq(pr[1], enabled) {
					skip = true
				}
			}
		}
	})
	r.Check(skip, "C09.jwkpublic", "C09.jwkpublic/status filter", p.FuncPos(f), "JWK export does not filter entries by KeyStatus() == Enabled", "entries compared with keyset.Enabled")
}

// c09StrictDecode: encoding/base64 decoders ignore '\r' and '\n' in the input,
// so a compact JWS with line breaks inside a segment would decode to the same
// bytes as the canonical one (many accepted spellings of one token). Every
// direct decode call in the JWT packages must be dominated by a complete scan of
// the same string: range over it, a predicate applied to every rune, an error
// return when the predicate refuses — and the predicate refuses CR, LF and the
// characters outside the unpadded URL-safe alphabet.
func c09StrictDecode(c *Ctx) {
	p, r := c.P, c.R
	n := 0
	for _, f := range p.SortedFuncs(core.Product) {
		if !isJWTPkg(core.Rel(core.PkgOf(f))) {
			continue
		}
		allInstrs(f, func(ins ssa.Instruction) {
			call, ok := ins.(*ssa.Call)
			if !ok {
				return
			}
			nme := guard.CalleeName(&call.Call)
			if nme != "(*encoding/base64.Encoding).DecodeString" && nme != "(*encoding/base64.Encoding).Decode" && nme != "(*encoding/base64.Encoding).AppendDecode" {
				return
			}
			n++
			src := call.Call.Args[len(call.Call.Args)-1]
			key := fmt.Sprintf("C09.strictdecode/%s", core.FuncID(f))
			why := "the decoded string is not scanned, character by character, before it is handed to the base64 decoder (which skips CR and LF)"
			good := false
			// predScan: a predicate is applied to elemV (the rune / byte of the scan), its refusal
			// leads to a failing return, and — folded — it refuses CR, LF, '=', '+', '/', space
			// and accepts the URL-safe alphabet
			predScan := func(runeV ssa.Value) {
				allInstrs(f, func(i3 ssa.Instruction) {
					pc, isC := i3.(*ssa.Call)
					if !isC || len(pc.Call.Args) != 1 || guard.Strip(pc.Call.Args[0]) != runeV {
						return
					}
					g := pc.Call.StaticCallee()
					if g == nil || g.Blocks == nil {
						return
					}
					refuses := false
					for _, ret := range guard.Returns(f) {
						if !guard.DefinitelyFails(ret) {
							continue
						}
						for _, fct := range guard.BlockFacts(ret.Block()) {
							if c2, val, isB := guard.BoolCallFact(fct); isB && c2 == pc && !val {
								refuses = true
							}
						}
					}
					if !refuses {
						why = "a character the predicate refuses does not lead to an error"
						return
					}
					// the loop continues only when the predicate accepted: every back edge has pred == true
					ev := consteval.New()
					bad := ""
					for _, ch := range []rune{'\r', '\n', '=', '+', '/', ' ', '.', 0x80} {
						outs, ok := ev.Eval(g, []consteval.Val{consteval.C(int64(ch))}, nil)
						if !ok || len(outs) != 1 || outs[0].Results[0].K != consteval.Const || constant.BoolVal(outs[0].Results[0].C) {
							bad = fmt.Sprintf("%q", ch)
						}
					}
					okCh := true
					for _, ch := range []rune{'a', 'Z', '0', '-', '_'} {
						outs, ok := ev.Eval(g, []consteval.Val{consteval.C(int64(ch))}, nil)
						if !ok || len(outs) != 1 || outs[0].Results[0].K != consteval.Const || !constant.BoolVal(outs[0].Results[0].C) {
							okCh = false
						}
					}
					if bad != "" {
						why = "the character predicate " + g.Name() + " does not refuse " + bad
						return
					}
					if okCh {
						good = true
					}
				})
			}
			allInstrs(f, func(i2 ssa.Instruction) {
				rg, isR := i2.(*ssa.Range)
				if !isR || !guard.SameValue(rg.X, src) && guard.Strip(rg.X) != guard.Strip(src) {
					return
				}
				// the loop: next := Next(rg); ok := extract 0; rune := extract 2
				for _, ref := range *rg.Referrers() {
					nx, isN := ref.(*ssa.Next)
					if !isN {
						continue
					}
					var okV, runeV ssa.Value
					for _, r2 := range *nx.Referrers() {
						if ex, isE := r2.(*ssa.Extract); isE {
							switch ex.Index {
							case 0:
								okV = ex
							case 2:
								runeV = ex
							}
						}
					}
					if okV == nil || runeV == nil {
						continue
					}
					// the decode call is reached only when the scan is exhausted: fact ok == false
					exhausted := false
					for _, fct := range guard.InstrFacts(call) {
						if fct.Cond == okV && !fct.True {
							exhausted = true
						}
					}
					if !exhausted {
						why = "the decoder can be reached before the scan of the string is complete"
						continue
					}
					// predicate applied to the rune; refusal leads to a failing return
					predScan(runeV)
				}
			})
			if !good {
				// byte-indexed form: for i := 0; i < len(s); i++ { if !pred(s[i]) { return err } }
				allInstrs(f, func(i2 ssa.Instruction) {
					lk, isL := i2.(*ssa.Index)
					if !isL || !(guard.SameValue(lk.X, src) || guard.Strip(lk.X) == guard.Strip(src)) {
						return
					}
					if bt, isB := lk.X.Type().Underlying().(*types.Basic); !isB || bt.Info()&types.IsString == 0 {
						return
					}
					cl := countedLoopOf(lk.Index)
					if os.Getenv("TV_DBG_B64") != "" {
						fmt.Fprintf(os.Stderr, "B64 %s: lookup %v cl=%v\n", f.Name(), lk, cl)
						if cl != nil {
							fmt.Fprintf(os.Stderr, "  complete=%v cbe=%v inloop=%v bound=%v\n", cl.Complete, cl.CompleteButErrors, cl.Blocks[call.Block()], cl.Bound)
						}
					}
					if cl == nil || !(cl.Complete || cl.CompleteButErrors) || cl.Blocks[call.Block()] {
						why = "the decoder can be reached before the scan of the string is complete"
						return
					}
					lc, _ := guard.CallOf(cl.Bound)
					if lc == nil {
						return
					}
					if b, isB := lc.Call.Value.(*ssa.Builtin); !isB || b.Name() != "len" || !(guard.SameValue(lc.Call.Args[0], src) || guard.Strip(lc.Call.Args[0]) == guard.Strip(src)) {
						return
					}
					if !(cl.Header == call.Block() || cl.Header.Dominates(call.Block())) {
						return
					}
					predScan(lk)
				})
			}
			if !good {
				// strings.ContainsFunc(s, isBad) == false / strings.IndexFunc(s, isBad) < 0 dominating the decode
				for _, fct := range guard.InstrFacts(call) {
					var sc *ssa.Call
					if c2, val, isB := guard.BoolCallFact(fct); isB && !val && guard.CalleeName(&c2.Call) == "strings.ContainsFunc" {
						sc = c2
					}
					if op, x, y, isC := guard.Cmp(fct); isC {
						if c2, _ := guard.CallOf(x); c2 != nil && guard.CalleeName(&c2.Call) == "strings.IndexFunc" {
							if k, isK := guard.ConstInt(y); isK && ((op == token.LSS && k == 0) || (op == token.EQL && k == -1)) {
								sc = c2
							}
						}
					}
					if sc == nil || !(guard.SameValue(sc.Call.Args[0], src) || guard.Strip(sc.Call.Args[0]) == guard.Strip(src)) {
						continue
					}
					var g *ssa.Function
					switch fv := guard.Strip(sc.Call.Args[1]).(type) {
					case *ssa.Function:
						g = fv
					case *ssa.MakeClosure:
						g, _ = fv.Fn.(*ssa.Function)
					}
					if g == nil || g.Blocks == nil {
						continue
					}
					ev := consteval.New()
					okAll := true
					for ch, wantBad := range map[rune]bool{'\r': true, '\n': true, '=': true, '+': true, '/': true, ' ': true, '.': true, 0x80: true, 'a': false, 'Z': false, '0': false, '-': false, '_': false} {
						outs, ok := ev.Eval(g, []consteval.Val{consteval.C(int64(ch))}, nil)
						if !ok || len(outs) != 1 || outs[0].Results[0].K != consteval.Const || constant.BoolVal(outs[0].Results[0].C) != wantBad {
							okAll = false
						}
					}
					if okAll {
						good = true
					}
				}
			}
			r.Check(good, "C09.strictdecode", key, p.Pos(ins.Pos()), why, "complete scan with a predicate refusing CR, LF, '=', '+', '/', space dominates the decode")
		})
	}
	r.Counts["base64_decode_sites"] = n
	r.Min("C09.strictdecode", 2)
}

// kidProbes: key IDs with leading zero bytes, and with 6-bit groups 62/63
// (where the URL-safe and the standard alphabet differ).
var kidProbes = []struct {
	id  int64
	kid string
}{{0x00000102, "AAABAg"}, {0xfffffffe, "_____g"}}
