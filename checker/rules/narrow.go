package rules

import (
	"fmt"
	"go/token"
	"go/types"

	"golang.org/x/tools/go/ssa"

	"tinkverif/bounds"
	"tinkverif/core"
	"tinkverif/guard"
)

// intBits returns the width of an integer type (int/uint: 64 on the primary
// target) and whether it is an integer.
func intBits(t types.Type) (int, bool) {
	b, ok := t.Underlying().(*types.Basic)
	if !ok || b.Info()&types.IsInteger == 0 {
		return 0, false
	}
	switch b.Kind() {
	case types.Int8, types.Uint8:
		return 8, true
	case types.Int16, types.Uint16:
		return 16, true
	case types.Int32, types.Uint32:
		return 32, true
	}
	return 64, true
}

// lenDerived: v is len(x) or arithmetic (+,-,*,<<) over such values and constants.
func lenDerived(v ssa.Value, depth int) bool {
	if depth > 5 {
		return false
	}
	v = guard.Strip(v)
	switch x := v.(type) {
	case *ssa.Call:
		if b, ok := x.Call.Value.(*ssa.Builtin); ok && b.Name() == "len" {
			_, isStr := x.Call.Args[0].Type().Underlying().(*types.Basic)
			_ = isStr
			return true
		}
	case *ssa.BinOp:
		switch x.Op {
		case token.ADD, token.SUB, token.MUL, token.SHL:
			return lenDerived(x.X, depth+1) || lenDerived(x.Y, depth+1)
		}
	}
	return false
}

// narrowingSites lists conversions of length-derived values to a narrower
// integer type in the given package that are not dominated by a guard making
// the value provably small enough.
func narrowingRule(c *Ctx, rule string, pkgs map[string]bool, min int) {
	p, r := c.P, c.R
	n := 0
	for _, f := range p.SortedFuncs(core.Product) {
		if !pkgs[core.Rel(core.PkgOf(f))] {
			continue
		}
		allInstrs(f, func(ins ssa.Instruction) {
			cv, ok := ins.(*ssa.Convert)
			if !ok {
				return
			}
			from, ok1 := intBits(cv.X.Type())
			to, ok2 := intBits(cv.Type())
			if !ok1 || !ok2 || to >= from {
				return
			}
			// guard.Strip would see through nested conversions: look at the operand itself
			if !lenDerivedRaw(cv.X, 0) {
				return
			}
			n++
			key := fmt.Sprintf("%s/%s/%s", rule, core.FuncID(f), valName(cv.X))
			if len(f.Name()) >= 3 && f.Name()[:3] == "New" && f.Signature.Recv() == nil {
				r.Outside(rule, key, p.Pos(ins.Pos()), "constructor validating a key length: an oversized key is rejected by the cipher constructor itself; the rule is about message/associated-data lengths")
				return
			}
			cx := bounds.NewCtx(f)
			facts := cx.FactsToLin(guard.InstrFacts(ins))
			limit := int64(1)<<uint(to) - 1
			val := cx.Lin(cv.X)
			okB, _ := cx.Entails(facts, bounds.Konst(limit).Add(val, -1))
			if !okB {
				okB = narrowBoundedByCallers(p, f, cv.X, limit, 1, 0)
			}
			if okB {
				// arithmetic continued in the narrow type wraps as well: uint32(len(x))*8
				for _, ref := range *cv.Referrers() {
					bo, isBO := ref.(*ssa.BinOp)
					if !isBO || (bo.X != ssa.Value(cv) && bo.Y != ssa.Value(cv)) {
						continue
					}
					if bb, okBits := intBits(bo.Type()); !okBits || bb != to {
						continue
					}
					other := bo.Y
					if bo.Y == ssa.Value(cv) {
						other = bo.X
					}
					k, isK := guard.ConstInt(other)
					var mul, add int64
					switch {
					case bo.Op == token.MUL && isK && k > 0:
						mul = k
					case bo.Op == token.SHL && isK && k >= 0 && k < 62 && bo.X == ssa.Value(cv):
						mul = 1 << uint(k)
					case bo.Op == token.ADD && isK && k >= 0:
						mul, add = 1, k
					default:
						continue
					}
					scaled := bounds.Konst(limit - add).Add(val, -mul)
					okW, _ := cx.Entails(cx.FactsToLin(guard.InstrFacts(bo)), scaled)
					if !okW {
						okW = narrowBoundedByCallers(p, f, cv.X, limit, mul, add)
					}
					r.Check(okW, rule, key+" "+bo.Op.String()+" in the narrow type", p.Pos(bo.Pos()),
						fmt.Sprintf("a length-derived value is multiplied/offset (%s %d) in a %d-bit type without a guard bounding the result: it wraps for large inputs, so distinct inputs produce the same encoded length", bo.Op, k, to),
						fmt.Sprintf("result bounded by a dominating guard (<= %d)", limit))
				}
			}
			r.Check(okB, rule, key, p.Pos(ins.Pos()), fmt.Sprintf("a length-derived value (%s) is converted to a %d-bit integer without a dominating guard bounding it: for inputs of 2^%d bytes or more the value wraps, so distinct inputs produce the same encoded length", val, to, to),
				fmt.Sprintf("bounded by a dominating guard (<= %d)", limit))
		})
	}
	// widening after multiplying: uint64(len(x)*8) computes the product in the
	// platform's int, which is 32 bits wide on the module's GOARCH=386 target —
	// the product wraps before it is widened (uint64(len(x))*8 does not)
	for _, f := range p.SortedFuncs(core.Product) {
		if !pkgs[core.Rel(core.PkgOf(f))] {
			continue
		}
		allInstrs(f, func(ins ssa.Instruction) {
			cv, ok := ins.(*ssa.Convert)
			if !ok {
				return
			}
			fb, ok1 := cv.X.Type().Underlying().(*types.Basic)
			tb, ok2 := cv.Type().Underlying().(*types.Basic)
			if !ok1 || !ok2 || !(fb.Kind() == types.Int || fb.Kind() == types.Uint) || !(tb.Kind() == types.Int64 || tb.Kind() == types.Uint64) {
				return
			}
			bo, isB := cv.X.(*ssa.BinOp)
			if !isB || !(bo.Op == token.MUL || bo.Op == token.SHL) || !lenDerivedRaw(bo, 0) {
				return
			}
			key := fmt.Sprintf("%s/%s/%s widened after multiplying", rule, core.FuncID(f), valName(cv.X))
			cx := bounds.NewCtx(f)
			facts := cx.FactsToLin(guard.InstrFacts(ins))
			okB, _ := cx.Entails(facts, bounds.Konst(1<<31-1).Add(cx.Lin(bo), -1))
			r.Check(okB, rule, key, p.Pos(ins.Pos()), "a length is multiplied in the platform int and only then widened to 64 bits: on 32-bit targets (GOARCH=386 is a CI target of this module) the product wraps for inputs of 2^28 bytes or more, so the encoded bit length differs from the standard's",
				"product bounded below 2^31 by a dominating guard")
		})
	}
	r.Counts["length_narrowings"] = n
	if min > 0 {
		r.Min(rule, min)
	}
}

func lenDerivedRaw(v ssa.Value, depth int) bool {
	if depth > 6 {
		return false
	}
	switch x := v.(type) {
	case *ssa.Convert:
		return lenDerivedRaw(x.X, depth+1)
	case *ssa.ChangeType:
		return lenDerivedRaw(x.X, depth+1)
	case *ssa.Call:
		if b, ok := x.Call.Value.(*ssa.Builtin); ok && b.Name() == "len" {
			return true
		}
	case *ssa.BinOp:
		switch x.Op {
		case token.ADD, token.SUB, token.MUL, token.SHL:
			return lenDerivedRaw(x.X, depth+1) || lenDerivedRaw(x.Y, depth+1)
		}
	}
	return false
}

// narrowBoundedByCallers: v is len(param) (through conversions) in an unexported
// helper; the bound holds when every call site of the helper in the module is a
// static call dominated by a guard bounding the length of the argument passed.
func narrowBoundedByCallers(p *core.Program, f *ssa.Function, v ssa.Value, limit, mul, add int64) bool {
	for {
		if cv, ok := v.(*ssa.Convert); ok {
			v = cv.X
			continue
		}
		if ct, ok := v.(*ssa.ChangeType); ok {
			v = ct.X
			continue
		}
		break
	}
	call, ok := v.(*ssa.Call)
	if !ok {
		return false
	}
	if b, isB := call.Call.Value.(*ssa.Builtin); !isB || b.Name() != "len" || len(call.Call.Args) != 1 {
		return false
	}
	prm, ok := call.Call.Args[0].(*ssa.Parameter)
	if !ok || token.IsExported(f.Name()) || f.Parent() != nil {
		return false
	}
	idx := -1
	for i, q := range f.Params {
		if q == prm {
			idx = i
		}
	}
	sites := p.Callers(f)
	if idx < 0 || len(sites) == 0 {
		return false
	}
	for _, site := range sites {
		cc := site.Common()
		if cc.StaticCallee() != f || idx >= len(cc.Args) || site.Parent() == nil {
			return false
		}
		if _, isCall := site.(*ssa.Call); !isCall {
			return false
		}
		cx := bounds.NewCtx(site.Parent())
		facts := cx.FactsToLin(guard.InstrFacts(site.(ssa.Instruction)))
		if okS, _ := cx.Entails(facts, bounds.Konst(limit-add).Add(cx.LenOf(cc.Args[idx]), -mul)); !okS {
			return false
		}
	}
	return true
}
