package consteval

import (
	"encoding/base64"
	"encoding/binary"
	"encoding/hex"
	"fmt"
	"go/constant"
	"go/token"
	"go/types"
	"os"

	"golang.org/x/tools/go/ssa"
)

// Byte buffers as constants. Layout functions (suite ids, nonces, prefixes,
// labelled inputs) build a byte string from their arguments with make / append
// / copy / PutUintN / element stores. When every argument is bound to a
// constant, the buffer they build is a constant too; this file extends the
// propagator's constant domain with such buffers (and small local arrays), with
// Go's aliasing between a slice and the slices cut from it. It is partial
// evaluation of pure functions on the source's SSA form — nothing of the
// analysed repository is compiled or run. A branch that does not fold while a
// buffer is live ends the evaluation as undecided (states would share buffers).

// Buf is the backing store of a byte slice / byte array, or of a small local
// array of other constants.
type Buf struct {
	Data  []byte
	Elems []Val // generic array (non-byte element type)
}

// buffer kinds of a Val
const (
	bkNone  = iota
	bkSlice // []byte over B.Data[Off:Off+Len], capacity Cap
	bkArr   // pointer to the whole array B
	bkElem  // pointer to element Off of B
	bkValue // array value (copy semantics)
)

// Bytes returns the constant bytes of a byte-slice value.
func (v Val) Bytes() ([]byte, bool) {
	if v.K == Ref && v.BK == bkSlice && v.B != nil && v.B.Data != nil && v.Off+v.Len <= len(v.B.Data) {
		return append([]byte{}, v.B.Data[v.Off:v.Off+v.Len]...), true
	}
	if v.K == Nil {
		return nil, true
	}
	return nil, false
}

// BytesVal makes a constant byte-slice argument (len == cap).
func BytesVal(b []byte) Val {
	return Val{K: Ref, BK: bkSlice, B: &Buf{Data: append([]byte{}, b...)}, Len: len(b), Cap: len(b)}
}

func (v Val) bufString() string {
	if b, ok := v.Bytes(); ok && v.K == Ref {
		return "bytes:" + hex.EncodeToString(b)
	}
	return "ref"
}

func isByteType(t types.Type) bool {
	b, ok := t.Underlying().(*types.Basic)
	return ok && (b.Kind() == types.Uint8 || b.Kind() == types.Byte)
}

func constInt(v Val) (int64, bool) {
	if v.K != Const || v.C.Kind() != constant.Int {
		return 0, false
	}
	return constant.Int64Val(v.C)
}

func constUint(v Val) (uint64, bool) {
	if v.K != Const || v.C.Kind() != constant.Int {
		return 0, false
	}
	return constant.Uint64Val(v.C)
}

// newBuf registers a live buffer (forks are refused from now on).
func (e *Evaluator) newBuf(b *Buf) *Buf {
	e.bufs++
	return b
}

// stepBytes evaluates the instructions of the buffer domain; handled reports
// whether v was one of them.
func (e *Evaluator) stepBytes(vals map[ssa.Value]Val, v ssa.Value) (Val, bool) {
	switch x := v.(type) {
	case *ssa.Alloc:
		elemT := x.Type().Underlying().(*types.Pointer).Elem()
		if _, isBasic := elemT.Underlying().(*types.Basic); isBasic {
			// an address-taken scalar local (s := …; return &s): a one-element cell
			return Val{K: Ref, BK: bkElem, B: e.newBuf(&Buf{Elems: []Val{zeroVal(elemT)}})}, true
		}
		at, ok := elemT.Underlying().(*types.Array)
		if !ok || at.Len() > 1<<16 {
			return Val{}, false
		}
		if isByteType(at.Elem()) {
			return Val{K: Ref, BK: bkArr, B: e.newBuf(&Buf{Data: make([]byte, at.Len())})}, true
		}
		if at.Len() <= 64 {
			el := make([]Val, at.Len())
			for i := range el {
				el[i] = zeroVal(at.Elem())
			}
			return Val{K: Ref, BK: bkArr, B: e.newBuf(&Buf{Elems: el})}, true
		}
		return Val{}, false
	case *ssa.MakeSlice:
		st, ok := x.Type().Underlying().(*types.Slice)
		if !ok || !isByteType(st.Elem()) {
			return Val{}, false
		}
		n, ok1 := constInt(e.get(vals, x.Len))
		c, ok2 := constInt(e.get(vals, x.Cap))
		if !ok1 || !ok2 || n < 0 || c < n || c > 1<<20 {
			return Val{}, false
		}
		return Val{K: Ref, BK: bkSlice, B: e.newBuf(&Buf{Data: make([]byte, c)}), Len: int(n), Cap: int(c)}, true
	case *ssa.Slice:
		a := e.get(vals, x.X)
		idx := func(v ssa.Value, def int) (int, bool) {
			if v == nil {
				return def, true
			}
			k, ok := constInt(e.get(vals, v))
			return int(k), ok
		}
		switch {
		case a.K == Ref && a.BK == bkArr && a.B != nil:
			n := len(a.B.Data) + len(a.B.Elems)
			lo, o1 := idx(x.Low, 0)
			hi, o2 := idx(x.High, n)
			mx, o3 := idx(x.Max, n)
			if !o1 || !o2 || !o3 || lo < 0 || lo > hi || hi > mx || mx > n {
				return Val{K: Ref}, true
			}
			return Val{K: Ref, BK: bkSlice, B: a.B, Off: lo, Len: hi - lo, Cap: mx - lo}, true
		case a.K == Ref && a.BK == bkSlice && a.B != nil:
			lo, o1 := idx(x.Low, 0)
			hi, o2 := idx(x.High, a.Len)
			mx, o3 := idx(x.Max, a.Cap)
			if !o1 || !o2 || !o3 || lo < 0 || lo > hi || hi > mx || mx > a.Cap {
				return Val{K: Ref}, true
			}
			return Val{K: Ref, BK: bkSlice, B: a.B, Off: a.Off + lo, Len: hi - lo, Cap: mx - lo}, true
		case a.K == Const && a.C.Kind() == constant.String:
			s := constant.StringVal(a.C)
			lo, o1 := idx(x.Low, 0)
			hi, o2 := idx(x.High, len(s))
			if !o1 || !o2 || lo < 0 || lo > hi || hi > len(s) {
				return Val{}, true
			}
			return S(s[lo:hi]), true
		}
		return Val{}, false
	case *ssa.IndexAddr:
		a := e.get(vals, x.X)
		i, ok := constInt(e.get(vals, x.Index))
		if a.K != Ref || a.B == nil || !ok || (a.BK != bkSlice && a.BK != bkArr) {
			return Val{}, false
		}
		n := a.Len
		if a.BK == bkArr {
			n = len(a.B.Data) + len(a.B.Elems)
		}
		if i < 0 || int(i) >= n {
			return Val{K: Ref}, true
		}
		return Val{K: Ref, BK: bkElem, B: a.B, Off: a.Off + int(i)}, true
	case *ssa.Index:
		a := e.get(vals, x.X)
		i, ok := constInt(e.get(vals, x.Index))
		if !ok {
			return Val{}, false
		}
		if a.K == Const && a.C.Kind() == constant.String {
			s := constant.StringVal(a.C)
			if i >= 0 && int(i) < len(s) {
				return C(int64(s[i])), true
			}
			return Val{}, true
		}
		if a.K == Ref && a.BK == bkValue && a.B != nil {
			if a.B.Data != nil && int(i) < len(a.B.Data) {
				return C(int64(a.B.Data[i])), true
			}
			if a.B.Elems != nil && int(i) < len(a.B.Elems) {
				return a.B.Elems[i], true
			}
		}
		return Val{}, false
	case *ssa.UnOp:
		if x.Op != token.MUL {
			return Val{}, false
		}
		if g, isG := x.X.(*ssa.Global); isG && g.Pkg != nil && g.Pkg.Pkg.Path() == "encoding/base64" {
			return Val{K: Ref, Tag: g.Name()}, true
		}
		a := e.get(vals, x.X)
		if a.K == Ref && a.Tag != "" {
			return a, true // the encoding value behind the pointer
		}
		if a.K != Ref || a.B == nil {
			return Val{}, false
		}
		switch a.BK {
		case bkElem:
			if a.B.Data != nil && a.Off < len(a.B.Data) {
				return C(int64(a.B.Data[a.Off])), true
			}
			if a.B.Elems != nil && a.Off < len(a.B.Elems) {
				return a.B.Elems[a.Off], true
			}
		case bkArr:
			// the array value: a copy
			cp := &Buf{}
			if a.B.Data != nil {
				cp.Data = append([]byte{}, a.B.Data...)
			} else {
				cp.Elems = append([]Val{}, a.B.Elems...)
			}
			return Val{K: Ref, BK: bkValue, B: cp}, true
		}
		return Val{}, false
	case *ssa.Convert:
		a := e.get(vals, x.X)
		// string <-> []byte
		if st, ok := x.Type().Underlying().(*types.Slice); ok && isByteType(st.Elem()) && a.K == Const && a.C.Kind() == constant.String {
			s := constant.StringVal(a.C)
			return Val{K: Ref, BK: bkSlice, B: e.newBuf(&Buf{Data: []byte(s)}), Len: len(s), Cap: len(s)}, true
		}
		if bt, ok := x.Type().Underlying().(*types.Basic); ok && bt.Info()&types.IsString != 0 {
			if b, isB := a.Bytes(); isB && a.K == Ref {
				return S(string(b)), true
			}
		}
		return Val{}, false
	}
	return Val{}, false
}

// storeBytes performs a store through an element / array pointer of the buffer
// domain. It reports false when the store makes a live buffer unknown.
func (e *Evaluator) storeBytes(vals map[ssa.Value]Val, st *ssa.Store) bool {
	a := e.get(vals, st.Addr)
	if a.K != Ref || a.B == nil {
		return true
	}
	v := e.get(vals, st.Val)
	switch a.BK {
	case bkElem:
		if a.B.Data != nil {
			k, ok := constUint(v)
			if !ok {
				if ks, okS := constInt(v); okS {
					k, ok = uint64(ks), true
				}
			}
			if !ok || a.Off >= len(a.B.Data) {
				return false
			}
			a.B.Data[a.Off] = byte(k)
			return true
		}
		if a.B.Elems != nil && a.Off < len(a.B.Elems) {
			a.B.Elems[a.Off] = v
			return true
		}
	case bkArr:
		if v.K == Ref && v.BK == bkValue && v.B != nil {
			if a.B.Data != nil && len(v.B.Data) == len(a.B.Data) {
				copy(a.B.Data, v.B.Data)
				return true
			}
			if a.B.Elems != nil && len(v.B.Elems) == len(a.B.Elems) {
				copy(a.B.Elems, v.B.Elems)
				return true
			}
		}
		return false
	}
	return true
}

// appendBytes implements append for the buffer domain (in place when the
// capacity suffices, as Go does; otherwise a fresh buffer of exactly the
// needed size).
func (e *Evaluator) appendBytes(dst Val, add []byte) Val {
	var base []byte
	if dst.K == Nil {
		dst = Val{K: Ref, BK: bkSlice, B: &Buf{Data: []byte{}}}
	}
	if dst.K != Ref || dst.BK != bkSlice || dst.B == nil {
		return Val{}
	}
	if dst.Len+len(add) <= dst.Cap {
		copy(dst.B.Data[dst.Off+dst.Len:], add)
		return Val{K: Ref, BK: bkSlice, B: dst.B, Off: dst.Off, Len: dst.Len + len(add), Cap: dst.Cap}
	}
	base = append(base, dst.B.Data[dst.Off:dst.Off+dst.Len]...)
	base = append(base, add...)
	return Val{K: Ref, BK: bkSlice, B: e.newBuf(&Buf{Data: base}), Len: len(base), Cap: len(base)}
}

// bytesOrString: the constant bytes of a []byte or string argument.
func bytesOrString(v Val) ([]byte, bool) {
	if v.K == Const && v.C.Kind() == constant.String {
		return []byte(constant.StringVal(v.C)), true
	}
	if b, ok := v.Bytes(); ok {
		return b, true
	}
	return nil, false
}

// callBytes evaluates builtins and standard-library byte helpers on constant
// buffers; handled reports whether the callee is one of them.
func (e *Evaluator) callBytes(vals map[ssa.Value]Val, c *ssa.Call) (Val, bool) {
	cc := &c.Call
	if b, ok := cc.Value.(*ssa.Builtin); ok {
		switch b.Name() {
		case "len", "cap":
			a := e.get(vals, cc.Args[0])
			if a.K == Ref && a.BK == bkSlice {
				if b.Name() == "len" {
					return C(int64(a.Len)), true
				}
				return C(int64(a.Cap)), true
			}
			if a.K == Ref && (a.BK == bkArr || a.BK == bkValue) && a.B != nil {
				return C(int64(len(a.B.Data) + len(a.B.Elems))), true
			}
		case "copy":
			dst := e.get(vals, cc.Args[0])
			src, ok := bytesOrString(e.get(vals, cc.Args[1]))
			if dst.K == Ref && dst.BK == bkSlice && dst.B != nil && ok {
				n := copy(dst.B.Data[dst.Off:dst.Off+dst.Len], src)
				return C(int64(n)), true
			}
			if dst.K == Ref && dst.BK == bkSlice {
				e.impure = true // a live buffer receives unknown bytes
			}
		case "append":
			dst := e.get(vals, cc.Args[0])
			if len(cc.Args) == 1 {
				return dst, true
			}
			add, ok := bytesOrString(e.get(vals, cc.Args[1]))
			if (dst.K == Nil || (dst.K == Ref && dst.BK == bkSlice)) && ok {
				if st, isS := cc.Args[0].Type().Underlying().(*types.Slice); isS && isByteType(st.Elem()) {
					return e.appendBytes(dst, add), true
				}
			}
			if dst.K == Ref && dst.BK == bkSlice {
				e.impure = true
			}
		}
		return Val{}, false
	}
	callee := cc.StaticCallee()
	if callee == nil {
		return Val{}, false
	}
	name := callee.String()
	if o := callee.Origin(); o != nil {
		// an instantiation of a generic function (slices.Concat[[]byte byte])
		name = o.String()
	}
	arg := func(i int) Val { return e.get(vals, cc.Args[i]) }
	var order binary.ByteOrder
	var aorder binary.AppendByteOrder
	switch {
	case len(name) > 32 && name[:32] == "(encoding/binary.bigEndian).":
		order, aorder = binary.BigEndian, binary.BigEndian
	case len(name) > 35 && name[:35] == "(encoding/binary.littleEndian).":
		order, aorder = binary.LittleEndian, binary.LittleEndian
	}
	if order != nil {
		width := map[string]int{"Uint16": 2, "Uint32": 4, "Uint64": 8}
		m := callee.Name()
		switch {
		case len(m) > 3 && m[:3] == "Put":
			w := width[m[3:]]
			dst := arg(1)
			k, ok := constUint(arg(2))
			if w == 0 || dst.K != Ref || dst.BK != bkSlice || dst.B == nil {
				return Val{}, false
			}
			if !ok || dst.Len < w {
				e.impure = true
				return Val{}, true
			}
			put(order, dst.B.Data[dst.Off:dst.Off+dst.Len], w, k)
			return Val{}, true
		case len(m) > 6 && m[:6] == "Append":
			w := width[m[6:]]
			dst := arg(1)
			k, ok := constUint(arg(2))
			if w == 0 || !ok || !(dst.K == Nil || (dst.K == Ref && dst.BK == bkSlice)) {
				return Val{}, false
			}
			tmp := make([]byte, w)
			put(order, tmp, w, k)
			_ = aorder
			return e.appendBytes(dst, tmp), true
		default:
			w := width[m]
			src, ok := arg(1).Bytes()
			if w == 0 || !ok || len(src) < w {
				return Val{}, false
			}
			switch w {
			case 2:
				return Val{K: Const, C: constant.MakeUint64(uint64(order.Uint16(src)))}, true
			case 4:
				return Val{K: Const, C: constant.MakeUint64(uint64(order.Uint32(src)))}, true
			default:
				return Val{K: Const, C: constant.MakeUint64(order.Uint64(src))}, true
			}
		}
	}
	switch name {
	case "bytes.Clone", "slices.Clone":
		if a := arg(0); a.K == Nil {
			return a, true
		} else if b, ok := a.Bytes(); ok {
			return Val{K: Ref, BK: bkSlice, B: e.newBuf(&Buf{Data: b}), Len: len(b), Cap: len(b)}, true
		}
	case "slices.Concat", "bytes.Join":
		parts := arg(0)
		if parts.K == Ref && parts.BK == bkSlice && parts.B != nil && parts.B.Elems != nil && name == "slices.Concat" {
			var out []byte
			for _, el := range parts.B.Elems[parts.Off : parts.Off+parts.Len] {
				b, ok := bytesOrString(el)
				if !ok {
					if os.Getenv("TV_DBG_FORK") != "" {
						fmt.Fprintf(os.Stderr, "CONCAT element not constant: %s\n", el)
					}
					return Val{}, false
				}
				out = append(out, b...)
			}
			return Val{K: Ref, BK: bkSlice, B: e.newBuf(&Buf{Data: out}), Len: len(out), Cap: len(out)}, true
		}
	case "bytes.Equal":
		a, ok1 := arg(0).Bytes()
		b, ok2 := arg(1).Bytes()
		if ok1 && ok2 {
			return B(string(a) == string(b)), true
		}
	case "(*encoding/base64.Encoding).WithPadding", "(encoding/base64.Encoding).WithPadding":
		a := arg(0)
		pad, ok := constInt(arg(1))
		if a.Tag != "" && ok {
			t := a.Tag
			if i := indexByte(t, '/'); i >= 0 {
				t = t[:i]
			}
			if pad == -1 {
				return Val{K: Ref, Tag: t + "/nopad"}, true
			}
			if pad == '=' {
				return Val{K: Ref, Tag: t + "/pad"}, true
			}
		}
	case "(*encoding/base64.Encoding).EncodeToString":
		a := arg(0)
		b, ok := arg(1).Bytes()
		if enc := encodingOf(a.Tag); enc != nil && ok {
			return S(enc.EncodeToString(b)), true
		}
	}
	return Val{}, false
}

func indexByte(s string, c byte) int {
	for i := 0; i < len(s); i++ {
		if s[i] == c {
			return i
		}
	}
	return -1
}

func put(order binary.ByteOrder, dst []byte, w int, k uint64) {
	switch w {
	case 2:
		order.PutUint16(dst, uint16(k))
	case 4:
		order.PutUint32(dst, uint32(k))
	case 8:
		order.PutUint64(dst, k)
	}
}

// encodingOf maps the tag of a base64 encoding value to the encoding.
func encodingOf(tag string) *base64.Encoding {
	switch tag {
	case "URLEncoding", "URLEncoding/pad":
		return base64.URLEncoding
	case "RawURLEncoding", "URLEncoding/nopad", "RawURLEncoding/nopad":
		return base64.RawURLEncoding
	case "StdEncoding", "StdEncoding/pad":
		return base64.StdEncoding
	case "RawStdEncoding", "StdEncoding/nopad", "RawStdEncoding/nopad":
		return base64.RawStdEncoding
	}
	return nil
}

// Deref returns the constant a pointer result points to (a scalar cell made
// by `s := …; return &s`).
func (v Val) Deref() (Val, bool) {
	if v.K == Ref && v.BK == bkElem && v.B != nil && v.B.Elems != nil && v.Off < len(v.B.Elems) {
		return v.B.Elems[v.Off], true
	}
	return Val{}, false
}
