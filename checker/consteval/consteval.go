// Package consteval is engine E: conditional constant propagation over the
// SSA form of small pure "table" functions (enum mappings, size formulas,
// validators). Chosen SSA values (parameters, or the result of a particular
// load/call) are bound to constants; branches whose condition folds are
// followed, others are explored on both sides. The result is the set of
// abstract returns. Nothing of the analysed repository is compiled or run.
package consteval

import (
	"fmt"
	"go/constant"
	"go/token"
	"go/types"
	"os"
	"sort"

	"golang.org/x/tools/go/ssa"
)

// Kind of an abstract value.
type Kind int

const (
	Unknown Kind = iota
	Const        // C holds the constant (int, bool, string)
	Nil          // the nil value of a pointer/interface/slice/error type
	Err          // a definitely non-nil error
	Ref          // some non-nil reference we do not model (address, allocation)
)

// Val is an abstract value.
type Val struct {
	K Kind
	C constant.Value
	// Fn: for K == Ref, the function the value is known to be (function-valued
	// table entries), so that a call through it can be folded.
	Fn *ssa.Function
	// constant byte buffers and small local arrays (bytes.go; Evaluator.Bytes)
	B             *Buf
	BK            int
	Off, Len, Cap int
	// Tag names an opaque standard-library object (a base64 encoding)
	Tag string
	// Fields: the constant fields of a struct value read from a table literal
	Fields map[int]Val
}

func (v Val) String() string {
	switch v.K {
	case Const:
		return v.C.ExactString()
	case Nil:
		return "nil"
	case Err:
		return "error"
	case Ref:
		return v.bufString()
	}
	return "?"
}

// Env binds SSA values to constants.
type Env map[ssa.Value]Val

// Outcome is one abstract return.
type Outcome struct {
	Ret     *ssa.Return
	Results []Val
	// Stores: constant values stored into struct fields on the path (by field
	// name; last store wins) — lets a rule read a constructed struct literal.
	Stores map[string]Val
}

// IsErr reports whether the outcome's last result is a definite error.
func (o Outcome) IsErr() bool { return len(o.Results) > 0 && o.Results[len(o.Results)-1].K == Err }

// IsOK reports whether the outcome's last result is a definite nil error.
func (o Outcome) IsOK() bool { return len(o.Results) > 0 && o.Results[len(o.Results)-1].K == Nil }

// Evaluator holds limits.
type Evaluator struct {
	MaxDepth int // call depth
	Fuel     int // instruction budget per top-level Eval
	Forks    int // branches whose condition did not fold (both sides explored), cumulative
	fuel     int
	start    *ssa.BasicBlock
	stop     map[*ssa.BasicBlock]bool
	hitStop  bool
	// Resolve optionally maps a dynamic/invoke call to a callee.
	Resolve func(c *ssa.CallCommon) *ssa.Function
	// OnStop, when set, is told each arrival at a stop block of EvalFrom: the
	// block the path came from and a reader of the values on that path.
	OnStop func(from, stop *ssa.BasicBlock, get func(ssa.Value) Val)
	// Watch/OnWatch: OnWatch is called each time evaluation is about to execute
	// the instruction Watch (at any call depth), with a reader of the values there.
	Watch   ssa.Instruction
	OnWatch func(get func(ssa.Value) Val)
	// Bytes enables the byte-buffer constant domain (bytes.go). With it, a branch
	// that does not fold while a buffer is live makes the evaluation undecided.
	Bytes  bool
	bufs   int
	impure bool
	// ranges over package-level map literals: entries are served in key order, or in
	// reverse key order on the confirming second run (see Eval)
	mapRanges int
	revOrder  bool
}

// New returns an evaluator with default limits.
func New() *Evaluator { return &Evaluator{MaxDepth: 5, Fuel: 400000} }

// C makes a constant int value.
func C(i int64) Val { return Val{K: Const, C: constant.MakeInt64(i)} }

// S makes a constant string value.
func S(s string) Val { return Val{K: Const, C: constant.MakeString(s)} }

// B makes a constant bool value.
func B(b bool) Val { return Val{K: Const, C: constant.MakeBool(b)} }

// Eval evaluates fn with parameters bound by position (nil entries: unknown)
// and extra bindings env. It returns the distinct abstract outcomes; ok is
// false when the budget was exhausted (result incomplete).
func (e *Evaluator) Eval(fn *ssa.Function, args []Val, env Env) (outs []Outcome, ok bool) {
	e.fuel = e.Fuel
	e.bufs, e.impure = 0, false
	e.mapRanges, e.revOrder = 0, false
	outs = e.eval(fn, args, env, 0)
	ok = e.fuel > 0 && !e.impure
	if ok && e.mapRanges > 0 {
		// Go leaves the iteration order of a map unspecified: the result counts only
		// when serving the entries in the opposite order gives the same outcomes
		e.fuel = e.Fuel
		e.bufs, e.revOrder = 0, true
		outs2 := e.eval(fn, args, env, 0)
		e.revOrder = false
		if e.fuel <= 0 || e.impure || !sameOutcomes(outs, outs2) {
			return outs, false
		}
	}
	return outs, ok
}

func sameOutcomes(a, b []Outcome) bool {
	key := func(os []Outcome) map[string]bool {
		m := map[string]bool{}
		for _, o := range os {
			k := ""
			for _, r := range o.Results {
				k += r.String() + "|"
			}
			if o.Ret != nil {
				k += string(rune(o.Ret.Pos()))
			}
			m[k] = true
		}
		return m
	}
	ka, kb := key(a), key(b)
	if len(ka) != len(kb) {
		return false
	}
	for k := range ka {
		if !kb[k] {
			return false
		}
	}
	return true
}

type frame struct {
	vals map[ssa.Value]Val
}

// EvalFrom evaluates from the beginning of block start (not the function
// entry) until a return or a block of stop is reached. reachedStop reports
// whether some path arrived at a stop block.
func (e *Evaluator) EvalFrom(start *ssa.BasicBlock, stop map[*ssa.BasicBlock]bool, env Env) (outs []Outcome, reachedStop bool, ok bool) {
	e.fuel = e.Fuel
	e.start, e.stop, e.hitStop = start, stop, false
	e.mapRanges, e.revOrder = 0, false
	outs = e.eval(start.Parent(), nil, env, 0)
	e.start, e.stop = nil, nil
	// a map was ranged over: the order-independence of the result is only confirmed by Eval
	return outs, e.hitStop, e.fuel > 0 && e.mapRanges == 0
}

func (e *Evaluator) eval(fn *ssa.Function, args []Val, env Env, depth int) []Outcome {
	if fn == nil || len(fn.Blocks) == 0 || depth > e.MaxDepth {
		return nil
	}
	var outs []Outcome
	seen := map[string]bool{}
	base := map[ssa.Value]Val{}
	for i, p := range fn.Params {
		if i < len(args) {
			base[p] = args[i]
		}
	}
	for k, v := range env {
		base[k] = v
	}
	type state struct {
		b, pred *ssa.BasicBlock
		vals    map[ssa.Value]Val
		visits  map[*ssa.BasicBlock]int
	}
	first := fn.Blocks[0]
	var stops map[*ssa.BasicBlock]bool
	if depth == 0 && e.start != nil {
		first, stops = e.start, e.stop
	}
	stack := []state{{first, nil, base, map[*ssa.BasicBlock]int{}}}
	for len(stack) > 0 && e.fuel > 0 {
		st := stack[len(stack)-1]
		stack = stack[:len(stack)-1]
		vals := st.vals
		b, pred := st.b, st.pred
		for {
			if stops[b] && !(b == first && st.visits[b] == 0) {
				e.hitStop = true
				if e.OnStop != nil {
					e.OnStop(pred, b, func(v ssa.Value) Val { return e.get(vals, v) })
				}
				break
			}
			st.visits[b]++
			if st.visits[b] > 4096 {
				break
			}
			var next *ssa.BasicBlock
			fork := false
			for _, ins := range b.Instrs {
				e.fuel--
				if e.Watch != nil && ins == e.Watch && e.OnWatch != nil {
					e.OnWatch(func(v ssa.Value) Val { return e.get(vals, v) })
				}
				switch x := ins.(type) {
				case *ssa.If:
					c := e.get(vals, x.Cond)
					if c.K == Const && c.C.Kind() == constant.Bool {
						if constant.BoolVal(c.C) {
							next = b.Succs[0]
						} else {
							next = b.Succs[1]
						}
					} else {
						// explore both; bound revisits on unknown conditions
						e.Forks++
						if os.Getenv("TV_DBG_FORK") != "" {
							fmt.Fprintf(os.Stderr, "FORK %s: %s = %v (%s)\n", b.Parent().Name(), x.Cond.Name(), x.Cond, c)
						}
						if e.Bytes && e.bufs > 0 {
							// the two sides would share the live buffers
							e.impure = true
							e.fuel = 0
							fork = true
							break
						}
						if st.visits[b] > 3 {
							next = nil
							fork = true
							break
						}
						for _, s := range b.Succs {
							nv := make(map[ssa.Value]Val, len(vals))
							for k, v := range vals {
								nv[k] = v
							}
							nvis := make(map[*ssa.BasicBlock]int, len(st.visits))
							for k, v := range st.visits {
								nvis[k] = v
							}
							stack = append(stack, state{s, b, nv, nvis})
						}
						fork = true
					}
				case *ssa.Jump:
					next = b.Succs[0]
				case *ssa.Store:
					if e.Bytes && !e.storeBytes(vals, x) {
						e.impure = true
					}
					// a struct value with known constant fields stored into a local: the local's
					// pointer carries the fields (read back through FieldAddr + load)
					if al, isAl := x.Addr.(*ssa.Alloc); isAl {
						if sv := e.get(vals, x.Val); sv.Fields != nil {
							vals[al] = Val{K: Ref, Fields: sv.Fields}
						}
					}
					if fa, ok := x.Addr.(*ssa.FieldAddr); ok {
						if st, ok := fa.X.Type().Underlying().(*types.Pointer).Elem().Underlying().(*types.Struct); ok {
							vals[storeKey{st.Field(fa.Field).Name()}] = e.get(vals, x.Val)
						}
					}
				case *ssa.Return:
					o := Outcome{Ret: x, Stores: map[string]Val{}}
					for k, v := range vals {
						if sk, ok := k.(storeKey); ok {
							o.Stores[sk.name] = v
						}
					}
					key := ""
					for _, rv := range x.Results {
						v := e.get(vals, rv)
						o.Results = append(o.Results, v)
						key += v.String() + "|"
					}
					key += string(rune(x.Pos()))
					if !seen[key] {
						seen[key] = true
						outs = append(outs, o)
					}
				case *ssa.Panic:
					// treated as no return
				case ssa.Value:
					if _, isEnv := env[x]; isEnv {
						continue
					}
					if _, isEnv := env[tupleKey{x, 0}]; isEnv {
						continue // tuple-valued instruction bound component-wise
					}
					vals[x] = e.step(vals, x, pred, env, depth)
				}
				if fork {
					break
				}
			}
			if fork || next == nil {
				break
			}
			pred, b = b, next
		}
	}
	return outs
}

func (e *Evaluator) get(vals map[ssa.Value]Val, v ssa.Value) Val {
	if x, ok := vals[v]; ok {
		return x
	}
	switch c := v.(type) {
	case *ssa.Const:
		if c.Value == nil {
			return Val{K: Nil}
		}
		return Val{K: Const, C: c.Value}
	case *ssa.Function, *ssa.Global:
		return Val{K: Ref}
	}
	return Val{}
}

func (e *Evaluator) step(vals map[ssa.Value]Val, v ssa.Value, pred *ssa.BasicBlock, env Env, depth int) Val {
	if e.Bytes {
		if bv, handled := e.stepBytes(vals, v); handled {
			return bv
		}
	}
	switch x := v.(type) {
	case *ssa.Phi:
		for i, p := range x.Block().Preds {
			if p == pred {
				return e.get(vals, x.Edges[i])
			}
		}
		return Val{}
	case *ssa.BinOp:
		a, b := e.get(vals, x.X), e.get(vals, x.Y)
		return binop(x.Op, a, b, x.X.Type(), x.Type())
	case *ssa.UnOp:
		if x.Op == token.MUL {
			// element of a package-level array literal with a known index
			if ia, isIA := x.X.(*ssa.IndexAddr); isIA {
				if g, isG := ia.X.(*ssa.Global); isG {
					if k := e.get(vals, ia.Index); k.K == Const && k.C.Kind() == constant.Int {
						if tbl, ok := GlobalArray(g); ok {
							if i, exact := constant.Int64Val(k.C); exact {
								if v, has := tbl[i]; has {
									return v
								}
								if at, isArr := g.Type().(*types.Pointer).Elem().Underlying().(*types.Array); isArr && i >= 0 && i < at.Len() {
									return zeroVal(at.Elem())
								}
							}
						}
					}
				}
			}
			if fa, isFA := x.X.(*ssa.FieldAddr); isFA {
				if base := e.get(vals, fa.X); base.Fields != nil {
					if fv, ok := base.Fields[fa.Field]; ok {
						return fv
					}
					return zeroVal(x.Type())
				}
			}
			// package-level error variable (errFoo = errors.New(...)): a definite error
			if g, ok := x.X.(*ssa.Global); ok && isErrIface(g.Type().(*types.Pointer).Elem()) {
				return Val{K: Err}
			}
		}
		a := e.get(vals, x.X)
		if a.K != Const {
			return Val{}
		}
		switch x.Op {
		case token.NOT:
			return Val{K: Const, C: constant.MakeBool(!constant.BoolVal(a.C))}
		case token.SUB:
			return wrap(Val{K: Const, C: constant.UnaryOp(token.SUB, a.C, 0)}, x.Type())
		case token.XOR:
			return wrap(Val{K: Const, C: constant.UnaryOp(token.XOR, a.C, 0)}, x.Type())
		}
		return Val{}
	case *ssa.Convert:
		a := e.get(vals, x.X)
		if a.K == Const && a.C.Kind() == constant.Int {
			if b, ok := x.Type().Underlying().(*types.Basic); ok && b.Info()&types.IsInteger != 0 {
				return wrap(a, x.Type())
			}
		}
		if a.K == Const && a.C.Kind() == constant.String {
			if b, ok := x.Type().Underlying().(*types.Basic); ok && b.Info()&types.IsString != 0 {
				return a
			}
		}
		return Val{}
	case *ssa.ChangeType:
		return e.get(vals, x.X)
	case *ssa.MakeInterface:
		a := e.get(vals, x.X)
		if a.K == Const || a.K == Nil {
			return a
		}
		if isErrIface(x.Type()) {
			return Val{K: Err}
		}
		return Val{K: Ref}
	case *ssa.ChangeInterface:
		return e.get(vals, x.X)
	case *ssa.Alloc, *ssa.MakeSlice, *ssa.MakeMap, *ssa.MakeClosure, *ssa.FieldAddr, *ssa.IndexAddr:
		return Val{K: Ref}
	case *ssa.Slice:
		// re-slicing keeps nil-ness: a[:] of an array pointer or of a non-nil slice is non-nil
		if a := e.get(vals, x.X); a.K == Ref || a.K == Nil {
			if _, isStr := x.X.Type().Underlying().(*types.Basic); !isStr {
				return a
			}
		}
		return Val{}
	case *ssa.Field:
		if a := e.get(vals, x.X); a.Fields != nil {
			if fv, ok := a.Fields[x.Field]; ok {
				return fv
			}
			if st, ok := x.X.Type().Underlying().(*types.Struct); ok {
				return zeroVal(st.Field(x.Field).Type())
			}
		}
		return Val{}
	case *ssa.Extract:
		if t, ok := vals[tupleKey{x.Tuple, x.Index}]; ok {
			return t
		}
		return Val{}
	case *ssa.TypeAssert:
		return Val{}
	case *ssa.Call:
		return e.call(vals, x, env, depth)
	case *ssa.Range:
		// range over a complete package-level map literal: an iterator position
		if ld, ok := x.X.(*ssa.UnOp); ok {
			if g, isG := ld.X.(*ssa.Global); isG {
				if tbl, complete := GlobalMap(g); tbl != nil && complete && globalMapKeys[g] != nil {
					vals[iterKey{x}] = C(0)
					e.mapRanges++
					return Val{K: Ref}
				}
			}
		}
		return Val{}
	case *ssa.Next:
		rg, ok := x.Iter.(*ssa.Range)
		pos, has := vals[iterKey{x.Iter}]
		if !ok || !has || x.IsString || pos.K != Const {
			return Val{}
		}
		g := rg.X.(*ssa.UnOp).X.(*ssa.Global)
		tbl, _ := GlobalMap(g)
		keys := make([]string, 0, len(tbl))
		for k := range tbl {
			keys = append(keys, k)
		}
		sort.Strings(keys)
		if e.revOrder {
			for i, j := 0, len(keys)-1; i < j; i, j = i+1, j-1 {
				keys[i], keys[j] = keys[j], keys[i]
			}
		}
		i, _ := constant.Int64Val(pos.C)
		tt := x.Type().(*types.Tuple)
		if int(i) >= len(keys) {
			vals[tupleKey{x, 0}] = B(false)
			vals[tupleKey{x, 1}] = zeroVal(tt.At(1).Type())
			vals[tupleKey{x, 2}] = zeroVal(tt.At(2).Type())
			return Val{}
		}
		kc, okK := globalMapKeys[g][keys[i]]
		if !okK {
			delete(vals, iterKey{x.Iter})
			return Val{}
		}
		vals[iterKey{x.Iter}] = C(i + 1)
		vals[tupleKey{x, 0}] = B(true)
		vals[tupleKey{x, 1}] = wrap(Val{K: Const, C: kc}, tt.At(1).Type())
		vals[tupleKey{x, 2}] = tbl[keys[i]]
		return Val{}
	case *ssa.Lookup:
		// lookup in a package-level map literal with a known key
		ld, ok := x.X.(*ssa.UnOp)
		if !ok {
			return Val{}
		}
		g, ok := ld.X.(*ssa.Global)
		if !ok {
			return Val{}
		}
		tbl, complete := GlobalMap(g)
		k := e.get(vals, x.Index)
		if tbl == nil || !complete || k.K != Const {
			return Val{}
		}
		v, found := tbl[k.C.ExactString()]
		if x.CommaOk {
			if !found {
				v = zeroVal(x.Type().(*types.Tuple).At(0).Type())
			}
			vals[tupleKey{x, 0}] = v
			vals[tupleKey{x, 1}] = B(found)
			return Val{}
		}
		if !found {
			return zeroVal(x.Type())
		}
		return v
	}
	return Val{}
}

func zeroVal(t types.Type) Val {
	if b, ok := t.Underlying().(*types.Basic); ok {
		switch {
		case b.Info()&types.IsInteger != 0:
			return C(0)
		case b.Info()&types.IsString != 0:
			return S("")
		case b.Info()&types.IsBoolean != 0:
			return B(false)
		}
	}
	return Val{K: Nil}
}

var globalMaps = map[*ssa.Global]map[string]Val{}
var globalMapsComplete = map[*ssa.Global]bool{}

// GlobalMap reads a package-level map literal `var g = map[K]V{const: const, …}`
// from the package initialiser; complete is false when the map is also
// modified elsewhere or has non-constant entries.
func GlobalMap(g *ssa.Global) (map[string]Val, bool) {
	if t, ok := globalMaps[g]; ok {
		return t, globalMapsComplete[g]
	}
	globalMaps[g] = nil
	if g.Pkg == nil {
		return nil, false
	}
	init := g.Pkg.Func("init")
	if init == nil {
		return nil, false
	}
	var mk *ssa.MakeMap
	for _, b := range init.Blocks {
		for _, ins := range b.Instrs {
			if st, ok := ins.(*ssa.Store); ok && st.Addr == ssa.Value(g) {
				if m, ok := st.Val.(*ssa.MakeMap); ok {
					mk = m
				}
			}
		}
	}
	if mk == nil {
		// var inv = invert(fwd): a one-to-one literal table turned around at init time by
		// a helper whose body is `for k, v := range m { out[v] = k }`
		for _, b := range init.Blocks {
			for _, ins := range b.Instrs {
				st, ok := ins.(*ssa.Store)
				if !ok || st.Addr != ssa.Value(g) {
					continue
				}
				call, isCall := st.Val.(*ssa.Call)
				if !isCall || len(call.Call.Args) != 1 || !isInvertHelper(call.Call.StaticCallee()) {
					continue
				}
				ld, isLd := call.Call.Args[0].(*ssa.UnOp)
				if !isLd {
					continue
				}
				src, isG := ld.X.(*ssa.Global)
				if !isG {
					continue
				}
				fwd, okF := GlobalMap(src)
				if !okF {
					continue
				}
				inv := map[string]Val{}
				keys := map[string]constant.Value{}
				oneToOne := true
				for ks, v := range fwd {
					if v.K != Const {
						oneToOne = false
						continue
					}
					vs := v.C.ExactString()
					if _, dup := inv[vs]; dup {
						oneToOne = false
					}
					inv[vs] = Val{K: Const, C: globalMapKeys[src][ks]}
					keys[vs] = v.C
				}
				if oneToOne {
					globalMaps[g] = inv
					globalMapKeys[g] = keys
					globalMapsComplete[g] = true
					return inv, true
				}
			}
		}
		return nil, false
	}
	tbl := map[string]Val{}
	keyConsts := map[string]constant.Value{}
	globalMapKeys[g] = keyConsts
	complete := true
	for _, ref := range *mk.Referrers() {
		switch x := ref.(type) {
		case *ssa.MapUpdate:
			var kv constant.Value
			if k, ok1 := x.Key.(*ssa.Const); ok1 && k.Value != nil {
				kv = k.Value
			} else if sk, okS := StdlibConst(x.Key); okS {
				kv = sk
			}
			// function-valued entries (tables of helpers)
			fv := x.Value
			if ct, isCT := fv.(*ssa.ChangeType); isCT {
				fv = ct.X
			}
			if mc, isMC := fv.(*ssa.MakeClosure); isMC && len(mc.Bindings) == 0 {
				fv = mc.Fn
			}
			if fn, isFn := fv.(*ssa.Function); isFn && kv != nil {
				keyConsts[kv.ExactString()] = kv
				tbl[kv.ExactString()] = Val{K: Ref, Fn: fn}
				continue
			}
			v, ok2 := x.Value.(*ssa.Const)
			if kv != nil && !ok2 {
				// a struct literal: its constant fields; anything else: the key is still known
				// to be present, which is what comma-ok membership tests need
				keyConsts[kv.ExactString()] = kv
				tbl[kv.ExactString()] = structLiteral(x.Value)
				continue
			}
			if kv == nil || !ok2 {
				complete = false
				continue
			}
			keyConsts[kv.ExactString()] = kv
			if v.Value == nil {
				tbl[kv.ExactString()] = Val{K: Nil}
			} else {
				tbl[kv.ExactString()] = Val{K: Const, C: v.Value}
			}
		case *ssa.Store:
		default:
			complete = false
		}
	}
	// written anywhere else in the package?
	for _, mem := range g.Pkg.Members {
		fn, ok := mem.(*ssa.Function)
		if !ok || fn == init {
			continue
		}
		for _, b := range fn.Blocks {
			for _, ins := range b.Instrs {
				if mu, ok := ins.(*ssa.MapUpdate); ok {
					if ld, ok := mu.Map.(*ssa.UnOp); ok && ld.X == ssa.Value(g) {
						complete = false
					}
				}
				if st, ok := ins.(*ssa.Store); ok && st.Addr == ssa.Value(g) {
					complete = false
				}
			}
		}
	}
	globalMaps[g] = tbl
	globalMapsComplete[g] = complete
	return tbl, complete
}

var globalMapKeys = map[*ssa.Global]map[string]constant.Value{}

// isInvertHelper: fn(m map[K]V) map[V]K whose body makes a map and, ranging
// over m, stores out[v] = k (nothing else is stored into the result).
func isInvertHelper(fn *ssa.Function) bool {
	if fn == nil || fn.Blocks == nil || len(fn.Params) != 1 {
		return false
	}
	var mk *ssa.MakeMap
	var rng *ssa.Range
	for _, b := range fn.Blocks {
		for _, ins := range b.Instrs {
			switch x := ins.(type) {
			case *ssa.MakeMap:
				if mk != nil {
					return false
				}
				mk = x
			case *ssa.Range:
				if rng != nil || x.X != ssa.Value(fn.Params[0]) {
					return false
				}
				rng = x
			}
		}
	}
	if mk == nil || rng == nil {
		return false
	}
	updates := 0
	for _, ref := range *mk.Referrers() {
		switch x := ref.(type) {
		case *ssa.MapUpdate:
			k, ok1 := x.Key.(*ssa.Extract)
			v, ok2 := x.Value.(*ssa.Extract)
			if !ok1 || !ok2 || k.Index != 2 || v.Index != 1 {
				return false
			}
			nk, okk := k.Tuple.(*ssa.Next)
			nv, okv := v.Tuple.(*ssa.Next)
			if !okk || !okv || nk != nv || nk.Iter != ssa.Value(rng) {
				return false
			}
			updates++
		case *ssa.Return:
		default:
			return false
		}
	}
	return updates == 1
}

// StdlibConst recognises values that are constants by a standard-library
// contract: elliptic.P256().Params().Name == "P-256" (P-224, P-384, P-521 alike).
func StdlibConst(v ssa.Value) (constant.Value, bool) {
	u, ok := v.(*ssa.UnOp)
	if !ok || u.Op != token.MUL {
		return nil, false
	}
	fa, ok := u.X.(*ssa.FieldAddr)
	if !ok {
		return nil, false
	}
	pt, ok := fa.X.Type().Underlying().(*types.Pointer)
	if !ok {
		return nil, false
	}
	st, ok := pt.Elem().Underlying().(*types.Struct)
	if !ok || st.Field(fa.Field).Name() != "Name" {
		return nil, false
	}
	pc, ok := fa.X.(*ssa.Call)
	if !ok || !pc.Call.IsInvoke() || pc.Call.Method.Name() != "Params" {
		return nil, false
	}
	cc, ok := pc.Call.Value.(*ssa.Call)
	if !ok {
		return nil, false
	}
	callee := cc.Call.StaticCallee()
	if callee == nil {
		return nil, false
	}
	switch callee.String() {
	case "crypto/elliptic.P224":
		return constant.MakeString("P-224"), true
	case "crypto/elliptic.P256":
		return constant.MakeString("P-256"), true
	case "crypto/elliptic.P384":
		return constant.MakeString("P-384"), true
	case "crypto/elliptic.P521":
		return constant.MakeString("P-521"), true
	}
	return nil, false
}

// storeKey records the last value stored into a struct field of that name.
type storeKey struct {
	name string
}

func (storeKey) Name() string                  { return "store" }
func (storeKey) String() string                { return "store" }
func (storeKey) Type() types.Type              { return nil }
func (storeKey) Parent() *ssa.Function         { return nil }
func (storeKey) Referrers() *[]ssa.Instruction { return nil }
func (storeKey) Pos() token.Pos                { return token.NoPos }

// iterKey holds the position of a map iterator (ssa.Range) in the value map.
type iterKey struct{ v ssa.Value }

func (iterKey) Name() string                  { return "iter" }
func (iterKey) String() string                { return "iter" }
func (iterKey) Type() types.Type              { return nil }
func (iterKey) Parent() *ssa.Function         { return nil }
func (iterKey) Referrers() *[]ssa.Instruction { return nil }
func (iterKey) Pos() token.Pos                { return token.NoPos }

// tupleKey addresses a component of a tuple-valued call in the value map.
type tupleKey struct {
	ssa.Value
	idx int
}

func (k tupleKey) Name() string { return "tuple" }

func isErrIface(t types.Type) bool {
	n, ok := t.(*types.Named)
	return ok && n.Obj().Pkg() == nil && n.Obj().Name() == "error"
}

func (e *Evaluator) call(vals map[ssa.Value]Val, c *ssa.Call, env Env, depth int) Val {
	cc := &c.Call
	if e.Bytes {
		if bv, handled := e.callBytes(vals, c); handled {
			return bv
		}
	}
	if b, ok := cc.Value.(*ssa.Builtin); ok {
		switch b.Name() {
		case "len":
			a := e.get(vals, cc.Args[0])
			if a.K == Const && a.C.Kind() == constant.String {
				return C(int64(len(constant.StringVal(a.C))))
			}
			if l, ok := e.lenOf(vals, env, cc.Args[0], 0); ok {
				return C(l)
			}
		case "append":
			// appending to a non-nil slice yields a non-nil slice
			if a := e.get(vals, cc.Args[0]); a.K == Ref {
				return a
			}
		case "min", "max":
			var best constant.Value
			for _, arg := range cc.Args {
				a := e.get(vals, arg)
				if a.K != Const {
					return Val{}
				}
				if best == nil || (b.Name() == "min" && constant.Compare(a.C, token.LSS, best)) || (b.Name() == "max" && constant.Compare(a.C, token.GTR, best)) {
					best = a.C
				}
			}
			return Val{K: Const, C: best}
		}
		return Val{}
	}
	callee := cc.StaticCallee()
	if callee == nil && !cc.IsInvoke() {
		if fv := e.get(vals, cc.Value); fv.Fn != nil {
			callee = fv.Fn
		}
	}
	if callee == nil && e.Resolve != nil {
		callee = e.Resolve(cc)
	}
	if callee == nil {
		return Val{}
	}
	switch callee.String() {
	case "fmt.Errorf", "errors.New":
		return Val{K: Err}
	case "(time.Duration).Minutes", "(time.Duration).Seconds", "(time.Duration).Hours":
		a := e.get(vals, cc.Args[0])
		if a.K == Const && a.C.Kind() == constant.Int {
			unit := map[string]int64{"Minutes": 60e9, "Seconds": 1e9, "Hours": 3600e9}[callee.Name()]
			return Val{K: Const, C: constant.BinaryOp(constant.ToFloat(a.C), token.QUO, constant.ToFloat(constant.MakeInt64(unit)))}
		}
		return Val{}
	case "(time.Duration).Milliseconds", "(time.Duration).Microseconds", "(time.Duration).Nanoseconds":
		a := e.get(vals, cc.Args[0])
		if a.K == Const && a.C.Kind() == constant.Int {
			unit := map[string]int64{"Milliseconds": 1e6, "Microseconds": 1e3, "Nanoseconds": 1}[callee.Name()]
			return Val{K: Const, C: constant.BinaryOp(a.C, token.QUO_ASSIGN, constant.MakeInt64(unit))}
		}
		return Val{}
	case "math/bits.Len", "math/bits.Len32", "math/bits.Len64":
		a := e.get(vals, cc.Args[0])
		if a.K == Const && a.C.Kind() == constant.Int && constant.Sign(a.C) >= 0 {
			return C(int64(constant.BitLen(a.C)))
		}
		return Val{}
	}
	if callee.Blocks == nil || depth >= e.MaxDepth {
		return Val{}
	}
	var args []Val
	if cc.IsInvoke() {
		args = append(args, e.get(vals, cc.Value))
	}
	for _, a := range cc.Args {
		args = append(args, e.get(vals, a))
	}
	outs := e.eval(callee, args, env, depth+1)
	if len(outs) == 0 {
		return Val{}
	}
	// field stores made by a callee with a single outcome are visible to the caller
	// (constructors delegating to a constructor)
	if len(outs) == 1 {
		for name, v := range outs[0].Stores {
			vals[storeKey{name}] = v
		}
	}
	// merge outcomes per result index
	n := len(outs[0].Results)
	merged := make([]Val, n)
	for j := 0; j < n; j++ {
		merged[j] = outs[0].Results[j]
		for _, o := range outs[1:] {
			if j >= len(o.Results) || !sameVal(merged[j], o.Results[j]) {
				merged[j] = Val{}
			}
		}
	}
	if n == 1 {
		return merged[0]
	}
	for j := 0; j < n; j++ {
		vals[tupleKey{c, j}] = merged[j]
	}
	return Val{}
}

// LenKey is the environment key under which the length of a slice/string value
// is bound: env[consteval.LenKey(v)] = C(n) makes len(v), and len of every
// re-slicing of v with known bounds, evaluate to constants.
func LenKey(v ssa.Value) ssa.Value { return lenKey{v} }

type lenKey struct{ v ssa.Value }

func (lenKey) Name() string                  { return "len" }
func (lenKey) String() string                { return "len" }
func (lenKey) Type() types.Type              { return nil }
func (lenKey) Parent() *ssa.Function         { return nil }
func (lenKey) Referrers() *[]ssa.Instruction { return nil }
func (lenKey) Pos() token.Pos                { return token.NoPos }

// lenOf evaluates the length of a slice-like value from bound lengths.
func (e *Evaluator) lenOf(vals map[ssa.Value]Val, env Env, v ssa.Value, depth int) (int64, bool) {
	if depth > 6 {
		return 0, false
	}
	if b, ok := env[lenKey{v}]; ok && b.K == Const {
		n, exact := constant.Int64Val(b.C)
		return n, exact
	}
	intOf := func(x ssa.Value) (int64, bool) {
		c := e.get(vals, x)
		if c.K != Const || c.C.Kind() != constant.Int {
			return 0, false
		}
		return constant.Int64Val(c.C)
	}
	switch x := v.(type) {
	case *ssa.ChangeType:
		return e.lenOf(vals, env, x.X, depth+1)
	case *ssa.Convert:
		return e.lenOf(vals, env, x.X, depth+1)
	case *ssa.MakeSlice:
		return intOf(x.Len)
	case *ssa.Slice:
		var base int64
		haveBase := false
		if pt, ok := x.X.Type().Underlying().(*types.Pointer); ok {
			if at, ok := pt.Elem().Underlying().(*types.Array); ok {
				base, haveBase = at.Len(), true
			}
		}
		if !haveBase {
			base, haveBase = e.lenOf(vals, env, x.X, depth+1)
		}
		lo, hi := int64(0), base
		okLo, okHi := true, haveBase
		if x.Low != nil {
			lo, okLo = intOf(x.Low)
		}
		if x.High != nil {
			hi, okHi = intOf(x.High)
		}
		if okLo && okHi && lo >= 0 && hi >= lo {
			return hi - lo, true
		}
	case *ssa.Phi:
		// all incoming values of one length
		var n int64
		for i, ed := range x.Edges {
			m, ok := e.lenOf(vals, env, ed, depth+1)
			if !ok || (i > 0 && m != n) {
				return 0, false
			}
			n = m
		}
		return n, len(x.Edges) > 0
	}
	return 0, false
}

func sameVal(a, b Val) bool {
	if a.K != b.K {
		return false
	}
	if a.K == Const {
		return constant.Compare(a.C, token.EQL, b.C)
	}
	return a.K != Unknown
}

func binop(op token.Token, a, b Val, operandT, resT types.Type) Val {
	switch op {
	case token.EQL, token.NEQ:
		// nil comparisons
		if (a.K == Nil || a.K == Err || a.K == Ref) && (b.K == Nil || b.K == Err || b.K == Ref) && (a.K == Nil || b.K == Nil) {
			eq := a.K == Nil && b.K == Nil
			return B(eq == (op == token.EQL))
		}
	}
	if a.K != Const || b.K != Const {
		return Val{}
	}
	switch op {
	case token.EQL, token.NEQ, token.LSS, token.LEQ, token.GTR, token.GEQ:
		if a.C.Kind() != b.C.Kind() {
			return Val{}
		}
		return B(constant.Compare(a.C, op, b.C))
	case token.ADD, token.SUB, token.MUL, token.AND, token.OR, token.XOR, token.AND_NOT:
		if a.C.Kind() == constant.String && op == token.ADD {
			return Val{K: Const, C: constant.BinaryOp(a.C, op, b.C)}
		}
		if a.C.Kind() != constant.Int || b.C.Kind() != constant.Int {
			return Val{}
		}
		return wrap(Val{K: Const, C: constant.BinaryOp(a.C, op, b.C)}, resT)
	case token.QUO, token.REM:
		if a.C.Kind() != constant.Int || b.C.Kind() != constant.Int || constant.Sign(b.C) == 0 {
			return Val{}
		}
		if op == token.QUO {
			return wrap(Val{K: Const, C: constant.BinaryOp(a.C, token.QUO_ASSIGN, b.C)}, resT)
		}
		return wrap(Val{K: Const, C: constant.BinaryOp(a.C, token.REM, b.C)}, resT)
	case token.SHL, token.SHR:
		s, ok := constant.Uint64Val(b.C)
		if !ok || s > 4096 || a.C.Kind() != constant.Int {
			return Val{}
		}
		return wrap(Val{K: Const, C: constant.Shift(a.C, op, uint(s))}, resT)
	}
	return Val{}
}

// wrap reduces an integer constant to the range of type t (two's complement).
func wrap(v Val, t types.Type) Val {
	b, ok := t.Underlying().(*types.Basic)
	if !ok || v.K != Const || v.C.Kind() != constant.Int {
		return v
	}
	var bits uint
	signed := true
	switch b.Kind() {
	case types.Int8:
		bits = 8
	case types.Int16:
		bits = 16
	case types.Int32:
		bits = 32
	case types.Int64, types.Int:
		bits = 64
	case types.Uint8:
		bits, signed = 8, false
	case types.Uint16:
		bits, signed = 16, false
	case types.Uint32:
		bits, signed = 32, false
	case types.Uint64, types.Uint, types.Uintptr:
		bits, signed = 64, false
	default:
		return v
	}
	mod := constant.Shift(constant.MakeInt64(1), token.SHL, bits)
	c := v.C
	// c mod 2^bits in [0, 2^bits)
	q := constant.BinaryOp(c, token.QUO_ASSIGN, mod)
	c = constant.BinaryOp(c, token.SUB, constant.BinaryOp(q, token.MUL, mod))
	if constant.Sign(c) < 0 {
		c = constant.BinaryOp(c, token.ADD, mod)
	}
	if signed {
		half := constant.Shift(constant.MakeInt64(1), token.SHL, bits-1)
		if constant.Compare(c, token.GEQ, half) {
			c = constant.BinaryOp(c, token.SUB, mod)
		}
	}
	return Val{K: Const, C: c}
}

// TupleKey addresses component idx of a tuple-valued instruction (call,
// comma-ok lookup, type assertion) for use as an Env key.
func TupleKey(v ssa.Value, idx int) ssa.Value { return tupleKey{v, idx} }

// structLiteral reads the value of a table entry that is a struct literal
// (`*t` of a local composite literal whose fields were stored with constants):
// the constant fields by index. Other values give the unknown value.
func structLiteral(v ssa.Value) Val {
	ld, ok := v.(*ssa.UnOp)
	if !ok || ld.Op != token.MUL {
		return Val{}
	}
	al, ok := ld.X.(*ssa.Alloc)
	if !ok {
		return Val{}
	}
	if _, isStruct := al.Type().Underlying().(*types.Pointer).Elem().Underlying().(*types.Struct); !isStruct {
		return Val{}
	}
	out := Val{Fields: map[int]Val{}}
	for _, ref := range *al.Referrers() {
		fa, isFA := ref.(*ssa.FieldAddr)
		if !isFA {
			continue
		}
		for _, r2 := range *fa.Referrers() {
			st, isSt := r2.(*ssa.Store)
			if !isSt || st.Addr != ssa.Value(fa) {
				continue
			}
			switch c := st.Val.(type) {
			case *ssa.Const:
				if c.Value == nil {
					out.Fields[fa.Field] = Val{K: Nil}
				} else {
					out.Fields[fa.Field] = Val{K: Const, C: c.Value}
				}
			case *ssa.Function:
				out.Fields[fa.Field] = Val{K: Ref, Fn: c}
			default:
				out.Fields[fa.Field] = Val{}
			}
		}
	}
	return out
}

var globalArrays = map[*ssa.Global]map[int64]Val{}
var globalArraysOK = map[*ssa.Global]bool{}

// GlobalArray reads a package-level array literal `var g = [...]T{c0, c1, …}`
// from the package initialiser (element stores with constant index and
// constant value); ok is false when the array is written anywhere else.
func GlobalArray(g *ssa.Global) (map[int64]Val, bool) {
	if t, done := globalArrays[g]; done {
		return t, globalArraysOK[g]
	}
	globalArrays[g] = nil
	if g.Pkg == nil {
		return nil, false
	}
	if _, isArr := g.Type().(*types.Pointer).Elem().Underlying().(*types.Array); !isArr {
		return nil, false
	}
	init := g.Pkg.Func("init")
	tbl := map[int64]Val{}
	ok := init != nil
	for _, mem := range g.Pkg.Members {
		fn, isFn := mem.(*ssa.Function)
		if !isFn {
			continue
		}
		fns := append([]*ssa.Function{fn}, fn.AnonFuncs...)
		for _, f := range fns {
			for _, b := range f.Blocks {
				for _, ins := range b.Instrs {
					ia, isIA := ins.(*ssa.IndexAddr)
					if !isIA || ia.X != ssa.Value(g) {
						if st, isSt := ins.(*ssa.Store); isSt && st.Addr == ssa.Value(g) && f != init {
							ok = false
						}
						continue
					}
					for _, ref := range *ia.Referrers() {
						st, isSt := ref.(*ssa.Store)
						if !isSt || st.Addr != ssa.Value(ia) {
							continue
						}
						if f != init {
							ok = false
							continue
						}
						k, isK := ia.Index.(*ssa.Const)
						c, isC := st.Val.(*ssa.Const)
						if !isK || !isC || k.Value == nil {
							ok = false
							continue
						}
						i, _ := constant.Int64Val(k.Value)
						if c.Value == nil {
							tbl[i] = Val{K: Nil}
						} else {
							tbl[i] = Val{K: Const, C: c.Value}
						}
					}
				}
			}
		}
	}
	globalArrays[g] = tbl
	globalArraysOK[g] = ok
	return tbl, ok
}
