package main

import (
	"fmt"
	"os"
	"strings"
	"tinkverif/rules"

	"tinkverif/core"
	"tinkverif/effects"
)

func dumpReach(args []string) {
	p, err := core.Load(core.RepoDir(), "", nil)
	if err != nil {
		fmt.Fprintln(os.Stderr, err)
		os.Exit(2)
	}
	a := effects.Run(p)
	f := p.FuncByID(args[0])
	if f == nil {
		fmt.Println("no such function")
		return
	}
	for i, prm := range f.Params {
		all, ks := a.DebugReach(prm.Type())
		fmt.Printf("param %d %s %s all=%v n=%d\n", i, prm.Name(), prm.Type(), all, len(ks))
		for _, k := range ks {
			if len(args) > 1 && !strings.Contains(k, args[1]) {
				continue
			}
			fmt.Println("    ", k)
		}
	}
}

func dumpAuth(args []string) {
	p, err := core.Load(core.RepoDir(), "", nil)
	if err != nil {
		fmt.Fprintln(os.Stderr, err)
		os.Exit(2)
	}
	ctx := &rules.Ctx{P: p, R: core.NewReport("dbg", "quick", 0)}
	for _, l := range rules.DebugAuth(ctx, args[0]) {
		fmt.Println(l)
	}
}
