// tinkverif: static checks of tink-go properties.
//
//	tinkverif check Cxx [--tier quick|thorough]
//	tinkverif effects <substring>     (debug: print effect summaries)
package main

import (
	"fmt"
	"os"
	"runtime/debug"
	"sort"
	"strconv"
	"strings"

	"tinkverif/core"
	"tinkverif/effects"
	"tinkverif/rules"
)

func main() {
	if len(os.Args) < 2 {
		usage()
	}
	switch os.Args[1] {
	case "check":
		os.Exit(check(os.Args[2:]))
	case "effects":
		dumpEffects(os.Args[2:])
	case "auth":
		dumpAuth(os.Args[2:])
	case "reach":
		dumpReach(os.Args[2:])
	case "list":
		var ids []string
		for id := range rules.Registry {
			ids = append(ids, id)
		}
		sort.Strings(ids)
		fmt.Println(strings.Join(ids, " "))
	default:
		usage()
	}
}

func usage() {
	fmt.Fprintln(os.Stderr, "usage: tinkverif check Cxx [--tier quick|thorough] | effects <substr> | list")
	os.Exit(2)
}

func check(args []string) (code int) {
	if len(args) < 1 {
		usage()
	}
	prop := args[0]
	tier := os.Getenv("VERIF_TIER")
	for i := 1; i < len(args); i++ {
		if args[i] == "--tier" && i+1 < len(args) {
			tier = args[i+1]
			i++
		}
	}
	if tier != "thorough" {
		tier = "quick"
	}
	seed, _ := strconv.Atoi(os.Getenv("VERIF_SEED"))
	rule, ok := rules.Registry[prop]
	if !ok {
		fmt.Fprintf(os.Stderr, "no rule for %s\n", prop)
		return 2
	}
	rep := core.NewReport(prop, tier, seed)
	defer func() {
		if r := recover(); r != nil {
			rep.Add(core.Obligation{Rule: prop + ".checker", Key: prop + ".checker/panic", Pos: "-", Status: core.Violated,
				Detail: fmt.Sprintf("checker panic (counts as failure): %v\n%s", r, debug.Stack()), Nontrivial: true})
			code = rep.Finish()
			if code == 0 {
				code = 1
			}
		}
	}()
	p, err := core.Load(core.RepoDir(), "", nil)
	if err != nil {
		rep.Add(core.Obligation{Rule: prop + ".load", Key: prop + ".load/error", Pos: "-", Status: core.Violated,
			Detail: "cannot load/type-check repository: " + err.Error(), Nontrivial: true})
		rep.Explanation = "repository failed to load"
		c := rep.Finish()
		if c == 0 {
			c = 1
		}
		return c
	}
	rep.Counts["root_packages"] = len(p.Roots)
	rep.Counts["packages_with_deps"] = len(p.ByPath)
	rep.Counts["ssa_functions"] = len(p.Funcs)
	ctx := &rules.Ctx{P: p, R: rep, Tier: tier}
	rule(ctx)
	return rep.Finish()
}

func dumpEffects(args []string) {
	p, err := core.Load(core.RepoDir(), "", nil)
	if err != nil {
		fmt.Fprintln(os.Stderr, err)
		os.Exit(2)
	}
	a := effects.Run(p)
	fmt.Printf("rounds=%d functions=%d\n", a.Rounds, len(a.Sum))
	sub := ""
	if len(args) > 0 {
		sub = args[0]
	}
	var fns []string
	byID := map[string]*effects.Summary{}
	for f, s := range a.Sum {
		id := core.FuncID(f)
		if sub != "" && !strings.Contains(id, sub) {
			continue
		}
		fns = append(fns, id)
		byID[id] = s
	}
	sort.Strings(fns)
	for _, id := range fns {
		s := byID[id]
		fmt.Println(id)
		for wk, w := range s.W {
			fmt.Printf("   W %v [%s]  <- %s @%s\n", wk.Root, wk.T, w.Desc, p.Pos(w.Pos))
		}
		for j := range s.RA {
			for sr, w := range s.RA[j] {
				fmt.Printf("   RA[%d] %v  <- %s @%s\n", j, sr, w.Desc, p.Pos(w.Pos))
			}
			for sr, w := range s.RC[j] {
				fmt.Printf("   RC[%d] %v  <- %s @%s\n", j, sr, w.Desc, p.Pos(w.Pos))
			}
		}
		for k, w := range s.K {
			fmt.Printf("   K %v -> %v  <- %s @%s\n", k[0], k[1], w.Desc, p.Pos(w.Pos))
		}
	}
	if sub == "" || sub == "ASSUMED" {
		var names []string
		for n := range a.Assumed {
			names = append(names, n)
		}
		sort.Strings(names)
		for _, n := range names {
			fmt.Printf("ASSUMED %s %d\n", n, a.Assumed[n])
		}
	}
}
