// tinkverif: static checks of tink-go properties.
//
//	tinkverif check Cxx [--tier quick|thorough]
//	tinkverif effects <substring>     (debug: print effect summaries)
package main

import (
	"encoding/json"
	"fmt"
	"os"
	"os/exec"
	"path/filepath"
	"runtime"
	"runtime/debug"
	"sort"
	"strconv"
	"strings"
	"sync"

	"tinkverif/core"
	"tinkverif/effects"
	"tinkverif/rules"
)

func main() {
	if len(os.Args) < 2 {
		usage()
	}
	switch os.Args[1] {
	case "check":
		os.Exit(check(os.Args[2:]))
	case "mutant":
		os.Exit(mutant(os.Args[2:]))
	case "effects":
		dumpEffects(os.Args[2:])
	case "auth":
		dumpAuth(os.Args[2:])
	case "reach":
		dumpReach(os.Args[2:])
	case "list":
		var ids []string
		for id := range rules.Registry {
			ids = append(ids, id)
		}
		sort.Strings(ids)
		fmt.Println(strings.Join(ids, " "))
	default:
		usage()
	}
}

func usage() {
	fmt.Fprintln(os.Stderr, "usage: tinkverif check Cxx [--tier quick|thorough] | effects <substr> | list")
	os.Exit(2)
}

func check(args []string) (code int) {
	if len(args) < 1 {
		usage()
	}
	prop := args[0]
	tier := os.Getenv("VERIF_TIER")
	for i := 1; i < len(args); i++ {
		if args[i] == "--tier" && i+1 < len(args) {
			tier = args[i+1]
			i++
		}
	}
	if tier != "thorough" {
		tier = "quick"
	}
	seed, _ := strconv.Atoi(os.Getenv("VERIF_SEED"))
	rule, ok := rules.Registry[prop]
	if !ok {
		fmt.Fprintf(os.Stderr, "no rule for %s\n", prop)
		return 2
	}
	rep := core.NewReport(prop, tier, seed)
	defer func() {
		if r := recover(); r != nil {
			rep.Add(core.Obligation{Rule: prop + ".checker", Key: prop + ".checker/panic", Pos: "-", Status: core.Violated,
				Detail: fmt.Sprintf("checker panic (counts as failure): %v\n%s", r, debug.Stack()), Nontrivial: true})
			code = rep.Finish()
			if code == 0 {
				code = 1
			}
		}
	}()
	p, err := core.Load(core.RepoDir(), "", nil)
	if err != nil {
		rep.Add(core.Obligation{Rule: prop + ".load", Key: prop + ".load/error", Pos: "-", Status: core.Violated,
			Detail: "cannot load/type-check repository: " + err.Error(), Nontrivial: true})
		rep.Explanation = "repository failed to load"
		c := rep.Finish()
		if c == 0 {
			c = 1
		}
		return c
	}
	rep.Counts["root_packages"] = len(p.Roots)
	rep.Counts["packages_with_deps"] = len(p.ByPath)
	rep.Counts["ssa_functions"] = len(p.Funcs)
	ctx := &rules.Ctx{P: p, R: rep, Tier: tier}
	rule(ctx)
	if tier == "thorough" {
		thorough(prop, rule, rep)
	}
	return rep.Finish()
}

// thorough: the same rules on the module's second CI target (GOARCH=386),
// then the mutation self-test of the checker on the confirmed seeded changes.
func thorough(prop string, rule rules.Rule, rep *core.Report) {
	p386, err := core.Load(core.RepoDir(), "386", nil)
	if err != nil {
		rep.Add(core.Obligation{Rule: prop + ".load", Key: prop + ".load/386", Pos: "-", Status: core.Violated,
			Detail: "cannot load/type-check the repository for GOARCH=386: " + err.Error(), Nontrivial: true})
	} else {
		rep.KeyPrefix = "386:"
		rule(&rules.Ctx{P: p386, R: rep, Tier: "thorough"})
		rep.KeyPrefix = ""
		rep.Counts["ssa_functions_386"] = len(p386.Funcs)
	}
	p386 = nil
	runtime.GC()
	selftest(prop, rep)
}

type seedMeta struct {
	Property   string   `json:"property"`
	Name       string   `json:"name"`
	DetectedBy []string `json:"detected_by"`
}

// selftest re-runs this property's rules on every confirmed seeded change that
// is recorded as detected by it (patch applied as an in-memory overlay on the
// current working tree, one subprocess per change). A change that is no longer
// detected fails the run: a weakened rule cannot pass quietly. A patch that no
// longer applies to the edited tree is skipped and reported.
func selftest(prop string, rep *core.Report) {
	dirs, _ := filepath.Glob(filepath.Join(core.VerifDir(), "seeded", "*", "meta.json"))
	// hand-made breaking variants (positive controls; the existing tests may catch them too)
	pdirs, _ := filepath.Glob(filepath.Join(core.VerifDir(), "positive", "*", "meta.json"))
	dirs = append(dirs, pdirs...)
	sort.Strings(dirs)
	type job struct{ name, patch string }
	var jobs []job
	for _, mf := range dirs {
		b, err := os.ReadFile(mf)
		if err != nil {
			continue
		}
		var sm seedMeta
		if json.Unmarshal(b, &sm) != nil {
			continue
		}
		for _, d := range sm.DetectedBy {
			if d == prop {
				jobs = append(jobs, job{filepath.Base(filepath.Dir(mf)), filepath.Join(filepath.Dir(mf), "patch.diff")})
			}
		}
	}
	// behaviour-preserving variants: must raise nothing beyond what the tree itself raises
	bdirs, _ := filepath.Glob(filepath.Join(core.VerifDir(), "benign", "*", "meta.json"))
	sort.Strings(bdirs)
	nSeeded := len(jobs)
	for _, mf := range bdirs {
		b, err := os.ReadFile(mf)
		if err != nil {
			continue
		}
		var sm seedMeta
		if json.Unmarshal(b, &sm) == nil && sm.Property == prop {
			jobs = append(jobs, job{filepath.Base(filepath.Dir(mf)), filepath.Join(filepath.Dir(mf), "patch.diff")})
		}
	}
	baseFail := map[string]bool{}
	for _, o := range rep.Failing() {
		baseFail[o.Key] = true
	}
	self, _ := os.Executable()
	type res struct {
		job
		code int
		out  string
	}
	results := make([]res, len(jobs))
	sem := make(chan struct{}, 4)
	var wg sync.WaitGroup
	for i, j := range jobs {
		wg.Add(1)
		go func(i int, j job) {
			defer wg.Done()
			sem <- struct{}{}
			defer func() { <-sem }()
			cmd := exec.Command(self, "mutant", prop, j.patch)
			out, err := cmd.CombinedOutput()
			code := 0
			if ee, ok := err.(*exec.ExitError); ok {
				code = ee.ExitCode()
			} else if err != nil {
				code = 5
			}
			results[i] = res{j, code, string(out)}
		}(i, j)
	}
	wg.Wait()
	killed, skipped := 0, 0
	var list []string
	for i, rs := range results {
		key := fmt.Sprintf("%s.selftest/%s", prop, rs.name)
		if i >= nSeeded {
			// benign variant
			key = fmt.Sprintf("%s.selftest/benign/%s", prop, rs.name)
			extra := ""
			for _, ln := range strings.Split(rs.out, "\n") {
				if i := strings.Index(ln, "] "); i > 0 && (strings.HasPrefix(ln, "violated") || strings.HasPrefix(ln, "undecided")) {
					k := ln[i+2:]
					if j := strings.LastIndex(k, " at "); j > 0 {
						k = k[:j]
					}
					if !baseFail[k] {
						extra = ln
					}
				}
			}
			switch {
			case rs.code == 4:
				rep.Outside(prop+".selftest", key, "-", "benign patch no longer applies to the current tree")
				list = append(list, rs.name+": benign, skipped (patch does not apply)")
			case rs.code != 0 && rs.code != 3:
				rep.Add(core.Obligation{Rule: prop + ".selftest", Key: key, Pos: "-", Status: core.Violated, Nontrivial: true,
					Detail: fmt.Sprintf("checker-selftest: benign variant run failed (exit %d): %s", rs.code, strings.TrimSpace(rs.out))})
			case extra != "":
				rep.Add(core.Obligation{Rule: prop + ".selftest", Key: key, Pos: "-", Status: core.Violated, Nontrivial: true,
					Detail: "checker-selftest: the rules raise an alarm on a behaviour-preserving variant (false alarm of the checker, not a defect of the repository): " + extra})
				list = append(list, rs.name+": benign, FALSE ALARM")
			default:
				rep.Ok(prop+".selftest", key, "-", "behaviour-preserving variant raises nothing new")
				list = append(list, rs.name+": benign, silent")
			}
			continue
		}
		switch rs.code {
		case 3:
			killed++
			first := strings.SplitN(strings.TrimSpace(rs.out), "\n", 2)[0]
			rep.Ok(prop+".selftest", key, "-", "seeded change still detected: "+first)
			list = append(list, rs.name+": detected")
		case 4:
			skipped++
			rep.Outside(prop+".selftest", key, "-", "seeded patch no longer applies to the current tree: "+strings.TrimSpace(rs.out))
			list = append(list, rs.name+": skipped (patch does not apply)")
		case 0:
			rep.Add(core.Obligation{Rule: prop + ".selftest", Key: key, Pos: "-", Status: core.Violated, Nontrivial: true,
				Detail: "checker-selftest: a confirmed seeded change recorded as detected by this check is no longer detected — the rule was weakened"})
			list = append(list, rs.name+": SURVIVED")
		default:
			rep.Add(core.Obligation{Rule: prop + ".selftest", Key: key, Pos: "-", Status: core.Violated, Nontrivial: true,
				Detail: fmt.Sprintf("checker-selftest: mutant run failed (exit %d): %s", rs.code, strings.TrimSpace(rs.out))})
			list = append(list, rs.name+": error")
		}
	}
	rep.Extra["selftest_mutants"] = nSeeded
	rep.Extra["selftest_benign_variants"] = len(jobs) - nSeeded
	rep.Extra["selftest_killed"] = killed
	rep.Extra["selftest_skipped"] = skipped
	rep.Extra["selftest_results"] = list
}

// mutant: tinkverif mutant Cxx patch.diff — exit 3 if the rules of Cxx report
// a violation on the tree with the patch applied in memory, 0 if not, 4 if
// the patch does not apply.
func mutant(args []string) int {
	if len(args) < 2 {
		usage()
	}
	prop, patchFile := args[0], args[1]
	rule, ok := rules.Registry[prop]
	if !ok {
		fmt.Println("no rule for", prop)
		return 5
	}
	b, err := os.ReadFile(patchFile)
	if err != nil {
		fmt.Println(err)
		return 5
	}
	ov, err := core.OverlayFromPatch(core.RepoDir(), b)
	if err != nil {
		fmt.Println(err)
		return 4
	}
	p, err := core.Load(core.RepoDir(), "", ov)
	if err != nil {
		fmt.Println("load with patch failed:", err)
		return 4
	}
	rep := core.NewReport(prop, "quick", 0)
	rep.NoOutput = true
	func() {
		defer func() {
			if r := recover(); r != nil {
				rep.Add(core.Obligation{Rule: prop + ".checker", Key: prop + ".checker/panic", Status: core.Violated, Detail: fmt.Sprint(r)})
			}
		}()
		rule(&rules.Ctx{P: p, R: rep, Tier: "quick"})
	}()
	f := rep.Failing()
	for _, o := range f {
		fmt.Printf("%s [%s] %s at %s\n", o.Status, o.Rule, o.Key, o.Pos)
		if os.Getenv("TV_DETAIL") != "" {
			fmt.Println("    " + o.Detail)
		}
	}
	if len(f) > 0 {
		return 3
	}
	return 0
}

func dumpEffects(args []string) {
	p, err := core.Load(core.RepoDir(), "", nil)
	if err != nil {
		fmt.Fprintln(os.Stderr, err)
		os.Exit(2)
	}
	a := effects.Run(p)
	fmt.Printf("rounds=%d functions=%d\n", a.Rounds, len(a.Sum))
	sub := ""
	if len(args) > 0 {
		sub = args[0]
	}
	var fns []string
	byID := map[string]*effects.Summary{}
	for f, s := range a.Sum {
		id := core.FuncID(f)
		if sub != "" && !strings.Contains(id, sub) {
			continue
		}
		fns = append(fns, id)
		byID[id] = s
	}
	sort.Strings(fns)
	for _, id := range fns {
		s := byID[id]
		fmt.Println(id)
		for wk, w := range s.W {
			fmt.Printf("   W %v [%s]  <- %s @%s\n", wk.Root, wk.T, w.Desc, p.Pos(w.Pos))
		}
		for j := range s.RA {
			for sr, w := range s.RA[j] {
				fmt.Printf("   RA[%d] %v  <- %s @%s\n", j, sr, w.Desc, p.Pos(w.Pos))
			}
			for sr, w := range s.RC[j] {
				fmt.Printf("   RC[%d] %v  <- %s @%s\n", j, sr, w.Desc, p.Pos(w.Pos))
			}
		}
		for k, w := range s.K {
			fmt.Printf("   K %v -> %v  <- %s @%s\n", k[0], k[1], w.Desc, p.Pos(w.Pos))
		}
	}
	if sub == "" || sub == "ASSUMED" {
		var names []string
		for n := range a.Assumed {
			names = append(names, n)
		}
		sort.Strings(names)
		for _, n := range names {
			fmt.Printf("ASSUMED %s %d\n", n, a.Assumed[n])
		}
	}
}
