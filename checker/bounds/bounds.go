// Package bounds is engine D: symbolic slice lengths as integer-linear terms
// and a small entailment prover (non-negative combinations of dominating
// facts; no SMT solver).
package bounds

import (
	"fmt"
	"go/constant"
	"go/token"
	"go/types"
	"math"
	"sort"
	"strings"

	"golang.org/x/tools/go/ssa"

	"tinkverif/guard"
)

// Lin is c + Σ coef[atom]·atom.
type Lin struct {
	C    int64
	Coef map[string]int64
	// atoms known non-negative (len(..), size fields)
	ok bool
}

func konst(c int64) Lin { return Lin{C: c, Coef: map[string]int64{}, ok: true} }

func atom(a string) Lin { return Lin{Coef: map[string]int64{a: 1}, ok: true} }

// overflowAtom poisons a term whose arithmetic left the int64 range: it is
// never known non-negative, so nothing can be proved from or about the term.
const overflowAtom = "<overflow>"

func mulOv(a, b int64) (int64, bool) {
	if a == 0 || b == 0 {
		return 0, false
	}
	p := a * b
	if p/b != a || (a == -1 && b == math.MinInt64) || (b == -1 && a == math.MinInt64) {
		return 0, true
	}
	return p, false
}

func addOv(a, b int64) (int64, bool) {
	s := a + b
	if (b > 0 && s < a) || (b < 0 && s > a) {
		return 0, true
	}
	return s, false
}

func (l Lin) add(o Lin, k int64) Lin {
	r := Lin{Coef: map[string]int64{}, ok: l.ok && o.ok}
	ov := false
	kc, o1 := mulOv(k, o.C)
	sum, o2 := addOv(l.C, kc)
	r.C, ov = sum, o1 || o2
	for a, c := range l.Coef {
		r.Coef[a] = c
	}
	for a, c := range o.Coef {
		kc, o1 := mulOv(k, c)
		s, o2 := addOv(r.Coef[a], kc)
		ov = ov || o1 || o2
		r.Coef[a] = s
		if r.Coef[a] == 0 {
			delete(r.Coef, a)
		}
	}
	if ov {
		r.Coef[overflowAtom] = -1
		r.ok = false
	}
	return r
}

func (l Lin) scale(k int64) Lin {
	r := Lin{Coef: map[string]int64{}, ok: l.ok}
	var ov bool
	r.C, ov = mulOv(l.C, k)
	for a, c := range l.Coef {
		ck, o1 := mulOv(c, k)
		ov = ov || o1
		if ck != 0 {
			r.Coef[a] = ck
		}
	}
	if ov {
		r.Coef[overflowAtom] = -1
		r.ok = false
	}
	return r
}

// Const reports whether the term is a constant, and its value.
func (l Lin) Const() (int64, bool) {
	if !l.ok {
		return 0, false
	}
	for _, k := range l.Coef {
		if k != 0 {
			return 0, false
		}
	}
	return l.C, true
}

func (l Lin) String() string {
	var parts []string
	var as []string
	for a := range l.Coef {
		as = append(as, a)
	}
	sort.Strings(as)
	for _, a := range as {
		c := l.Coef[a]
		switch c {
		case 1:
			parts = append(parts, "+"+a)
		case -1:
			parts = append(parts, "-"+a)
		default:
			parts = append(parts, fmt.Sprintf("%+d*%s", c, a))
		}
	}
	if l.C != 0 || len(parts) == 0 {
		parts = append(parts, fmt.Sprintf("%+d", l.C))
	}
	return strings.TrimPrefix(strings.Join(parts, ""), "+")
}

// Ctx converts SSA values of one function to linear terms.
type Ctx struct {
	inCopy bool
	Fn     *ssa.Function
	names  map[ssa.Value]string
	nonneg map[string]bool
	// LoopVariant is set when a conversion met a loop-carried phi.
	LoopVariant bool
	// Assumed lists receiver fields assumed non-negative.
	Assumed map[string]bool
	// Side: terms known >= 0 that arise from the conversion itself (integer division).
	Side     []Lin
	sideDone map[string]bool
}

// NewCtx creates a conversion context.
// ParamLen, when set by the rules, answers "is this slice parameter given a
// buffer of one constant length at every call site?" (interprocedural length
// of internal helpers such as ctrCrypt(siv, …) with siv always 16 bytes).
var ParamLen func(prm *ssa.Parameter) (int64, bool)

func NewCtx(fn *ssa.Function) *Ctx {
	return &Ctx{Fn: fn, names: map[ssa.Value]string{}, nonneg: map[string]bool{}, Assumed: map[string]bool{}}
}

func (c *Ctx) name(v ssa.Value) string {
	if b, f, ok := guard.FieldOf(v); ok {
		return c.name(b) + "." + f
	}
	switch x := v.(type) {
	case *ssa.Parameter:
		return x.Name()
	case *ssa.FreeVar:
		return x.Name()
	case *ssa.Global:
		return x.Name()
	}
	if n, ok := c.names[v]; ok {
		return n
	}
	n := fmt.Sprintf("%s#%d", v.Name(), len(c.names))
	c.names[v] = n
	return n
}

// LenOf returns the symbolic length of a slice/string/array-pointer value.
func (c *Ctx) LenOf(v ssa.Value) Lin {
	v = guard.Strip(v)
	switch x := v.(type) {
	case *ssa.Slice:
		// len(x[lo:hi]) = hi - lo
		var hi Lin
		if x.High != nil {
			hi = c.Lin(x.High)
		} else {
			hi = c.LenOf(x.X)
		}
		if x.Low != nil {
			return hi.add(c.Lin(x.Low), -1)
		}
		return hi
	case *ssa.MakeSlice:
		return c.Lin(x.Len)
	case *ssa.Const:
		if x.Value == nil {
			return konst(0)
		}
		if x.Value.Kind() == constant.String {
			return konst(int64(len(constant.StringVal(x.Value))))
		}
	case *ssa.Convert:
		// string <-> []byte keep the length
		return c.LenOf(x.X)
	case *ssa.Alloc:
		if a, ok := x.Type().Underlying().(*types.Pointer).Elem().Underlying().(*types.Array); ok {
			return konst(a.Len())
		}
	case *ssa.Extract:
		// rest, ok := bytes.CutPrefix(s, p): rest is only used where ok holds, and then len(rest) = len(s) - len(p)
		if call, isCall := x.Tuple.(*ssa.Call); isCall && x.Index == 0 {
			if n := guard.CalleeName(&call.Call); n == "bytes.CutPrefix" || n == "bytes.CutSuffix" {
				return c.LenOf(call.Call.Args[0]).add(c.LenOf(call.Call.Args[1]), -1)
			}
		}
	case *ssa.Call:
		// bytes.Clone / slices.Clone keep the length
		n := guard.CalleeName(&x.Call)
		if n == "bytes.Clone" || n == "slices.Clone" {
			return c.LenOf(x.Call.Args[0])
		}
		// h.Sum(nil) has length h.Size() (stdlib contract of hash.Hash)
		if n == "(hash.Hash).Sum" && len(x.Call.Args) == 1 {
			a := "Size(" + c.name(x.Call.Value) + ")"
			c.nonneg[a] = true
			if guard.IsNilConst(x.Call.Args[0]) {
				return atom(a)
			}
			// h.Sum(b) appends the digest to b
			return c.LenOf(x.Call.Args[0]).add(atom(a), 1)
		}
		// a module function all of whose returns have the same constant length
		if callee := x.Call.StaticCallee(); callee != nil && callee.Blocks != nil && callee.Signature.Results().Len() == 1 {
			if k, ok := constResultLen(callee); ok {
				return konst(k)
			}
		}
	}
	if pt, ok := v.Type().Underlying().(*types.Pointer); ok {
		if a, ok := pt.Elem().Underlying().(*types.Array); ok {
			return konst(a.Len())
		}
	}
	// a slice parameter of an unexported function that receives a buffer of one
	// constant length at every call site of the module
	if prm, ok := v.(*ssa.Parameter); ok && ParamLen != nil {
		if k, known := ParamLen(prm); known {
			return konst(k)
		}
	}
	a := "len(" + c.name(v) + ")"
	c.nonneg[a] = true
	return atom(a)
}

// Lin converts an integer SSA value.
func (c *Ctx) Lin(v ssa.Value) Lin {
	v0 := v
	unsigned := isUnsigned(v.Type())
	for {
		// strip conversions, remembering whether any layer is unsigned
		s := guard.Strip(v)
		if cv, ok := v.(*ssa.Convert); ok {
			v = cv.X
			unsigned = unsigned || isUnsigned(v.Type())
			continue
		}
		if s == v {
			break
		}
		v = s
		unsigned = unsigned || isUnsigned(v.Type())
	}
	l := c.lin1(v, v0)
	if unsigned && len(l.Coef) == 1 && l.C == 0 {
		for a, k := range l.Coef {
			if k == 1 {
				c.nonneg[a] = true
			}
		}
	}
	return l
}

func isUnsigned(t types.Type) bool {
	b, ok := t.Underlying().(*types.Basic)
	return ok && b.Info()&types.IsUnsigned != 0
}

func (c *Ctx) lin1(v, v0 ssa.Value) Lin {
	if k, ok := guard.ConstInt(v); ok {
		return konst(k)
	}
	switch x := v.(type) {
	case *ssa.BinOp:
		switch x.Op {
		case token.ADD:
			return c.Lin(x.X).add(c.Lin(x.Y), 1)
		case token.SUB:
			return c.Lin(x.X).add(c.Lin(x.Y), -1)
		case token.MUL:
			if k, ok := guard.ConstInt(x.X); ok {
				return c.Lin(x.Y).scale(k)
			}
			if k, ok := guard.ConstInt(x.Y); ok {
				return c.Lin(x.X).scale(k)
			}
		case token.QUO:
			// q = e / k (k > 0 constant): new atom with k*q <= e <= k*q + k-1
			if k, ok := guard.ConstInt(x.Y); ok && k > 0 {
				e := c.Lin(x.X)
				a := "(" + e.String() + ")/" + fmt.Sprint(k)
				if c.nonNeg(e) {
					c.nonneg[a] = true
				}
				q := atom(a)
				c.Side = append(c.Side, e.add(q, -k), q.scale(k).add(e, -1).add(konst(k-1), 1))
				return q
			}
		}
	case *ssa.Call:
		if b, ok := x.Call.Value.(*ssa.Builtin); ok && b.Name() == "len" {
			return c.LenOf(x.Call.Args[0])
		}
		if b, ok := x.Call.Value.(*ssa.Builtin); ok && b.Name() == "copy" && !c.inCopy {
			// n := copy(dst, src) is len(src) where len(dst) >= len(src) is known at the call
			c.inCopy = true
			dst, src := c.LenOf(x.Call.Args[0]), c.LenOf(x.Call.Args[1])
			facts := c.FactsToLin(guard.BlockFacts(x.Block()))
			okE, _ := c.Entails(facts, dst.add(src, -1))
			c.inCopy = false
			if okE {
				return src
			}
			a := c.name(v)
			c.nonneg[a] = true
			return atom(a)
		}
		if b, ok := x.Call.Value.(*ssa.Builtin); ok && b.Name() == "cap" {
			a := "cap(" + c.name(x.Call.Args[0]) + ")"
			c.nonneg[a] = true
			return atom(a)
		}
		// methods named …Size/…Length/Len/Overhead/NonceSize return non-negative sizes
		n := guard.CalleeName(&x.Call)
		a := c.name(v)
		// i := strings.Index(s, sep) and friends: i <= len(s)-1 whatever the outcome (-1 included);
		// kept as a side fact so that s[i+1:] / s[:i] after `i < 0 -> return` are in bounds
		switch n {
		case "strings.Index", "strings.LastIndex", "strings.IndexByte", "strings.LastIndexByte", "strings.IndexRune", "strings.IndexAny",
			"bytes.Index", "bytes.LastIndex", "bytes.IndexByte", "bytes.LastIndexByte", "bytes.IndexRune", "bytes.IndexAny":
			if !c.sideDone[a] {
				if c.sideDone == nil {
					c.sideDone = map[string]bool{}
				}
				c.sideDone[a] = true
				c.Side = append(c.Side, c.LenOf(x.Call.Args[0]).add(atom(a), -1).add(konst(1), -1))
			}
			return atom(a)
		}
		if i := strings.LastIndex(n, "."); i >= 0 {
			m := n[i+1:]
			if strings.HasSuffix(m, "Size") || strings.HasSuffix(m, "Len") || strings.HasSuffix(m, "Length") || m == "Overhead" || strings.HasSuffix(m, "SizeInBytes") {
				// key by callee and receiver so that repeated calls denote the same value
				recv := ""
				if x.Call.IsInvoke() {
					recv = c.name(x.Call.Value)
				} else if len(x.Call.Args) > 0 {
					recv = c.name(x.Call.Args[0])
				}
				a = m + "(" + recv + ")"
				c.nonneg[a] = true
				c.Assumed[a] = true
			}
		}
		return atom(a)
	case *ssa.Extract:
		// first result of a size-returning function: (n int, err error)
		if call, ok := x.Tuple.(*ssa.Call); ok && x.Index == 0 {
			n := guard.CalleeName(&call.Call)
			if i := strings.LastIndex(n, "."); i >= 0 {
				m := strings.ToLower(n[i+1:])
				if strings.HasSuffix(m, "size") || strings.HasSuffix(m, "sizeinbytes") || strings.HasSuffix(m, "len") || strings.HasSuffix(m, "length") {
					a := c.name(v)
					c.nonneg[a] = true
					c.Assumed[a] = true
					return atom(a)
				}
			}
		}
	case *ssa.Phi:
		if inCycle(x.Block()) {
			c.LoopVariant = true
		}
		allNonNeg := len(x.Edges) > 0
		for _, e := range x.Edges {
			if k, ok := guard.ConstInt(e); !ok || k < 0 {
				allNonNeg = false
			}
		}
		if allNonNeg {
			a := c.name(v)
			c.nonneg[a] = true
			return atom(a)
		}
	}
	if _, f, ok := guard.FieldOf(v); ok {
		a := c.name(v)
		lf := strings.ToLower(f)
		if strings.HasSuffix(lf, "size") || strings.HasSuffix(lf, "len") || strings.HasSuffix(lf, "length") || strings.HasSuffix(lf, "offset") || strings.HasSuffix(lf, "sizeinbytes") {
			c.nonneg[a] = true
			c.Assumed[a] = true
		}
		return atom(a)
	}
	// unsigned values are non-negative
	a := c.name(v)
	if b, ok := v0.Type().Underlying().(*types.Basic); ok && b.Info()&types.IsUnsigned != 0 {
		c.nonneg[a] = true
	}
	return atom(a)
}

func inCycle(b *ssa.BasicBlock) bool {
	seen := map[*ssa.BasicBlock]bool{}
	stack := append([]*ssa.BasicBlock{}, b.Succs...)
	for len(stack) > 0 {
		x := stack[len(stack)-1]
		stack = stack[:len(stack)-1]
		if x == b {
			return true
		}
		if seen[x] {
			continue
		}
		seen[x] = true
		stack = append(stack, x.Succs...)
	}
	return false
}

// FactsToLin converts branch facts into terms known to be >= 0.
func (c *Ctx) FactsToLin(facts []guard.Fact) []Lin {
	var out []Lin
	for _, f := range facts {
		if op, x, y, ok := guard.Cmp(f); ok {
			bx, okx := x.Type().Underlying().(*types.Basic)
			if !okx || bx.Info()&types.IsInteger == 0 {
				continue
			}
			// x <= min(a, b) gives x <= a and x <= b; max(a, b) <= y gives a <= y and b <= y
			switch op {
			case token.GTR:
				op, x, y = token.LSS, y, x
			case token.GEQ:
				op, x, y = token.LEQ, y, x
			}
			if op == token.EQL {
				lx, ly := c.Lin(x), c.Lin(y)
				out = append(out, lx.add(ly, -1), ly.add(lx, -1))
				continue
			}
			if op != token.LSS && op != token.LEQ {
				continue
			}
			for _, lo := range c.minMaxArgs(x, "max") {
				for _, hi := range c.minMaxArgs(y, "min") {
					if op == token.LSS { // lo < hi : hi - lo - 1 >= 0
						out = append(out, hi.add(lo, -1).add(konst(1), -1))
					} else {
						out = append(out, hi.add(lo, -1))
					}
				}
			}
			continue
		}
		if ex, isEx := f.Cond.(*ssa.Extract); isEx && f.True && ex.Index == 1 {
			if call, isCall := ex.Tuple.(*ssa.Call); isCall {
				if n := guard.CalleeName(&call.Call); n == "bytes.CutPrefix" || n == "bytes.CutSuffix" || n == "strings.CutPrefix" || n == "strings.CutSuffix" {
					out = append(out, c.LenOf(call.Call.Args[0]).add(c.LenOf(call.Call.Args[1]), -1))
				}
			}
		}
		if call, val, ok := guard.BoolCallFact(f); ok && val {
			switch guard.CalleeName(&call.Call) {
			case "bytes.HasPrefix", "bytes.HasSuffix", "strings.HasPrefix", "strings.HasSuffix":
				out = append(out, c.LenOf(call.Call.Args[0]).add(c.LenOf(call.Call.Args[1]), -1))
			case "bytes.Equal", "slices.Equal", "crypto/hmac.Equal":
				a, b := c.LenOf(call.Call.Args[0]), c.LenOf(call.Call.Args[1])
				out = append(out, a.add(b, -1), b.add(a, -1))
			}
		}
	}
	return out
}

// minMaxArgs: the linear forms of the operands of builtin min/max (kind), or
// of v itself.
func (c *Ctx) minMaxArgs(v ssa.Value, kind string) []Lin {
	if call, ok := guard.Strip(v).(*ssa.Call); ok {
		if b, isB := call.Call.Value.(*ssa.Builtin); isB && b.Name() == kind {
			var out []Lin
			for _, a := range call.Call.Args {
				out = append(out, c.minMaxArgs(a, kind)...)
			}
			return out
		}
	}
	return []Lin{c.Lin(v)}
}

// nonNeg: all coefficients on non-negative atoms are >= 0, no other atoms,
// constant >= 0.
func (c *Ctx) nonNeg(t Lin) bool {
	if t.C < 0 {
		return false
	}
	for a, k := range t.Coef {
		if k < 0 || !c.nonneg[a] {
			return false
		}
	}
	return true
}

// Entails reports whether goal >= 0 follows from facts (each >= 0) and the
// non-negativity of length atoms, as goal = Σ k_i·fact_i + (non-negative
// rest) with k_i in {0,1,2}, at most four facts used.
func (c *Ctx) Entails(facts []Lin, goal Lin) (bool, []int) {
	if c.nonNeg(goal) {
		return true, nil
	}
	facts = append(append([]Lin{}, c.Side...), facts...)
	n := len(facts)
	if n > 14 {
		facts = facts[:14]
		n = 14
	}
	var used []int
	var rec func(start int, cur Lin, depth int) bool
	rec = func(start int, cur Lin, depth int) bool {
		if c.nonNeg(cur) {
			return true
		}
		if depth == 4 {
			return false
		}
		for i := start; i < n; i++ {
			for _, k := range []int64{1, 2} {
				used = append(used, i)
				if rec(i+1, cur.add(facts[i], -k), depth+1) {
					return true
				}
				used = used[:len(used)-1]
			}
		}
		return false
	}
	if rec(0, goal, 0) {
		return true, used
	}
	return false, nil
}

// Result of a bounds obligation.
type Result struct {
	OK          bool
	LoopVariant bool
	Goals       []string
	Failed      string
	Facts       []string
}

// CheckSlice proves 0 <= lo <= hi <= len(x) for a slice expression (or
// hi <= array length) from the facts dominating it.
func CheckSlice(sl *ssa.Slice) Result {
	c := NewCtx(sl.Parent())
	if phi, ok := guard.Strip(sl.X).(*ssa.Phi); ok && inCycle(phi.Block()) {
		c.LoopVariant = true // a slice that is re-sliced on every iteration
	}
	facts := c.FactsToLin(guard.BlockFacts(sl.Block()))
	lenX := c.LenOf(sl.X)
	lo, hi := konst(0), lenX
	if sl.Low != nil {
		lo = c.Lin(sl.Low)
	}
	if sl.High != nil {
		hi = c.Lin(sl.High)
	}
	res := Result{OK: true}
	goals := []struct {
		name string
		t    Lin
	}{
		{"low >= 0", lo},
		{"high >= low", hi.add(lo, -1)},
		{"len >= high", lenX.add(hi, -1)},
	}
	for _, g := range goals {
		ok, _ := c.Entails(facts, g.t)
		res.Goals = append(res.Goals, fmt.Sprintf("%s: %s >= 0", g.name, g.t))
		if !ok && res.OK {
			res.OK = false
			res.Failed = fmt.Sprintf("%s (%s >= 0) does not follow from the dominating guards", g.name, g.t)
		}
	}
	for _, f := range facts {
		res.Facts = append(res.Facts, f.String()+" >= 0")
	}
	res.LoopVariant = c.LoopVariant
	return res
}

// CheckIndex proves 0 <= i < len(x) for an element access.
func CheckIndex(ia *ssa.IndexAddr) Result {
	c := NewCtx(ia.Parent())
	if phi, ok := guard.Strip(ia.X).(*ssa.Phi); ok && inCycle(phi.Block()) {
		c.LoopVariant = true
	}
	facts := c.FactsToLin(guard.BlockFacts(ia.Block()))
	lenX := c.LenOf(ia.X)
	i := c.Lin(ia.Index)
	res := Result{OK: true}
	for _, g := range []struct {
		name string
		t    Lin
	}{{"index >= 0", i}, {"index < len", lenX.add(i, -1).add(konst(1), -1)}} {
		ok, _ := c.Entails(facts, g.t)
		res.Goals = append(res.Goals, fmt.Sprintf("%s: %s >= 0", g.name, g.t))
		if !ok && res.OK {
			res.OK = false
			res.Failed = fmt.Sprintf("%s (%s >= 0) does not follow from the dominating guards", g.name, g.t)
		}
	}
	for _, f := range facts {
		res.Facts = append(res.Facts, f.String()+" >= 0")
	}
	res.LoopVariant = c.LoopVariant
	return res
}

// Add returns l + k·o.
func (l Lin) Add(o Lin, k int64) Lin { return l.add(o, k) }

// Konst makes a constant term.
func Konst(c int64) Lin { return konst(c) }

var constLenCache = map[*ssa.Function]int64{}

// constResultLen: every return of f yields a slice of the same constant length.
func constResultLen(f *ssa.Function) (int64, bool) {
	if v, ok := constLenCache[f]; ok {
		return v, v >= 0
	}
	constLenCache[f] = -1
	cx := NewCtx(f)
	res := int64(-1)
	for _, b := range f.Blocks {
		if len(b.Instrs) == 0 {
			continue
		}
		ret, ok := b.Instrs[len(b.Instrs)-1].(*ssa.Return)
		if !ok {
			continue
		}
		l := cx.LenOf(ret.Results[0])
		if len(l.Coef) != 0 {
			return 0, false
		}
		if res >= 0 && res != l.C {
			return 0, false
		}
		res = l.C
	}
	if res >= 0 {
		constLenCache[f] = res
	}
	return res, res >= 0
}
