#!/usr/bin/env python3
"""Rewrites the per-property obligation table of DESIGN.md §7.1 (between the results-table markers) from /verif/evidence."""
import json,glob,re
rows=[]
for f in sorted(glob.glob('/verif/evidence/C*.json')):
    e=json.load(open(f)); c=e['coverage']
    pr=c.get('per_rule',{})
    rules=', '.join('%s %d'%(k.split('.',1)[1], sum(v.values())) for k,v in sorted(pr.items()) if not k.endswith('.selftest'))
    rows.append('| %s | %d | %s |'%(e['property_id'], sum(sum(v.values()) for k,v in pr.items() if not k.endswith('.selftest')), rules))
s=open('/verif/DESIGN.md').read()
hdr='| property | obligations | rules (instances) |\n|---|---|---|\n'
a=s.index(hdr)+len(hdr)
b=s.index('\n\n',a)
s=s[:a]+'\n'.join(rows)+s[b:]
open('/verif/DESIGN.md','w').write(s)
print(len(rows),'rows')
