#!/usr/bin/env python3
"""Generates /verif/MANIFEST.json from the table below (single source of truth)."""
import json, os

CLAIMED = {
 "C01": ("constant folding of the KMS envelope serializer's and parser's size guards at boundary DEK lengths and comparison of the verdicts; constant census of IV/tag sizes; integer-width rule for the associated-data bit length; associated-data length suffix helpers folded to constant bytes; 64-bit width of every length block written in aead/subtle and internal/aead",
         "C01 as stated (Decrypt(Encrypt(p)) = p and byte-level interoperability with independent implementations of the standard algorithms) quantifies over cipher arithmetic and is NOT decided by this check. Decided are three structural necessary conditions only: the KMS envelope serializer and parser accept exactly the same encrypted-DEK lengths (0, 1, 2, 4095, 4096, 4097, 2^20 folded on both sides) with a 4-byte big-endian length field, so Decrypt never refuses an envelope Encrypt can produce on account of its DEK length; the IV/nonce/tag size constants of AES-GCM, AES-GCM-SIV, XAES-256-GCM, AES-CTR equal the standard values; the associated-data bit length of encrypt-then-MAC is widened to 64 bits before it is multiplied and never narrowed. The remaining code-shape clauses of C01 are decided under C02 (framing and tag checks of Decrypt), C19 (no writes into caller buffers) and C20 (fresh nonces).",
         "Trusted: go/ssa; constant propagation over the two envelope functions. Everything value-level (the ciphers themselves, round-trip equality for all inputs) is outside the claim.",
         "DESIGN.md §4 C01, §5"),
 # id: (technique, level text, level note, design_ref)
 "C19": ("whole-program memory-effect / alias summaries over SSA (write-set, retention, result aliasing) on every exported API function; retention contracts for atomic/sync containers; census of byte-buffer parameters kept in package-level state over all functions",
         "Structural decision of the three clauses of C19 (no write into byte-slice/proto parameters incl. append into spare capacity; no retention of parameter memory in receiver, globals or returned objects; no byte-slice/proto result aliasing receiver, globals or parameters) on all ~900 obligations of the exported API, by a summary-based points-to analysis of the type-checked program. A violating construct is named (function + instruction). This is the clause of C19 visible in code shape, and it is the whole of C19 modulo the stdlib contract table.",
         "Trusted: go/types+go/ssa model of the source; contract table for stdlib/x-crypto/protobuf callees (checker/effects/contracts.go); unlisted external callees assumed pure (listed in evidence); user-supplied tink interface implementations out of scope.",
         "DESIGN.md §4 C19, §2 engine B"),
 "C18": ("whole-program memory-effect summaries: receiver/global absent from the write set of every concurrent entry point; lock-dominance of every access to globals written after init; typestate of sync.Pool objects (no result aliases an object put back); no write through a field holding a shared primitive from per-call objects",
         "Decides the structural necessary condition of C18 — no concurrent entry point (every method of every product type implementing a primitive/key/parameters interface, exported methods of Handle/Entry/prf.Set/PrefixMap, registry lookups: ~560 functions) writes memory reachable from the shared receiver or from a module package-level variable, including appends onto field slices and receiver-mutating stdlib methods on objects reachable from the receiver; plus lock discipline for the globals written after initialisation. Modulo the stdlib contract table this is also sufficient for race freedom of the library's own memory. Schedules themselves are not explored.",
         "Trusted: go/types+go/ssa; stdlib contract table incl. which stdlib objects are stateful; sync.Mutex/RWMutex/Map, atomic and crypto/rand.Reader are synchronised; user-supplied loggers/KMS clients/io objects are out of scope.",
         "DESIGN.md §4 C18, §2 engine B"),
 "C11": ("census of all writers of manager state (per-instruction write sets) + CFG reachability to failing returns + dominance/path facts on status/isPrimary/ID guards + range-loop shape",
         "Discharges, over all writers of the Manager's state found by census, the side conditions of the inductive argument for the keyset invariant: atomicity of failing operations (no state write can be followed by a definitely-failing return), ID freshness/recording at every append site and in newRandomKeyID/NewManagerFromHandle/WithFixedID/Add, primary=>Enabled and non-primary-before-disable/delete guards on the same entry object, complete clearing loops after a primary is set, isolation of Handle()/NewManagerFromHandle() results (no shared entries slice or entry objects). It is a structural proof-obligation list, not an exploration of operation histories.",
         "Trusted: go/ssa; the hand argument from the listed side conditions to the invariant; idioms recognised (if-guards, range loops, comma-ok map lookups).",
         "DESIGN.md §4 C11"),
 "C13": ("constant folding of the secret-classification predicate over every KeyMaterialType constant; census + dominance of every ingress/egress site of cleartext keysets; single-call/argument-identity rules for the keyset encryption helpers; backward slices of keyset-info fields; every key parser folded per KeyMaterialType label (exactly one label may succeed), fallback-key dominance in the generic ParseKey; type-test dominance for key.Key components of public key objects; census of KeyMaterialType stores",
         "Decides the structural clauses of C13 completely: the per-key predicate of hasSecrets folds to true for UNKNOWN/SYMMETRIC/ASYMMETRIC_PRIVATE and false for PUBLIC/REMOTE independent of any other key field, and is applied to every key; every reference to the unguarded handle constructor and every cleartext Writer.Write is guarded by hasSecrets(same value)==false, fed by a checked decrypt*, or lives in the two insecure packages; decrypt*/encrypt* call the caller's AEAD exactly once with the caller's associated data and release a keyset only on its success; keyset-info fields derive from metadata only.",
         "Trusted: go/ssa; confidentiality of the caller's AEAD; a key whose KeyMaterialType label contradicts its type URL is left to the per-type parsers (not decided here).",
         "DESIGN.md §4 C13"),
 "C05": ("census of every PrimitiveFromKey site and wrapper method; value-identity and dominance rules for entry/keyID/prefix pairing, primary selection, candidate selection and logged key IDs; constant folding of every key type's output-prefix function over variants x key IDs (incl. 0); prefix bytes folded to constants (start byte, big-endian key ID); search loops over the matching primitives left only on iterator exhaustion or acceptance",
         "Decides the selection rule of C05 structurally for all 16 factory sites and the wrappers they build: primitives come only from Enabled entries (iterator yield dominated by KeyStatus()==Enabled over 0..Len()-1) or Handle.Primary(); key ID, output prefix, adapter prefix and map key stored with a primitive are computed from that same entry; the primary slot is assigned only under entry.IsPrimary(); accepting operations are tried only on candidates returned by PrimitivesMatchingPrefix(input) whose lookup uses exactly the 5 leading bytes under a length guard plus the prefix-less bucket; every logged key ID is read from the pair whose operation succeeded. No key ID is compared with the constant 0 (0 is a legal ID, not a sentinel). Behaviour of the wrapped primitives and rotation histories are not decided (C11 covers the manager).",
         "Trusted: go/ssa incl. range-over-func lowering; idioms recognised are listed in checker/rules/c05.go.",
         "DESIGN.md §4 C05"),
 "C02": ("must-pass-through (dominance) of authentication facts computed by fixpoint over the call graph; exact-prefix guards; input tiling; linear-arithmetic in-bounds proofs of every input-derived slice/index",
         "Decides structural necessary conditions of C02 for every tink.AEAD implementer: plaintext is released only under a passed authentication check (stdlib Open, constant-time comparison of a recomputed tag, or success of a function for which that holds); the verdict is never discarded; the whole output prefix is compared; no trailing input bytes are ignored; every loop-invariant slice/index on ciphertext-derived data (also in callees) is proved in bounds, so truncated/garbage inputs cannot panic there. It does not decide that the MAC/GHASH values are right.",
         "Trusted: go/ssa; stdlib Open contract; size fields non-negative (validated at construction). Block-loop indexing is outside the prover and listed.",
         "DESIGN.md §4 C02, §2 engines C/D"),
 "C03": ("as C02 for tink.Verifier, plus points-to identity of the signature bytes handed to the stdlib, equality-length guards (directly or entailed from branch facts plus constructor-established field invariants), constant-folded curve-size table, legacy-suffix condition agreement, DER re-encode guard, PSS salt-length guard and salt provenance; bits-to-bytes rounding census",
         "Decides structural necessary conditions of C03 for every tink.Verifier implementer and the legacy-suffix sites of signers: nil only under the stdlib's positive verdict; raw signature bytes (no re-padding) for RSA/Ed25519; Ed25519 and IEEE-P1363 lengths pinned by equality (P1363 to the key's own curve; table 64/96/132 folded); 0x00 suffix exactly under variant==Legacy on both sides; strict DER by re-encoding; PSS salt length cannot be the stdlib's 'auto' value (known finding: salt length 0).",
         "Trusted: go/ssa; stdlib verification calls implement their standards; curve names of crypto/elliptic.",
         "DESIGN.md §4 C03"),
 "C04": ("as C02 for tink.MAC, plus sibling-computation identity (VerifyMAC compares with the same resolved computation ComputeMAC uses), full-length comparison shape, constant-folded parameter validators at their boundaries; provenance of the key handed to crypto/hmac.New",
         "Decides structural necessary conditions of C04: acceptance only under a constant-time full-length comparison between the caller's whole tag and a value from the sibling ComputeMAC path on the same key; exact prefix; no ignored trailing tag bytes; LEGACY suffix condition agreement; validators accept exactly key>=16 / 10<=tag<=digest (HMAC, five hashes) and key==32 / 10<=tag<=16 (CMAC) — evaluated by constant propagation, and constructors pass through them. the caller's tag takes part in the comparison up to its last byte (a slice with an upper bound only where that bound is the tag's length). RFC 2104/4493 value equality is not decided.",
         "Trusted: go/ssa; hmac.Equal / ConstantTimeCompare semantics.",
         "DESIGN.md §4 C04"),
 "C20": ("randomness provenance: symbolic region inclusion of every nonce/IV argument in a dominating crypto/rand fill (linear prover), no intervening write (alias analysis), census of readers/creators/encapsulations",
         "Decides the static clause of C20: every byte of every IV/nonce/salt passed to Seal/NewCTR/nonce-named parameters in producing functions lies in a region completely filled by a dominating CSPRNG fill and is not written in between; the wrappers pass whole buffers to crypto/rand and do not mask; every stdlib generator/signing reader is crypto/rand.Reader; streaming writers draw salt and nonce prefix per call; every encapsulate draws fresh randomness on every success path and keeps nothing in the shared KEM object; hedged PQ signing fills its whole randomness array; every key creator draws its material from the CSPRNG with the parameters' size. The distribution itself is crypto/rand's (assumed).",
         "Trusted: crypto/rand; go/ssa; the two named deterministic nonce derivations (HPKE computeNonce, streaming generateSegmentNonce) are exceptions whose random inputs are checked.",
         "DESIGN.md §4 C20, §2 engine F"),
 "C14": ("census of Handle allocation / constructor call sites; must-validate dominance; constant folding of validateKey over the enum product and of every strength validator at its boundaries; constant-folded Ed25519 key constructors over material lengths; Validate's loop folded as a finite automaton over abstract keys (primary ID? x status x duplicate ID?) from every reachable loop state, guard-shape rules as fallback; in-bounds proofs of every string slice",
         "Decides structural clauses of C14: handles are allocated only in newFromEntries, proto keysets become entries only after Validate()==nil; validateKey accepts exactly {TINK,LEGACY,RAW,CRUNCHY}x{ENABLED,DISABLED,DESTROYED} (every enum constant and an out-of-range probe folded), nil key data rejected; Validate rejects nil/empty keysets, repeated IDs (map fed on every iteration), non-ENABLED or second primaries and succeeds only with an ENABLED primary found; the strength validators reject exactly below the library minimums (AES {16,32}, RSA >=2048 & e=65537, ECDSA curve/hash table incl. every weaker combination, HKDF-PRF, HMAC-PRF, CMAC-PRF) and constructors pass through them. Run-time panic freedom of all parsers and behavioural self-consistency are not decided.",
         "Trusted: go/ssa; constant propagation over pure validator functions; the abstraction of Validate's loop state (flags, counters saturated at 2) and of the ID set by 'already seen'.",
         "DESIGN.md §4 C14"),
 "C09": ("dominance/order and value-identity rule for VerifiedJWT construction; constant folding of validateHeader over its 64-row truth table and of validateFieldPresence; normalised comparison guards of validateTimestamps; census of clock reads, base64 alphabets and kid encoders; type-level JWK export arms; dominance of a complete character scan (folded predicate) over every direct base64 decode",
         "Decides structural clauses of the JWT accept decision: a VerifiedJWT exists only after signature/MAC verification of the content, header validation of that same content and Validator.Validate of that same RawJWT, in that order; validateHeader's decision equals the rule (alg equal, no crit, kid rules) on all 64 input combinations; the presence matrix on all 8; the three timestamp rejections have exactly the stated comparison direction and skew sign with 'now' sampled per call; skew <= 10 min; base64url only; every key-ID kid is base64url of the 4-byte big-endian ID on all three sides; JWK export handles only public types and filters by Enabled; the presence accessors of RawJWT decide presence, not content. JSON/base64 decoding and claim round trips are not decided.",
         "Trusted: go/ssa; structpb accessors; time.Time.After/Add semantics.",
         "DESIGN.md §4 C09"),
 "C07": ("authentication must-pass-through for segment decrypters; dominance of the decryption verdict over every copy to the caller; error-discipline census of underlying I/O calls; nonce-input value rules and counter-increment path rules; CFG path rule for the keyset-level retry reader; confirmed argument table of the subtle streaming constructors; segment-nonce layout folded to constant bytes",
         "Decides the structural clauses of C07 (NOT chunking independence, which quantifies over call histories): the stream writer emits its whole buffer (segments are the internal buffer from offset 0, or caller memory only where the buffer is known empty); no Read on an underlying reader has its count discarded; the replaying wrapper of the keyset-level reader records everything it reads on every return path; segment decrypters succeed only under a passed tag check for every segment length; Reader.Read releases only authenticated plaintext; no underlying I/O error is dropped (16 call sites); segment nonces are prefix||be32(counter)||last with the 2^32-1 limit, own counters incremented on every emitting path, last=false/true/at-EOF; Write after Close fails and Close is idempotent; the keyset-level reader rewinds before each next candidate and fails when none matches.",
         "Trusted: go/ssa; stdlib Open/hmac.Equal; io.ReadFull EOF conventions.",
         "DESIGN.md §4 C07"),
 "C12": ("constant folding of every enum table pair (serialize∘parse inverse on all enum constants); shape rules for the keyset<->entries loops; argument-flow rules for ID requirements, type URL constants, optional sub-message presence; constant-field census; accessor-name/field-name agreement of serializers; ID-requirement flow through the 29 key creators; ParseKey provenance of entry keys; census that every scalar getter of Parameters is read by the parameters serializer; nil-test of the keyset material before cleartext writes; RSA CRT padding table; injectivity and name agreement of the 49 enum-to-name tables folded on every constant",
         "Decides the structural conditions C12 rests on: for every pair of enum table functions A->(B,error)/B->(A,error) (found by type in 30+ packages) parse(serialize(a))=a on every constant and unknown values are errors; keyset<->entries conversions and Public() map every entry in a complete same-index loop with the same ID/status/primary (RAW => ID requirement 0); parsers hand keySerialization.IDRequirement() on and serializers hand key.IDRequirement() to NewKeySerialization (or insist on RAW); type URLs are the package constants on both sides; optional custom kid presence by nil test; no serializer writes a constant into a field the parser reads back, none copies a proto field from a differently named field of another message, no key ID is compared with 0, and a constructor whose parser canonicalises a big integer stores the canonical form. Byte-identical re-serialization and Equal semantics are not decided.",
         "Trusted: go/ssa; constant propagation over pure table functions; protobuf library.",
         "DESIGN.md §4 C12"),
 "C06": ("accept-side rules (auth fixpoint, prefix, tiling, bounds) for HybridDecrypt; literal tables vs transcribed RFC 9180/IANA values; constant folding of hash->size and enum->string tables (digest sizes, injectivity); inter-procedural argument-flow of contextInfo to the key schedule; right-alignment of big-integer bytes in fixed-width slots as linear offsets; byte layouts (suite ids, labelled extract/expand inputs, key schedule context) folded to constant bytes on probe arguments and compared with RFC 9180",
         "Decides structural clauses of C06 (NOT byte-level interoperability): plaintext only under AEAD-open/DEM-decrypt success, exact prefix, in-bounds slicing of the encapsulated key/header; KEM/KDF/AEAD ids, version label, kemLengths and suite-id composition equal RFC 9180 §7/IANA; every hash->size table gives the standard digest sizes; enum->name tables of the hybrid packages are injective; contextInfo of every Encrypt/Decrypt reaches the info_hash labeled extract (HPKE) or the HKDF info argument (ECIES); the KEM/KDF/AEAD factories, folded on every RFC 9180 identifier, build an object carrying that identifier and the hash / key length RFC 9180 assigns to it.",
         "Trusted: go/ssa; the transcribed standard tables in checker/rules/c06.go; stdlib AEAD Open.",
         "DESIGN.md §4 C06"),
 "C08": ("accept-side rules for DeterministicAEAD incl. recognition of the OR-of-XORs comparison loop with a full-length bound; constant folding of the KWP size guards at every boundary and of wrappingSize over its whole domain; dominance of the three KWP integrity facts",
         "Decides structural clauses of C08 (NOT equality with RFC 5297/5649 values): AES-SIV plaintext is released only under a full 16-byte SIV comparison; prefix/tiling/bounds as C02; KWP Wrap accepts exactly 16..8192 and Unwrap exactly 24..8200 (multiples of 8) through their size guards; wrappingSize is 8*ceil(n/8)+8 on all 8177 inputs; Unwrap returns key material only under IV word, encoded size and zero padding checks.",
         "Trusted: go/ssa; constant propagation; CMAC/S2V/W arithmetic is not decided.",
         "DESIGN.md §4 C08"),
 "C10": ("literal tables and constants recomputed/compared with FIPS 204 (zetas, parameter sets, inv256); constant folding of length formulas and of the signature-length guard per parameter set; comparator-shape obligations for verification/signing bounds and HintBitUnpack guards; output-prefix rule for every ML-DSA signer",
         "Decides the constants, tables, comparators and guards of ML-DSA that known-answer tests cannot pin for every input (NOT the lattice arithmetic): q/d/zeta/inv256, all 256 zetas, the three parameter literals vs FIPS 204 Table 1, key/signature lengths 1312/2560/2420, 1952/4032/3309, 2592/4896/4627, sigDecode accepting exactly the signature length, HintBitUnpack's counter/index/padding guards, the verification norm bound and challenge comparison, the four signing rejection bounds, context length <= 255, and prefix||signature for every signer incl. the external-mu signer (a genuine defect there was found and fixed).",
         "Trusted: go/ssa; FIPS 204 values transcribed in checker/rules/c10.go.",
         "DESIGN.md §4 C10"),
 "C15": ("taint-style use census of the outputLength parameter; linear in-bounds proofs of every [:outputLength] slice (with hash.Hash.Sum/Size and constant-result-length knowledge); constant folding of the HKDF output-length limits through ComputeHKDF; phi/edge-fact rule with folded length for the default salt; digest-size tables",
         "Decides structural clauses of C15 (NOT equality with HMAC/HKDF/CMAC values): outputLength influences only guards, slice bounds and read lengths in every ComputePRF (necessary condition of the prefix law); over-long requests fail rather than panic (slices proved in bounds from the maximum-length guards; KDF read errors tested); the HKDF helper accepts tag sizes 10..255*HashLen for the five hashes and substitutes exactly HashLen zero bytes for an empty salt; digest-size tables are standard. prf.Set pairing is decided under C05.",
         "Trusted: go/ssa; len(h.Sum(nil)) == h.Size(); x/crypto hkdf.",
         "DESIGN.md §4 C15"),
 "C16": ("literal parameter tables compared with FIPS 205 Table 2 and its internal equations; constant folding of newParams (derived WOTS+ lengths) and of the signature-length guard for all six parameter sets; instance/hash-family pairing census; address-type constants; context-length guards",
         "Decides the constants, derived parameters and guards of SLH-DSA (NOT the WOTS+/FORS/XMSS computation): the six literals vs FIPS 205 Table 2 with h=d*h' and the m equation, the twelve instances' literal/hash pairing, w/len1/len2/len folded from newParams, verifyInternal accepting exactly 7856/17088/16224/35664/29792/49856-byte signatures before slicing, address types 0..6, context length <= 255 on Sign/SignDeterministic/Verify.",
         "Trusted: go/ssa; FIPS 205 values transcribed in checker/rules/c16.go; math/bits.Len semantics.",
         "DESIGN.md §4 C16"),
 "C17": ("value-identity/dominance rules for DeriveKeyset's loop (element, salt, fixed ID, primary condition); census of randomness references in the derivation packages; closure-capture writes via engine B (C18); parameters parser folded over all pairs of prefix types",
         "Decides structural clauses of C17 (NOT RFC 5869 value equality): DeriveKeyset derives every element's key from the caller's salt in a complete loop, adds it under that element's key ID and promotes exactly the element whose ID equals the deriver keyset's primary ID; the legacy wrapper keeps prefix type and uses ID requirement 0 exactly for RAW; no derivation function references crypto/rand or the random wrappers and every AddKeyWithOpts carries WithFixedID; registered deriver closures share no mutable state (C18).",
         "Trusted: go/ssa; factory-side pairing decided under C05.",
         "DESIGN.md §4 C17"),
}

NOT_APPLICABLE = {
}

PENDING = "check under construction in this round; not claimed until it exists"

def main():
    here = os.path.dirname(os.path.dirname(os.path.abspath(__file__)))
    ids = [json.loads(l)["id"] for l in open(os.path.join(here, "properties.jsonl"))]
    checks = []
    na = []
    for i in ids:
        if i in CLAIMED:
            tech, text, note, ref = CLAIMED[i]
            checks.append({
                "property_id": i,
                "quick_cmd": f"bin/tinkverif check {i} --tier quick",
                "thorough_cmd": f"bin/tinkverif check {i} --tier thorough",
                "evidence_file": f"/verif/evidence/{i}.json",
                "replay_cmd_template": f"bin/tinkverif check {i} --tier quick  # re-analyses /repo; {{path}} names the violating construct",
                "engine": "tinkverif",
                "level_claimed": {"category": "other", "text": text, "design_ref": ref},
                "level_note": note,
                "technique": "static analysis: " + tech,
            })
        else:
            na.append({"property_id": i, "reason": NOT_APPLICABLE.get(i, PENDING)})
    m = {
        "version": 1,
        "setup_cmd": "cd /verif/checker && (GOFLAGS=-mod=vendor GOPROXY=off GOWORK=off go build -o /verif/bin/tinkverif ./cmd/tinkverif || GOTOOLCHAIN=local GOFLAGS=-mod=vendor GOPROXY=off GOWORK=off go1.26.8 build -o /verif/bin/tinkverif ./cmd/tinkverif)",
        "hooks": {
            "guard": "verif",
            "enable": "no hooks: the checks read /repo's source as it is; the build tag 'verif' guards nothing",
            "baseline_off_cmd": "cd /repo && GOFLAGS=-mod=mod GOPROXY=off go test -vet=off -count=1 -timeout 25m ./...",
            "source_commits": [],
            "add_only": True,
        },
        "engines": [
            {"name": "tinkverif", "path": "/verif/checker", "serves_properties": sorted(CLAIMED),
             "kind_free_text": "purpose-built static analyser (go/packages + go/ssa + VTA call graph, x/tools v0.29.0 vendored): effect/alias summaries, dominance guards, constant/table evaluation, census queries"},
        ],
        "checks": checks,
        "not_applicable": na,
        "notes": "All checks are static: they load and type-check /repo's working tree on every run and execute nothing from it. quick: all rules of the property on the default (amd64) build. thorough: the same rules additionally on the module's GOARCH=386 build (obligation keys prefixed 386:), followed by the checker's mutation self-test — every confirmed seeded change in /verif/seeded recorded as detected by this property is applied as an in-memory overlay on the current working tree and must still be reported (a change that is no longer detected fails the run as <id>.selftest; a patch that no longer applies is skipped and listed). Genuine defects found are repaired by 'fix:' commits in /repo and recorded under 'fixed' in /verif/known_findings.json.",
    }
    json.dump(m, open(os.path.join(here, "MANIFEST.json"), "w"), indent=1)
    print("claimed:", sorted(CLAIMED), "not claimed:", [x["property_id"] for x in na])

if __name__ == "__main__":
    main()
