#!/bin/bash
# tools/seed_setup.sh <workroot> <N> <id...>: prepares <workroot>/<id>/{PROPERTY.txt,PROMPT.txt,wt} for
# an independent sub-agent (own scratch worktree of /repo HEAD; nothing from /verif but the property text).
root=$1; n=$2; shift 2
mkdir -p $root
for id in "$@"; do
  d=$root/$id; mkdir -p $d/out
  python3 - "$id" > $d/PROPERTY.txt <<'PY'
import json,sys
for l in open('/verif/properties.jsonl'):
    p=json.loads(l)
    if p['id']==sys.argv[1]:
        print("PROPERTY", p['id'], "-", p['title']); print(); print("STATEMENT:", p['statement']); print()
        print("QUANTIFIED OVER:", p['quantifier']['text']); print()
        print("WHY TESTS CANNOT SETTLE IT:", p['why_tests_cant']); print()
        print("ANCHORS:", json.dumps(p['anchors'], indent=1))
PY
  sed "s#/tmp/seedwork/@ID@#$d#g; s/@ID@/$id/g; s/@N@/$n/g" ${SEED_PROMPT:-/verif/tools/seed_prompt.tmpl} > $d/PROMPT.txt
  git -C /repo worktree add -q --detach $d/wt HEAD
done
