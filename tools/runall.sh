#!/bin/bash
# Runs every claimed check (quick tier by default) and prints one summary line each.
cd /verif
rc=0
for p in C01 C02 C03 C04 C05 C06 C07 C08 C09 C10 C11 C12 C13 C14 C15 C16 C17 C18 C19 C20; do
  out=$(bin/tinkverif check $p --tier ${1:-quick}); e=$?
  echo "$out" | grep -E '^(VIOLATION|KNOWN-FINDING)'; echo "$out" | tail -1
  [ $e -ne 0 ] && rc=1
done
exit $rc
