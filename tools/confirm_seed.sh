#!/bin/bash
# confirm_seed.sh <srcdir with patch.diff demo_test.go NOTES.md> <property> <name>
# Confirms a seeded change in a scratch worktree of /repo (HEAD):
#   demo passes without the patch; patch applies; tree builds; the existing test
#   suite passes (hpke BoringSSL vector tests are a known baseline failure);
#   demo fails with the patch.  On success copies to /verif/seeded/<property>-<name>/.
set -u
src=$1; prop=$2; name=$3
export GOFLAGS=-mod=mod GOPROXY=off
wt=/tmp/confirm_wt_$$
out=/verif/seeded/$prop-$name
log=$(mktemp /tmp/confirm_log.XXXXXX)
cleanup() { git -C /repo worktree remove --force "$wt" >/dev/null 2>&1; rm -rf "$wt" "$log"; }
trap cleanup EXIT
git -C /repo worktree add --detach "$wt" HEAD >/dev/null 2>&1 || { echo "RESULT $prop-$name: cannot create worktree"; exit 2; }
line=$(grep -m1 -E "go test .*-run" "$src/demo_test.go")
run=$(echo "$line" | sed -E "s/.*-run[= ]+'?([^' ]+)'?.*/\1/")
pkg=$(echo "$line" | grep -oE "\./[A-Za-z0-9_/]+" | tail -1)
if [ -z "$run" ] || [ -z "$pkg" ] || [ ! -d "$wt/$pkg" ]; then echo "RESULT $prop-$name: cannot parse demo header ($line)"; exit 2; fi
cp "$src/demo_test.go" "$wt/$pkg/zz_seed_demo_test.go"
cd "$wt"
if ! go test -count=1 -run "$run" "$pkg" >"$log" 2>&1; then echo "RESULT $prop-$name: demo FAILS WITHOUT patch"; tail -20 "$log"; exit 1; fi
rm "$wt/$pkg/zz_seed_demo_test.go"
if ! git apply "$src/patch.diff" 2>"$log"; then
  if ! git apply --3way "$src/patch.diff" 2>>"$log"; then echo "RESULT $prop-$name: patch does not apply to HEAD"; tail -5 "$log"; exit 1; fi
fi
git diff HEAD > "$log.diff"
if ! go build ./... >"$log" 2>&1; then echo "RESULT $prop-$name: does not build"; tail -20 "$log"; exit 1; fi
go test -count=1 ./... >"$log" 2>&1
fails=$(grep -E "^(FAIL|---)" "$log" | grep -E "^FAIL\s" | grep -v "hybrid/internal/hpke" | grep -v "^FAIL$")
if [ -n "$fails" ]; then echo "RESULT $prop-$name: existing tests FAIL with patch: $fails"; exit 1; fi
cp "$src/demo_test.go" "$wt/$pkg/zz_seed_demo_test.go"
if go test -count=1 -run "$run" "$pkg" >"$log" 2>&1; then echo "RESULT $prop-$name: demo PASSES WITH patch (no violation shown)"; exit 1; fi
demo_tail=$(grep -E "^\s+.*(_test.go|panic)" "$log" | head -5)
mkdir -p "$out"
cp "$log.diff" "$out/patch.diff"; rm -f "$log.diff"
cp "$src/demo_test.go" "$out/demo_test.go"
[ -f "$src/NOTES.md" ] && cp "$src/NOTES.md" "$out/NOTES.md"
python3 - "$out" "$prop" "$name" "$pkg" "$run" "$(git -C /repo rev-parse --short HEAD)" "$demo_tail" <<'EOF'
import json,sys,re
out,prop,name,pkg,run,head,tail=sys.argv[1:8]
notes=open(out+'/NOTES.md').read() if __import__('os').path.exists(out+'/NOTES.md') else ''
m=re.search(r'(?is)(needs?|manifest|condition)[^\n]*\n(.{0,900})',notes)
json.dump({
 "property":prop,"name":name,
 "breaks":"see NOTES.md (written by the independent sub-agent that produced the change)",
 "needs_to_manifest":(m.group(0)[:900] if m else "see NOTES.md"),
 "demo":{"copy_to":pkg+"/","run":"go test -count=1 -run '%s' %s"%(run,pkg)},
 "confirmed":{"against_repo_head":head,
   "ran":["demo without patch: PASS","git apply patch.diff","go build ./...: ok","go test -count=1 ./...: all packages ok (hybrid/internal/hpke BoringSSL-vector tests fail on the unchanged tree too)","demo with patch: FAIL"],
   "demo_failure_excerpt":tail},
 "detected_by":[]
},open(out+'/meta.json','w'),indent=1)
EOF
echo "RESULT $prop-$name: CONFIRMED -> $out"
