#!/bin/bash
# Rewrites the seeded-change table between the seed-table markers of DESIGN.md.
cd /verif && python3 - <<'PY'
import subprocess
t=subprocess.run(['python3','tools/seed_table.py'],capture_output=True,text=True).stdout
s=open('DESIGN.md').read()
a=s.index('<!-- seed-table:begin -->')+len('<!-- seed-table:begin -->\n'); b=s.index('<!-- seed-table:end -->')
open('DESIGN.md','w').write(s[:a]+t+s[b:])
PY
