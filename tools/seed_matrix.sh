#!/bin/bash
# Runs every confirmed seeded change (in-memory overlay on /repo's working tree) against
# every claimed check and rewrites each meta.json's detected_by with the properties whose
# rules report a violation. Usage: tools/seed_matrix.sh [seed-dir-name ...]
set -u
V=/verif
ALL="C01 C02 C03 C04 C05 C06 C07 C08 C09 C10 C11 C12 C13 C14 C15 C16 C17 C18 C19 C20"
PROPS="${PROPS:-$ALL}"
OUT=$(mktemp -d)
seeds=("$@")
if [ ${#seeds[@]} -eq 0 ]; then seeds=($(ls $V/seeded)); fi
for s in "${seeds[@]}"; do for p in $PROPS; do echo "$s $p"; done; done |
  xargs -P ${JOBS:-6} -L1 bash -c '$0/bin/tinkverif mutant $2 $0/seeded/$1/patch.diff > '$OUT'/$1.$2.out 2>&1; echo $? > '$OUT'/$1.$2.rc' $V
for s in "${seeds[@]}"; do
  det=()
  for p in $PROPS; do
    rc=$(cat $OUT/$s.$p.rc)
    if [ "$rc" = 3 ]; then det+=("$p"); fi
    if [ "$rc" != 0 ] && [ "$rc" != 3 ]; then echo "  $s $p: rc=$rc $(head -c 300 $OUT/$s.$p.out)"; fi
  done
  echo "$s: ${det[*]:-MISSED}"
  python3 - "$V/seeded/$s/meta.json" "$PROPS" "${det[@]}" <<'PY'
import json,sys
f=sys.argv[1]; m=json.load(open(f)); ran=sys.argv[2].split()
m['detected_by']=sorted(set([d for d in m.get('detected_by',[]) if d not in ran]+sys.argv[3:]))
json.dump(m,open(f,'w'),indent=1); open(f,'a').write('\n')
PY
  for p in "${det[@]}"; do head -3 $OUT/$s.$p.out | sed "s/^/    [$p] /"; done
done
rm -rf $OUT
