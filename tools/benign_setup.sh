#!/bin/bash
# tools/benign_setup.sh <N> <id...>: prepares /tmp/benignwork/<id>/ for a sub-agent writing behaviour-preserving refactors.
n=$1; shift
root=${BENIGN_ROOT:-/tmp/benignwork}; mkdir -p $root
for id in "$@"; do
  d=$root/$id; mkdir -p $d/out
  python3 - "$id" > $d/PROPERTY.txt <<'PY'
import json,sys
for l in open('/verif/properties.jsonl'):
    p=json.loads(l)
    if p['id']==sys.argv[1]:
        print("PROPERTY", p['id'], "-", p['title']); print(); print("STATEMENT:", p['statement']); print()
        print("QUANTIFIED OVER:", p['quantifier']['text']); print()
        print("ANCHORS:", json.dumps(p['anchors'], indent=1))
PY
  sed "s#/tmp/benignwork/@ID@#$d#g; s/@ID@/$id/g; s/@N@/$n/g" ${BENIGN_PROMPT:-/verif/tools/benign_prompt.tmpl} > $d/PROMPT.txt
  git -C /repo worktree add -q --detach $d/wt HEAD
done
