#!/bin/bash
# tools/benign_run.sh <workroot> <id...>: runs every claimed check on each <workroot>/<id>/out/v*/patch.diff (in-memory overlay)
# and prints the violations raised (expected: none for behaviour-preserving refactors).
root=$1; shift
PROPS="${PROPS:-C01 C02 C03 C04 C05 C06 C07 C08 C09 C10 C11 C12 C13 C14 C15 C16 C17 C18 C19 C20}"
OUT=$(mktemp -d)
for id in "$@"; do for v in $root/$id/out/v*/; do [ -f $v/patch.diff ] || continue; n=$(basename $v); for p in $PROPS; do echo "$id $n $p"; done; done; done |
  xargs -P ${JOBS:-6} -L1 bash -c '/verif/bin/tinkverif mutant $2 '$root'/$0/out/$1/patch.diff > '$OUT'/$0.$1.$2.out 2>&1; echo $? > '$OUT'/$0.$1.$2.rc'
for id in "$@"; do for v in $root/$id/out/v*/; do [ -f $v/patch.diff ] || continue; n=$(basename $v)
  line="$id-$n:"
  for p in $PROPS; do rc=$(cat $OUT/$id.$n.$p.rc); if [ "$rc" != 0 ]; then line="$line $p(rc=$rc)"; fi; done
  echo "$line"
  for p in $PROPS; do rc=$(cat $OUT/$id.$n.$p.rc); if [ "$rc" != 0 ]; then head -4 $OUT/$id.$n.$p.out | sed "s/^/    [$p] /"; fi; done
done; done
rm -rf $OUT
