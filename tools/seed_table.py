#!/usr/bin/env python3
"""Prints the markdown table of confirmed seeded changes: id, file(s), title from NOTES.md, detected_by."""
import json, os, re, glob
root = os.path.dirname(os.path.dirname(os.path.abspath(__file__)))
print("| change | file(s) touched | idea (from the sub-agent's notes) | detected by |")
print("|---|---|---|---|")
for d in sorted(glob.glob(os.path.join(root, "seeded", "*"))):
    m = json.load(open(os.path.join(d, "meta.json")))
    files = sorted(set(re.findall(r"^\+\+\+ b/(\S+)", open(os.path.join(d, "patch.diff")).read(), re.M)))
    title = ""
    try:
        first = open(os.path.join(d, "NOTES.md")).readline().strip().lstrip("# ").strip()
        title = re.sub(r"^(C\d+\s*[/—-]*\s*)?(variant\s*)?v?\d*p?\s*[—:-]*\s*", "", first, flags=re.I)
    except OSError:
        pass
    det = ", ".join(m.get("detected_by") or []) or "**missed**"
    print("| %s | %s | %s | %s |" % (os.path.basename(d), "<br>".join("`%s`" % f for f in files), title.replace("|", "/"), det))

