#!/bin/bash
# seedtest.sh <dir containing patch.diff> <property>...
# Runs the given checks against a scratch worktree of /repo HEAD with the patch
# applied (nothing in /repo or /verif/evidence is touched). Prints per check
# whether it raised a violation.
set -u
dir=$1; shift
wt=/tmp/seedtest_wt_$$
ev=/tmp/seedtest_ev_$$
trap 'git -C /repo worktree remove --force "$wt" >/dev/null 2>&1; rm -rf "$wt" "$ev"' EXIT
git -C /repo worktree add --detach "$wt" HEAD >/dev/null 2>&1 || exit 2
(cd "$wt" && (git apply "$dir/patch.diff" 2>/dev/null || git apply --3way "$dir/patch.diff" 2>/dev/null)) || { echo "$(basename $dir): PATCH DOES NOT APPLY"; exit 2; }
mkdir -p "$ev"
for p in "$@"; do
  out=$(VERIF_REPO="$wt" VERIF_EVIDENCE_DIR="$ev" /verif/bin/tinkverif check "$p" 2>&1)
  rc=$?
  if [ $rc -eq 1 ]; then
    echo "$(basename $dir) $p: DETECTED"
    echo "$out" | grep -A1 "^VIOLATION" | grep -v "^VIOLATION\|^--" | cut -c1-260 | head -6
  elif [ $rc -eq 0 ]; then echo "$(basename $dir) $p: missed"
  else echo "$(basename $dir) $p: checker error rc=$rc"; echo "$out" | tail -3; fi
done
