#!/bin/bash
# tools/benign_keep.sh <workroot> <id> <vN> [<prop-of-selftest>...]: keeps a behaviour-preserving refactor as negative control(s)
# under /verif/benign/<id>-r<N>[-<prop>]/ (patch.diff, NOTES.md, meta.json). One directory per property whose rules it exercises.
root=$1; id=$2; v=$3; shift 3
props=("$@"); [ ${#props[@]} -eq 0 ] && props=($id)
for p in "${props[@]}"; do
  d=/verif/benign/${TAG:-}$id-${v/v/r}; [ "$p" != "$id" ] && d=$d-$p
  mkdir -p $d; cp $root/$id/out/$v/patch.diff $d/; cp $root/$id/out/$v/NOTES.md $d/ 2>/dev/null
  python3 - "$d" "$p" "$id" <<'PY'
import json,sys,os
d,p,src=sys.argv[1:4]
first=""
try: first=open(os.path.join(d,"NOTES.md")).readline().strip().lstrip("# ").strip()
except OSError: pass
json.dump({"property":p,"why":"behaviour-preserving refactor written by an independent sub-agent for the anchors of %s (existing test suite passes): %s"%(src,first)},open(os.path.join(d,"meta.json"),"w"),indent=1)
PY
done
