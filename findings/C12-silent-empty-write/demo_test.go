// Demonstration for the repaired defect C12.writeerr (copy into insecurecleartextkeyset/ of tink-go and run
//   go test -count=1 -run TestC12CleartextWriteReportsSerializationFailure ./insecurecleartextkeyset/ ).
// keyset.keysetMaterial swallows the error of entriesToProtoKeyset and returns nil;
// insecurecleartextkeyset.Write (and testkeyset.Write) handed that nil to the writer, which
// wrote an empty keyset and reported success. A handle holding a key that cannot be
// serialised (here: an AES-GCM key with a 16-byte IV, which the proto format cannot
// represent) was "written" without error and could not be read back.
package insecurecleartextkeyset_test

import (
	"bytes"
	"testing"

	"github.com/tink-crypto/tink-go/v2/aead/aesgcm"
	"github.com/tink-crypto/tink-go/v2/insecurecleartextkeyset"
	"github.com/tink-crypto/tink-go/v2/insecuresecretdataaccess"
	"github.com/tink-crypto/tink-go/v2/keyset"
	"github.com/tink-crypto/tink-go/v2/secretdata"
)

func TestC12CleartextWriteReportsSerializationFailure(t *testing.T) {
	params, err := aesgcm.NewParameters(aesgcm.ParametersOpts{KeySizeInBytes: 32, IVSizeInBytes: 16, TagSizeInBytes: 16, Variant: aesgcm.VariantTink})
	if err != nil {
		t.Fatal(err)
	}
	k, err := aesgcm.NewKey(secretdata.NewBytesFromData(bytes.Repeat([]byte{1}, 32), insecuresecretdataaccess.Token{}), 7, params)
	if err != nil {
		t.Fatal(err)
	}
	km := keyset.NewManager()
	id, err := km.AddKey(k)
	if err != nil {
		t.Fatal(err)
	}
	if err := km.SetPrimary(id); err != nil {
		t.Fatal(err)
	}
	h, err := km.Handle()
	if err != nil {
		t.Fatal(err)
	}
	var buf bytes.Buffer
	err = insecurecleartextkeyset.Write(h, keyset.NewBinaryWriter(&buf))
	if err != nil {
		t.Logf("Write reports the failure: %v", err)
		return
	}
	if _, err := insecurecleartextkeyset.Read(keyset.NewBinaryReader(&buf)); err != nil {
		t.Errorf("Write reported success but wrote %d bytes that cannot be read back: %v", buf.Len(), err)
	}
}
