// Demonstration for the repaired defect C12.lossless (copy into aead/aesgcm/ of tink-go and run
//   go test -count=1 -run TestC12AESGCMSizesRoundTrip ./aead/aesgcm/ ).
// aesgcm.NewParameters accepts any IV size > 0 and tag sizes 12..16, but the proto format has
// no fields for them: the serializers dropped both silently and the parsers hard-code 12 and 16.
// A key (or parameters object) with IV size 16 therefore came back from any keyset
// write/read as a *different* key (IV size 12), Equal() false, and with another wire format.
package aesgcm_test

import (
	"bytes"
	"testing"

	"github.com/tink-crypto/tink-go/v2/aead/aesgcm"
	"github.com/tink-crypto/tink-go/v2/insecurecleartextkeyset"
	"github.com/tink-crypto/tink-go/v2/insecuresecretdataaccess"
	"github.com/tink-crypto/tink-go/v2/internal/protoserialization"
	"github.com/tink-crypto/tink-go/v2/keyset"
	"github.com/tink-crypto/tink-go/v2/secretdata"
)

func TestC12AESGCMSizesRoundTrip(t *testing.T) {
	for _, sz := range []struct{ iv, tag int }{{12, 16}, {16, 16}, {12, 12}} {
		params, err := aesgcm.NewParameters(aesgcm.ParametersOpts{KeySizeInBytes: 32, IVSizeInBytes: sz.iv, TagSizeInBytes: sz.tag, Variant: aesgcm.VariantTink})
		if err != nil {
			t.Fatalf("NewParameters(iv=%d, tag=%d): %v", sz.iv, sz.tag, err)
		}
		// parameters
		tmpl, err := protoserialization.SerializeParameters(params)
		if err != nil {
			t.Logf("iv=%d tag=%d: parameters not serialisable: %v", sz.iv, sz.tag, err)
		} else if back, err := protoserialization.ParseParameters(tmpl); err != nil {
			t.Errorf("iv=%d tag=%d: ParseParameters: %v", sz.iv, sz.tag, err)
		} else if !back.Equal(params) {
			t.Errorf("iv=%d tag=%d: parameters do not survive serialization: got %+v", sz.iv, sz.tag, back)
		}
		// key in a keyset
		k, err := aesgcm.NewKey(secretdata.NewBytesFromData(bytes.Repeat([]byte{1}, 32), insecuresecretdataaccess.Token{}), 7, params)
		if err != nil {
			t.Fatal(err)
		}
		km := keyset.NewManager()
		id, err := km.AddKey(k)
		if err != nil {
			t.Logf("iv=%d tag=%d: key not accepted by the manager: %v", sz.iv, sz.tag, err)
			continue
		}
		km.SetPrimary(id)
		h, err := km.Handle()
		if err != nil {
			t.Fatal(err)
		}
		var buf bytes.Buffer
		if err := insecurecleartextkeyset.Write(h, keyset.NewBinaryWriter(&buf)); err != nil {
			t.Logf("iv=%d tag=%d: keyset not writable: %v", sz.iv, sz.tag, err)
			continue
		}
		h2, err := insecurecleartextkeyset.Read(keyset.NewBinaryReader(&buf))
		if err != nil {
			t.Errorf("iv=%d tag=%d: read back: %v", sz.iv, sz.tag, err)
			continue
		}
		e, err := h2.Entry(0)
		if err != nil {
			t.Fatal(err)
		}
		if !e.Key().Equal(k) {
			t.Errorf("iv=%d tag=%d: the key read back is not Equal to the key written (parameters %+v)", sz.iv, sz.tag, e.Key().Parameters())
		}
	}
}
