// Demonstration for the known finding C13.label (copy into keyset/ of tink-go and run
//   go test -count=1 -run TestC13MaterialTypeLabel ./keyset/ ).
// Five key parsers (HMAC, AES-CMAC, HMAC-PRF, HKDF-PRF, AES-CMAC-PRF) do not check the
// KeyMaterialType label of the key data ("for compatibility with other Tink
// implementations"), while keyset.hasSecrets trusts that label. A keyset holding
// symmetric key material labelled ASYMMETRIC_PUBLIC or REMOTE is therefore accepted by
// NewHandleWithNoSecrets, against "fail for every keyset containing symmetric ... key material".
package keyset_test

import (
	"testing"

	"github.com/tink-crypto/tink-go/v2/keyset"
	_ "github.com/tink-crypto/tink-go/v2/mac"
	_ "github.com/tink-crypto/tink-go/v2/prf"
	cmacpb "github.com/tink-crypto/tink-go/v2/proto/aes_cmac_go_proto"
	cmacprfpb "github.com/tink-crypto/tink-go/v2/proto/aes_cmac_prf_go_proto"
	commonpb "github.com/tink-crypto/tink-go/v2/proto/common_go_proto"
	hkdfpb "github.com/tink-crypto/tink-go/v2/proto/hkdf_prf_go_proto"
	hmacpb "github.com/tink-crypto/tink-go/v2/proto/hmac_go_proto"
	hmacprfpb "github.com/tink-crypto/tink-go/v2/proto/hmac_prf_go_proto"
	tinkpb "github.com/tink-crypto/tink-go/v2/proto/tink_go_proto"
	"google.golang.org/protobuf/proto"
)

func TestC13MaterialTypeLabel(t *testing.T) {
	secret := []byte("0123456789abcdef0123456789abcdef")
	types := []struct {
		url    string
		msg    proto.Message
		prefix tinkpb.OutputPrefixType
	}{
		{"type.googleapis.com/google.crypto.tink.HmacKey", &hmacpb.HmacKey{Params: &hmacpb.HmacParams{Hash: commonpb.HashType_SHA256, TagSize: 16}, KeyValue: secret}, tinkpb.OutputPrefixType_TINK},
		{"type.googleapis.com/google.crypto.tink.AesCmacKey", &cmacpb.AesCmacKey{Params: &cmacpb.AesCmacParams{TagSize: 16}, KeyValue: secret}, tinkpb.OutputPrefixType_TINK},
		{"type.googleapis.com/google.crypto.tink.HmacPrfKey", &hmacprfpb.HmacPrfKey{Params: &hmacprfpb.HmacPrfParams{Hash: commonpb.HashType_SHA256}, KeyValue: secret}, tinkpb.OutputPrefixType_RAW},
		{"type.googleapis.com/google.crypto.tink.HkdfPrfKey", &hkdfpb.HkdfPrfKey{Params: &hkdfpb.HkdfPrfParams{Hash: commonpb.HashType_SHA256}, KeyValue: secret}, tinkpb.OutputPrefixType_RAW},
		{"type.googleapis.com/google.crypto.tink.AesCmacPrfKey", &cmacprfpb.AesCmacPrfKey{KeyValue: secret}, tinkpb.OutputPrefixType_RAW},
	}
	for _, kt := range types {
		for _, mt := range []tinkpb.KeyData_KeyMaterialType{tinkpb.KeyData_SYMMETRIC, tinkpb.KeyData_ASYMMETRIC_PUBLIC, tinkpb.KeyData_REMOTE} {
			b, err := proto.Marshal(kt.msg)
			if err != nil {
				t.Fatal(err)
			}
			ks := &tinkpb.Keyset{PrimaryKeyId: 7, Key: []*tinkpb.Keyset_Key{{
				KeyData: &tinkpb.KeyData{TypeUrl: kt.url, Value: b, KeyMaterialType: mt},
				Status:  tinkpb.KeyStatusType_ENABLED, KeyId: 7, OutputPrefixType: kt.prefix}}}
			_, err = keyset.NewHandleWithNoSecrets(ks)
			switch {
			case mt == tinkpb.KeyData_SYMMETRIC && err == nil:
				t.Errorf("%s labelled SYMMETRIC: accepted", kt.url)
			case mt != tinkpb.KeyData_SYMMETRIC && err == nil:
				t.Errorf("%s labelled %v: NewHandleWithNoSecrets ACCEPTED a keyset holding symmetric key material", kt.url, mt)
			}
		}
	}
}
