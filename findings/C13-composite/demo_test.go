// Demonstration for the repaired defect C13.pubtype (copy into signature/compositemldsa/ of
// tink-go and run  go test -count=1 -run TestC13CompositePublicKeyAcceptsPrivateKey ./signature/compositemldsa/ ).
// compositemldsa.NewPublicKey documents that the classical component must be an
// ed25519/ecdsa/rsassapss/rsassapkcs1 *PublicKey*, but only compared its Parameters():
// a classical *private* key has the same parameters and was accepted. The composite
// "public" key then serialises the private key bytes under the public type URL with the
// label ASYMMETRIC_PUBLIC, and keyset.Handle.WriteWithNoSecrets writes them in the clear.
package compositemldsa_test

import (
	"bytes"
	"testing"

	"github.com/tink-crypto/tink-go/v2/insecuresecretdataaccess"
	"github.com/tink-crypto/tink-go/v2/internal/internalapi"
	"github.com/tink-crypto/tink-go/v2/keyset"
	"github.com/tink-crypto/tink-go/v2/secretdata"
	"github.com/tink-crypto/tink-go/v2/signature/compositemldsa"
	"github.com/tink-crypto/tink-go/v2/signature/ed25519"
	"github.com/tink-crypto/tink-go/v2/signature/mldsa"
)

func TestC13CompositePublicKeyAcceptsPrivateKey(t *testing.T) {
	params, err := compositemldsa.NewParameters(compositemldsa.Ed25519, compositemldsa.MLDSA65, compositemldsa.VariantTink)
	if err != nil {
		t.Fatal(err)
	}
	mlParams, err := mldsa.NewParameters(mldsa.MLDSA65, mldsa.VariantNoPrefix)
	if err != nil {
		t.Fatal(err)
	}
	mlPriv, err := mldsa.NewPrivateKey(secretdata.NewBytesFromData(bytes.Repeat([]byte{7}, 32), insecuresecretdataaccess.Token{}), 0, mlParams)
	if err != nil {
		t.Fatal(err)
	}
	mlPubKey, err := mlPriv.PublicKey()
	if err != nil {
		t.Fatal(err)
	}
	edParams, err := ed25519.NewParameters(ed25519.VariantNoPrefix)
	if err != nil {
		t.Fatal(err)
	}
	seed := bytes.Repeat([]byte{0x5e}, 32) // the secret
	edPriv, err := ed25519.NewPrivateKey(secretdata.NewBytesFromData(seed, insecuresecretdataaccess.Token{}), 0, edParams)
	if err != nil {
		t.Fatal(err)
	}
	// The classical *private* key handed in as "classical public key".
	pub, err := compositemldsa.NewPublicKey(mlPubKey.(*mldsa.PublicKey), edPriv, 0x01020304, params)
	if err != nil {
		t.Logf("NewPublicKey rejected the private key: %v", err)
		return
	}
	km := keyset.NewManager()
	id, err := km.AddKeyWithOpts(pub, internalapi.Token{}, keyset.AsPrimary())
	if err != nil {
		t.Fatalf("AddKeyWithOpts: %v", err)
	}
	_ = id
	h, err := km.Handle()
	if err != nil {
		t.Fatalf("Handle: %v", err)
	}
	var buf bytes.Buffer
	if err := h.WriteWithNoSecrets(keyset.NewBinaryWriter(&buf)); err != nil {
		t.Logf("WriteWithNoSecrets refused: %v", err)
		return
	}
	if bytes.Contains(buf.Bytes(), seed) {
		t.Errorf("WriteWithNoSecrets wrote the Ed25519 private seed in the clear (%d bytes of output)", buf.Len())
	}
}
